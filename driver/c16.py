# C16 -- the threaded dot product equals the sequential one for every length and CPU count,
#        independently of thread scheduling.
import math, os
from fractions import Fraction
from common import *
from engine import Case
from veclib import hx, coq_fvec, vop_line, op_kinds, ref_vstep, ref_vhist, streams_match, RefPanic

PID = "C16"
IMPORTS = "From Coq Require Import Uint63.\nFrom OV Require Import Model.Vector Model.ParDot."
MODEL_VO = ["Model/ParDot.vo"]
EXHAUSTIVE = True
MAXLEN = 200
BOTH = 64
RULE = ("vec.pardot cases, the executor re-run under `taskset -c <first k CPUs of the affinity mask>` for every k = 1..N, N = min(16, CPUs "
        "available at run time; recorded as worker_counts_exercised) (the worker count is num_cpus::get(), observed in-process by a probe under the same mask -- the model is run with the observed count, a mask whose probe fails is skipped and recorded as worker_count_probe_failed -- and again in every answer, where the oracle reads it): for every k and every length 0..200 (exhaustive in "
        "(length, k)) a case on arbitrary f64 data and/or one on small-integer data whose partial sums are exact (both for lengths <= 64, "
        "alternating above in the quick tier; both everywhere in the thorough tier), plus seeded "
        "longer lengths (201..1200 quick, ..4000 thorough); every case calls dot_f64 3 times (5 thorough), a share of them under spinning background "
        "threads; special structure (package specB), for every k: lengths 0, 1, 2, k-1, k, k+1, 2k-1, 2k, 2k+1, 5k+k/2, 8k-1 x one or two data classes drawn per (k, length) (all ten in the thorough tier) out of (constant vectors, "
        "alternating signs with exact cancellation, zero and -0.0 vectors, one non-zero product at the first / last / middle index, one entry 2^40 among ones "
        "[exact in every order], one entry 2^60 among ones and +-1e16 pairs [every order rounds differently], the ramp 1..n), each such (k, length) also with BOTH "
        "OPERANDS THE SAME OBJECT v.dot_f64(&v) (kind vec.pardot_self, model term of v.v) and (a third of them; all in the thorough tier) with an equal copy; mismatched sizes in both directions and with an "
        "empty operand ((1,2), (0,1), (1,0), (k,k+1), (k+1,k), (0,2k), (3k,0)); dot_f64 AFTER an edit history of the vector (push / push_front / insert / pop / resize / "
        "swap / clear / set / assign / sort: capacity differs from length, second operand with spare capacity too; kind vec.pardot_after, model term on the edited vector); "
        "edits INTERLEAVED with dot_f64 calls on one vector in one process (vec.hist with the op dot_f64; search-only, every call bit-identical to the exact integer value); "
        "distinct = distinct executor line x affinity; non-trivial = length >= 1")
TRUSTED = ["Coq 8.16.1 kernel + vm_compute (primitive floats: bit-exact IEEE binary64)", "Flocq 4 (IEEE754.PrimFloat, BinarySingleNaN) and Coq's FloatAxioms for pardot_exact_float", "Rust executor /verif/harness (kind vec.pardot), `taskset`",
           "python driver: generators, exact Fraction reference, stream comparator (bitwise for this property)",
           "hand-written Gallina model coq/Model/ParDot.v tied to src/vector/vec_f64.rs:73-109 by bitwise differential execution under every affinity 1..N (N = min(16, CPUs available at run time), recorded)",
           "Rust's std::thread::scope borrowing rules (no data race / torn read), num_cpus::get() (follows the affinity mask: observed on every run)"]
ASSUMPTIONS = ["the worker count is whatever num_cpus::get() returns in the process (1..N reachable through the affinity mask, N = min(16, CPUs available at run time), recorded in the evidence; cgroup quotas are not exercised)",
               "a value model cannot exhibit a data race: excluded by thread::scope's borrow checking (trusted)",
               "the sampled (length, k, data) triples are where model and code were compared bit for bit; the theorems are about the model"]
UNPROVED = ["accuracy 'up to reassociation' on arbitrary data is proved in the standard rounding model (pardot_forward_error, pardot_vs_dot_reassociation, "
            "sched_forward_error: |result - exact dot| <= gamma-type bound for ANY operations with relative error u); the binary64 instance of that "
            "bound (no overflow/underflow side conditions discharged) is searched against the exact rational value, not proved",
            "absence of data races / torn reads in the machine code: Rust's guarantee for safe code. The interleaving semantics of coq/Model/ParSched.v and "
            "ParSchedFine.v (threads as transition systems: per-iteration load/load/multiply/add steps, join in spawn order) is a model of the source's "
            "synchronisation structure, not of the memory model"]

MANIFEST = dict(
    text=("Theorems about the Gallina model of Vector<f64>::dot_f64 (coq/Model/ParDot.v), for every length, every worker count t >= 1 "
          "and all data: chunks_cover (the (start,end) pairs are in range, contiguous, begin at 0, end at len and the slices concatenate "
          "to the whole vector, including len < t and t not dividing len), pardot_closed_form (for any arithmetic, floats included, the result "
          "is the partial dots of the slices added from 0 in spawn order: a reassociation fixed by (len, t)), pardot_exact (over any ring the chunked sum equals the "
          "sequential dot), schedule_independent (for any arithmetic, floats included, and every completion order of the workers the "
          "joined result is the same expression, hence bit-identical), pardot_exact_float (IEEE binary64 via Flocq: on integer-valued "
          "data with sum |v_i w_i| < 2^53 the result is bit-identical to the sequential dot, for every worker count). Scheduling is modelled explicitly "
          "(coq/Model/ParSched.v: one transition per worker statement, ParSchedFine.v: four transitions per loop iteration): every maximal execution under every "
          "scheduler has the same length and the same final state (sched_deterministic, sched_terminates, sched_no_deadlock, sched_no_panic, sched_diamond, "
          "sched_fine_*), the fine semantics refines the statement-level one, every completion order is realised (sched_realises_every_order), and the variant "
          "that adds the partial sums in completion order into a shared accumulator is REFUTED for floats with a concrete witness (completion_order_refuted) while "
          "shown exact over rings (shared_exact): the join-in-spawn-order of the source is what makes the float result schedule independent. Forward error of the "
          "chunked sum in the standard rounding model: pardot_forward_error(_tight), pardot_vs_dot_reassociation, sched_forward_error. Tie: the executor is re-run under taskset for every CPU count "
          "1..N, N = min(16, the CPUs available at run time) (recorded: cpus_available, worker_counts_exercised, worker_counts_not_reachable_here; a mask whose worker-count probe fails is skipped and recorded), reports num_cpus::get() in-process, and every result for every length 0..200 (plus longer ones) is compared "
          "bitwise with vm_compute of the float instance of the same model for that worker count, with the sequential dot, across "
          "repetitions, and (oracle) with an exact rational reference; the same comparison with both operands the same object, after edit histories of "
          "the operands (capacity different from length), on mismatched sizes in both directions, and on structured data (constant, cancelling, one huge entry) "
          "at the lengths around every multiple of the worker count."),
    note=("Data races / torn reads at the machine level are excluded by Rust's scoped-thread borrowing rules, not proved (the interleaving model has atomic "
          "statements); the reassociation error bound is a theorem in the standard rounding model and a search against an exact rational reference at binary64; pardot_exact_float rests on the "
          "primitive-float specification axioms of Coq's standard library (FloatAxioms) and the classical axioms of the Reals (Flocq)."),
    technique="Coq proof (lists, abstract ring, permutations) + bitwise model/implementation differential execution under every CPU affinity",
    design="7 (C16)")

def fval(rng):
    k = rng.below(10)
    if k == 0: return 0.0
    if k == 1: return float(rng.range(-9, 9))
    if k == 2: return rng.range(-512, 512) / 64.0
    if k == 3: return (rng.unit() - 0.5) * 10.0 ** rng.range(-30, 30)
    if k == 4: return -0.0 if rng.chance(1, 2) else 1.0
    return (rng.unit() - 0.5) * 10.0 ** rng.range(-3, 3)

def ival(rng):
    return float(rng.range(-1000, 1000))

def term(k, reps, v, w):
    return "@pardot_out AF flat_f %d %d %s %s" % (k, reps, coq_fvec(v), coq_fvec(w))

# ---- the data generator mirrored by coq/Model/ParDot.v (lcg / gen_val / gen_vec): the model side builds its two
# vectors inside Coq from the seed, the executor gets the same values as explicit bit patterns
M63 = (1 << 63) - 1
def lcg(s): return (s * 6364136223846793005 + 1442695040888963407) & M63
def gen_val(mode, s):
    if mode == 0:
        x = math.ldexp(float(s >> 30), ((s >> 24) & 63) - 40)
        return -x if (s >> 23) & 1 else x
    return float((s >> 30) % 2001) - 1000.0
def gen_vec(mode, n, s):
    out = []
    for _ in range(n):
        s = lcg(s); out.append(gen_val(mode, s))
    return out, s
def gen_data(mode, n, seed):
    v, s1 = gen_vec(mode, n, seed)
    w, _ = gen_vec(mode, n, s1)
    return v, w

def cpus_available():
    """the CPUs this process may run on (affinity mask): the worker counts 1..len(.) are reachable through taskset"""
    try:
        return sorted(os.sched_getaffinity(0))
    except Exception:
        return list(range(os.cpu_count() or 1))

CPUS = cpus_available()
EXERCISED = []
OBSERVED = {}      # k (CPUs in the mask) -> num_cpus::get() observed by the executor in-process under that mask

PROBE_FAILED = {}  # k -> why the probe under the mask of k CPUs gave no worker count: that k is NOT exercised (recorded in the coverage)

def probe_worker_counts():
    """What num_cpus::get() returns under each affinity mask, observed by the executor itself.  Here it follows the
    mask exactly (OBSERVED[k] == k); under a cgroup CPU quota it may be smaller -- the model is run with the count
    actually observed, whatever it is.  A mask whose probe fails is never given an assumed count: no case is generated
    for that k (usable_ks) and the failure is recorded (worker_count_probe_failed)."""
    exe, out = build_harness()
    if exe is None:
        return
    for k in range(1, min(len(CPUS), 16) + 1):
        if k in OBSERVED: continue
        for attempt in (1, 2):
            try:
                ans = run_harness(exe, ["p f64 vec.pardot [] [] 1 0"], "C16probe", prefix="taskset -c %s " % ",".join(str(c) for c in CPUS[:k]))
                tok = ans["p"][0]
                if not (tok.startswith("i") and int(tok[1:]) >= 1): raise ValueError("unexpected probe answer %r" % (ans["p"][:3],))
                OBSERVED[k] = int(tok[1:]); PROBE_FAILED.pop(k, None)
                break
            except Exception as e:
                PROBE_FAILED[k] = "%s: %s" % (type(e).__name__, str(e)[:200])

def usable_ks():
    """the mask sizes whose worker count was observed: the only ones cases are generated for"""
    return [k for k in range(1, min(len(CPUS), 16) + 1) if k in OBSERVED]

def mk(k, v, w, reps, busy, exact, family, seed=None):
    line = "vec.pardot %s %s %d %d" % (tok_vec('f64', v), tok_vec('f64', w), reps, busy)
    # pin to the first k CPUs of the mask actually available (never assume 16, nor that they are numbered 0..)
    meta = {"_env": {"taskset": ",".join(str(c) for c in CPUS[:k])}, "k": k, "v": v, "w": w, "reps": reps, "busy": busy, "exact": exact}
    meta["t"] = OBSERVED[k]          # observed by the probe; callers only pass k from usable_ks()
    if seed is not None:
        meta["seed"] = seed
        tm = "pardot_gen_out %d %d %d %d (%d)%%uint63" % (meta["t"], reps, len(v), 1 if exact else 0, seed)
    else:
        tm = term(meta["t"], reps, v, w)
    return Case('f64', line, tm, meta=meta, family=family,
                nontrivial=(len(v) >= 1), tol=0.0, exact_bits=True)

def mk_hist(ks, n, seed):
    """one process, the affinity changed between calls: a worker count cached from an earlier call must not be used"""
    v, w = gen_data(1, n, seed)
    line = "vec.pardot_hist %s %s %s" % (tok_vec('f64', v), tok_vec('f64', w), "[" + ",".join(str(k) for k in ks) + "]")
    ts = [OBSERVED[k] for k in ks]
    tm = " ++ ".join("pardot_gen_out %d 1 %d 1 (%d)%%uint63" % (t, n, seed) for t in ts)
    meta = {"hist": list(ks), "v": v, "w": w, "exact": True, "seed": seed, "n": n}
    return Case('f64', line, tm, meta=meta, family="affinity-history", nontrivial=(n >= 1), tol=0.0, exact_bits=True)

# ------------------------------------------------------------------ (specB) special structure
def mk_self(k, v, reps, busy, exact, family):
    """both operands the SAME object: v.dot_f64(&v) (executor kind vec.pardot_self; same answer format and model term as vec.pardot v v)"""
    c = mk(k, v, list(v), reps, busy, exact, family)
    c.line = "vec.pardot_self %s %d %d" % (tok_vec('f64', v), reps, busy)
    c.meta["self"] = True
    return c

def edited(v0, ops):
    v = list(v0)
    for op in ops:
        snap = list(v)
        try: ref_vstep('f64', v, op)
        except RefPanic: v = snap
    return v

def mk_after(k, v0, ops, w, reps, busy, family):
    """dot_f64 on a vector that went through an edit history first (spare capacity, stale elements beyond the length), w with spare
    capacity too (executor kind vec.pardot_after; model term of vec.pardot on the edited vector).  Integer data: exact sums."""
    v = edited(v0, ops)
    c = mk(k, v, w, reps, busy, True, family)
    c.line = "vec.pardot_after %s %s %d %d %s" % (tok_vec('f64', v0), tok_vec('f64', w), reps, busy, " ".join(vop_line('f64', o) for o in ops))
    c.meta["after"] = {"v0": v0, "ops": [list(o) for o in ops]}
    return c

def mk_edit_hist(k, v0, ops):
    """one vector, edits and dot_f64 calls interleaved in one process (vec.hist with the op dot_f64): search-only, judged against the
    plain list model; integer data, so every dot_f64 must equal the sequential dot and the exact value bit for bit"""
    line = "vec.hist " + tok_vec('f64', v0) + " " + " ".join(vop_line('f64', o) for o in ops)
    meta = {"_env": {"taskset": ",".join(str(c) for c in CPUS[:k])}, "k": k, "edit_hist": {"v0": v0, "ops": [list(o) for o in ops]}}
    return Case('f64', line, None, meta=meta, family="edit-dot-history", nontrivial=True, tol=0.0, exact_bits=True)

def structured_data(g, n, cls):
    """(v, w, exact): data classes on which a changed partition, a dropped element or a changed reduction order shows"""
    c = float(g.range(1, 9)); d = float(g.range(1, 9)) * g.choice([1.0, -1.0])
    pos = g.choice([0, n - 1, n // 2, n // 3]) if n > 0 else 0
    if cls == "constant": return [c] * n, [d] * n, True
    if cls == "alternating": return [c if i % 2 == 0 else -c for i in range(n)], [d] * n, True            # exact cancellation
    if cls == "alternating-both": return [c if i % 2 == 0 else -c for i in range(n)], [d if i % 2 == 0 else -d for i in range(n)], True
    if cls == "zero": return [0.0] * n, [ival(g) for _ in range(n)], True
    if cls == "negzero": return [-0.0] * n, [1.0] * n, True
    if cls == "unit":                                                                                          # one non-zero product
        v = [0.0] * n
        if n: v[pos] = c
        return v, [ival(g) for _ in range(n)], True
    if cls == "huge-tiny-exact":                                                                               # 2^40 + (n-1): exact in any order
        v = [1.0] * n
        if n: v[pos] = 2.0 ** 40
        return v, [1.0] * n, True
    if cls == "huge-tiny":                                                                                     # 2^60 + many ones: every order rounds differently
        v = [1.0] * n
        if n: v[pos] = 2.0 ** 60
        return v, [1.0] * n, False
    if cls == "cancel-huge":                                                                                   # +-1e16 pairs around small terms
        v = [(1e16 if i % 4 == 0 else (-1e16 if i % 4 == 2 else float(i % 7))) for i in range(n)]
        return v, [1.0] * n, False
    if cls == "ramp": return [float(i + 1) for i in range(n)], [1.0] * n, True                              # sum = n(n+1)/2: a lost index is visible
    raise ValueError(cls)

DATA_CLASSES = ["constant", "alternating", "alternating-both", "zero", "negzero", "unit", "huge-tiny-exact", "huge-tiny", "cancel-huge", "ramp"]

def boundary_lengths(k):
    return sorted(set([0, 1, 2, max(k - 1, 0), k, k + 1, 2 * k - 1, 2 * k, 2 * k + 1, 5 * k + k // 2, 8 * k - 1]))

EDIT_NAMES = ["push", "push", "push_front", "insert", "pop", "pop", "resize", "swap", "clear", "set", "assign", "sort"]
def rand_edit(g, n):
    name = g.choice(EDIT_NAMES)
    x = ival(g)
    if name in ("push", "push_front", "assign"): return (name, x)
    if name == "insert": return (name, g.choice([0, n, n // 2]), x)
    if name in ("pop", "clear", "sort"): return (name,)
    if name == "resize": return (name, g.choice([0, n // 2, n, n + 1, n + 5]))
    if name == "swap": return (name, 0, max(n - 1, 0))
    if name == "set": return (name, g.choice([0, max(n - 1, 0)]), x)
    raise ValueError(name)

def rand_edits(g, v0, count):
    ops = []; v = list(v0)
    for _ in range(count):
        o = rand_edit(g, len(v)); ops.append(o); v = edited(v, [o])
    return ops, v

def specb_cases(rng, tier, ks, reps):
    cases = []
    thorough = tier == "thorough"
    for k in ks:
        g = rng.fork("specB-k%d" % k)
        # (1) data classes x lengths around the multiples of the worker count; every (k, length) also with both operands the same object
        for n in boundary_lengths(k):
            for cls in (DATA_CLASSES if thorough else [g.choice(DATA_CLASSES)] + ([g.choice(DATA_CLASSES)] if g.chance(1, 3) else [])):
                v, w, exact = structured_data(g, n, cls)
                cases.append(mk(k, v, w, reps, 2 if g.chance(1, 16) else 0, exact, "data-" + cls))
            v = [ival(g) for _ in range(n)]
            cases.append(mk_self(k, v, reps, 0, True, "same-object"))
            if thorough or g.chance(1, 3):
                cases.append(mk(k, v, list(v), reps, 0, True, "equal-copy"))
            if thorough or g.chance(1, 4):
                v = [fval(g) for _ in range(n)]
                cases.append(mk_self(k, v, reps, 0, False, "same-object"))
        # (2) mismatched sizes in BOTH directions, with an empty operand, around the worker count
        for (a, b) in [(1, 2), (0, 1), (1, 0), (k, k + 1), (k + 1, k), (0, 2 * k), (3 * k, 0)]:
            cases.append(mk(k, [ival(g) for _ in range(a)], [ival(g) for _ in range(b)], 1, 0, True, "size-mismatch"))
        # (3) histories: edits first (capacity != length), then dot_f64; and edits interleaved with dot_f64 calls in one process
        for h in range(12 if thorough else 4):
            v0 = [ival(g) for _ in range(g.choice([0, 1, 2, k, k + 1, g.range(0, 40)]))]
            ops, v = rand_edits(g, v0, g.range(1, 8))
            if h == 0:
                o = ("push", ival(g)); ops = [o]; v = edited(v0, ops)                             # the shortest history: one push
            if h == 1:
                ops = [("pop",)] if v0 else [("push", 1.0), ("push", 2.0), ("pop",)]; v = edited(v0, ops)
            w = [ival(g) for _ in range(len(v))]
            cases.append(mk_after(k, v0, ops, w, reps, 0, "after-edits"))
        for h in range(6 if thorough else 2):
            v0 = [ival(g) for _ in range(g.choice([0, 1, k, g.range(0, 24)]))]
            ops = []; v = list(v0)
            for _ in range(g.range(2, 6)):
                es, v = rand_edits(g, v, g.range(1, 4)); ops += es
                ops.append(("dot_f64", [ival(g) for _ in range(len(v))]))
            cases.append(mk_edit_hist(k, v0, ops))
    return cases

def generate(rng, tier):
    cases = []
    reps = 5 if tier == "thorough" else 3
    probe_worker_counts()
    ks = usable_ks()                 # a mask whose probe failed is skipped (recorded), never run with an assumed count
    if PROBE_FAILED:
        global EXHAUSTIVE
        EXHAUSTIVE = False           # (length, k) is no longer covered exhaustively: the evidence says so
    EXERCISED[:] = sorted(set(OBSERVED[k] for k in ks))
    for k in ks:
        g = rng.fork("k%d" % k)
        for n in range(0, MAXLEN + 1):
            # quick: both data families for every length <= BOTH (where len < t, len = t, t | len, t !| len all occur
            # for every t <= 16), alternating families above; thorough: both families for every (length, k)
            both = tier == "thorough" or n <= BOTH
            if both or (n + k) % 2 == 0:
                busy = 2 if g.chance(1, 16 if tier == "quick" else 6) else 0
                if n % 10 == 3:      # hand-made menu (zeros, signed zeros, huge/tiny magnitudes), explicit literals
                    v = [fval(g) for _ in range(n)]; w = [fval(g) for _ in range(n)]
                    cases.append(mk(k, v, w, reps, busy, False, "arbitrary-f64"))
                else:
                    sd = g.next() & M63
                    v, w = gen_data(0, n, sd)
                    cases.append(mk(k, v, w, reps, busy, False, "arbitrary-f64", seed=sd))
            if both or (n + k) % 2 == 1:
                sd = g.next() & M63
                v, w = gen_data(1, n, sd)
                cases.append(mk(k, v, w, reps, 0, True, "exact-sum-integers", seed=sd))
        nlong = 20 if tier == "thorough" else 2
        for _ in range(nlong):
            n = g.range(MAXLEN + 1, 4000 if tier == "thorough" else 1200)
            ex = g.chance(1, 2)
            f = ival if ex else fval
            v = [f(g) for _ in range(n)]; w = [f(g) for _ in range(n)]
            cases.append(mk(k, v, w, reps, 2 if g.chance(1, 3) else 0, ex, "long-" + ("exact" if ex else "arbitrary")))
        # mismatched sizes: the guard fires before anything is spawned
        cases.append(mk(k, [1.0, 2.0], [1.0], 1, 0, True, "size-mismatch"))
    # special structure (package specB): data classes, same-object operands, both mismatch directions, calls after edits
    cases += specb_cases(rng, tier, ks, reps)
    # affinity histories inside one process (widening and narrowing masks): seeded mutation C16-8 cached the CPU count
    kmax = min(len(CPUS), 16)
    if kmax >= 2:
        g = rng.fork("affinity-history")
        for h in range(40 if tier == "thorough" else 12):
            hs = [1, kmax] if h == 0 else ([kmax, 1, kmax] if h == 1 else [g.range(1, kmax) for _ in range(g.range(2, 5))])
            n = g.range(0, 64) if h > 1 else 37; sd = g.next() & M63
            if all(k in OBSERVED for k in hs):
                cases.append(mk_hist(hs, n, sd))
    return cases

def extra_coverage():
    return {"cpus_available": len(CPUS), "num_cpus_get_observed_per_mask_size": dict(OBSERVED),
            "worker_count_probe_failed": dict(PROBE_FAILED), "mask_sizes_skipped_probe_failed": sorted(PROBE_FAILED),
            "num_cpus_follows_affinity_mask": all(OBSERVED.get(k) == k for k in OBSERVED), "worker_counts_exercised": list(EXERCISED),
            "worker_counts_not_reachable_here": [k for k in range(1, 17) if k not in EXERCISED]}

def case_from_json(j):
    m = j["meta"]
    if not OBSERVED: probe_worker_counts()
    if "hist" in m:
        return mk_hist(m["hist"], m["n"], m["seed"]) if all(k in OBSERVED for k in m["hist"]) else None
    if m["k"] not in OBSERVED:
        return None          # this affinity cannot be set on the present machine, or its worker count could not be observed
    F = lambda xs: [float(x) for x in xs]
    def ops_of(os_):
        out = []
        for o in os_:
            args = [int(a) if kd == 'n' else (F(a) if kd == 'v' else float(a)) for kd, a in zip(op_kinds(o[0]), o[1:])]
            out.append(tuple([o[0]] + args))
        return out
    if "edit_hist" in m: return mk_edit_hist(m["k"], F(m["edit_hist"]["v0"]), ops_of(m["edit_hist"]["ops"]))
    if "after" in m: return mk_after(m["k"], F(m["after"]["v0"]), ops_of(m["after"]["ops"]), F(m["w"]), m.get("reps", 3), m.get("busy", 0), "corpus")
    if m.get("self"): return mk_self(m["k"], F(m["v"]), m.get("reps", 3), m.get("busy", 0), m.get("exact", False), "corpus")
    return mk(m["k"], [float(x) for x in m["v"]], [float(x) for x in m["w"]], m.get("reps", 3), m.get("busy", 0), m.get("exact", False), "corpus")

def oracle_hist(case, items):
    m = case.meta
    v, w, ks = m["v"], m["w"], m["hist"]
    if any(it[0] == 'P' for it in items):
        return "dot_f64 panicked (%s) in a process whose affinity changes between calls (%s CPUs in turn; length %d)" % (items[-1][1], ks, len(v))
    if len(items) != 3 * len(ks): return "malformed answer: %r" % (items[:6],)
    exact = sum((Fraction(a) * Fraction(b) for a, b in zip(v, w)), Fraction(0))
    for i, k in enumerate(ks):
        t, par, seq = items[3 * i][1], items[3 * i + 1][1], items[3 * i + 2][1]
        if par != seq or Fraction(bits_f64(par)) != exact:
            return ("exact-sum data, length %d: call %d of a process whose affinity went through %s CPUs (num_cpus::get() = %s now) returned dot_f64 = %r, "
                    "dot = %r, exact value %s" % (len(v), i + 1, ks[:i + 1], t, bits_f64(par), bits_f64(seq), exact))
    return None

def oracle_edit_hist(case, items):
    """edits and dot_f64 calls interleaved (integer data): the whole stream against the plain list model, floats bit for bit"""
    m = case.meta["edit_hist"]
    exp = ref_vhist('f64', m["v0"], [tuple(o) for o in m["ops"]])
    d = streams_match(exp, items, 0.0)
    if d: return "edits interleaved with dot_f64 calls (integer data, %d CPUs): %s" % (case.meta["k"], d)
    return None

def oracle(case, items):
    m = case.meta
    if "hist" in m: return oracle_hist(case, items)
    if "edit_hist" in m: return oracle_edit_hist(case, items)
    v, w, k, reps = m["v"], m["w"], m["k"], m["reps"]
    if len(v) != len(w):
        if not (items and items[-1][0] == 'P'):
            return "dot_f64 on vectors of sizes %d and %d did not panic" % (len(v), len(w))
        # (specB) the panic must come from dot_f64 itself: the executor calls dot_f64 first and the sequential dot (which
        # rejects the sizes too) last, so a value before the panic token means that dot_f64 accepted the mismatch
        got = [bits_f64(it[1]) for it in items if it[0] == 'f']
        if got:
            return "dot_f64 on vectors of sizes %d and %d returned %r instead of rejecting the sizes (%s workers)" % (len(v), len(w), got[0], items[0][1])
        return None
    if any(it[0] == 'P' for it in items):
        return "dot_f64 panicked (%s) on vectors of length %d with %s workers" % (items[-1][1], len(v), items[0][1] if items else "?")
    if len(items) != reps + 2:
        return "malformed answer: %r" % (items[:6],)
    # the worker count is the one the executor observed in-process for THIS call (first item of the answer), never the
    # mask size k nor the probe's value (the model term was built with the probe's value; the tie compares the two)
    if items[0][0] != 'i' or not isinstance(items[0][1], int) or items[0][1] < 1 or any(it[0] != 'f' for it in items[1:]):
        return "malformed answer: %r" % (items[:6],)
    t = items[0][1]
    pars = [it[1] for it in items[1:1 + reps]]
    seq = items[1 + reps][1]
    if len(set(pars)) != 1:
        return "repeated calls of dot_f64 on the same data (length %d, %d workers) are not bit-identical: %s" % (len(v), t, [bits_f64(b) for b in pars])
    par = bits_f64(pars[0]); sq = bits_f64(seq)
    exact = sum((Fraction(a) * Fraction(b) for a, b in zip(v, w)), Fraction(0))
    if m["exact"]:
        if pars[0] != seq:
            return "exact-sum data, length %d, %d workers: dot_f64 = %r but dot = %r" % (len(v), t, par, sq)
        if Fraction(par) != exact:
            return "exact-sum data, length %d, %d workers: dot_f64 = %r but the exact value is %s" % (len(v), t, par, exact)
        return None
    # arbitrary data: equal up to reassociation -- both within the standard bound of the exact value
    mag = sum((abs(Fraction(a) * Fraction(b)) for a, b in zip(v, w)), Fraction(0))
    n = len(v) + int(t) + 2
    u = Fraction(1, 2 ** 53)
    gamma = n * u / (1 - n * u)
    slack = Fraction(1, 2 ** 1000)     # subnormal products
    for name, val in (("dot_f64", par), ("dot", sq)):
        if val != val or abs(val) == math.inf:
            return "%s returned %r on finite data (length %d, %d workers)" % (name, val, len(v), t)
        if abs(Fraction(val) - exact) > gamma * mag + slack:
            return "%s = %r differs from the exact value %r by more than reassociation allows (length %d, %d workers)" % (name, val, float(exact), len(v), t)
    return None
