# C08 -- iterative solvers: reported success means solved to the tolerance (up to recurrence drift),
#        count <= budget, budget 0 leaves x untouched.
import math
from common import *
from engine import Case
import iterlib
from iterlib import *

PID = "C08"
IMPORTS = iterlib.IMPORTS
MODEL_VO = iterlib.MODEL_VO
RULE = ("square sparse systems of order 1..60 (quick: 1..40): SPD (Gram+shift), strictly diagonally dominant nonsymmetric (positive and mixed-sign "
        "diagonal), general nonsymmetric, symmetric indefinite, ill-conditioned (row / congruence scaling 1e-6..1e6), singular (zero row, zero column, "
        "repeated row; consistent and inconsistent rhs), tiny diagonal (1e-3..1e-8, the drift family), zero right-hand side; guesses zero / random / exact; "
        "tol 1e-2..1e-12; budgets 0,1,2,3,n/2,n,2n,3n+10,10n+50; all five entry points (CG, BiCG itol 1 and 2, BiCGSTAB, QMR) on every system; any triplet "
        "order; the empty system; non-square / mismatched sizes (must be rejected). Every run is an ORACLE case (full answer judged by the property predicate); "
        "runs on systems of order <= 12 are in addition TIE cases (kinds it.*.t: Ok/Err, count and x after Ok, compared with the float model), except runs "
        "whose outcome is not a stable function of rounding (decision within 1e-9 tol, drift above tol/100, cond > 1e8: counted in tie_excluded_*). "
        "distinct = distinct executor line of an oracle case; non-trivial = order >= 2 and budget >= 1.")
TRUSTED = ["Coq 8.16.1 kernel + vm_compute (primitive floats)", "Rust executor /verif/harness (kinds it.*)",
           "python driver: generators, exact-rational residual, numpy spectral norm / condition number, stream comparators",
           "hand-written Gallina model coq/Model/Iter.v (on top of coq/Model/Sparse.v) tied to src/sparse.rs:303-616 by differential execution",
           "the largest intermediate iterate/update norm X in the drift allowance is the float model's ghost trace on the same input"]
ASSUMPTIONS = ["Rust semantics of Vec/usize/f64 as modelled; f64::powf(|x|, 2.0) equals |x|*|x| (observed: model and implementation agree bit for bit on every compared run)",
               "the matrix-vector products are linear maps (hypothesis LinOp of the residual-invariant theorems; C07 proves it for the CSC products; "
               "discharged here for a concrete CSC matrix over Qc and over R)"]
UNPROVED = ["the rounding drift between the recurrence residual and the true residual IS proved in the standard rounding model for CG, BiCG and BiCGSTAB (residual_drift, ok_means_solved_rounded, run_sparse_ok_means_solved_rounded: per update 4[(||A|| + m|||A|||) X + ||b||] u, X the model's own ghost trace; ok_means_solved_oracle_allowance derives the oracle's allowance 64*(k+1)*2^-53*(||A||_2*X + ||b||)/||b||' from it when m|||A||| <~ 30||A||); NOT proved: the same for QMR (its second recurrence is multiplied by unbounded scalars: the allowance is heuristic there) and the transfer to binary64 (finiteness / underflow of every intermediate); the drift is real: residual_drift_is_real exhibits Ok(4) with recurrence residual 1.5e-23 and true relative residual 4.5e-7",
            "finiteness of x on Ok in f64 is searched, not proved",
            "over a field a division by zero is a panic of the model (the theorems are silent on such runs); in f64 it yields inf/NaN -- covered by tie + search"]

MANIFEST = dict(
    text=("Theorems about the Gallina model of the four Krylov solvers (matrix = any pair of products, any size, guess, tolerance, budget). "
          "Over ANY arithmetic, floats included: ok_le_budget (Ok k => k <= max_iter), zero_budget_untouched (budget 0 returns x untouched), ok_passed_test "
          "(Ok is returned only after the test resid <= tol, or < tol, succeeded on the recurrence vector). Over any field with ANY square-root function and a "
          "linear product: residual_invariant_{cg,bicg,bicgstab,qmr} (the recurrence vector equals b - A x at every exit, Ok or Err, for every budget -- hence at "
          "every iteration; QMR also s = A d), ok_means_solved (Ok => ||b - A x|| / ||b||' passes the code's test on the TRUE residual) and ok_means_solved_R "
          "(over the reals: ||b - A x||_2 <= tol ||b||') and x_keeps_length is the fourth any-arithmetic theorem; ok_means_solved_rows (the linearity hypothesis discharged for EVERY square matrix of EVERY order given as its list of rows). The float instance of the same definitions (CSC products of Model/Sparse.v, built by from_triplets) is "
          "run against the implementation on systems of order <= 12; an oracle with an exact-rational residual judges every Ok answer up to order 60."),
    note=("The drift of the residual recurrence is a theorem in the standard rounding model for CG, BiCG and BiCGSTAB (not QMR, not at binary64); on the implementation it is searched with the allowance "
          "64(k+1)eps(||A|| X + ||b||)/||b||', X taken from the float model's trace; finiteness of x is searched. The exact-arithmetic theorems treat a division by zero as a panic "
          "(the run returns nothing), where f64 produces inf/NaN (then no test can succeed: NaN <= tol is false)."),
    technique="Coq proof over an abstract field (characterisation lemma for fuelled early-exit loops + per-solver invariant) + float-model/implementation differential execution + exact-residual oracle",
    design="7 (C08)")

BUDGETS = ["0", "1", "2", "3", "n/2", "n", "2n", "3n+10", "10n+50"]
def budget_of(rng, n, which=None):
    k = rng.below(8)
    w = which or (rng.choice(["3n+10", "10n+50"]) if k < 4 else rng.choice(["n", "2n"]) if k < 6 else rng.choice(["0", "1", "2", "3", "n/2"]))
    return {"0": 0, "1": 1, "2": 2, "3": 3, "n/2": n // 2, "n": n, "2n": 2 * n, "3n+10": 3 * n + 10, "10n+50": 10 * n + 50}[w]

FAMS = ["spd", "sdd", "sdd-mixed", "nonsym", "indefinite", "illcond", "singular", "tinydiag"]

def gen_matrix(rng, n, fam, ints):
    if fam == "spd": return spd_system(rng, n, ints)
    if fam == "sdd": return sdd_system(rng, n, ints)
    if fam == "sdd-mixed": return sdd_system(rng, n, ints, mixed_sign=True)
    if fam == "tinydiag":
        # O(1) couplings with diagonal entries of size 1e-3..1e-8: huge intermediate iterates, the case the drift allowance exists for
        A = {}
        for (i, j) in pattern(rng, n, 2): A[(i, j)] = sval(rng, ints)
        for i in range(n): A[(i, i)] = sval(rng, ints) * 10.0 ** (-rng.range(3, 8))
        return A
    return general_system(rng, n, fam, ints)

def generate(rng, tier):
    cases = []
    quick = (tier == "quick")
    g = rng.fork("c08")
    nsys_small = 90 if quick else 1400
    nsys_big = 40 if quick else 600
    maxn = 40 if quick else 60
    def emit(n, fam, tag):
        ints = g.chance(2, 3)
        A = gen_matrix(g, n, fam, ints)
        trip = triplets_of(g, A)
        rhs_kind = g.choice(["plain", "plain", "plain", "scaled", "scaled", "zero", "tiny"])
        guess = g.choice(["zero", "zero", "random", "random", "random", "exact"])
        b, x0, xt = rhs_and_guess(g, n, trip, guess, rhs_kind, ints)
        if fam == "singular" and g.chance(1, 2):
            b = [float(g.range(-3, 3)) for _ in range(n)]       # inconsistent right-hand side
        s = Sys(n, n, trip, b, x0, {"fam": fam, "rhs": rhs_kind, "guess": guess})
        tol = pick_tol(g)
        # all five entry points on the same system; each with its own budget
        for sv in SOLVERS:
            mi = budget_of(g, n)
            cases.extend(mk_cases(sv, s, mi, tol, "%s-%s" % (tag, fam), nontrivial=(n >= 2 and mi >= 1), want_trace=True))
    for t in range(nsys_small):
        emit(1 + (t % TIE_MAX_N), FAMS[t % len(FAMS)], "small")
    for t in range(nsys_big):
        emit(g.range(TIE_MAX_N + 1, maxn), FAMS[t % len(FAMS)], "big")
    # budget 0 on every kind of start, every solver (x must come back untouched, Ok or Err)
    for t in range(6 if quick else 30):
        n = g.range(1, 10)
        A = gen_matrix(g, n, g.choice(FAMS), True)
        trip = triplets_of(g, A)
        b, x0, xt = rhs_and_guess(g, n, trip, g.choice(["zero", "random", "exact"]), g.choice(["plain", "zero"]), True)
        s = Sys(n, n, trip, b, x0, {"fam": "budget0"})
        for sv in SOLVERS:
            cases.extend(mk_cases(sv, s, 0, pick_tol(g), "budget0", nontrivial=True, want_trace=True))
    # non-square / mismatched sizes: rejected by the guards (tie only; the oracle demands a rejection)
    for (r, c, lb, lx) in [(2, 3, 2, 2), (3, 2, 3, 3), (2, 2, 3, 2), (2, 2, 2, 3), (2, 2, 1, 1), (0, 0, 1, 1), (3, 3, 3, 2)]:
        trip = [(i, j, float(1 + i + j)) for i in range(r) for j in range(c) if (i + j) % 2 == 0]
        s = Sys(r, c, trip, [1.0] * lb, [0.5] * lx, {"fam": "mismatch"})
        for sv in SOLVERS:
            cases.extend(mk_cases(sv, s, 5, 1e-8, "rejects", nontrivial=True, tie=True, extra={"bad": True}))
    # the empty system (0 x 0): norm of nothing is 0, residual 0 <= tol: Ok(0)
    s = Sys(0, 0, [], [], [], {"fam": "empty"})
    for sv in SOLVERS:
        cases.extend(mk_cases(sv, s, 3, 1e-8, "empty", nontrivial=False, tie=True, want_trace=True))
    return finalize(cases, PID)

case_from_json = iterlib.case_from_json

STATS = {"ok_answers": 0, "err_answers": 0, "ok_with_k>=1": 0, "budget0": 0, "max_excess_over_tol_in_allowance_units": 0.0,
         "unbounded_allowance": 0, "model_outcome_differs": 0}

def oracle(case, items):
    m = case.meta
    if m.get("role") == "tie":
        return None          # judged through its oracle twin (same system, full answer)
    a = Ans(items)
    if m.get("bad"):
        return None if a.panic else "non-square / mismatched system was answered instead of rejected: %r" % (items[:4],)
    if a.panic:
        return None          # no answer, no claim (the correspondence check compares panic-vs-value)
    s = Sys.from_json(m["sys"])
    n, tol, maxit = s.rows, m["tol"], m["maxit"]
    if a.budget != maxit: return "executor echoed budget %r for %r" % (a.budget, maxit)
    if len(a.x) != n: return "x has %d components, order %d" % (len(a.x), n)
    if maxit == 0:
        STATS["budget0"] += 1
        if [f64_bits(v) for v in a.x] != [f64_bits(v) for v in s.x0]:
            return "budget 0 but x was modified: %r -> %r" % (s.x0[:4], a.x[:4])
    if not a.ok:
        STATS["err_answers"] += 1
        return None
    STATS["ok_answers"] += 1
    if a.k >= 1: STATS["ok_with_k>=1"] += 1
    if a.k > maxit:
        return "Ok(%d) exceeds the budget %d" % (a.k, maxit)
    if not all_finite(a.x):
        return "Ok(%d) but x is not finite: %r" % (a.k, a.x[:6])
    nb = norm2(s.b)
    nbp = nb if nb != 0.0 else 1.0
    res = exact_residual_norm(s, a.x) / nbp
    if res <= tol:
        return None
    # drift allowance: needs the largest intermediate iterate / update norm, from the float model's trace
    tr = model_trace(case, PID)
    X = max(norm2(a.x), norm2(s.x0))
    if tr is not None and tr.X is not None:
        # the model's trace stands for the implementation's run only when both ended the same way and the trace is
        # finite (a finite Ok answer cannot follow a non-finite iterate); otherwise the allowance is computed from the
        # answer alone, which is the smaller (stricter) one
        if tr.panic or tr.ok != a.ok or tr.k != a.k: STATS["model_outcome_differs"] += 1
        elif tr.X != tr.X or tr.X == math.inf: STATS["unbounded_allowance"] += 1
        else: X = max(X, tr.X)
    unit = EPS * (spec_norm(s.dense()) * X + nb) / nbp
    allow = 64.0 * (a.k + 1) * unit
    if unit > 0:
        STATS["max_excess_over_tol_in_allowance_units"] = max(STATS["max_excess_over_tol_in_allowance_units"], (res - tol) / ((a.k + 1) * unit))
    if res > tol * (1 + 1e-12) + allow:
        return ("Ok(%d) with true relative residual %.3e > tol %.1e + drift allowance %.3e (n=%d, ||A||=%.3g, largest iterate/update %.3g, ||b||=%.3g)"
                % (a.k, res, tol, allow, n, spec_norm(s.dense()), X, nb))
    return None

def prepare(tier):
    del iterlib.PENDING[:]

def extra_coverage():
    d = dict(STATS); d.update(iterlib.TRACE_STATS)
    return {"c08": d}
