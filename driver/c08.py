# C08 -- iterative solvers: reported success means solved to the tolerance (up to recurrence drift),
#        count <= budget, budget 0 leaves x untouched.
import math
from common import *
from engine import Case
import iterlib
from iterlib import *

PID = "C08"
IMPORTS = iterlib.IMPORTS
MODEL_VO = iterlib.MODEL_VO
RULE = ("square sparse systems of order 1..60 (quick: 1..40): SPD (Gram+shift), strictly diagonally dominant nonsymmetric (positive and mixed-sign "
        "diagonal), general nonsymmetric, symmetric indefinite, ill-conditioned (row / congruence scaling 1e-6..1e6), singular (zero row, zero column, "
        "repeated row; consistent and inconsistent rhs), tiny diagonal (1e-3..1e-8, the drift family), zero right-hand side; guesses zero / random / exact; "
        "tol 1e-2..1e-12; budgets 0,1,2,3,n/2,n,2n,3n+10,10n+50; all five entry points (CG, BiCG itol 1 and 2, BiCGSTAB, QMR) on every system; any triplet "
        "order; the empty system; non-square / mismatched sizes (must be rejected). Every run is an ORACLE case (full answer judged by the property predicate); "
        "runs on systems of order <= 12 are in addition TIE cases (kinds it.*.t: Ok/Err, count and x after Ok, compared with the float model), except runs "
        "whose outcome is not a stable function of rounding (decision within 1e-9 tol, drift above tol/100, cond > 1e8: counted in tie_excluded_*). "
        "SPECIAL-VALUES FAMILIES (oracle cases; a rotating part also TIE cases): struct-* = structured matrices of order 1,2,3,4,5,8 (identity, 2I, I/2, -I; diagonal with "
        "equally spaced / two distinct / mixed-sign eigenvalues; tridiagonal symmetric, Laplacian, nonsymmetric; dense upper / lower triangular; dense with equal or "
        "alternating entries; arrow; decoupled blocks; explicitly stored +0.0 / -0.0 entries; cyclic permutation, anti-diagonal and strictly upper = EMPTY main diagonal; "
        "the zero matrix; a single stored entry; an empty column) x right-hand side (A*xt, ones, e_first, e_last, e_mid, alternating +-1, unit norm (0.6,0.8), zero, -0.0) "
        "x guess (zero, -0.0, ones, far = 2^20, exact, exact except the first / last / middle component, 2*xt, -xt; cheap-zero = non-zero guesses with entries summing to exactly 0 or a zero first / last component) x scale (A*2^sa, b*2^sb, (sa,sb) in "
        "{(0,0),(+-60,0),(0,+-200),(60,-200),(-60,200),(+-120,+-120)}) x tol (powers of ten, 2^-20, 2^-33, 3.7e-5, 6.1e-11); localized = residual of the start in one "
        "component; eigen-rhs = right-hand side a left / right eigenvector of a triangular matrix (the `== 0` exits of QMR / BiCGSTAB); budget0-guess = budget 0 on every guess class incl. NaN, +-inf, 1e300, subnormal (x compared bit for bit); ladder = every budget 0..2n+3 on one "
        "system; scaled-* = the random families with A*2^(+-60,120,200) and b*2^(0,+-100,+-sa); huge-budget = budget 10^6; history = executor kind it.seq: an "
        "operation on the matrix object (none, transpose twice, from_vecs, insert of the last entry, scale by 2, 1/2, -1, x.clone()) and then two solver calls on the "
        "same matrix and the same x (every ordered pair of entry points over the seeds; budgets 0, 1, 2, n/2, n, 3n+10), each call judged with the previous x as its guess. "
        "extreme-scale = adversarial family of the RECORDED finding f64-square-range (5 systems per quick run, all five entry points): small SPD / strictly diagonally "
        "dominant systems with b or A scaled by 2^+-(520..700) or a solution beyond the f64 range; a failure carries the key exactly when the INPUT has ||b||^2, the "
        "square of an entry of b / x0 / A or a product A_ij x_j of the exact solution outside [2^-1022, 2^1024) AND the failure is a symptom of that cause (Ok with a true residual above tol, Ok with non-finite x); never for 'budget 0 but x was modified', a wrong length of x, a count above the budget, never for a history. "
        "distinct = distinct executor line of an oracle case; non-trivial = order >= 2 and budget >= 1.")
TRUSTED = ["Coq 8.16.1 kernel + vm_compute (primitive floats)", "Rust executor /verif/harness (kinds it.*)",
           "python driver: generators, exact-rational residual, numpy spectral norm / condition number, stream comparators",
           "hand-written Gallina model coq/Model/Iter.v (on top of coq/Model/Sparse.v) tied to src/sparse.rs:303-616 by differential execution",
           "the largest intermediate iterate/update norm X in the drift allowance is the float model's ghost trace on the same input"]
ASSUMPTIONS = ["Rust semantics of Vec/usize/f64 as modelled; f64::powf(|x|, 2.0) equals |x|*|x| (observed: model and implementation agree bit for bit on every compared run)",
               "the matrix-vector products are linear maps (hypothesis LinOp of the residual-invariant theorems; C07 proves it for the CSC products; "
               "discharged here for a concrete CSC matrix over Qc and over R)"]
UNPROVED = ["the rounding drift between the recurrence residual and the true residual IS proved in the standard rounding model for CG, BiCG and BiCGSTAB (residual_drift, ok_means_solved_rounded, run_sparse_ok_means_solved_rounded: per update 4[(||A|| + m|||A|||) X + ||b||] u, X the model's own ghost trace; ok_means_solved_oracle_allowance derives the oracle's allowance 64*(k+1)*2^-53*(||A||_2*X + ||b||)/||b||' from it when m|||A||| <~ 30||A||); NOT proved: the same for QMR (its second recurrence is multiplied by unbounded scalars: the allowance is heuristic there) and the transfer to binary64 (finiteness / underflow of every intermediate); the drift is real: residual_drift_is_real exhibits Ok(4) with recurrence residual 1.5e-23 and true relative residual 4.5e-7",
            "finiteness of x on Ok in f64 is searched, not proved",
            "RECORDED finding f64-square-range (same mechanism as C15: Vector<f64>::norm_2 squares its entries without scaling): with ||b|| < 2^-511 the solvers take b for zero and answer Ok(0) with x untouched (true relative residual 1); with entries of A below 2^-511 and a solution beyond the f64 range CG / BiCG / BiCGSTAB answer Ok(1) with x = inf; the real-number theorems do not cover these runs (they are outside the range where the float operations approximate the real ones); witnesses corpus/C08/kf_scale_underflow.json, kf_scale_overflow.json",
            "over a field a division by zero is a panic of the model (the theorems are silent on such runs); in f64 it yields inf/NaN -- covered by tie + search"]

MANIFEST = dict(
    text=("Theorems about the Gallina model of the four Krylov solvers (matrix = any pair of products, any size, guess, tolerance, budget). "
          "Over ANY arithmetic, floats included: ok_le_budget (Ok k => k <= max_iter), zero_budget_untouched (budget 0 returns x untouched), ok_passed_test "
          "(Ok is returned only after the test resid <= tol, or < tol, succeeded on the recurrence vector). Over any field with ANY square-root function and a "
          "linear product: residual_invariant_{cg,bicg,bicgstab,qmr} (the recurrence vector equals b - A x at every exit, Ok or Err, for every budget -- hence at "
          "every iteration; QMR also s = A d), ok_means_solved (Ok => ||b - A x|| / ||b||' passes the code's test on the TRUE residual) and ok_means_solved_R "
          "(over the reals: ||b - A x||_2 <= tol ||b||') and x_keeps_length is the fourth any-arithmetic theorem; ok_means_solved_rows (the linearity hypothesis discharged for EVERY square matrix of EVERY order given as its list of rows). The float instance of the same definitions (CSC products of Model/Sparse.v, built by from_triplets) is "
          "run against the implementation on systems of order <= 12; an oracle with an exact-rational residual judges every Ok answer up to order 60. "
          "The search space includes structured matrices (identity .. empty main diagonal), joint power-of-two scaling of A and b, one-entry / equal-entry / -0.0 "
          "right-hand sides, guesses that are exact except in one component, non-finite guesses at budget 0, every budget 0..2n+3 on one system, and histories "
          "(two calls on the same matrix object and the same x after an operation on the matrix: executor kind it.seq, oracle only). "
          "Right-hand sides / matrices scaled by 2^+-(520..700) are searched as well; the failures there are the recorded finding f64-square-range (norm_2 squares its entries), "
          "keyed by the input and granted only to the symptoms of that cause (Ok with a true residual above tol, Ok with non-finite x)."),
    note=("The drift of the residual recurrence is a theorem in the standard rounding model for CG, BiCG and BiCGSTAB (not QMR, not at binary64); on the implementation it is searched with the allowance "
          "64(k+1)eps(||A|| X + ||b||)/||b||', X taken from the float model's trace; finiteness of x is searched. The exact-arithmetic theorems treat a division by zero as a panic "
          "(the run returns nothing), where f64 produces inf/NaN (then no test can succeed: NaN <= tol is false)."),
    technique="Coq proof over an abstract field (characterisation lemma for fuelled early-exit loops + per-solver invariant) + float-model/implementation differential execution + exact-residual oracle",
    design="7 (C08)")

BUDGETS = ["0", "1", "2", "3", "n/2", "n", "2n", "3n+10", "10n+50"]
def budget_of(rng, n, which=None):
    k = rng.below(8)
    w = which or (rng.choice(["3n+10", "10n+50"]) if k < 4 else rng.choice(["n", "2n"]) if k < 6 else rng.choice(["0", "1", "2", "3", "n/2"]))
    return {"0": 0, "1": 1, "2": 2, "3": 3, "n/2": n // 2, "n": n, "2n": 2 * n, "3n+10": 3 * n + 10, "10n+50": 10 * n + 50}[w]

FAMS = ["spd", "sdd", "sdd-mixed", "nonsym", "indefinite", "illcond", "singular", "tinydiag"]

def gen_matrix(rng, n, fam, ints):
    if fam == "spd": return spd_system(rng, n, ints)
    if fam == "sdd": return sdd_system(rng, n, ints)
    if fam == "sdd-mixed": return sdd_system(rng, n, ints, mixed_sign=True)
    if fam == "tinydiag":
        # O(1) couplings with diagonal entries of size 1e-3..1e-8: huge intermediate iterates, the case the drift allowance exists for
        A = {}
        for (i, j) in pattern(rng, n, 2): A[(i, j)] = sval(rng, ints)
        for i in range(n): A[(i, i)] = sval(rng, ints) * 10.0 ** (-rng.range(3, 8))
        return A
    return general_system(rng, n, fam, ints)

def generate(rng, tier):
    cases = []
    quick = (tier == "quick")
    g = rng.fork("c08")
    nsys_small = 90 if quick else 1400
    nsys_big = 40 if quick else 600
    maxn = 40 if quick else 60
    def emit(n, fam, tag):
        ints = g.chance(2, 3)
        A = gen_matrix(g, n, fam, ints)
        trip = triplets_of(g, A)
        rhs_kind = g.choice(["plain", "plain", "plain", "scaled", "scaled", "zero", "tiny"])
        guess = g.choice(["zero", "zero", "random", "random", "random", "exact"])
        b, x0, xt = rhs_and_guess(g, n, trip, guess, rhs_kind, ints)
        if fam == "singular" and g.chance(1, 2):
            b = [float(g.range(-3, 3)) for _ in range(n)]       # inconsistent right-hand side
        s = Sys(n, n, trip, b, x0, {"fam": fam, "rhs": rhs_kind, "guess": guess})
        tol = pick_tol(g)
        # all five entry points on the same system; each with its own budget
        for sv in SOLVERS:
            mi = budget_of(g, n)
            cases.extend(mk_cases(sv, s, mi, tol, "%s-%s" % (tag, fam), nontrivial=(n >= 2 and mi >= 1), want_trace=True))
    for t in range(nsys_small):
        emit(1 + (t % TIE_MAX_N), FAMS[t % len(FAMS)], "small")
    for t in range(nsys_big):
        emit(g.range(TIE_MAX_N + 1, maxn), FAMS[t % len(FAMS)], "big")
    # budget 0 on every kind of start, every solver (x must come back untouched, Ok or Err)
    for t in range(6 if quick else 30):
        n = g.range(1, 10)
        A = gen_matrix(g, n, g.choice(FAMS), True)
        trip = triplets_of(g, A)
        b, x0, xt = rhs_and_guess(g, n, trip, g.choice(["zero", "random", "exact"]), g.choice(["plain", "zero"]), True)
        s = Sys(n, n, trip, b, x0, {"fam": "budget0"})
        for sv in SOLVERS:
            cases.extend(mk_cases(sv, s, 0, pick_tol(g), "budget0", nontrivial=True, want_trace=True))
    # non-square / mismatched sizes: rejected by the guards (tie only; the oracle demands a rejection)
    for (r, c, lb, lx) in [(2, 3, 2, 2), (3, 2, 3, 3), (2, 2, 3, 2), (2, 2, 2, 3), (2, 2, 1, 1), (0, 0, 1, 1), (3, 3, 3, 2)]:
        trip = [(i, j, float(1 + i + j)) for i in range(r) for j in range(c) if (i + j) % 2 == 0]
        s = Sys(r, c, trip, [1.0] * lb, [0.5] * lx, {"fam": "mismatch"})
        for sv in SOLVERS:
            cases.extend(mk_cases(sv, s, 5, 1e-8, "rejects", nontrivial=True, tie=True, extra={"bad": True}))
    # the empty system (0 x 0): norm of nothing is 0, residual 0 <= tol: Ok(0)
    s = Sys(0, 0, [], [], [], {"fam": "empty"})
    for sv in SOLVERS:
        cases.extend(mk_cases(sv, s, 3, 1e-8, "empty", nontrivial=False, tie=True, want_trace=True))
    cases.extend(gen_special(rng.fork("c08-special"), tier))
    # extreme scale (recorded finding f64-square-range): failures on these inputs carry the key, decided from the input
    for (sv, s, mi, tol, kap, fam) in extreme_systems(rng.fork("c08-extreme"), tier, lambda n: 3 * n + 10):
        cases.extend(mk_cases(sv, s, mi, tol, "extreme-scale", tie=False, want_trace=True))
    return finalize(cases, PID)

# ----------------------------------------------------------------------------- special-values families (iterlib: structured catalogue)
def gen_special(g, tier):
    """Structured matrices x right-hand-side class x guess class x scale of A and b x tolerance form x budget, all five
    entry points on every system.  Quick: every structure twice per run, the other dimensions rotate with the seed;
    thorough: many more draws plus the full guess x rhs cross at budget 0."""
    out = []
    quick = (tier == "quick")
    orders = ["sorted", "shuffled", "reversed", "rowmajor"]
    # (1) struct: every structure, the other dimensions drawn
    reps = 1 if quick else 6
    idx = 0
    for name in STRUCT_ALL:
        for rep in range(reps):
            n = g.choice(STRUCT_N)
            sa, sb = g.choice(SCALES)
            s = struct_system(name, n, g.choice(RHS_KINDS), g.choice(GUESS_ANY + GUESS_XT), sa, sb, g.choice(orders), g)
            tol = g.choice(TOLS_SPECIAL)
            tie = (not quick) or (idx % 4 == 0)
            idx += 1
            for sv in SOLVERS:
                mi = budget_of(g, n)
                out.extend(mk_cases(sv, s, mi, tol, "struct-" + name, nontrivial=(n >= 2 and mi >= 1), tie=tie, want_trace=True))
    # (1b) the structures with an EMPTY main diagonal / without entries always also with a one-entry right-hand side and the zero
    #      guess: (r, A r) = 0 exactly, so the first step length is inf or NaN -- the runs on which "Ok => x finite" bites
    for k, name in enumerate(STRUCT_C08_ONLY):
        n = g.choice([2, 3, 4, 5])
        s = struct_system(name, n, ["e-first", "e-last", "e-mid"][(k + g.below(3)) % 3], "zero", 0, 0, "sorted", g)
        for sv in SOLVERS:
            out.extend(mk_cases(sv, s, budget_of(g, n), g.choice(TOLS_SPECIAL), "struct-" + name, tie=(not quick), want_trace=True))
    # (1c) right-hand side = a LEFT or RIGHT eigenvector of a nonsymmetric matrix (e_last / e_first for an upper triangular
    #      matrix and vice versa), zero guess: one Krylov space is exhausted after a single step, which is how the `== 0` exits
    #      of QMR (rho, xi, delta, ep), BiCGSTAB (rho_1, omega) and the 0/0 of BiCG are reached (own rng stream: the draws of
    #      the other families do not depend on this block)
    ge = g.fork("c08-eigen-rhs")
    for name, rk in [("upper-ones", "e-last"), ("lower-ones", "e-first"), ("upper-ones", "e-first"), ("lower-ones", "e-last")]:
        for n in ([ge.choice([2, 3, 4, 5])] if quick else [2, 3, 4, 5, 8]):
            s = struct_system(name, n, rk, "zero", 0, 0, "sorted", ge)
            for sv in SOLVERS:
                out.extend(mk_cases(sv, s, ge.choice([n, 2 * n, 3 * n + 10]), ge.choice(TOLS_SPECIAL), "eigen-rhs", tie=(not quick), want_trace=True))
    # (2) localized: the residual of the start lives in ONE component (first / last / middle): a norm, a dot product or a
    #     copy that loses a position accepts such a start (or stops early) with the component unsolved
    loc_names = ["diag-ap", "block", "tridiag-41", "dense-equal", "upper-ones"]
    for name in (g.shuffle(loc_names)[:3] if quick else loc_names):
        for gk in ["but-first", "but-last", "but-mid"]:
            for n in ([g.choice([4, 5, 8])] if quick else [3, 5, 8]):
                s = struct_system(name, n, "Axt", gk, 0, 0, "sorted", g)
                for sv in SOLVERS:
                    out.extend(mk_cases(sv, s, 3 * n + 10, 1e-6, "localized", tie=(not quick), want_trace=True))
    # (2b) cheap-zero guesses: NON-zero starts whose entries sum to exactly 0 or whose first / last component is 0 -- what a
    #      shortcut "the guess is zero, skip A*x0" keyed on a cheap functional takes for zero (own rng stream)
    gc = g.fork("c08-cheapzero-guess")
    cz_names = ["tridiag-41", "tridiag-nonsym", "dense-alt", "diag-ap", "upper-ones"]
    for name in (gc.shuffle(cz_names)[:2] if quick else cz_names):
        for gk in GUESS_CHEAPZERO:
            for n in ([gc.choice([2, 4, 5, 6])] if quick else [2, 3, 4, 6]):
                s = struct_system(name, n, "Axt", gk, 0, 0, "sorted", gc)
                for sv in SOLVERS:
                    out.extend(mk_cases(sv, s, 3 * n + 10, 1e-6, "cheapzero-guess", tie=(not quick), want_trace=True))
    # (3) budget 0 on every guess class (the non-finite ones included: "x is left untouched" is a statement about bits)
    rhs_all = ["Axt", "zero", "negzero", "ones"]
    d4 = g.below(4)
    rhs_pick = [["Axt", "ones"][d4 % 2]] if quick else rhs_all     # quick: a NON-zero rhs here (the start-up test fails, the loop is entered 0 times) ...
    rhs_zero = ["zero", "negzero"][d4 // 2]                         # ... and a zero one for the guesses below (block 3b)
    for name, n in ([(g.choice(["tridiag-41", "dense-alt", "upper-ones"]), g.choice([1, 2, 3, 4]))] if quick else
                    [(nm, k) for nm in ("tridiag-41", "dense-alt", "upper-ones") for k in (1, 3)]):
        for gk in GUESS_ANY + GUESS_XT + GUESS_NONFINITE:
            for rk in sorted(set(rhs_pick)):
                s = struct_system(name, n, rk, gk, 0, 0, "sorted", g)
                for sv in SOLVERS:
                    out.extend(mk_cases(sv, s, 0, g.choice(TOLS_SPECIAL), "budget0-guess", tie=(gk in ("negzero", "subnormal")), want_trace=True))
    # (3b) quick tier: the zero-type right-hand side with the guesses that solve it (or not): zero, -0.0, ones, NaN  (own rng stream)
    if quick:
        gz = g.fork("c08-budget0-zero-rhs")
        name, n = gz.choice(["tridiag-41", "dense-alt", "upper-ones"]), gz.choice([1, 2, 3, 4])
        for gk in ["negzero", "zero", "ones", "nan"]:
            s = struct_system(name, n, rhs_zero, gk, 0, 0, "sorted", gz)
            for sv in SOLVERS:
                out.extend(mk_cases(sv, s, 0, gz.choice(TOLS_SPECIAL), "budget0-guess", tie=False, want_trace=True))
    # (4) budget ladder: every budget 0 .. 2n+3 on the same system (the first budget that suffices, the one before, the one after)
    for t in range(1 if quick else 6):
        name = g.choice(STRUCT_BOTH + STRUCT_SDD_ONLY)
        n = g.choice([2, 3, 4])
        s = struct_system(name, n, g.choice(["Axt", "ones", "e-last"]), g.choice(["zero", "ones", "negzero"]), 0, 0, "sorted", g)
        tol = g.choice(TOLS_SPECIAL)
        for mi in range(0, 2 * n + 4):
            for sv in SOLVERS:
                out.extend(mk_cases(sv, s, mi, tol, "ladder", nontrivial=(mi >= 1), tie=(not quick), want_trace=True))
    # (5) scaled: the random families with every entry of A times 2^sa and the right-hand side times 2^sb
    for t in range(16 if quick else 80):
        n = g.range(2, 10)
        fam = FAMS[t % len(FAMS)]                             # every family with both signs of the exponent
        ints = g.chance(1, 2)
        sa = g.choice([60, 120, 200]) * (1 if (t // len(FAMS)) % 2 == 0 else -1)
        sb = g.choice([0, 0, 100, -100, sa, -sa]) if abs(sa) < 200 else g.choice([0, sa])
        A = scale_system(gen_matrix(g, n, fam, ints), sa)
        trip = triplets_of(g, A)
        gk = g.choice(["zero", "random", "random", "exact"])
        b, x0, xt = rhs_and_guess(g, n, trip, gk, "plain", ints)
        f = 2.0 ** (sb - sa)                                   # scale of the solution
        b = csc_mul(trip, n, [v * f for v in xt])
        x0 = [v * f for v in x0]
        s = Sys(n, n, trip, b, x0, {"fam": fam, "sa": sa, "sb": sb, "guess": gk})
        tol = pick_tol(g)
        for sv in SOLVERS:
            mi = budget_of(g, n)
            out.extend(mk_cases(sv, s, mi, tol, "scaled-" + fam, nontrivial=(mi >= 1), tie=(t % 4 == 0), want_trace=True))
    # (7) histories: an operation on the matrix object (transpose twice, rebuilt by from_vecs, last entry stored by insert,
    #     scale) and then TWO solver calls one after the other on the same matrix and the same x (restart from what the first
    #     call left: after Ok, after Err with a partial iterate, after budget 0), every ordered pair of entry points
    pairs = [(a, b) for a in SOLVERS for b in SOLVERS]
    pairs = g.shuffle(pairs)
    for t, (sa_, sb_) in enumerate(pairs if not quick else pairs[:15]):
        for rep in range(1 if quick else 4):
            n = g.range(2, 8)
            if g.chance(1, 2):
                s = struct_system(g.choice(STRUCT_BOTH), n, g.choice(["Axt", "ones", "e-last"]), g.choice(["zero", "ones", "negzero"]), 0, 0, "shuffled", g)
            else:
                A = sdd_system(g, n, ints=False) if g.chance(1, 2) else spd_system(g, n, ints=False)
                trip = triplets_of(g, A)
                b, x0, xt = rhs_and_guess(g, n, trip, g.choice(["zero", "random"]), "plain", False)
                s = Sys(n, n, trip, b, x0, {"fam": "seq"})
            first = g.choice([0, 1, 2, n // 2, 3 * n + 10, 3 * n + 10])
            second = g.choice([0, 1, n, 3 * n + 10, 3 * n + 10])
            out.append(mk_seq_case(g.choice(PRE_OPS), s, pick_tol(g, 2, 10), [sa_, sb_], [first, second], "history"))
    # (6) a very large budget on systems that converge in a few steps (the count still obeys the budget; nothing is sized by it)
    for name in (["diag-ap"] if quick else ["diag-ap", "tridiag-41", "identity"]):
        s = struct_system(name, 3, "Axt", "zero", 0, 0, "sorted", g)
        for sv in SOLVERS:
            out.extend(mk_cases(sv, s, 1000000, 1e-8, "huge-budget", tie=False, want_trace=True))
    return out

case_from_json = iterlib.case_from_json

STATS = {"ok_answers": 0, "err_answers": 0, "ok_with_k>=1": 0, "budget0": 0, "max_excess_over_tol_in_allowance_units": 0.0,
         "unbounded_allowance": 0, "model_outcome_differs": 0}

def oracle(case, items):
    m = case.meta
    if m.get("role") == "tie":
        return None          # judged through its oracle twin (same system, full answer)
    if m.get("role") == "seq":
        # a history: every call is judged by the same predicate, its guess being what the previous call left in x
        answers = split_seq(items, len(m["solvers"]))
        if answers is None:
            return "a solver panicked in the history %r on a square system of matching sizes" % (m["solvers"],)
        s = seq_reference(Sys.from_json(m["sys"]), m["pre"])
        x0 = list(s.x0)
        for j, a in enumerate(answers):
            sj = Sys(s.rows, s.cols, s.trip, s.b, x0, s.info)
            r = judge(None, sj, a, m["tol"], m["budgets"][j])
            if r:
                return "history pre=%r, call %d (%s after %r): %s" % (m["pre"], j + 1, m["solvers"][j], m["solvers"][:j], r)
            x0 = list(a.x)
        return None
    a = Ans(items)
    if m.get("bad"):
        return None if a.panic else "non-square / mismatched system was answered instead of rejected: %r" % (items[:4],)
    if a.panic:
        return None          # no answer, no claim (the correspondence check compares panic-vs-value)
    s = Sys.from_json(m["sys"])
    return judge(case, s, a, m["tol"], m["maxit"])

def judge(case, s, a, tol, maxit):
    """the property predicate on one call; case = None: no model trace (the allowance is computed from the answer alone)"""
    n = s.rows
    if a.budget != maxit: return "executor echoed budget %r for %r" % (a.budget, maxit)
    if len(a.x) != n: return "x has %d components, order %d" % (len(a.x), n)
    if maxit == 0:
        STATS["budget0"] += 1
        if [f64_bits(v) for v in a.x] != [f64_bits(v) for v in s.x0]:
            return "budget 0 but x was modified: %r -> %r" % (s.x0[:4], a.x[:4])
    if not a.ok:
        STATS["err_answers"] += 1
        return None
    STATS["ok_answers"] += 1
    if a.k >= 1: STATS["ok_with_k>=1"] += 1
    if a.k > maxit:
        return "Ok(%d) exceeds the budget %d" % (a.k, maxit)
    if not all_finite(a.x):
        return "Ok(%d) but x is not finite: %r" % (a.k, a.x[:6])
    nb = norm2(s.b)
    nbp = nb if nb != 0.0 else 1.0
    res = exact_residual_norm(s, a.x) / nbp
    if res <= tol:
        return None
    # drift allowance: needs the largest intermediate iterate / update norm, from the float model's trace
    tr = model_trace(case, PID) if case is not None else None
    X = max(norm2(a.x), norm2(s.x0)) if all_finite(s.x0) else norm2(a.x)
    if tr is not None and tr.X is not None:
        # the model's trace stands for the implementation's run only when both ended the same way and the trace is
        # finite (a finite Ok answer cannot follow a non-finite iterate); otherwise the allowance is computed from the
        # answer alone, which is the smaller (stricter) one
        if tr.panic or tr.ok != a.ok or tr.k != a.k: STATS["model_outcome_differs"] += 1
        elif tr.X != tr.X or tr.X == math.inf: STATS["unbounded_allowance"] += 1
        else: X = max(X, tr.X)
    unit = EPS * (spec_norm(s.dense()) * X + nb) / nbp
    allow = 64.0 * (a.k + 1) * unit
    if unit > 0 and not scale_out_of_range(s):      # the statistic describes the drift allowance: systems of the recorded finding f64-square-range are left out
        STATS["max_excess_over_tol_in_allowance_units"] = max(STATS["max_excess_over_tol_in_allowance_units"], (res - tol) / ((a.k + 1) * unit))
    if res > tol * (1 + 1e-12) + allow:
        return ("Ok(%d) with true relative residual %.3e > tol %.1e + drift allowance %.3e (n=%d, ||A||=%.3g, largest iterate/update %.3g, ||b||=%.3g)"
                % (a.k, res, tol, allow, n, spec_norm(s.dense()), X, nb))
    return None

def finding_key(case, desc, decoded):
    """`f64-square-range` exactly when the INPUT has ||b||^2, the square of an entry of b / x0 / A, or a product
    A_ij * x_j of the exact solution outside the normal f64 range (iterlib.scale_out_of_range); decided from the input,
    never from the mere fact of failing, and only for the symptoms listed below.  Histories and rejected systems are never excused."""
    m = case.meta
    if m.get("role") == "seq" or m.get("bad") or "sys" not in m:
        return None
    # granted only to the documented symptoms of unscaled squares: Ok with a true residual above the tolerance (Ok(0) with x
    # untouched because ||b|| was taken for 0) and Ok with a non-finite x (Ok(1), x = inf).  "budget 0 but x was modified", a wrong
    # length of x, a count above the budget or a wrong budget echo form no square on the way: never excused.
    if not (isinstance(desc, str) and desc.startswith("Ok(") and ("true relative residual" in desc or "x is not finite" in desc)):
        return None
    if scale_out_of_range(Sys.from_json(m["sys"])):
        return KEY_SQUARE_RANGE
    # `solve_qmr/residual-drift`: QMR's smoothed residual recurrence is multiplied every step by scalars that the iterates do
    # not bound, so its drift from b - A x is NOT proportional to eps * k * ||A|| * (largest iterate) (the drift theorem
    # residual_drift covers CG, BiCG, BiCGSTAB only).  Granted only to the drift clause of QMR and only when the float MODEL
    # reproduces the implementation's answer bit for bit (same Ok, same count, same x): a mutated solver cannot hide behind it.
    if m.get("solver") == "qmr" and "true relative residual" in desc and decoded is not None:
        a = Ans(decoded)
        tr = model_trace(case, PID, force=True)
        if (tr is not None and not tr.panic and not a.panic and a.ok and tr.ok and tr.k == a.k
                and [f64_bits(v) for v in tr.x] == [f64_bits(v) for v in a.x]):
            return "solve_qmr/residual-drift"
    return None

def prepare(tier):
    del iterlib.PENDING[:]

def extra_coverage():
    d = dict(STATS); d.update(iterlib.TRACE_STATS)
    return {"c08": d}
