# C05 -- a tridiagonal matrix of any size equals its dense twin; Thomas solve is exact or refuses.
import math
from fractions import Fraction
from common import *
from engine import Case
from linalg import det_exact, isfinite

PID = "C05"
IMPORTS = "From OV Require Import Model.Vector Model.Matrix Model.Tridiag."
MODEL_VO = ["Model/Tridiag.vo"]
EXHAUSTIVE = False
RULE = ("kinds tri.ctor/views/sets/arith/mul/solve/empty/hist for n = 1..12 (every n in every family over Rat and in every float mul/solve family; the float instances of views/sets/arith on n in {1,2,3,4,6,9,12} in the quick tier, every n in the thorough tier; constructors also n = 0 and "
        "mismatched diagonal lengths); Rat (exact, vs Qc model), f64 and Complex<f64> (vs primitive-float model); views = every (i,j) in "
        "[0,n]x[0,n] (one past the end included) + convert + transpose + det; solve families: diagonally dominant, random with zero "
        "sub/super-diagonal entries, a zero pivot forced at every step k = 0..n-1 for every n (Rat: by the exact recurrence; floats: by a "
        "zero off-diagonal and zero diagonal entry), mismatched right-hand sides; "
        "structured families (n = 1..4 and a seeded rotation of three larger sizes; thorough: every n) over Rat, f64 and Complex<f64>: matrices with constant diagonals "
        "(the unit tests' class), equal magnitudes with random signs / axes, entries from {0,-0.0,1,-1,2,1/2,...; +-i, 0.6+0.8i}, s*tridiag(-1,2,-1), s*I, diagonal matrices with zeros on the diagonal, f64/complex "
        "entries alternating between 2^200 and 2^-200, x vectors / right-hand sides (zero, ones, alternating, a unit vector, first/last only, special draws) in views, mul "
        "and solve; strictly dominant systems with special off-diagonals (also at 2^+-(150..400)); arithmetic with every special scalar (0, -0.0, 1, -1, 2, 1/2, +-i, unit "
        "modulus) and mismatched sizes over f64 and Complex<f64> too; kind tri.hist: ordered pairs of the 17 mutating operations (IndexMut on each diagonal, "
        "transpose_in_place, transpose, clone, += -= *= /= s, neg, T*s, T/s, s*T, T+T2, T-T2, resize), the state dumped after the first and all views (accessors, "
        "every index, convert, transpose, det, product, solve) taken after the second (quick: a seeded third of the 289 pairs; thorough: all 289); the element type "
        "(Rat / f64 / Complex<f64>, about 3:2:1), the size (1..6) and the constructor (with_vecs, with_vectors, with_elements, new + IndexMut) are DRAWN per pair, not crossed "
        "with it (a pair meets each constructor and element type as the seed varies); s*T exists as f64 * Tridiagonal<f64> only and always runs at f64, the other 16 operations "
        "(*=, /=, T*s, T/s included) are drawn at Complex<f64> too; the operations that ran per element type are counted in the coverage (outcomes 'hist <elt> <op>').  "
        "Float oracles: f64 neg, T+T2, T-T2, += s, -= s must equal the one IEEE operation per stored entry (as values); f64 scalar products and quotients (T*s, s*T, T/s, *=, /=) "
        "must be the dense twin's entry to 2 ulp (the operation sequence is not pinned: x*(1/s) qualifies, dividing twice or skipping a diagonal does not), "
        "complex products/quotients to 1e-13; in a history the reference continues from the implementation's dumped state after such an operation (tolerance once per operation); complex det to 1e-11*perm|T| against exact Q(i) elimination, and a structurally zero pivot (zero diagonal entry next to a zero "
        "off-diagonal entry) must be refused over floats as well.  distinct = distinct executor line; non-trivial = n >= 2 or a case that must panic")
TRUSTED = ["Coq 8.16.1 kernel + vm_compute", "Rust executor /verif/harness (Rat = i128 rationals; panic message captured per call)",
           "python driver: generators, dense Fraction reference (own elimination / own pivot recurrence), stream comparators",
           "hand-written Gallina model coq/Model/Tridiag.v tied to src/tridiagonal.rs by differential execution (Rat vs Qc exact incl. panic class "
           "and refusal message code; f64/Complex vs primitive floats)"]
ASSUMPTIONS = ["Rust semantics of Vec/usize as modelled (checked indexing, debug overflow checks)",
               "thomas_dominant_never_refuses, thomas_backward_error and thomas_dominant_backward_stable are stated over Coq's reals and use the "
               "standard-library real-number axioms (sig_forall_dec, functional_extensionality_dep); every other theorem is closed under the global context",
               "the sampled cases are where model and code were compared; the theorems are about the model",
               "Complex<f64> data is drawn within 2^+-200: beyond 2^+-511 the unscaled complex modulus/division return NaN (the recorded cause "
               "cplx-sqmod-range of C01/C02/C15); not drawn, not suppressed",
               "f64 backward stability for diagonally dominant systems: proved in the standard model of rounding (relative error u per operation, no "
               "underflow/overflow), searched (1e-11 normwise) on the IEEE instance that is tied to the implementation"]
UNPROVED = ["backward stability of the IEEE binary64 / Complex<f64> instance itself: thomas_backward_error and thomas_dominant_backward_stable are proved in the "
            "standard model of floating-point arithmetic (arbitrary real operations with relative error <= u per operation, no underflow/overflow) for the same "
            "Gallina function tsolve; at binary64 (Flocq) the same bounds are proved for tsolve (A := AF): thomas_backward_error_float under finite x, finite pivots and no subnormal product, and thomas_dominant_float with hypotheses on the DATA only (finite entries, 2^-300 <= |b_i| <= 2^300, off-diagonals 0 or >= 2^-300, |r_i| <= 2^300, 2(|a_i|+|c_i|) <= |b_i|: tsolve answers, x finite, (T+dT)x = r+dr); a finite answer can hide an overflowed pivot (sub=[-2^1023], main=[1;2^1023], sup=[1], r=[1;1] returns Ok [1;0]), so finite pivots are a genuine hypothesis of the general theorem; NOT covered: data outside 2^+-300 (the search's scaled family reaches 2^+-400), and the "
            "complex operators.  The IEEE instance is tied bit-for-bit to the implementation and searched",
            "thomas_backward_error perturbs the main diagonal by b_i*eb + a_i*gl_i*eg where gl_i is the COMPUTED multiplier of row i, which that theorem does not bound "
            "(it is the standard componentwise statement |dT| <= f(u)|L||U|); the bound |gl_i| <= 1, hence |dT| <= 14u|T| rowwise, is proved for diagonally dominant systems "
            "only (thomas_dominant_solved_and_stable, thomas_dominant_backward_stable)",
            "accuracy of the f64 det (searched: 1e-11 * perm|T|)",
            "operand non-mutation / owned=borrowed product forms are run-time observations of the executor"]

MANIFEST = dict(
    text=("Theorems for every n >= 1 and every entry value about the three-list Gallina model of src/tridiagonal.rs (any arithmetic "
          "unless stated): constructors store well-shaped diagonals and refuse ill-shaped ones; index is the dense twin on the three "
          "diagonals and Panic Guard elsewhere; IndexMut (single writes and any history of writes) changes exactly the addressed entry or "
          "refuses; convert and transpose equal the dense twin; neg/+/-/scalar* (ring laws) and scalar division (field laws) are the same "
          "operations on the dense twin; the matrix-vector product with the repaired n = 1 branch is the dense twin times the vector (the "
          "pre-repair product panics on every 1x1 input), hence additive, subtractive, homogeneous, zero to zero, and the product with the transpose is the adjoint, <y, T x> = <T^T y, x> (tridiag_mul_add / _sub / _scale_vec / _zero / _adjoint); det equals mathcomp's \\det of the dense twin over every field (via the continuant "
          "recurrence, which holds for any arithmetic) and the product of the Thomas pivots; Thomas solve over an exact field is either Ok u "
          "with dense(T)*u = r and every pivot non-zero, or Panic Guard at the first zero pivot, never anything else; over any arithmetic "
          "whose division answers for a non-zero divisor (f64, Complex<f64>) it is Ok with n components or that refusal, never a "
          "bounds/underflow/division panic, and whatever it answers satisfies the local recurrences of the algorithm (thomas_trace); over the "
          "reals a strictly diagonally dominant system is never refused; in the standard model of floating-point arithmetic (relative error "
          "u <= 1/64 per operation) the computed x solves (T+dT)x = r exactly with |dT| <= u(3|a|, 5|b|+9|a*gamma|, 5|c|), and |gamma| <= 1, "
          "i.e. |dT| = O(u)|T|, for diagonally dominant T (with margin), and a strictly dominant T (with margin) is never refused there either.  The same definitions are run against the implementation for "
          "n = 1..12 over Rat (exact; panic class and refusal message compared), f64 and Complex<f64> (bit-compared with Coq's primitive "
          "floats), and a dense Fraction reference searches for a failing input (also on structured classes: special values, constant / equal-magnitude diagonals, "
          "structured vectors, extreme scales, special scalars, and histories of every ordered pair of mutating operations followed by every view)."),
    note=("Proved: all of the above about the model.  Tied/searched only: that the model is the code (differential execution on every run); "
          "backward stability of the IEEE f64/Complex<f64> instance itself (the stability theorems are in the standard model of rounding, no "
          "underflow/overflow; oracle bound 1e-11 normwise on the IEEE instance) and the accuracy of the f64 det (oracle bound 1e-11 * perm|T|); "
          "operand non-mutation and owned = borrowed operator forms (observed by the executor).  T += s / T -= s are specified on the stored "
          "(in-band) elements."),
    technique="Coq proof over an abstract ring/field and over the reals (rounding-error analysis) + mathcomp bridge for det + model/implementation differential execution (vm_compute vs Rust executor)",
    design="7 (C05)")

NMAX = 12

# ------------------------------------------------------------------ values
def val(rng, elt, nz=False):
    if elt == 'rat':
        k = rng.below(8)
        if k == 0 and not nz: return Fraction(0)
        if k < 6:
            x = Fraction(rng.range(-4, 4))
        else:
            x = Fraction(rng.range(-5, 5), rng.range(2, 3))
        if nz and x == 0: x = Fraction(1)
        return x
    if elt == 'f64':
        k = rng.below(8)
        if k == 0 and not nz: return 0.0
        if k < 4: x = float(rng.range(-6, 6))
        elif k < 6: x = rng.range(-64, 64) / 8.0
        else: x = (rng.unit() - 0.5) * 10.0 ** rng.range(-2, 2)
        if nz and x == 0: x = 1.0
        return x
    if elt == 'cplx':
        return complex(val(rng, 'f64', nz), val(rng, 'f64'))
    raise ValueError(elt)

def zero_of(elt):
    return Fraction(0) if elt == 'rat' else (0.0 if elt == 'f64' else 0j)

def rtri(rng, elt, n, pzero=0):
    """three diagonals; off-diagonal entries are zero with probability pzero/8 on top of the menu"""
    def off():
        if pzero and rng.below(8) < pzero: return zero_of(elt)
        return val(rng, elt)
    return ([off() for _ in range(n - 1)], [val(rng, elt) for _ in range(n)], [off() for _ in range(n - 1)])

def dominant(rng, elt, n):
    sub = [val(rng, elt) for _ in range(n - 1)]
    sup = [val(rng, elt) for _ in range(n - 1)]
    main = []
    for i in range(n):
        a = abs(sub[i - 1]) if i > 0 else 0
        c = abs(sup[i]) if i < n - 1 else 0
        m = a + c + (Fraction(rng.range(1, 3)) if elt == 'rat' else rng.range(1, 8) / 4.0)
        if elt == 'rat':
            m = Fraction(m)
            if rng.chance(1, 2): m = -m
        elif elt == 'f64':
            m = float(m) * (1.0 if rng.chance(1, 2) else -1.0)
        else:
            ph = rng.unit() * 2 * math.pi
            m = complex(m * 1.0001 * math.cos(ph), m * 1.0001 * math.sin(ph))
            if abs(m) <= a + c: m = complex(float(a + c) + 1.0, 0.0)
        main.append(m)
    return (sub, main, sup)

def pivots_exact(sub, main, sup):
    """own recurrence over Fractions: list of pivots up to and including the first zero one"""
    out = []
    beta = Fraction(main[0])
    out.append(beta)
    for k in range(1, len(main)):
        if beta == 0: break
        beta = Fraction(main[k]) - Fraction(sub[k - 1]) * Fraction(sup[k - 1]) / beta
        out.append(beta)
    return out

def force_zero_pivot(rng, n, k):
    """Rat diagonals whose pivots 0..k-1 are non-zero and pivot k is exactly zero"""
    for _ in range(50):
        sub = [val(rng, 'rat', nz=rng.chance(3, 4)) for _ in range(n - 1)]
        sup = [val(rng, 'rat', nz=rng.chance(3, 4)) for _ in range(n - 1)]
        main = [val(rng, 'rat', nz=True) for _ in range(n)]
        if k == 0:
            main[0] = Fraction(0)
            return (sub, main, sup)
        pv = pivots_exact(sub, main[:k], sup)
        if len(pv) == k and pv[-1] != 0:
            main[k] = sub[k - 1] * sup[k - 1] / pv[-1]
            pv2 = pivots_exact(sub, main, sup)
            if len(pv2) == k + 1 and pv2[k] == 0: return (sub, main, sup)
    raise RuntimeError("could not force a zero pivot")

def force_zero_pivot_float(rng, elt, n, k):
    sub, main, sup = dominant(rng, elt, n)
    z = zero_of(elt)
    main[k] = z
    if k > 0:
        if rng.chance(1, 2): sub[k - 1] = z
        else: sup[k - 1] = z
    return (sub, main, sup)

# ------------------------------------------------------------------ special value classes (structured families)
# Every scalar argument and every stored entry is also drawn from the classes a fast path or a sign/zero test can key on:
# 0, -0.0, 1, -1, 2, 1/2 (and their negatives); complex: the four axes (+-k, +-ki), unit modulus off the axes (0.6+0.8i), -0.0 parts.
SPECIAL = {
    'rat': [Fraction(0), Fraction(1), Fraction(-1), Fraction(2), Fraction(1, 2), Fraction(-2), Fraction(-1, 2)],
    'f64': [0.0, -0.0, 1.0, -1.0, 2.0, 0.5, -2.0, -0.5],
    'cplx': [0j, complex(-0.0, 0.0), complex(0.0, -0.0), 1 + 0j, -1 + 0j, 1j, -1j, 2 + 0j, 0.5j, -2j, complex(-0.5, 0.0),
             complex(0.6, 0.8), complex(-0.6, 0.8), complex(0.8, -0.6)],
}

def sp(rng, elt, nz=False):
    while True:
        x = rng.choice(SPECIAL[elt])
        if x != 0 or not nz: return x

def unit_of(elt, x):
    return Fraction(x) if elt == 'rat' else (float(x) if elt == 'f64' else complex(x))

def special_tri(rng, elt, n, shape):
    """three diagonals of a structured class:
       const     constant diagonals (Toeplitz; the class every unit test of the crate uses), values from SPECIAL
       pm        every entry has the same magnitude, signs (complex: axes) at random -- ties everywhere
       unit      every entry drawn from SPECIAL (many zeros, ones, minus ones)
       laplace   s * tridiag(-1, 2, -1): weakly dominant, equal off-diagonals
       identity  s * I (zero off-diagonals)
       diagonal  zero off-diagonals under a diagonal of special values (zeros at any position: every pivot is the diagonal entry itself)
       hugetiny  floats only: entries alternate between 2^+200 and 2^-200 times a small integer"""
    z = zero_of(elt)
    if shape == "const":
        a, b, c = sp(rng, elt), sp(rng, elt), sp(rng, elt)
        return ([a] * (n - 1), [b] * n, [c] * (n - 1))
    if shape == "pm":
        m = unit_of(elt, rng.choice([1, 2, 3])) if elt != 'rat' else Fraction(rng.choice([1, 2, 3]), rng.choice([1, 2]))
        def e():
            if elt == 'cplx': return m * rng.choice([1, -1, 1j, -1j])
            return m if rng.chance(1, 2) else -m
        return ([e() for _ in range(n - 1)], [e() for _ in range(n)], [e() for _ in range(n - 1)])
    if shape == "unit":
        return ([sp(rng, elt) for _ in range(n - 1)], [sp(rng, elt) for _ in range(n)], [sp(rng, elt) for _ in range(n - 1)])
    if shape == "laplace":
        f = sp(rng, elt, nz=True)
        return ([-f] * (n - 1), [2 * f] * n, [-f] * (n - 1))
    if shape == "identity":
        f = sp(rng, elt)
        return ([z] * (n - 1), [f] * n, [z] * (n - 1))
    if shape == "diagonal":
        return ([z] * (n - 1), [sp(rng, elt) for _ in range(n)], [z] * (n - 1))
    if shape == "hugetiny":
        def e(k):
            x = float(rng.range(-3, 3)) * (2.0 ** 200 if (k + rng.below(2)) % 2 == 0 else 2.0 ** -200)
            return x if elt == 'f64' else complex(x, 0.0 if rng.chance(1, 2) else float(rng.range(-2, 2)) * 2.0 ** -200)
        return ([e(i) for i in range(n - 1)], [e(i + 1) for i in range(n)], [e(i) for i in range(n - 1)])
    raise ValueError(shape)

SHAPES = ["const", "pm", "unit", "laplace", "identity", "diagonal"]

def special_vec(rng, elt, n, k):
    """structured vectors: 0 zero, 1 all ones, 2 alternating signs, 3 a unit vector, 4 first/last only, 5 special draws"""
    one = unit_of(elt, 1); z = zero_of(elt)
    if k == 0: return [z] * n
    if k == 1: return [one] * n
    if k == 2: return [one if i % 2 == 0 else -one for i in range(n)]
    if k == 3:
        j = rng.below(n); return [one if i == j else z for i in range(n)]
    if k == 4: return [(sp(rng, elt, nz=True) if i in (0, n - 1) else z) for i in range(n)]
    return [sp(rng, elt) for _ in range(n)]

def special_dominant(rng, elt, n):
    """strictly diagonally dominant with off-diagonals from SPECIAL and a diagonal on an axis: |b_i| = |a_i| + |c_i| + 1"""
    sub = [sp(rng, elt) for _ in range(n - 1)]
    sup = [sp(rng, elt) for _ in range(n - 1)]
    main = []
    for i in range(n):
        a = abs(sub[i - 1]) if i > 0 else 0
        c = abs(sup[i]) if i < n - 1 else 0
        if elt == 'rat':
            m = Fraction(a) + Fraction(c) + 1
            main.append(m if rng.chance(1, 2) else -m)
        else:
            m = float(a) + float(c) + 1.0
            if elt == 'f64': main.append(m if rng.chance(1, 2) else -m)
            else: main.append(m * 1.0001 * rng.choice([1, -1, 1j, -1j, complex(0.6, 0.8)]))
    return (sub, main, sup)

# ------------------------------------------------------------------ histories (kind tri.hist)
# op signatures: n index/size, s scalar, v vector, t three diagonals
HOPS = {"set": "nns", "tip": "", "tr": "", "clone": "", "adds": "s", "subs": "s", "muls": "s", "divs": "s", "neg": "", "scale": "s",
        "div": "s", "lscale": "s", "addt": "t", "subt": "t", "resize": "n", "dump": "", "views": "", "mul": "v", "solve": "v"}
HVIEWS = ("dump", "views", "mul", "solve")

def fdiv(x, s):
    """IEEE quotient (python raises on a zero divisor)"""
    import numpy as np
    with np.errstate(all='ignore'):
        if isinstance(x, complex) or isinstance(s, complex): return complex(np.complex128(x) / np.complex128(s))
        return float(np.float64(x) / np.float64(s))

def ctor_state(elt, ctor):
    z = zero_of(elt)
    w = ctor[0]
    if w in ("vecs", "vectors"): return (list(ctor[1][0]), list(ctor[1][1]), list(ctor[1][2]))
    if w == "elements":
        a, b, c, n = ctor[1], ctor[2], ctor[3], ctor[4]
        return ([a] * (n - 1), [b] * n, [c] * (n - 1))
    if w == "new":
        n = ctor[1]; return ([z] * (n - 1), [z] * n, [z] * (n - 1))
    raise ValueError(w)

def cmul_naive(a, b):
    """(a+ib)(c+id) = (ac - bd) + i(ad + bc), one IEEE operation per step: the sequence of the modelled Complex<f64> product"""
    a, b = complex(a), complex(b)
    return complex(a.real * b.real - a.imag * b.imag, a.real * b.imag + a.imag * b.real)

def cdiv_naive(a, b):
    """(a+ib)/(c+id) = [(ac + bd) + i(bc - ad)] / (c^2 + d^2): the sequence of the modelled Complex<f64> quotient (no scaling)"""
    a, b = complex(a), complex(b)
    den = b.real * b.real + b.imag * b.imag
    return complex(fdiv(a.real * b.real + a.imag * b.imag, den), fdiv(a.imag * b.real - a.real * b.imag, den))

def apply_op(elt, t, op, mirror=False):
    """the dense twin's operation, restricted to the three stored diagonals (T += s acts on the stored elements).
    mirror=True (model side of a complex history only): products and quotients follow the operation sequence of the Gallina model
    (which the arith families tie bit for bit to the code), so that the model's views are evaluated on the state the model reaches;
    the oracle never uses it: it compares with python's product / numpy's scaled quotient up to rounding and resynchronises"""
    sub, main, sup = list(t[0]), list(t[1]), list(t[2])
    name, a = op[0], op[1:]
    n = len(main)
    def ew(f): return ([f(x) for x in sub], [f(x) for x in main], [f(x) for x in sup])
    if name == "set":
        i, j, x = a
        if i == j: main[i] = x
        elif i == j + 1: sub[j] = x
        elif i + 1 == j: sup[i] = x
        else: raise ValueError("history generator wrote outside the band")
        return (sub, main, sup)
    if name in ("tip", "tr"): return (sup, main, sub)
    if name == "clone": return (sub, main, sup)
    if name == "adds": return ew(lambda x: x + a[0])
    if name == "subs": return ew(lambda x: x - a[0])
    if mirror and elt == 'cplx' and name in ("muls", "scale"): return ew(lambda x: cmul_naive(x, a[0]))
    if mirror and elt == 'cplx' and name in ("divs", "div"): return ew(lambda x: cdiv_naive(x, a[0]))
    if name in ("muls", "scale"): return ew(lambda x: x * a[0])
    if name == "lscale": return ew(lambda x: a[0] * x)
    if name in ("divs", "div"): return ew((lambda x: x / a[0]) if elt == 'rat' else (lambda x: fdiv(x, a[0])))
    if name == "neg": return ew(lambda x: -x)
    if name in ("addt", "subt"):
        t2 = a[0]
        f = (lambda x, y: x + y) if name == "addt" else (lambda x, y: x - y)
        return tuple([f(x, y) for x, y in zip(d, e)] for d, e in zip((sub, main, sup), t2))
    if name == "resize":
        z = zero_of(elt); m = a[0]
        return ([z] * (m - 1), [z] * m, [z] * (m - 1))
    raise ValueError(name)

def hist_line_term(elt, ctor, ops):
    w = ctor[0]
    if w in ("vecs", "vectors"): line = "tri.hist %s %s" % (w, t3_line(elt, ctor[1]))
    elif w == "elements": line = "tri.hist elements %s %s %s %d" % (tok_scalar(elt, ctor[1]), tok_scalar(elt, ctor[2]), tok_scalar(elt, ctor[3]), ctor[4])
    else: line = "tri.hist new %d" % ctor[1]
    t = ctor_state(elt, ctor)
    parts = []
    for op in ops:
        name, a = op[0], op[1:]
        toks = [name]
        for k, x in zip(HOPS[name], a):
            if k == "n": toks.append(str(x))
            elif k == "s": toks.append(tok_scalar(elt, x))
            elif k == "v": toks.append(tok_vec(elt, x))
            elif k == "t": toks.append(t3_line(elt, x))
        line += " " + " ".join(toks) + " ;"
        if name == "dump": parts.append("(@run_with_vecs %s %s %s)" % (A(elt), F(elt), t3_coq(elt, t)))
        elif name == "views": parts.append("(@run_views %s %s %s)" % (A(elt), F(elt), t3_coq(elt, t)))
        elif name == "mul": parts.append("(@run_mul %s %s %s %s)" % (A(elt), F(elt), t3_coq(elt, t), coq_vec(elt, a[0])))
        elif name == "solve": parts.append("(@run_solve %s %s %s %s)" % (A(elt), F(elt), t3_coq(elt, t), coq_vec(elt, a[0])))
        else: t = apply_op(elt, t, op, mirror=True)
    # the model side of a history: the model's single-shot runners on the state the dense twin has reached
    return line, "List.concat %s" % coq_list(parts)

MUTS = ["set-main", "set-sub", "set-sup", "tip", "tr", "clone", "adds", "subs", "muls", "divs", "neg", "scale", "div", "lscale", "addt", "subt", "resize"]
# scalar products / quotients over floats: the stored result is demanded up to rounding (f64: 2 ulp per entry; complex: 1e-13 of the
# modulus), and the reference continues from the implementation's state at the next dump / views
INEXACT_FLOAT = ("muls", "divs", "scale", "div", "lscale")

def gen_mut(rng, elt, n, m):
    """one valid mutating op of class m on an n x n matrix"""
    s = (lambda nz=False: sp(rng, elt, nz) if rng.chance(1, 2) else val(rng, elt, nz))
    if m.startswith("set"):
        i = rng.below(n)
        if n == 1 or m == "set-main": return ("set", i, i, s())
        i = rng.below(n - 1)
        return ("set", i + 1, i, s()) if m == "set-sub" else ("set", i, i + 1, s())
    if m in ("tip", "tr", "clone", "neg"): return (m,)
    if m in ("adds", "subs", "muls", "scale", "lscale"): return (m, s())
    if m in ("divs", "div"): return (m, s(True))
    if m in ("addt", "subt"): return (m, rtri(rng, elt, n, 1) if rng.chance(1, 2) else special_tri(rng, elt, n, rng.choice(SHAPES)))
    if m == "resize": return ("resize", rng.range(1, 5))
    raise ValueError(m)

def gen_hist(rng, elt, n, m1, m2, ctor_kind):
    if ctor_kind == "elements": ctor = ("elements", sp(rng, elt), val(rng, elt, nz=True), sp(rng, elt), n)
    elif ctor_kind == "new": ctor = ("new", n)
    else: ctor = (ctor_kind, dominant(rng, elt, n) if rng.chance(1, 2) else rtri(rng, elt, n, 1))
    ops = []
    t = ctor_state(elt, ctor)
    if ctor_kind == "new":          # fill the zero matrix through IndexMut first (main diagonal, then a few off-diagonal entries)
        for i in range(n):
            ops.append(("set", i, i, val(rng, elt, nz=True)))
        for i in range(n - 1):
            if rng.chance(1, 2): ops.append(("set", i + 1, i, val(rng, elt)))
            if rng.chance(1, 2): ops.append(("set", i, i + 1, val(rng, elt)))
        for o in ops: t = apply_op(elt, t, o)
    for k, m in enumerate((m1, m2)):
        o = gen_mut(rng, elt, len(t[1]), m)
        ops.append(o); t = apply_op(elt, t, o)
        nn = len(t[1])
        if k == 0: ops.append(("dump",))
        else: ops += [("views",), ("mul", [val(rng, elt) for _ in range(nn)]), ("solve", [val(rng, elt) for _ in range(nn)])]
    return {"ctor": ctor, "ops": ops}

# ------------------------------------------------------------------ case builders
def A(elt): return ARITH[elt]
def F(elt): return FLAT[elt]
def t3_line(elt, t): return "%s %s %s" % (tok_vec(elt, t[0]), tok_vec(elt, t[1]), tok_vec(elt, t[2]))
def t3_coq(elt, t): return "%s %s %s" % (coq_vec(elt, t[0]), coq_vec(elt, t[1]), coq_vec(elt, t[2]))

def mk(elt, kind, meta, family, nontrivial=True):
    t = meta.get("t")
    if kind == "views":
        line = "tri.views " + t3_line(elt, t)
        term = "@run_views %s %s %s" % (A(elt), F(elt), t3_coq(elt, t))
    elif kind == "sets":
        ws = meta["ws"]
        line = "tri.sets " + t3_line(elt, t) + "".join(" %d %d %s" % (i, j, tok_scalar(elt, x)) for i, j, x in ws)
        term = "@run_sets %s %s %s %s" % (A(elt), F(elt), t3_coq(elt, t),
                                          coq_list(["(%d, %d, %s)" % (i, j, coq_scalar(elt, x)) for i, j, x in ws]))
    elif kind == "arith":
        t2, s = meta["t2"], meta["s"]
        line = "tri.arith %s %s %s" % (t3_line(elt, t), t3_line(elt, t2), tok_scalar(elt, s))
        term = "@run_arith %s %s %s %s %s %s" % (A(elt), F(elt), "true" if elt == 'f64' else "false", t3_coq(elt, t), t3_coq(elt, t2), coq_scalar(elt, s))
    elif kind == "mul":
        v = meta["v"]
        line = "tri.mul %s %s" % (t3_line(elt, t), tok_vec(elt, v))
        term = "@run_mul %s %s %s %s" % (A(elt), F(elt), t3_coq(elt, t), coq_vec(elt, v))
    elif kind == "solve":
        r = meta["r"]
        line = "tri.solve %s %s" % (t3_line(elt, t), tok_vec(elt, r))
        term = "@run_solve %s %s %s %s" % (A(elt), F(elt), t3_coq(elt, t), coq_vec(elt, r))
    elif kind == "ctor":
        w = meta["which"]
        if w in ("with_vecs", "with_vectors"):
            line = "tri.ctor %s %s" % (w, t3_line(elt, t))
            term = "@run_with_vecs %s %s %s" % (A(elt), F(elt), t3_coq(elt, t))
        elif w == "new":
            line = "tri.ctor new %d" % meta["n"]
            term = "@run_new %s %s %d" % (A(elt), F(elt), meta["n"])
        elif w == "with_elements":
            e = meta["e"]
            line = "tri.ctor with_elements %s %s %s %d" % (tok_scalar(elt, e[0]), tok_scalar(elt, e[1]), tok_scalar(elt, e[2]), meta["n"])
            term = "@run_with_elements %s %s %s %s %s %d" % (A(elt), F(elt), coq_scalar(elt, e[0]), coq_scalar(elt, e[1]), coq_scalar(elt, e[2]), meta["n"])
        elif w == "resize":
            line = "tri.ctor resize %s %d" % (t3_line(elt, t), meta["n"])
            term = "@run_resize %s %s %s %d" % (A(elt), F(elt), t3_coq(elt, t), meta["n"])
        else:
            raise ValueError(w)
    elif kind == "empty":
        line = "tri.empty"
        term = "@run_empty %s %s" % (A(elt), F(elt))
    elif kind == "hist":
        line, term = hist_line_term(elt, meta["ctor"], meta["ops"])
    else:
        raise ValueError(kind)
    meta = dict(meta); meta["kind"] = kind
    return Case(elt, line, term, meta=meta, family=family, nontrivial=nontrivial, check_class=True)

# ------------------------------------------------------------------ generator
def generate(rng, tier):
    cases = []
    thorough = (tier == "thorough")
    rep = 6 if thorough else 2
    elts = ['rat', 'rat', 'rat', 'f64', 'cplx']
    # constructors: every n = 0..NMAX, mismatched lengths
    g = rng.fork("ctor")
    for elt in ('rat', 'f64'):
        for n in range(0, NMAX + 1):
            cases.append(mk(elt, "ctor", {"which": "new", "n": n}, "ctor", True))
            cases.append(mk(elt, "ctor", {"which": "with_elements", "n": n, "e": [val(g, elt), val(g, elt), val(g, elt)]}, "ctor", True))
            if n >= 1:
                cases.append(mk(elt, "ctor", {"which": "resize", "n": g.range(0, NMAX), "t": rtri(g, elt, n)}, "ctor", True))
    for ls in range(0, 5):
        for lm in range(0, 5):
            for lp in range(0, 5):
                t = ([val(g, 'rat') for _ in range(ls)], [val(g, 'rat') for _ in range(lm)], [val(g, 'rat') for _ in range(lp)])
                cases.append(mk('rat', "ctor", {"which": "with_vecs" if (ls + lm + lp) % 2 else "with_vectors", "t": t}, "ctor-lengths", True))
    cases.append(mk('rat', "empty", {}, "empty", True))
    cases.append(mk('f64', "empty", {}, "empty", True))
    # views
    fsizes = set(range(1, NMAX + 1)) if thorough else {1, 2, 3, 4, 6, 9, 12}
    g = rng.fork("views")
    for n in range(1, NMAX + 1):
        for elt in elts * rep:
            if elt != 'rat' and n not in fsizes: continue
            cases.append(mk(elt, "views", {"t": rtri(g, elt, n, pzero=2)}, "views-" + elt, n >= 2))
    # writes through IndexMut
    g = rng.fork("sets")
    for n in range(1, NMAX + 1):
        for elt in ['rat', 'f64'] * rep:
            if elt != 'rat' and n not in fsizes: continue
            ws = []
            for _ in range(g.range(3, 10)):
                i = g.range(0, n)
                j = g.range(0, n) if g.chance(1, 3) else max(0, min(n, i + g.range(-1, 1)))
                ws.append((i, j, val(g, elt)))
            cases.append(mk(elt, "sets", {"t": rtri(g, elt, n), "ws": ws}, "sets", True))
    # arithmetic
    g = rng.fork("arith")
    for n in range(1, NMAX + 1):
        for elt in elts * rep:
            if elt != 'rat' and n not in fsizes: continue
            s = val(g, elt)
            if s == 0 and not g.chance(1, 3): s = val(g, elt, nz=True)
            cases.append(mk(elt, "arith", {"t": rtri(g, elt, n, 1), "t2": rtri(g, elt, n, 1), "s": s}, "arith-" + elt, n >= 2))
        n2 = g.range(1, NMAX)
        cases.append(mk('rat', "arith", {"t": rtri(g, 'rat', n), "t2": rtri(g, 'rat', n2), "s": Fraction(0) if n % 3 == 0 else val(g, 'rat')},
                        "arith-mismatch", True))
    # matrix-vector product
    g = rng.fork("mul")
    for n in range(1, NMAX + 1):
        for elt in (elts + ['rat']) * rep:
            t = rtri(g, elt, n, pzero=2)
            cases.append(mk(elt, "mul", {"t": t, "v": [val(g, elt) for _ in range(n)]}, "mul-" + elt, n >= 2))
        for ln in (0, n - 1, n + 1):
            if ln >= 0 and ln != n:
                cases.append(mk('rat', "mul", {"t": rtri(g, 'rat', n), "v": [val(g, 'rat') for _ in range(ln)]}, "mul-mismatch", True))
    # solve
    g = rng.fork("solve")
    for n in range(1, NMAX + 1):
        for elt in ['rat', 'rat', 'f64', 'f64', 'cplx'] * rep:
            t = dominant(g, elt, n)
            cases.append(mk(elt, "solve", {"t": t, "r": [val(g, elt) for _ in range(n)], "dominant": True}, "solve-dominant-" + elt, n >= 2))
        for elt in ['rat', 'rat', 'rat', 'rat', 'f64', 'cplx'] * rep:
            t = rtri(g, elt, n, pzero=3)
            cases.append(mk(elt, "solve", {"t": t, "r": [val(g, elt) for _ in range(n)]}, "solve-random-" + elt, n >= 2))
        for _ in range(rep):           # f64 dominant systems at extreme (power-of-two) scales of the matrix and of the right-hand side
            sub, main, sup = dominant(g, 'f64', n)
            sc, sr = 2.0 ** g.range(-400, 400), 2.0 ** g.range(-100, 100)
            t = ([x * sc for x in sub], [x * sc for x in main], [x * sc for x in sup])
            cases.append(mk('f64', "solve", {"t": t, "r": [val(g, 'f64') * sr for _ in range(n)], "dominant": True}, "solve-dominant-f64-scaled", n >= 2))
        for _ in range(3 * rep):       # non-dominant exact systems that mostly do get solved (non-zero diagonal, few zero off-diagonals)
            sub, main, sup = rtri(g, 'rat', n, pzero=1)
            main = [val(g, 'rat', nz=True) for _ in range(n)]
            cases.append(mk('rat', "solve", {"t": (sub, main, sup), "r": [val(g, 'rat') for _ in range(n)]}, "solve-random-nzdiag-rat", n >= 2))
        for k in range(n):
            for _ in range(rep):
                t = force_zero_pivot(g, n, k)
                cases.append(mk('rat', "solve", {"t": t, "r": [val(g, 'rat') for _ in range(n)], "zero_at": k}, "solve-zero-pivot-rat", True))
            elt = 'f64' if (n + k) % 2 == 0 else 'cplx'
            t = force_zero_pivot_float(g, elt, n, k)
            cases.append(mk(elt, "solve", {"t": t, "r": [val(g, elt) for _ in range(n)], "zero_at": k}, "solve-zero-pivot-float", True))
        for ln in (0, n - 1, n + 1):
            if ln >= 0 and ln != n:
                cases.append(mk('rat', "solve", {"t": dominant(g, 'rat', n), "r": [val(g, 'rat') for _ in range(ln)]}, "solve-mismatch", True))
    # f64 systems that are not dominant and whose exact pivot vanishes or nearly vanishes: outside the accuracy claim,
    # compared with the float instance of the model only
    g = rng.fork("neardeg")
    for n in range(2, NMAX + 1):
        k = g.range(1, n - 1)
        sub, main, sup = force_zero_pivot(g, n, k)
        t = ([float(x) for x in sub], [float(x) for x in main], [float(x) for x in sup])
        cases.append(mk('f64', "solve", {"t": t, "r": [val(g, 'f64') for _ in range(n)]}, "solve-f64-near-singular", True))
    # ---- structured families (special value classes; see SPECIAL / special_tri / special_vec).  Thorough: every n; quick: n = 1..4 and
    # a seeded rotation of three of the larger sizes (every size comes round with the seed)
    g = rng.fork("special")
    ssizes = list(range(1, NMAX + 1)) if thorough else [1, 2, 3, 4] + sorted(g.shuffle(range(5, NMAX + 1))[:3])
    for n in ssizes:
        for elt in ('rat', 'f64', 'cplx'):
            shapes = SHAPES + (["hugetiny"] if elt != 'rat' else [])
            chosen = shapes if thorough else g.shuffle(shapes)[:3]
            for sh_ in chosen:
                t = special_tri(g, elt, n, sh_)
                cases.append(mk(elt, "views", {"t": t}, "views-special-" + elt, n >= 2))
                for k in g.shuffle(range(6))[:(3 if thorough else 2)]:
                    cases.append(mk(elt, "mul", {"t": t, "v": special_vec(g, elt, n, k)}, "mul-special-" + elt, n >= 2))
                if sh_ != "hugetiny":
                    # exact tier: judged by the exact pivots / residual whatever the matrix; floats: tied (no accuracy claim off dominance)
                    cases.append(mk(elt, "solve", {"t": t, "r": special_vec(g, elt, n, g.below(6))}, "solve-special-" + elt, n >= 2))
            # random matrices against structured vectors and right-hand sides
            t = rtri(g, elt, n, pzero=2)
            for k in g.shuffle(range(5))[:(3 if thorough else 2)]:
                cases.append(mk(elt, "mul", {"t": t, "v": special_vec(g, elt, n, k)}, "mul-special-" + elt, n >= 2))
            for _ in range(3 if thorough else rep):
                t = special_dominant(g, elt, n)
                cases.append(mk(elt, "solve", {"t": t, "r": special_vec(g, elt, n, g.below(6)), "dominant": True}, "solve-special-dominant-" + elt, n >= 2))
            # arithmetic with special scalars (0, -0.0, 1, -1, 2, 1/2, complex axes / unit modulus) on random and on structured operands
            for s_ in g.shuffle(SPECIAL[elt])[:(6 if thorough else 3)]:
                t = rtri(g, elt, n, 1) if g.chance(1, 2) else special_tri(g, elt, n, g.choice(SHAPES))
                t2 = rtri(g, elt, n, 1) if g.chance(1, 2) else special_tri(g, elt, n, g.choice(SHAPES))
                cases.append(mk(elt, "arith", {"t": t, "t2": t2, "s": s_}, "arith-special-" + elt, n >= 2))
        for elt in ('f64', 'cplx'):
            n2 = g.range(1, NMAX)
            if n2 != n:
                cases.append(mk(elt, "arith", {"t": rtri(g, elt, n), "t2": rtri(g, elt, n2), "s": val(g, elt)}, "arith-mismatch-" + elt, True))
    # f64 dominant systems with special off-diagonals at extreme power-of-two scales
    for n in ssizes:
        sub, main, sup = special_dominant(g, 'f64', n)
        sc = 2.0 ** (g.range(150, 400) * g.choice([1, -1]))
        t = ([x * sc for x in sub], [x * sc for x in main], [x * sc for x in sup])
        cases.append(mk('f64', "solve", {"t": t, "r": [x * 2.0 ** g.range(-100, 100) for x in special_vec(g, 'f64', n, g.below(6))], "dominant": True},
                        "solve-special-dominant-f64-scaled", n >= 2))
    # ---- histories: every ordered pair of mutating operations, the state dumped after the first and every view taken after the second
    # (views = accessors, every index, convert, transpose, det; product; solve), over every constructor.  Thorough: every pair;
    # quick: a seeded third of the pairs (every pair comes round with the seed)
    g = rng.fork("hist")
    pairs = [(a, b) for a in MUTS for b in MUTS]
    todo = g.shuffle(pairs) if thorough else g.shuffle(pairs)[:len(pairs) // 3]
    for k, (m1, m2) in enumerate(todo):
        elt = ['rat', 'rat', 'f64', 'rat', 'cplx', 'f64'][k % 6]
        if "lscale" in (m1, m2): elt = 'f64'          # s * T exists as f64 * Tridiagonal<f64> only
        n = [3, 1, 2, 4, 5, 2, 3, 6][g.below(8)]
        h = gen_hist(g, elt, n, m1, m2, ["vecs", "vectors", "elements", "new"][g.below(4)])
        cases.append(mk(elt, "hist", h, "history-" + elt, True))
    # interleave the kinds so that the model shards (consecutive blocks of cases) carry equal loads
    S = 16 if thorough else 8
    return [cases[i] for k in range(S) for i in range(k, len(cases), S)]

# ------------------------------------------------------------------ corpus / replay
def _conv(elt, x):
    if isinstance(x, list): return [_conv(elt, y) for y in x]
    if isinstance(x, tuple): return tuple(_conv(elt, y) for y in x)
    if elt == 'rat': return Fraction(x)
    if elt == 'f64': return float(x)
    if elt == 'cplx': return complex(x) if not isinstance(x, list) else complex(*x)
    return x

def case_from_json(j):
    elt = j["elt"]; m = dict(j["meta"]); kind = m.pop("kind")
    for key in ("t", "t2", "v", "r", "e", "s"):
        if key in m: m[key] = _conv(elt, m[key])
    if "t" in m: m["t"] = tuple(m["t"])
    if "t2" in m: m["t2"] = tuple(m["t2"])
    if "ws" in m: m["ws"] = [(w[0], w[1], _conv(elt, w[2])) for w in m["ws"]]
    if kind == "hist":
        c = m["ctor"]
        if c[0] in ("vecs", "vectors"): m["ctor"] = (c[0], tuple(_conv(elt, list(c[1]))))
        elif c[0] == "elements": m["ctor"] = ("elements", _conv(elt, c[1]), _conv(elt, c[2]), _conv(elt, c[3]), int(c[4]))
        else: m["ctor"] = ("new", int(c[1]))
        ops = []
        for o in m["ops"]:
            out = [o[0]]
            for k, x in zip(HOPS[o[0]], o[1:]):
                if k == "n": out.append(int(x))
                elif k == "s": out.append(_conv(elt, x))
                elif k == "v": out.append(_conv(elt, list(x)))
                else: out.append(tuple(_conv(elt, list(x))))
            ops.append(tuple(out))
        m["ops"] = ops
    return mk(elt, kind, m, "corpus", True)

# ------------------------------------------------------------------ the oracle: dense reference
class Cur:
    def __init__(self, items, elt):
        self.it, self.p, self.elt = items, 0, elt
    def done(self): return self.p >= len(self.it)
    def is_panic(self): return not self.done() and self.it[self.p][0] == 'P'
    def panic(self):
        x = self.it[self.p]; self.p += 1; return x[1]
    def int(self):
        x = self.it[self.p]
        if x[0] != 'i': raise Mis("expected an integer at item %d, got %r" % (self.p, x))
        self.p += 1; return x[1]
    def scalar(self):
        e = self.elt
        x = self.it[self.p]
        if e == 'rat':
            if x[0] != 'q': raise Mis("expected a rational at item %d, got %r" % (self.p, x))
            self.p += 1; return Fraction(x[1], x[2])
        if x[0] != 'f': raise Mis("expected a float at item %d, got %r" % (self.p, x))
        if e == 'f64':
            self.p += 1; return bits_f64(x[1])
        y = self.it[self.p + 1]; self.p += 2
        return complex(bits_f64(x[1]), bits_f64(y[1]))
    def vec(self):
        n = self.int(); return [self.scalar() for _ in range(n)]
    def tri(self):
        n = self.int(); s = self.vec(); m = self.vec(); p = self.vec()
        return n, s, m, p
    def mat(self):
        r = self.int(); c = self.int()
        return r, c, [self.scalar() for _ in range(r * c)]

class Mis(Exception):
    pass

def dense_of(t, elt):
    sub, main, sup = t
    n = len(main); z = zero_of(elt)
    D = [[z] * n for _ in range(n)]
    for i in range(n):
        D[i][i] = main[i]
        if i > 0: D[i][i - 1] = sub[i - 1]
        if i < n - 1: D[i][i + 1] = sup[i]
    return D

def same(a, b):
    """exact equality of stored values (floats: same value, NaN = NaN, -0 = 0 distinguished by bits)"""
    if isinstance(a, float) or isinstance(a, complex) or isinstance(b, float) or isinstance(b, complex):
        a, b = complex(a), complex(b)
        return f64_bits(a.real) == f64_bits(b.real) and f64_bits(a.imag) == f64_bits(b.imag)
    return a == b

def same_list(a, b):
    return len(a) == len(b) and all(same(x, y) for x, y in zip(a, b))

def same_val(a, b):
    """equality of values: the results of arithmetic (0.0 = -0.0, NaN = NaN part by part)"""
    if isinstance(a, (float, complex)) or isinstance(b, (float, complex)):
        a, b = complex(a), complex(b)
        return all((x == y) or (x != x and y != y) for x, y in ((a.real, b.real), (a.imag, b.imag)))
    return a == b

def _ordbits(x):
    """monotone integer image of a (non-NaN) double: neighbouring doubles are neighbouring integers, -0.0 and 0.0 coincide"""
    b = f64_bits(x)
    return b if b < (1 << 63) else (1 << 63) - b

def near_val(a, b, ulps=2, rel=1e-13):
    """results of a scalar product / quotient over floats: the property demands the dense twin's VALUE, it does not pin the operation
    sequence (x/s and x*(1/s) are both the dense twin's entry).  f64: equal as values, or both finite and at most `ulps` units in the
    last place apart; Complex<f64>: close_c (the parts of a complex product carry the rounding of the modulus)"""
    if same_val(a, b): return True
    if isinstance(a, complex) or isinstance(b, complex): return isfinite(complex(a)) and isfinite(complex(b)) and close_c(a, b, rel)
    if not (isfinite(a) and isfinite(b)): return False
    return abs(_ordbits(a) - _ordbits(b)) <= ulps

def valid_shape(t):
    n = len(t[1])
    return n >= 1 and len(t[0]) == n - 1 and len(t[2]) == n - 1

COV = {}
def _count(key):
    COV[key] = COV.get(key, 0) + 1

def extra_coverage():
    """measured outcome distribution of the generated inputs (what the implementation answered)"""
    return {"outcomes": dict(sorted(COV.items()))}

def oracle(case, items):
    try:
        k = case.meta.get("kind")
        if k == "solve":
            n = len(case.meta["t"][1])
            if items and items[-1][0] == 'P':
                code = items[0][1] if items[0][0] == 'i' else -1
                what = {1: "refused:leading-diagonal", 2: "refused:later-pivot", 3: "refused:size-mismatch"}.get(code, "panic:" + items[-1][1])
                _count("solve %s %s" % (case.elt, what))
                if "zero_at" in case.meta: _count("solve zero pivot forced at step k=%d" % case.meta["zero_at"])
            else:
                _count("solve %s ok n=%s" % (case.elt, "1" if n == 1 else ("2" if n == 2 else "3..12")))
        elif k in ("mul", "views", "arith", "sets"):
            _count("%s %s %s" % (k, case.elt, "panic" if (items and items[-1][0] == 'P' and len(items) == 1) else "answered"))
        return _oracle(case, items)
    except Mis as e:
        return "answer does not have the shape the property demands: %s" % e
    except IndexError:
        return "answer ends early: %r" % (items[-4:],)

def expect_tri(c, what, n, s, m, p, eq=None):
    got = c.tri()
    if eq is not None:
        ok = got[0] == n and all(len(x) == len(y) and all(eq(u, v) for u, v in zip(x, y)) for x, y in zip(got[1:], (s, m, p)))
        if ok: return None
        return "%s: diagonals differ from the dense twin: got n=%d %r, expected n=%d %r" % (what, got[0], got[1:], n, (s, m, p))
    if got[0] != n or not (same_list(got[1], s) and same_list(got[2], m) and same_list(got[3], p)):
        return "%s: diagonals differ from the dense twin: got n=%d %r, expected n=%d %r" % (what, got[0], got[1:], n, (s, m, p))
    return None

def close_c(a, b, rel=1e-13):
    """complex products / quotients: the same value up to a few roundings of the parts (the formula is not pinned by the property)"""
    a, b = complex(a), complex(b)
    if not (isfinite(a) and isfinite(b)): return True            # non-finite parts: tied to the model only
    return abs(a - b) <= rel * max(abs(a), abs(b)) + 1e-300

def expect_tri_tol(c, what, n, s, m, p):
    got = c.tri()
    ok = got[0] == n and all(len(x) == len(y) and all(close_c(u, v) for u, v in zip(x, y)) for x, y in zip(got[1:], (s, m, p)))
    if not ok:
        return "%s: diagonals differ from the dense twin: got n=%d %r, expected n=%d %r" % (what, got[0], got[1:], n, (s, m, p))
    return None

def det_ref(elt, t):
    """exact determinant of the dense twin (rat / f64: Fractions; complex: exact Gaussian elimination over Q(i)) and perm|T| (the continuant of
    the absolute values: any backward-stable evaluation of the determinant is within c*n*eps*perm|T| of the exact value)"""
    n = len(t[1])
    D = dense_of(t, elt)
    if elt == 'cplx':
        # exact: Gaussian elimination over Q(i) (pairs of Fractions), independent of the three-term recurrence
        def cmul(a, b): return (a[0] * b[0] - a[1] * b[1], a[0] * b[1] + a[1] * b[0])
        def cdiv(a, b):
            d = b[0] * b[0] + b[1] * b[1]
            return ((a[0] * b[0] + a[1] * b[1]) / d, (a[1] * b[0] - a[0] * b[1]) / d)
        M = [[(Fraction(D[i][j].real), Fraction(D[i][j].imag)) for j in range(n)] for i in range(n)]
        det = (Fraction(1), Fraction(0))
        for k in range(n):
            piv = next((i for i in range(k, n) if M[i][k] != (0, 0)), None)
            if piv is None:
                det = (Fraction(0), Fraction(0)); break
            if piv != k:
                M[piv], M[k] = M[k], M[piv]; det = (-det[0], -det[1])
            det = cmul(det, M[k][k])
            for i in range(k + 1, n):
                if M[i][k] != (0, 0):
                    f = cdiv(M[i][k], M[k][k])
                    for j in range(k, n):
                        q = cmul(f, M[k][j]); M[i][j] = (M[i][j][0] - q[0], M[i][j][1] - q[1])
        try: ref = complex(float(det[0]), float(det[1]))
        except OverflowError: ref = complex(math.inf, math.inf)
    else:
        ref = det_exact([Fraction(D[i][j]) for i in range(n) for j in range(n)], n)
    ab = (lambda x: Fraction(abs(x.real)) + Fraction(abs(x.imag))) if elt == 'cplx' else (lambda x: abs(Fraction(x)))   # |re|+|im| >= |z|
    p0, p1 = Fraction(1), ab(t[1][0])
    run = [p1]
    for k in range(1, n):
        p0, p1 = p1, ab(t[1][k]) * p1 + ab(t[0][k - 1]) * ab(t[2][k - 1]) * p0
        run.append(p1)
    return ref, p1, run

def judge_views(c, elt, t, eq=None):
    """eq: None = stored values verbatim (bit patterns); same_val inside a history whose state is the result of arithmetic"""
    n = len(t[1]); exact = (elt == 'rat')
    D = dense_of(t, elt)
    same_ = eq or same
    same_list_ = (lambda a, b: len(a) == len(b) and all(same_(x, y) for x, y in zip(a, b)))
    r = expect_tri(c, "accessors", n, t[0], t[1], t[2], eq=eq)
    if r: return r
    for i in range(n + 1):
        for j in range(n + 1):
            inband = i < n and j < n and abs(i - j) <= 1
            if c.is_panic():
                c.panic()
                if inband: return "index (%d,%d) of an n=%d matrix panicked" % (i, j, n)
            else:
                x = c.scalar()
                if not inband: return "index (%d,%d) outside the band/range of an n=%d matrix returned %r" % (i, j, n, x)
                if not same_(x, D[i][j]): return "index (%d,%d) = %r, dense twin has %r" % (i, j, x, D[i][j])
    if c.is_panic(): return "convert panicked for n=%d" % n
    r_, c_, vals = c.mat()
    if (r_, c_) != (n, n) or not same_list_(vals, [D[i][j] for i in range(n) for j in range(n)]):
        return "convert differs from the dense twin (n=%d): %r" % (n, vals)
    r = expect_tri(c, "transpose", n, t[2], t[1], t[0], eq=eq)
    if r: return r
    if c.is_panic(): return "convert of the transpose panicked"
    r_, c_, vals = c.mat()
    if (r_, c_) != (n, n) or not same_list_(vals, [D[j][i] for i in range(n) for j in range(n)]):
        return "convert(transpose) is not the transposed dense twin (n=%d)" % n
    if c.is_panic(): return "det panicked for n=%d" % n
    d = c.scalar()
    if exact:
        ref = det_exact([D[i][j] for i in range(n) for j in range(n)], n)
        if d != ref: return "det = %s, the dense twin has determinant %s (n=%d)" % (d, ref, n)
    elif all(isfinite(x) for x in t[0] + t[1] + t[2]):
        # floats: any backward-stable evaluation of the (multilinear) determinant is within c*n*eps*perm(|T|) of the
        # exact value; perm(|T|) of a tridiagonal matrix is the continuant of the absolute values
        ref, p1, run = det_ref(elt, t)
        mags = [abs(x) for x in t[0] + t[1] + t[2] if x != 0]
        floor = Fraction(0)
        if mags and (max(mags) > 1e30 or min(mags) < 1e-30):
            # entries at extreme scales (family hugetiny): a leading minor may leave the binary64 range (overflow, or underflow followed by
            # growth), which the bound does not account for -- nothing is demanded then
            if any(x >= Fraction(2) ** 1000 or (x != 0 and x < Fraction(1, 2 ** 900)) for x in run): return None
            floor = Fraction(1, 2 ** 1000)
        if elt == 'f64':
            if not isfinite(d) or abs(Fraction(d) - ref) > Fraction(1, 10 ** 11) * p1 + floor:
                return "f64 det = %r, the dense twin has determinant %s (n=%d; allowed error 1e-11 * perm|T| = %g)" % (d, float(ref), n, float(p1) * 1e-11)
        else:
            if p1 >= Fraction(2) ** 1000: return None
            if not isfinite(d) or abs(d - ref) > 1e-11 * float(p1) + 1e-300:
                return "complex det = %r, the dense twin has determinant %r (n=%d; allowed error 1e-11 * perm|T| = %g)" % (d, ref, n, float(p1) * 1e-11)
    return None

def judge_mul(c, elt, t, v, nitems=None):
    n = len(t[1]); exact = (elt == 'rat')
    D = dense_of(t, elt)
    if len(v) != n:
        return None if c.is_panic() else "product with a vector of length %d (n=%d) was answered" % (len(v), n)
    if c.is_panic(): return "T*v panicked (%s) for n=%d" % (c.panic(), n)
    w = c.vec()
    if len(w) != n: return "T*v has %d components for n=%d" % (len(w), n)
    if exact:
        ref = [sum((D[i][j] * v[j] for j in range(n)), zero_of(elt)) for i in range(n)]
        if w != ref: return "T*v = %r, dense twin gives %r" % (w, ref)
    else:
        if not all(isfinite(x) for r_ in D for x in r_) or not all(isfinite(x) for x in v): return None
        # row by row, against the exact row sum, scaled by |T||v| of that row (cancellation inside a row is not an error of the product)
        for i in range(n):
            js = [j for j in (i - 1, i, i + 1) if 0 <= j < n]
            if elt == 'f64':
                ref = sum(Fraction(D[i][j]) * Fraction(v[j]) for j in js)
                sc = sum(abs(Fraction(D[i][j]) * Fraction(v[j])) for j in js)
                if not isfinite(w[i]): 
                    if sc < Fraction(2) ** 1000: return "T*v component %d = %r, dense twin gives %g" % (i, w[i], float(ref))
                    continue
                if abs(Fraction(w[i]) - ref) > Fraction(1, 10 ** 12) * sc + Fraction(1, 2 ** 1000):
                    return "T*v component %d = %r, dense twin gives %r" % (i, w[i], float(ref))
            else:
                ref = sum((D[i][j] * v[j] for j in js), 0j)
                sc = sum(abs(D[i][j]) * abs(v[j]) for j in js)
                if not isfinite(ref) or not isfinite(sc): continue
                if not isfinite(w[i]) or abs(w[i] - ref) > 1e-12 * sc + 1e-300:
                    return "T*v component %d = %r, dense twin gives %r" % (i, w[i], ref)
        # the pre-existing, coarser clause (kept): 1e-12 * max|T| * max|v|
        ref = [sum((D[i][j] * v[j] for j in range(n)), zero_of(elt)) for i in range(n)]
        if all(isfinite(x) for x in ref):
            sc = max([abs(D[i][j]) for i in range(n) for j in range(n)]) * max([abs(x) for x in v] + [0.0]) + 1e-300
            for i in range(n):
                if isfinite(sc) and abs(w[i] - ref[i]) > 1e-12 * sc: return "T*v component %d = %r, dense twin gives %r" % (i, w[i], ref[i])
    return None

def read_solve_answer(c):
    """('panic', class) | ('refused', code, class) | ('value', u)"""
    if c.is_panic(): return ('panic', c.panic())
    if c.it[c.p][0] == 'i' and c.p + 1 < len(c.it) and c.it[c.p + 1][0] == 'P':
        code = c.int(); return ('refused', code, c.panic())
    return ('value', c.vec())

def structural_zero_pivot(elt, t):
    """floats: the first step k whose pivot is exactly zero in ANY faithful evaluation of the recurrence -- main[k] = 0 and (k = 0 or
    sub[k-1] = 0 or sup[k-1] = 0) -- provided every earlier pivot, replayed here, is finite and far from cancellation.  None otherwise."""
    sub, main, sup = t
    n = len(main)
    if not all(isfinite(x) for x in list(sub) + list(main) + list(sup)): return None
    big = max([abs(x) for x in list(sub) + list(main) + list(sup)] + [0.0])
    if big > 1e100 or (big != 0 and min(abs(x) for x in list(sub) + list(main) + list(sup) if x != 0) < 1e-100): return None
    beta = main[0]
    for k in range(n):
        if k > 0:
            gamma = fdiv(sup[k - 1], beta)
            prod = sub[k - 1] * gamma
            if main[k] == 0 and (sub[k - 1] == 0 or sup[k - 1] == 0): return k
            beta = main[k] - prod
            if not isfinite(beta) or abs(beta) <= 1e-3 * max(abs(main[k]), abs(prod)): return None
        elif main[0] == 0: return 0
    return None

def judge_solve(c, elt, t, r, meta):
    n = len(t[1]); exact = (elt == 'rat')
    D = dense_of(t, elt)
    if len(r) != n:
        ans = read_solve_answer(c)
        return None if ans[0] != 'value' else "solve with a right-hand side of length %d (n=%d) was answered" % (len(r), n)
    ans = read_solve_answer(c)
    if exact:
        pv = pivots_exact(*t)
        zk = next((k for k, b in enumerate(pv) if b == 0), None)
    else:
        pv = None
        zk = structural_zero_pivot(elt, t)
        if zk is not None: _count("solve %s structural zero pivot judged" % elt)
    if zk is not None:
        # elimination meets a zero pivot at step zk: must refuse, with a zero-pivot message
        if ans[0] == 'panic': return "solve panicked without a recognisable message"
        if ans[0] == 'value': return "zero pivot at step %d (n=%d) but solve returned a value: %r" % (zk, n, ans[1][:6])
        code, cls = ans[1], ans[2]
        if cls != 'guard':
            return "zero pivot at step %d (n=%d): solve died with a %s panic instead of its zero-pivot refusal" % (zk, n, cls)
        if code not in (1, 2): return "solve refused, but the message does not mention a zero pivot / zero diagonal (code %d)" % code
        if (code == 1) != (zk == 0): return "zero pivot at step %d but the message is the %s one" % (zk, "leading-diagonal" if code == 1 else "later-pivot")
        return None
    if exact:
        if ans[0] != 'value':
            return "no zero pivot is met (pivots %s) but solve panicked: %r" % (pv, ans)
        u = ans[1]
        if len(u) != n: return "solution has %d components for n=%d" % (len(u), n)
        res = [r[i] - sum(D[i][j] * u[j] for j in range(n)) for i in range(n)]
        if any(x != 0 for x in res): return "solve returned u with r - T u = %r (exact arithmetic, no zero pivot)" % res
        return None
    # floats: accuracy is demanded of diagonally dominant systems only
    if not meta.get("dominant"): return None
    if ans[0] != 'value': return "solve panicked on a diagonally dominant %s system (n=%d)" % (elt, n)
    u = ans[1]
    if len(u) != n: return "solution has %d components for n=%d" % (len(u), n)
    if not all(isfinite(x) for x in u): return "non-finite solution of a diagonally dominant system"
    res = max(abs(r[i] - sum(D[i][j] * u[j] for j in range(n))) for i in range(n))
    normT = max(sum(abs(D[i][j]) for j in range(n)) for i in range(n))
    bound = 1e-11 * (normT * max(abs(x) for x in u) + max(abs(x) for x in r))
    if res > bound: return "diagonally dominant %s system: backward error %g exceeds %g" % (elt, res, bound)
    if all(x == 0 for x in r) and any(x != 0 for x in u):
        return "diagonally dominant %s system with a zero right-hand side: solution %r is not zero" % (elt, u[:6])
    return None

def arith_steps(elt, t, t2, s):
    """[(what, expected three diagonals or None, must_panic, tolerant)] in the executor's order"""
    n, n2 = len(t[1]), len(t2[1])
    exact = (elt == 'rat')
    def ew(f, a, b=None):
        if b is None: return [[f(x) for x in d] for d in a]
        return [[f(x, y) for x, y in zip(da, db)] for da, db in zip(a, b)]
    if exact: dv = lambda x: x / s
    else: dv = lambda x: fdiv(x, s)
    # scalar products / quotients: the value of the dense twin's entry up to rounding -- complex: 1e-13 of the modulus (the formula is not
    # pinned); f64: 2 ulp per entry (x/s and x*(1/s) both qualify; dividing twice or leaving a diagonal out does not); every other
    # operation (neg, +, -, += s, -= s) is one IEEE operation per stored entry, bit for bit as values
    tolm = 'cplx' if elt == 'cplx' else ('ulp' if elt == 'f64' else False)
    div0 = exact and s == 0          # exact tier: division by zero must be refused; floats: IEEE quotient (inf / nan), tied to the model
    steps = [("neg", ew(lambda x: -x, t), False, False),
             ("T + T2", ew(lambda x, y: x + y, t, t2), n != n2, False),
             ("T - T2", ew(lambda x, y: x - y, t, t2), n != n2, False),
             ("T * s", ew(lambda x: x * s, t), False, tolm)]
    if elt == 'f64': steps.append(("s * T", ew(lambda x: s * x, t), False, tolm))
    steps += [("T / s", None if div0 else ew(dv, t), div0, tolm),
              ("T += s", ew(lambda x: x + s, t), False, False),
              ("T -= s", ew(lambda x: x - s, t), False, False),
              ("T *= s", ew(lambda x: x * s, t), False, tolm),
              ("T /= s", None if div0 else ew(dv, t), div0, tolm)]
    return steps

def judge_arith(c, elt, t, t2, s):
    n = len(t[1])
    if c.is_panic(): return "well-shaped diagonals rejected"
    for what, exp, mp, tol in arith_steps(elt, t, t2, s):
        if mp:
            if not c.is_panic(): return "%s was answered instead of refused" % what
            c.panic(); continue
        if c.is_panic(): return "%s panicked" % what
        if elt != 'rat' and s == 0 and what in ("T / s", "T /= s"):
            c.tri(); continue         # float division by zero: inf / nan patterns, tied to the model only
        if tol == 'cplx': r = expect_tri_tol(c, what, n, exp[0], exp[1], exp[2])
        elif tol == 'ulp': r = expect_tri(c, what + " (2 ulp per entry)", n, exp[0], exp[1], exp[2], eq=near_val)
        else: r = expect_tri(c, what, n, exp[0], exp[1], exp[2], eq=(None if elt == 'rat' else same_val))
        if r: return r
    return None

def _oracle(case, items):
    m = case.meta; kind = m["kind"]; elt = case.elt
    c = Cur(items, elt)
    if kind == "empty":
        return None
    if kind == "ctor":
        w = m["which"]
        if w in ("with_vecs", "with_vectors"):
            t = m["t"]
            if not valid_shape(t):
                if len(t[1]) == 0: return None          # n = 0 is outside the quantifier (the model ties it)
                return None if c.is_panic() else "diagonals of lengths %d/%d/%d were accepted" % (len(t[0]), len(t[1]), len(t[2]))
            if c.is_panic(): return "well-shaped diagonals (n=%d) were rejected" % len(t[1])
            return expect_tri(c, w, len(t[1]), t[0], t[1], t[2])
        n = m["n"]
        if n == 0: return None
        if c.is_panic(): return "%s(%d) panicked" % (w, n)
        z = zero_of(elt)
        if w == "resize": e = [z, z, z]
        else: e = m["e"] if w == "with_elements" else [z, z, z]
        return expect_tri(c, w, n, [e[0]] * (n - 1), [e[1]] * n, [e[2]] * (n - 1))
    if kind == "hist":
        t = ctor_state(elt, m["ctor"])
        if c.is_panic(): return "constructor %s panicked on well-shaped arguments" % m["ctor"][0]
        loose = 0
        for k, op in enumerate(m["ops"]):
            what = "op %d %s" % (k, op[0])
            heq = None if elt == 'rat' else same_val       # the state of a history is the result of arithmetic: equality of values
            if loose and op[0] in ("dump", "views"):
                # `loose` scalar products / quotients over floats since the last state dump: the stored entries are demanded up to
                # rounding (2 ulp / 1e-13 each); the reference then continues from the implementation's state, so that a rounding
                # accepted here is not charged again to a later exact operation (a sum that cancels)
                c2 = Cur(c.it, elt); c2.p = c.p
                r = expect_tri(c2, what + " (state after the preceding operations, scalar products/quotients up to rounding)", len(t[1]), t[0], t[1], t[2],
                               eq=(lambda u, v: near_val(u, v, 2 * loose, 1e-13 * loose)))
                if r: return r
                c2.p = c.p; got = c2.tri()
                t = (got[1], got[2], got[3]); loose = 0
                _count("hist %s state resynchronised after scalar product/quotient" % elt)
            if op[0] == "dump": r = expect_tri(c, what + " (state after the preceding operations)", len(t[1]), t[0], t[1], t[2], eq=heq)
            elif op[0] == "views": r = judge_views(c, elt, t, eq=heq)
            elif op[0] == "mul": r = judge_mul(c, elt, t, op[1])
            elif op[0] == "solve": r = judge_solve(c, elt, t, op[1], {})
            else:
                if c.is_panic(): return "%s: valid operation panicked (%s)" % (what, c.panic())
                t = apply_op(elt, t, op); r = None
                if elt != 'rat' and op[0] in INEXACT_FLOAT: loose += 1
                _count("hist %s %s" % (elt, op[0]))
            if r: return "%s: %s" % (what, r)
        if not c.done(): return "answer has %d trailing items" % (len(c.it) - c.p)
        return None
    t = m["t"]
    n = len(t[1])
    if kind == "views":
        if c.is_panic(): return "well-shaped diagonals rejected"
        return judge_views(c, elt, t)
    if kind == "sets":
        if c.is_panic(): return "well-shaped diagonals rejected"
        sub, main, sup = list(t[0]), list(t[1]), list(t[2])
        r = expect_tri(c, "accessors", n, sub, main, sup)
        if r: return r
        for (i, j, x) in m["ws"]:
            inband = i < n and j < n and abs(i - j) <= 1
            if c.is_panic():
                c.panic()
                if inband: return "write to (%d,%d) of an n=%d matrix panicked" % (i, j, n)
            else:
                if not inband: return "write to (%d,%d) outside the band/range of an n=%d matrix was accepted" % (i, j, n)
                if i == j: main[i] = x
                elif i == j + 1: sub[j] = x
                else: sup[i] = x
            r = expect_tri(c, "state after write (%d,%d)" % (i, j), n, sub, main, sup)
            if r: return r
        return None
    if kind == "arith":
        return judge_arith(c, elt, t, m["t2"], m["s"])
    if kind == "mul":
        if c.is_panic() and c.p == 0 and len(items) == 1 and not valid_shape(t): return None
        return judge_mul(c, elt, t, m["v"])
    if kind == "solve":
        return judge_solve(c, elt, t, m["r"], m)
    return None
