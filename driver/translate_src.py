# driver/translate_src.py -- coq/gen/Src<Module>.v: the loop code of the crate translated from the CURRENT source on every
# check run (driver/rust2coq.py + driver/r2c_table.py); hooked into translate.regenerate_all() through fragments().
# Proofs/SrcEq<Module>.v proves every regenerated definition equal to the hand-written model function, so the theorems
# about the models are re-checked against what the code says now.
import os, sys, re
import translate
from translate import TieBroken, write_if_changed, _src
from common import COQDIR
import rust2coq, r2c_table

PRELUDE = """(* gen/SrcPrelude.v -- helper definitions used by the regenerated gen/Src*.v files (written by driver/translate_src.py). *)
From Coq Require Import List Arith ZArith Lia Bool.
From OV Require Import Base.Panic Base.Arith.
Import ListNotations.

(* `i as usize` for an isize i: two's-complement reinterpretation (64-bit usize) *)
Definition isize_as_usize (i : Z) : nat :=
  Z.to_nat (if (i <? 0)%Z then (i + 18446744073709551616)%Z else i).

(* Vec::drain(lo..hi) as a statement: panics when lo > hi or hi > len, otherwise removes the range *)
Definition drain {X} (l : list X) (lo hi : nat) : res (list X) :=
  if (lo <=? hi) && (hi <=? length l) then Ok (firstn lo l ++ skipn hi l) else Panic Index.

(* for j in lo..hi over isize: hi - lo iterations (none when hi <= lo), j = lo, lo+1, .. *)
Definition for_z {S} (lo hi : Z) (body : Z -> S -> res S) (s : S) : res S :=
  for_ 0 (Z.to_nat (hi - lo)) (fun k s => body (lo + Z.of_nat k)%Z s) s.

(* a `for` loop with a `return` inside: the body answers inl (next state) or inr (the value returned by the function) *)
Fixpoint for_ret_from {S R} (n lo : nat) (body : nat -> S -> res (S + R)) (s : S) : res (S + R) :=
  match n with
  | 0 => Ok (inl s)
  | Datatypes.S n' =>
      let* o := body lo s in
      match o with
      | inl s' => for_ret_from n' (Datatypes.S lo) body s'
      | inr r => Ok (inr r)
      end
  end.
Definition for_ret {S R} (lo hi : nat) (body : nat -> S -> res (S + R)) (s : S) : res (S + R) :=
  for_ret_from (hi - lo) lo body s.

(* a `while` loop with an explicit fuel bound: each pass answers WNext (go on), WDone (condition false) or WRet (the
   function returns); None = the fuel ran out *)
Inductive wout (S R : Type) : Type := WNext (s : S) | WDone (s : S) | WRet (r : R).
Arguments WNext {S R} s. Arguments WDone {S R} s. Arguments WRet {S R} r.
Fixpoint while_ret {S R} (fuel : nat) (body : S -> res (wout S R)) (s : S) : res (option (S + R)) :=
  match fuel with
  | 0 => Ok None
  | Datatypes.S f =>
      let* o := body s in
      match o with
      | WNext s' => while_ret f body s'
      | WDone s' => Ok (Some (inl s'))
      | WRet r => Ok (Some (inr r))
      end
  end.

(* for x in v.drain(..) / for x in v: the elements in order *)
Fixpoint for_in {S X} (l : list X) (body : X -> S -> res S) (s : S) : res S :=
  match l with
  | [] => Ok s
  | x :: t => let* s' := body x s in for_in t body s'
  end.

(* usize `/` and `%` by a divisor that may be 0 *)
Definition udiv (a b : nat) : res nat := if b =? 0 then Panic DivZero else Ok (a / b).
Definition umod (a b : nat) : res nat := if b =? 0 then Panic DivZero else Ok (a mod b).

(* handle.join().unwrap() of a scoped worker (value model: the worker is its computation): a worker that panicked makes
   join() return Err, which unwrap() turns into a panic of the joining thread *)
Definition join_unwrap {X} (h : res X) : res X := match h with Ok x => Ok x | Panic _ => Panic Unwrap end.

(* the value of Vec::pop(): the last element, if any *)
Definition last_opt {X} (l : list X) : option X := match rev l with [] => None | x :: _ => Some x end.

(* Option::unwrap / Result::unwrap *)
Definition unwrap_opt {X} (o : option X) : res X :=
  match o with Some x => Ok x | None => Panic Unwrap end.
"""

PINS = None        # pin mode (development): {module: {function: {construct: permutation}}} collected while translating

def render_module(mod, ent, cache):
    L = ["(* gen/Src%s.v -- REGENERATED from the Rust source by driver/translate_src.py (rust2coq) on every check run." % mod,
         "   One definition s_<f> per translated function, in the state-passing style of the hand-written models. *)",
         "From Coq Require Import List Arith ZArith Lia Bool.",
         ent["imports"], "Import ListNotations.", "",
         "Section Src%s." % mod] + ent.get("context", ["Context {A : Arith}."]) + [""]
    sigs, errors = {}, {}
    for spec in ent["funcs"]:
        rel = spec["file"]
        spec = dict(ent.get("spec", {}), **spec)
        spec["state_orders"] = getattr(r2c_table, "STATE_ORDERS", {}).get(mod, {}).get(spec["name"], {})
        try:
            if rel not in cache:
                cache[rel] = rust2coq.parse_file(_src(rel), rel)
            header, fn = rust2coq.find_fn(cache[rel], spec["impl"], spec["fn"], "%s (%s)" % (spec["name"], rel))
            tr = rust2coq.Translator(r2c_table, spec)
            tr.items = cache[rel]                    # the items of the file: private helper methods of the same impl are inlined
            if PINS is not None: tr.pins = {}
            gparams, term, rty = tr.function(fn, header)
            if PINS is not None and tr.pins: PINS.setdefault(mod, {})[spec["name"]] = dict(sorted(tr.pins.items()))
        except TieBroken as e:
            # the definition is NOT emitted: the lemma src_<name> of Proofs/SrcEq<Module>.v no longer compiles, and the
            # message is returned to the caller of regenerate() (d["src_tie_broken"]); nothing is approximated
            errors[spec["name"]] = str(e)
            L.append("(* TIE BROKEN -- s_%s is not generated: %s *)\n" % (spec["name"], str(e).replace("*)", "* )")))
            continue
        body_text = rust2coq.pp(term, 2)
        # literals the model takes as named parameters: a function that uses ANY of them takes ALL of them, in the fixed order of
        # the table -- so that a source that uses 0.25 where the model expects 0.5 changes the regenerated function (with Section
        # variables the two would be indistinguishable after the section is closed)
        lit_params = ent.get("lit_params", [])
        if lit_params and any(re.search(r"(?<![A-Za-z0-9_])%s(?![A-Za-z0-9_'])" % re.escape(n), body_text) for n, _ in lit_params):
            gparams = list(lit_params) + list(gparams)
        ps = " ".join("(%s : %s)" % (n, t) for n, t in gparams)
        L.append("(* %s : impl %s :: fn %s *)" % (rel, " ".join(header.split()), spec["fn"]))
        gty = rust2coq.gtype(rty)
        if gty == "SUMTYPE": gty = "(%s + %s)" % (rust2coq.gtype(tr.sum_left), spec["result_sum"]["type"])
        L.append("Definition s_%s %s : res %s :=\n  %s.\n" % (spec["name"], ps, gty, rust2coq.pp(term, 2)))
        sigs[spec["name"]] = (gparams, rty)
    L += ["End Src%s." % mod, ""]
    return "\n".join(L), sigs, errors

def render_all(only=None):
    out, cache, summary, broken = {}, {}, {}, {}
    out["SrcPrelude"] = PRELUDE
    for mod, ent in r2c_table.MODULES.items():
        if only and mod not in only: continue
        text, sigs, errors = render_module(mod, ent, cache)
        out["Src" + mod] = text; summary[mod] = sorted(sigs)
        for k, v in errors.items(): broken["%s.%s" % (mod, k)] = v
    return out, summary, broken

def _fragment(mod):
    """zero-argument renderer of gen/Src<mod>.v for translate.regenerate_all(): raises TieBroken (naming every function the
    translator refused) instead of returning a file with missing definitions"""
    def render():
        text, sigs, errors = render_module(mod, r2c_table.MODULES[mod], {})
        if errors:
            raise TieBroken("; ".join("s_%s: %s" % kv for kv in sorted(errors.items())))
        return text
    return render

def fragments():
    """the hook of translate.regenerate_all(): [(path under coq/, function returning the text of the file)]"""
    return [("gen/SrcPrelude.v", lambda: PRELUDE)] + [("gen/Src%s.v" % mod, _fragment(mod)) for mod in r2c_table.MODULES]

def regenerate():
    """stand-alone regeneration of the gen/Src*.v files only (development; the check runs go through translate.regenerate_all)"""
    changed, broken = [], {}
    for rel, fn in fragments():
        try:
            text = fn()
        except TieBroken as e:
            broken[rel] = str(e); continue
        if write_if_changed(os.path.join(COQDIR, rel), text): changed.append(rel)
    return changed, broken

def src_tie_checks(modules):
    """for a property module's extra_checks(): build Proofs/SrcEq<M>.vo for every M in `modules` (after regenerate()) and
    return ([(kind, description, payload)], coverage) with kind 'tie' for every lemma src_<f> that no longer holds /
    every function the translator refused."""
    import common
    files, summary, broken = render_all(modules)
    out = []
    for k, v in sorted(broken.items()):
        out.append(("tie", "source translator refused %s: %s" % (k, v), {"function": k, "message": v}))
    cov = {"src_modules": list(modules), "src_functions": sum(len(summary.get(m, [])) for m in modules), "src_lemmas_checked": 0}
    for m in modules:
        rc, log = common.coq_make("Proofs/SrcEq%s.vo" % m)
        if rc != 0:
            where = common.failing_statement(log) or ("Proofs/SrcEq%s.v" % m)
            out.append(("tie", "the regenerated definition no longer equals the hand-written model: %s" % where,
                        {"module": m, "where": where, "log": log[-2000:]}))
        else:
            cov["src_lemmas_checked"] += len(summary.get(m, []))
    return out, cov

def pin_state_orders():
    """development, on the PRISTINE source: record for every loop / falling-through `if` with two or more state variables the
    permutation from the canonical order (first assignment inside the construct) to the declaration order, and write the table
    STATE_ORDERS at the end of driver/r2c_table.py (between the markers).  By construction the pristine source translates to
    exactly the same Gallina with and without the table."""
    global PINS
    PINS = {}
    render_all()
    pins, PINS = PINS, None
    path = os.path.join(os.path.dirname(os.path.abspath(__file__)), "r2c_table.py")
    text = open(path).read()
    a, b = "# >>> STATE_ORDERS (generated: translate_src.py --pin-state-orders)\n", "# <<< STATE_ORDERS\n"
    L = [a, "STATE_ORDERS = {\n"]
    for mod in sorted(pins):
        L.append("    %r: {\n" % mod)
        for fn in sorted(pins[mod]):
            L.append("        %r: %r,\n" % (fn, pins[mod][fn]))
        L.append("    },\n")
    L += ["}\n", b]
    block = "".join(L)
    if a in text: text = text[:text.index(a)] + block + text[text.index(b) + len(b):]
    else: text = text.rstrip("\n") + "\n\n" + block
    open(path, "w").write(text)
    return sum(len(v) for v in pins.values())

if __name__ == "__main__":
    if sys.argv[1:] == ["--pin-state-orders"]:
        print("pinned the state orders of %d functions" % pin_state_orders()); sys.exit(0)
    # development: `translate_src.py [Module ..]` writes the files even when some function is refused (the definition is
    # then omitted and a comment names the reason)
    files, summary, broken = render_all(sys.argv[1:] or None)
    for name, text in files.items():
        p = os.path.join(COQDIR, "gen", name + ".v")
        print(("wrote " if write_if_changed(p, text) else "unchanged ") + p)
    for k, v in sorted(broken.items()): print("TIE BROKEN %s: %s" % (k, v))
