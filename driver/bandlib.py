# driver/bandlib.py -- banded-matrix histories (kind band.hist): printers for both sides and the
# independent dense-twin reference (the search oracle of C04).
#
# A banded literal is (n, m1, m2, vals): every slot of the n x (m1+m2+1) compact storage, padding
# included.  The reference never looks at padding: its state is the dense n x n matrix that has
# the in-band, in-matrix entries of the literal and zeros elsewhere.
from fractions import Fraction
import math
from common import *
from linalg import det_exact, parse_items_scalar, parse_items_vec, isfinite

# op table: name -> (coq constructor, argument kinds)   kinds: n nat, z int, s scalar, v vector, b banded literal
BOPS = {
    "new": ("BNew", "nnns"), "fill": ("BFill", "s"), "resize": ("BResize", "nnn"), "fill_band": ("BFillBand", "zs"),
    "set": ("BSet", "nns"),
    "add_assign": ("BAddAssign", "b"), "sub_assign": ("BSubAssign", "b"),
    "add_assign_own": ("BAddAssign", "b"), "sub_assign_own": ("BSubAssign", "b"),
    "mul_assign_s": ("BMulAssignS", "s"), "div_assign_s": ("BDivAssignS", "s"),
    "add_assign_s": ("BAddAssignS", "s"), "sub_assign_s": ("BSubAssignS", "s"),
    "get": ("BGet", "nn"), "getall": ("BGetAll", ""), "neg": ("BNeg", ""), "add": ("BAdd", "b"), "sub": ("BSub", "b"),
    "scale": ("BScale", "s"), "div": ("BDiv", "s"), "mulv": ("BMulV", "v"), "solve": ("BSolve", "v"),
    "det": ("BDet", ""), "size": ("BSize", ""), "dump": ("BDump", ""),
    # both operands the same object (&B + &B, &B - &B): the model's operator applied to two copies of the current state
    "add_self": ("BAdd", ""), "sub_self": ("BSub", ""),
}
SELF_OPS = ("add_self", "sub_self")
MUTATING = ("new", "fill", "resize", "fill_band", "set", "add_assign", "sub_assign", "add_assign_own", "sub_assign_own",
            "mul_assign_s", "div_assign_s", "add_assign_s", "sub_assign_s")

def tok_band(elt, B):
    n, m1, m2, vals = B
    return "B%d,%d,%d[%s]" % (n, m1, m2, ",".join(tok_scalar(elt, x) for x in vals))

def coq_band(elt, B):
    n, m1, m2, vals = B
    return "(@mkB %s %d %d %d %s)" % (ARITH[elt], n, m1, m2, coq_mat(elt, (n, m1 + m2 + 1, vals)))

def bop_line(elt, op):
    name, args = op[0], op[1:]
    toks = [name]
    for k, a in zip(BOPS[name][1], args):
        if k in "nz": toks.append(str(a))
        elif k == "s": toks.append(tok_scalar(elt, a))
        elif k == "v": toks.append(tok_vec(elt, a))
        elif k == "b": toks.append(tok_band(elt, a))
    toks.append(";")
    return " ".join(toks)

def bop_coq(elt, op):
    name, args = op[0], op[1:]
    ctor, kinds = BOPS[name]
    parts = ["@%s %s" % (ctor, ARITH[elt])]
    for k, a in zip(kinds, args):
        if k == "n": parts.append(str(a))
        elif k == "z": parts.append(coq_Z(a))
        elif k == "s": parts.append(coq_scalar(elt, a))
        elif k == "v": parts.append(coq_vec(elt, a))
        elif k == "b": parts.append(coq_band(elt, a))
    return "(" + " ".join(parts) + ")"

def bhist_line(elt, B, ops):
    return "band.hist " + tok_band(elt, B) + " " + " ".join(bop_line(elt, o) for o in ops)

def bhist_term(elt, B, ops):
    parts = []
    clean = True          # no mutating operation so far: the current state is the literal B
    for o in ops:
        if o[0] in SELF_OPS:
            if not clean: raise ValueError("same-object operators are generated on the initial state only")
            parts.append("(@%s %s %s)" % (BOPS[o[0]][0], ARITH[elt], coq_band(elt, B)))
        else:
            parts.append(bop_coq(elt, o))
            if o[0] in MUTATING: clean = False
    return "@band_hist %s %s %s %s" % (ARITH[elt], FLAT[elt], coq_band(elt, B), coq_list(parts))

# ------------------------------------------------------------------ the dense twin
def in_band(m1, m2, i, j):
    return i - m1 <= j <= i + m2

def dense_of(B, zero):
    """n x n list of rows: in-band, in-matrix entries of the compact literal, zero elsewhere"""
    n, m1, m2, vals = B
    mm = m1 + m2 + 1
    return [[(vals[i * mm + m1 + j - i] if in_band(m1, m2, i, j) else zero) for j in range(n)] for i in range(n)]

def zero_of(elt):
    return Fraction(0) if elt == 'rat' else (0.0 if elt == 'f64' else 0j)

def mag(x):
    return abs(x)

def exactify(x):
    """f64 -> Fraction (exact); others unchanged"""
    return Fraction(x) if isinstance(x, float) else x

def det_any(D, elt):
    """determinant of a dense matrix by elimination with magnitude pivoting (independent of the band code)"""
    n = len(D)
    if elt in ('rat', 'f64'):
        if not all(isfinite(x) for r in D for x in r): return None
        return det_exact([Fraction(x) for r in D for x in r], n)
    if not all(isfinite(x) for r in D for x in r): return None
    M = [list(r) for r in D]
    det = 1 + 0j
    for k in range(n):
        p = max(range(k, n), key=lambda i: abs(M[i][k]))
        if M[p][k] == 0: return 0j
        if p != k: M[p], M[k] = M[k], M[p]; det = -det
        det *= M[k][k]
        for i in range(k + 1, n):
            f = M[i][k] / M[k][k]
            for j in range(k, n): M[i][j] -= f * M[k][j]
    return det

def cond_inf(D):
    """infinity-norm condition number by numpy (floats / complex); inf when singular"""
    import numpy as np
    try:
        A = np.array(D, dtype=complex)
        if not np.all(np.isfinite(A)): return math.inf
        return float(np.linalg.cond(A, np.inf))
    except Exception:
        return math.inf

def needs_exchange(D, m1):
    """coverage statistic only (never a verdict): does elimination with magnitude pivoting inside the band window
    exchange rows at some stage of this (exact) matrix?"""
    n = len(D)
    M = [[Fraction(x) for x in r] for r in D]
    for k in range(n):
        hi = min(n, k + m1 + 1)
        p = max(range(k, hi), key=lambda i: (abs(M[i][k]), -i))
        if M[p][k] == 0: return False
        if p != k: return True
        for i in range(k + 1, hi):
            f = M[i][k] / M[k][k]
            if f != 0:
                for j in range(k, n): M[i][j] -= f * M[k][j]
    return False

class Unspecified(Exception):
    """the property makes no demand on this step: accept the implementation's answer, resynchronise"""

class MustPanic(Exception):
    pass

class Ref:
    """reference state: n, m1, m2 and the dense twin D"""
    def __init__(self, elt, B):
        self.elt = elt; self.zero = zero_of(elt)
        self.n, self.m1, self.m2 = B[0], B[1], B[2]
        self.D = dense_of(B, self.zero)
    def dims(self):
        return (self.n, self.m1, self.m2)
    def band_map(self, f):
        return [[(f(i, j) if in_band(self.m1, self.m2, i, j) else self.zero) for j in range(self.n)] for i in range(self.n)]

    def step(self, op):
        """returns (kind, value) with kind in None 's' 'v' 'D' 'n' 'all'; mutating ops update self.D.
        Raises MustPanic where the documented size/range conditions are violated, Unspecified where
        the property statement makes no demand."""
        name, a = op[0], op[1:]
        n, m1, m2, D, elt = self.n, self.m1, self.m2, self.D, self.elt
        if name == "new":
            self.n, self.m1, self.m2 = a[0], a[1], a[2]
            self.D = self.band_map(lambda i, j: a[3]); return (None, None)
        if name == "fill":
            self.D = self.band_map(lambda i, j: a[0]); return (None, None)
        if name == "resize":
            raise Unspecified()
        if name == "fill_band":
            if a[0] < -m1 or a[0] > m2: raise MustPanic()
            self.D = [[(a[1] if j - i == a[0] else D[i][j]) for j in range(n)] for i in range(n)]; return (None, None)
        if name == "set":
            i, j = a[0], a[1]
            if not in_band(m1, m2, i, j): raise MustPanic()
            if i >= n: raise Unspecified()           # row outside the matrix: outside the claim (the code falls off its buffer)
            if j < n: D[i][j] = a[2]                  # j >= n addresses padding: the dense twin must not move
            return (None, None)
        if name in ("add_assign", "sub_assign", "add_assign_own", "sub_assign_own", "add", "sub"):
            C = a[0]
            if (C[0], C[1], C[2]) != (n, m1, m2): raise MustPanic()
            E = dense_of(C, self.zero)
            sg = 1 if name.startswith("add") else -1
            R = [[D[i][j] + sg * E[i][j] for j in range(n)] for i in range(n)]
            if name in ("add", "sub"): return ('D', R)
            self.D = R; return (None, None)
        if name == "add_self": return ('D', [[x + x for x in r] for r in D])
        if name == "sub_self": return ('D', [[x - x for x in r] for r in D])
        if name in ("mul_assign_s", "scale"):
            R = [[x * a[0] for x in r] for r in D]
            if name == "scale": return ('D', R)
            self.D = R; return (None, None)
        if name in ("div_assign_s", "div"):
            if a[0] == 0: raise Unspecified()
            R = self.band_map(lambda i, j: D[i][j] / a[0])
            if name == "div": return ('D', R)
            self.D = R; return (None, None)
        if name in ("add_assign_s", "sub_assign_s"):
            # `B += c`: the constant is added to the stored (in-band) entries; a banded matrix cannot hold the others
            sg = 1 if name.startswith("add") else -1
            self.D = self.band_map(lambda i, j: D[i][j] + sg * a[0]); return (None, None)
        if name == "get":
            i, j = a
            if not in_band(m1, m2, i, j): raise MustPanic()
            if i >= n or j >= n: raise Unspecified()
            return ('s', D[i][j])
        if name == "getall":
            return ('all', [[(D[i][j] if in_band(m1, m2, i, j) else None) for j in range(n)] for i in range(n)])
        if name == "neg":
            return ('D', [[-x for x in r] for r in D])
        if name == "mulv":
            v = a[0]
            if len(v) != n: raise MustPanic()
            return ('v', [sum((D[i][j] * v[j] for j in range(n) if in_band(m1, m2, i, j)), self.zero) for i in range(n)])
        if name == "solve":
            if len(a[0]) != n: raise MustPanic()
            return ('solve', a[0])
        if name == "det":
            return ('det', None)
        if name == "size":
            return ('n', (n, m1, m2))
        if name == "dump":
            return ('state', None)
        raise ValueError(name)

# ------------------------------------------------------------------ walking an answer stream
def parse_state(items, pos, elt):
    n, m1, m2, r, c = (items[pos + k][1] for k in range(5))
    for k in range(5):
        if items[pos + k][0] != 'i': raise ValueError("state header")
    pos += 5
    vals = []
    for _ in range(r * c):
        x, pos = parse_items_scalar(items, pos, elt)
        vals.append(x)
    return (n, m1, m2, r, c, vals), pos

def close(elt, a, b, scale, tol=1e-11):
    if elt == 'rat': return a == b
    if isinstance(a, complex) or isinstance(b, complex):
        a, b = complex(a), complex(b)
        if not (isfinite(a) and isfinite(b)): return (str(a) == str(b))
    else:
        if a != a or b != b: return (a != a) and (b != b)
        if abs(a) == math.inf or abs(b) == math.inf: return a == b
    return abs(a - b) <= tol * max(scale, 1e-300)

def dense_scale(elt, D):
    """tolerance scale of the float comparisons of entries: the largest finite magnitude of the dense twin (0 = exact for Rat).
    An entry is compared normwise, not relative to itself: a sum that cancels to (nearly) zero carries the rounding of its
    operands (the bit-level demand on every entry is the model tie's, not the oracle's)"""
    return max([abs(x) for r in D for x in r if isfinite(x)] + [0.0]) if elt != 'rat' else 0

def dense_close(elt, D, E, tol=1e-11):
    n = len(D)
    sc = dense_scale(elt, D)
    for i in range(n):
        for j in range(n):
            if not close(elt, D[i][j], E[i][j], sc, tol):
                return "entry (%d,%d): reference %r, implementation %r" % (i, j, D[i][j], E[i][j])
    return None

# float determinants the oracle makes no demand on (reported in the coverage, zero included)
DET_UNJUDGED_RANGE = "det-float-unjudged (row-norm product >= 1e300 or not finite)"
DET_UNJUDGED_NONFINITE = "det-float-unjudged (non-finite entry in the dense twin)"
SOLVE_BACKWARD = 1e-11
COND_LIMIT = 1e8

VALUE_SHAPE = {"get": "s", "det": "s", "mulv": "v", "solve": "v", "neg": "B", "add": "B", "sub": "B", "scale": "B", "div": "B", "add_self": "B", "sub_self": "B",
               "dump": "B", "size": "n", "getall": "all"}

def skip_value(op, items, pos, elt, n):
    """step over the answer of one op without judging it"""
    if pos < len(items) and items[pos][0] == 'P' and op[0] != "getall": return pos + 1
    sh = VALUE_SHAPE.get(op[0])
    if sh is None: return pos + 1          # i0
    if sh == "s": return parse_items_scalar(items, pos, elt)[1]
    if sh == "v": return parse_items_vec(items, pos, elt)[1]
    if sh == "B": return parse_state(items, pos, elt)[1]
    if sh == "n": return pos + 3
    for _ in range(n * n):
        if items[pos][0] == 'P': pos += 1
        else: pos = parse_items_scalar(items, pos, elt)[1]
    return pos

def walk(elt, B, ops, items, stats=None):
    """Compare the implementation's answer to a band.hist case with the dense-twin reference.
    Returns None or a description of the first disagreement with the property statement."""
    stats = stats if stats is not None else {}
    def bump(k): stats[k] = stats.get(k, 0) + 1
    pos = 0
    st, pos = parse_state(items, pos, elt)
    n, m1, m2, vals = B
    # construction through new / index_mut / resize must store exactly the literal (padding included)
    if (st[0], st[1], st[2], st[3], st[4]) != (n, m1, m2, n, m1 + m2 + 1):
        return "constructed matrix has sizes %r, expected n=%d m1=%d m2=%d compact %dx%d" % (st[:5], n, m1, m2, n, m1 + m2 + 1)
    for k, (x, y) in enumerate(zip(vals, st[5])):
        if tok_scalar(elt, x) != tok_scalar(elt, y):
            return "compact slot %d after construction: wrote %r, storage holds %r" % (k, x, y)
    ref = Ref(elt, B)
    lost = False          # True after a step the property does not speak about: resynchronise at the next dump
    for opi, op in enumerate(ops):
        what = "op %d %s" % (opi, op[0])
        panicked = pos < len(items) and items[pos][0] == 'P' and op[0] != "getall"
        if lost and op[0] != "dump":
            pos = skip_value(op, items, pos, elt, ref.n)
            if op[0] == "new" and not panicked: ref.step(op); lost = False
            if op[0] == "resize" and not panicked: ref.n, ref.m1, ref.m2 = op[1], op[2], op[3]
            continue
        expect = None; must_panic = False; unspecified = False
        if not lost:
            try:
                expect = ref.step(op)
            except MustPanic:
                must_panic = True
            except Unspecified:
                unspecified = True
        if unspecified:
            pos = skip_value(op, items, pos, elt, ref.n)
            bump("unspecified")
            if op[0] == "resize" and not panicked: ref.n, ref.m1, ref.m2 = op[1], op[2], op[3]
            if op[0] in ("resize", "div_assign_s") or (op[0] == "set" and not panicked):
                lost = True
            continue
        if op[0] == "dump":
            st, pos = parse_state(items, pos, elt)
            if (st[0], st[1], st[2], st[3], st[4]) != (ref.n, ref.m1, ref.m2, ref.n, ref.m1 + ref.m2 + 1):
                return "%s: state has sizes %r, expected n=%d m1=%d m2=%d" % (what, st[:5], ref.n, ref.m1, ref.m2)
            E = dense_of((st[0], st[1], st[2], st[5]), ref.zero)
            if lost:
                ref.D = E; lost = False; bump("resync")
            else:
                d = dense_close(elt, ref.D, E)
                if d: return "%s: stored matrix differs from the dense twin after the preceding operations: %s" % (what, d)
                bump("state")
            continue
        if op[0] == "getall":
            # n*n entries, each a value or a panic
            exp = expect[1]
            gsc = dense_scale(elt, ref.D)
            for i in range(ref.n):
                for j in range(ref.n):
                    if items[pos][0] == 'P':
                        if exp[i][j] is not None: return "%s: index (%d,%d) is in the band but the access panicked" % (what, i, j)
                        pos += 1
                    else:
                        x, pos = parse_items_scalar(items, pos, elt)
                        if exp[i][j] is None: return "%s: index (%d,%d) is outside the band but the access returned %r" % (what, i, j, x)
                        if not close(elt, exp[i][j], x, gsc):
                            return "%s: element (%d,%d) is %r, the dense twin has %r" % (what, i, j, x, exp[i][j])
            bump("getall")
            continue
        if panicked:
            pos += 1
            cls = items[pos - 1][1]
            if must_panic: bump("rejected"); continue
            if expect is not None and expect[0] == 'solve':
                # a panic is acceptable only on a singular system
                d = det_any(ref.D, elt)
                if elt == 'rat' and d != 0:
                    return "%s: solver panicked (%s) on a nonsingular system (det = %s)" % (what, cls, d)
                if elt != 'rat' and d is not None and d != 0 and cond_inf(ref.D) <= COND_LIMIT:
                    return "%s: solver panicked (%s) on a well-conditioned system" % (what, cls)
                bump("solve-singular"); continue
            return "%s: valid operation panicked (%s)" % (what, cls)
        if must_panic:
            return "%s: mismatched sizes / out-of-band argument was accepted instead of rejected" % what
        kind = expect[0] if expect else None
        if kind is None:
            if items[pos] != ('i', 0): return "%s: unexpected answer %r" % (what, items[pos])
            pos += 1
        elif kind == 's':
            x, pos = parse_items_scalar(items, pos, elt)
            if not close(elt, expect[1], x, dense_scale(elt, ref.D)):
                return "%s: got %r, dense twin has %r" % (what, x, expect[1])
            bump("get")
        elif kind == 'n':
            got = tuple(items[pos + k][1] for k in range(3)); pos += 3
            if got != expect[1]: return "%s: sizes %r, expected %r" % (what, got, expect[1])
        elif kind == 'v':
            x, pos = parse_items_vec(items, pos, elt)
            if len(x) != len(expect[1]): return "%s: result has %d components" % (what, len(x))
            sc = 0
            if elt != 'rat':
                # scale by |D||v| (cancellation inside a row sum is not an error of the product)
                sc = max([sum(abs(ref.D[i][j]) * abs(op[1][j]) for j in range(ref.n)) for i in range(ref.n)] + [0.0])
            for i, (e, g) in enumerate(zip(expect[1], x)):
                if not close(elt, e, g, sc):
                    return "%s: component %d of the product is %r, dense twin gives %r" % (what, i, g, e)
            bump("mulv")
        elif kind == 'D':
            rs, pos = parse_state(items, pos, elt)
            if (rs[0], rs[1], rs[2], rs[3], rs[4]) != (ref.n, ref.m1, ref.m2, ref.n, ref.m1 + ref.m2 + 1):
                return "%s: result has sizes %r" % (what, rs[:5])
            E = dense_of((rs[0], rs[1], rs[2], rs[5]), ref.zero)
            d = dense_close(elt, expect[1], E)
            if d: return "%s: result differs from the dense twin's: %s" % (what, d)
            bump("arith")
        elif kind == 'det':
            x, pos = parse_items_scalar(items, pos, elt)
            d = det_any(ref.D, elt)
            if elt == 'rat':
                if x != d: return "%s: determinant %s, dense twin has %s" % (what, x, d)
                bump("det-exact")
            elif d is not None:
                sc = 1.0
                for r in ref.D: sc *= float(sum(abs(t) for t in r))
                if isfinite(sc) and sc < 1e300:
                    if elt == 'f64': d = float(d)          # |det| <= product of the row norms (Hadamard): in range here
                    if not (isfinite(x) and abs(x - d) <= 1e-9 * sc + 1e-300):
                        return "%s: determinant %r, dense twin has %r (row-norm product %g)" % (what, x, d, sc)
                    bump("det-float")
                else: bump(DET_UNJUDGED_RANGE)
            else: bump(DET_UNJUDGED_NONFINITE)
        elif kind == 'solve':
            x, pos = parse_items_vec(items, pos, elt)
            b = expect[1]; nn = ref.n; D = ref.D
            if len(x) != nn: return "%s: solution has %d components for n=%d" % (what, len(x), nn)
            if elt == 'rat':
                d = det_any(D, elt)
                if d != 0:
                    r = [b[i] - sum(D[i][j] * x[j] for j in range(nn)) for i in range(nn)]
                    if any(v != 0 for v in r): return "%s: exact residual b - D x = %s on a nonsingular system" % (what, [str(v) for v in r])
                    bump("solve-exact")
                    if needs_exchange(D, ref.m1): bump("solve-exact-with-row-exchange")
                else: bump("solve-singular")
            else:
                if all(isfinite(t) for r in D for t in r) and cond_inf(D) <= COND_LIMIT:
                    if not all(isfinite(v) for v in x): return "%s: non-finite solution of a well-conditioned system: %r" % (what, x)
                    res = max(abs(b[i] - sum(D[i][j] * x[j] for j in range(nn))) for i in range(nn))
                    bound = SOLVE_BACKWARD * (max(sum(abs(t) for t in r) for r in D) * max(abs(v) for v in x) + max(abs(v) for v in b))
                    if res > bound: return "%s: backward error %g exceeds %g*(|D||x|+|b|) = %g" % (what, res, SOLVE_BACKWARD, bound)
                    bump("solve-float")
                else: bump("solve-illcond-skipped")
    if pos != len(items):
        return "answer has %d trailing items" % (len(items) - pos)
    return None
