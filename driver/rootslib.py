# driver/rootslib.py -- C10 machinery shared by driver/c10.py and the scratch experiments:
# executor lines of kind roots.solve, parsing of its answer (roots + recorded libm call log), the
# oracle table as a Gallina term, the model terms (tie / trace), and the LAZY term that lets the
# frozen engine pipeline carry a model term which depends on the implementation's own run.
import os, math, json, threading
from common import *

CANON_NAN = 0x7FF8000000000000

def canon_bits(b):
    """bit pattern with every NaN mapped to the one canonical NaN of Inst/FloatInst.v `bits`"""
    if (b >> 52) & 0x7FF == 0x7FF and (b & ((1 << 52) - 1)) != 0:
        return CANON_NAN
    return b

def coeff_bits(coeffs):
    """the coefficients as a tuple of (re bits, im bits): distinguishes -0.0 from 0.0"""
    return tuple((f64_bits(complex(c).real), f64_bits(complex(c).imag)) for c in coeffs)

def line_for(elt, coeffs, refine, dumplog):
    return "roots.solve %s %d %d" % (tok_vec(elt, coeffs), 1 if refine else 0, 1 if dumplog else 0)

def parse_answer(items):
    """decoded executor items -> dict(panic=..., roots=[complex], bits=[(re,im)], log=[(which,[4 keys],(re,im))] | None, nohook=bool)"""
    out = {"panic": None, "roots": [], "bits": [], "log": None, "nohook": False}
    if items and items[-1][0] == 'P':
        out["panic"] = items[-1][1]
        return out
    n = items[0][1]
    pos = 1
    for k in range(n):
        br, bi = items[pos][1], items[pos + 1][1]
        out["bits"].append((br, bi))
        out["roots"].append(complex(bits_f64(br), bits_f64(bi)))
        pos += 2
    if pos < len(items):
        if items[pos][0] == 't':
            out["nohook"] = True
            out["log"] = []
        else:
            cnt = items[pos][1]; pos += 1
            log = []
            for k in range(cnt):
                w = items[pos][1]
                keys = [canon_bits(items[pos + 1 + i][1]) for i in range(4)]
                res = (items[pos + 5][1], items[pos + 6][1])
                log.append((w, keys, res))
                pos += 7
            out["log"] = log
    return out

def hexf(x):
    """exact Coq float literal (hexadecimal; parsed natively and cheaply)"""
    x = float(x)
    if x != x: return "nan"
    if x == math.inf: return "infinity"
    if x == -math.inf: return "neg_infinity"
    h = abs(x).hex()
    return "(-%s)" % h if math.copysign(1.0, x) < 0 else h

def table_term(log):
    """the oracle table as a flat `list float` (7 per call); duplicate keys dropped (first wins, like olookup)"""
    seen = set()
    nums = []
    for w, keys, res in log:
        k = (w, tuple(keys))
        if k in seen:
            continue
        seen.add(k)
        nums += [float(w)] + [bits_f64(x) for x in keys] + [bits_f64(res[0]), bits_f64(res[1])]
    return "[" + ";".join(hexf(x) for x in nums) + "]%float"

def coeffs_term(elt, coeffs):
    if elt == 'f64':
        return "[" + ";".join(hexf(x) for x in coeffs) + "]%float"
    return "[" + ";".join("@mkC AF %s %s" % (hexf(complex(x).real), hexf(complex(x).imag)) for x in coeffs) + "]%float"

def model_term(elt, coeffs, refine, log, trace=False):
    fn = "roots_f64" if elt == 'f64' else "roots_cplx"
    fl = "fl_roots_trace" if trace else "fl_roots"
    t = "%s (%s (%s) %s %s)" % (fl, fn, table_term(log), coeffs_term(elt, coeffs), "true" if refine else "false")
    if trace:
        # last two items of the trace stream: the cancellation flags of the Cardano path (degree 3 only)
        t += " ++ fl_diag (%s (%s) %s)" % ("cubic_diag_f64" if elt == 'f64' else "cubic_diag_cplx", table_term(log), coeffs_term(elt, coeffs))
    return t

def exe_path():
    return os.path.join(TARGET, "debug", "exec")

def run_logs(cases):
    """cases: list of (elt, coeffs, refine).  One executor run with dumplog = 1; returns the parsed answers."""
    if not cases:
        return []
    lines = ["L%d %s %s" % (k, elt, line_for(elt, coeffs, refine, True)) for k, (elt, coeffs, refine) in enumerate(cases)]
    ans = run_harness(exe_path(), lines, "C10log")
    return [parse_answer(decode_harness(ans["L%d" % k])) for k in range(len(cases))]

class LazyTerm:
    """A Gallina term that is only printed when the engine writes the case file, i.e. AFTER the
    executor has been (re)built from the current tree: the first str() runs the executor once over
    every registered case with the call log switched on and embeds each case's oracle table."""
    registry = []
    cache = None
    lock = threading.Lock()      # run_coq prints the shards from several threads
    def __init__(self, elt, coeffs, refine):
        # the identity of a case is the BIT PATTERN of its coefficients: -0.0 == 0.0 in python, but the two are
        # different inputs (different recorded libm arguments), so the key carries the bits, not the values
        self.coeffs = list(coeffs)
        self.key = (elt, coeff_bits(coeffs), bool(refine))
        LazyTerm.registry.append(self)
        LazyTerm.cache = None
    @classmethod
    def fill(cls):
        keys = []
        todo = []
        seen = set()
        for t in cls.registry:
            if t.key not in seen:
                seen.add(t.key); keys.append(t.key); todo.append((t.key[0], list(t.coeffs), t.key[2]))
        answers = run_logs(todo)
        cls.cache = dict(zip(keys, answers))
    @classmethod
    def answer(cls, key):
        with cls.lock:
            if cls.cache is None or key not in cls.cache:
                cls.fill()
            return cls.cache[key]
    def log(self):
        a = LazyTerm.answer(self.key)
        return a["log"] or []
    def __str__(self):
        elt, _, refine = self.key
        return model_term(elt, list(self.coeffs), refine, self.log(), trace=False)
    def trace_term(self):
        elt, _, refine = self.key
        return model_term(elt, list(self.coeffs), refine, self.log(), trace=True)

IMPORTS = "From OV Require Import Model.Roots."

def parse_trace(zs, n_expected=None):
    """decode the fl_roots_trace stream -> (root bits [(re,im)], [(exit, iters, finite_in, finite_out, test_ok, x_in)]) or ('P', kind)"""
    items = decode_coq(zs)
    if items and items[0][0] == 'P':
        return None, items[0][1], (0, 0)
    n = items[0][1]; pos = 1
    bits = []
    for k in range(n):
        bits.append((items[pos][1], items[pos + 1][1])); pos += 2
    cnt = items[pos][1]; pos += 1
    tr = []
    for k in range(cnt):
        tr.append((items[pos][1], items[pos + 1][1], items[pos + 2][1], items[pos + 3][1], items[pos + 4][1],
                   complex(bits_f64(items[pos + 5][1]), bits_f64(items[pos + 6][1])))); pos += 7
    cancels = (0, 0)
    if pos + 1 < len(items) and items[pos][0] == 'i' and items[pos + 1][0] == 'i':
        cancels = (items[pos][1], items[pos + 1][1])
    return bits, tr, cancels
