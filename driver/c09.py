# C09 -- iterative solvers converge on well-posed systems (SPD for CG; strictly diagonally dominant for
#        BiCG / BiCGSTAB / QMR) within O(n) iterations and agree with the direct solution; degenerate
#        starts (exact guess; zero right-hand side with zero guess) are accepted and never corrupt x.
import math
import numpy as np
from common import *
from engine import Case
import iterlib
from iterlib import *

PID = "C09"
IMPORTS = iterlib.IMPORTS
MODEL_VO = iterlib.MODEL_VO
ITER_A, ITER_B = 3, 10          # iteration bound 3n+10 (DESIGN section 7, C09: calibrated on the repaired tree)
KAPPA_MAX = 1e4
RULE = ("SPD systems (Gram + shift, random sparse pattern; solver CG) and strictly row-diagonally-dominant nonsymmetric systems (random pattern "
        "and signs; solvers BiCG itol 1/2, BiCGSTAB, QMR) of order 1..60 (quick: 1..40), condition (2-norm for SPD, Gershgorin proxy for SDD) <= 1e4, "
        "any triplet order; right-hand sides plain / scaled by 2^-30..2^30 / zero; guesses zero / random / exact; tol 1e-3..1e-12; budget 20n+100. "
        "Demanded: Ok within 3n+10 iterations (mixed-sign diagonals: within the budget 20n+100), x finite, ||x - x_direct|| <= 2*tol*kappa*||x_direct|| -- only where attainable in f64 "
        "(tol >= 10*n*2^-52*kappa; with b = 0: tol >= 1e-13*||A||*||x0||). Exact guess (float residual exactly 0) and zero rhs + zero guess: Ok(0), x untouched. "
        "Systems of order <= 12 also go through the correspondence check. distinct = distinct executor line; non-trivial = order >= 2.")
TRUSTED = ["Coq 8.16.1 kernel + vm_compute (primitive floats)", "Rust executor /verif/harness (kinds it.*)",
           "python driver: generators, numpy.linalg.solve / cond reference, stream comparators",
           "hand-written Gallina model coq/Model/Iter.v (on top of coq/Model/Sparse.v) tied to src/sparse.rs:303-616 by differential execution"]
ASSUMPTIONS = ["Rust semantics of Vec/usize/f64 as modelled", "the iteration bound 3n+10 and the attainability rule are calibrated constants of the search, not theorems"]
UNPROVED = ["convergence is proved in EXACT arithmetic only: cg_terminates_spd_R (SPD, every b, x0, tol >= 0, budget >= n: Ok k with k <= n, solved), cg_direct_solver_R, the same for symmetric strictly diagonally dominant matrices with positive diagonal (sdd_symmetric_is_posdef) and for BiCG on symmetric matrices (bicg_is_cg_on_symmetric); for arbitrary matrices bicg_breakdown_or_terminates (BiCG divides by zero or returns Ok within n+1 iterations); the exits of BiCGSTAB / QMR are characterised and the left-eigenvector class of the recorded breakdowns is a theorem. NOT proved: anything positive about BiCGSTAB / QMR beyond eigenvector and 1x1 starts, and every statement about the floating-point iteration (success within 3n+10, agreement with the direct solution to tol*cond): failing-input search only",
            "the degenerate-start theorems are over exact fields (any square-root function with sqrt 0 = 0); their f64 instances are covered by the tie and the search"]

MANIFEST = dict(
    text=("Theorems about the Gallina model of the four solvers (BiCG after the repair d2fe329). Over any field, ANY square-root function with sqrt 0 = 0, "
          "every matrix given as a linear product, every size, budget and tolerance >= 0: exact_guess_ok0 (b - A x0 = 0 => Ok 0, x0 untouched, all solvers, both "
          "BiCG error measures), exact_guess_ok0_rows (the same for EVERY square matrix given as its list of rows) and zero_rhs_zero_guess_ok0. Over ANY arithmetic, floats included: startup_accepts (if the start-up residual the code forms "
          "passes the code's test, Ok 0 with x0 untouched) and zero_budget_keeps_x. The pre-repair BiCG is kept in coq/Legacy/C09Refuted.v with "
          "bicg_legacy_refuted (float instance: Err nan, x = nan on diag(2,3), b=(2,3), x0=(1,1)). The CONVERGENCE half (Ok within 3n+10 iterations on SPD / "
          "strictly diagonally dominant systems of condition <= 1e4, agreement with the direct solution) is NOT proved: it is a failing-input search against "
          "numpy on order <= 60, with the float model tied to the implementation on order <= 12. The search found a new failure class (exact Krylov "
          "breakdowns of BiCG / BiCGSTAB / QMR on small-integer systems), recorded as three open findings keyed by the model's exit code."),
    note=("PARTIAL: the degenerate-start half and exact-arithmetic finite termination of CG / symmetric BiCG on SPD and symmetric diagonally dominant systems are theorems. Convergence of the floating-point Krylov iterations is searched, never proved; the iteration "
          "constant 3n+10 (positive-diagonal SDD and SPD; 20n+100 for mixed-sign diagonals) and the attainability rule tol >= 10 n eps kappa are calibrated."),
    technique="Coq proof over an abstract field (degenerate starts) + float-model/implementation differential execution + numpy reference search (convergence)",
    design="7 (C09)")

def solvers_for(fam):
    return ["cg"] if fam == "spd" else ["bicg1", "bicg2", "bicgstab", "qmr"]

def gen_system(g, n, fam, ints):
    """returns (A dict, kappa) with kappa <= KAPPA_MAX, or None"""
    for _ in range(20):
        if fam == "spd":
            A = spd_system(g, n, ints)
            D = np.zeros((n, n))
            for (i, j), v in A.items(): D[i, j] = v
            kap = float(np.linalg.cond(D, 2))
        else:
            A = sdd_system(g, n, ints, mixed_sign=(fam == "sdd-mixed"))
            kap = gershgorin_kappa(A, n)
        if kap <= KAPPA_MAX:
            return A, kap
    return None

def generate(rng, tier):
    cases = []
    quick = (tier == "quick")
    g = rng.fork("c09")
    maxn = 40 if quick else 60
    nsmall = 70 if quick else 1200
    nbig = 40 if quick else 900
    def emit(n, fam, tag, guess=None, rhs=None):
        ints = g.chance(1, 2)
        r = gen_system(g, n, fam, ints)
        if r is None: return
        A, kap = r
        trip = triplets_of(g, A)
        rhs_kind = rhs or g.choice(["plain", "plain", "scaled", "scaled", "zero", "tiny"])
        guess_kind = guess or g.choice(["zero", "zero", "random", "random", "exact"])
        b, x0, xt = rhs_and_guess(g, n, trip, guess_kind, rhs_kind, ints)
        s = Sys(n, n, trip, b, x0, {"fam": fam, "rhs": rhs_kind, "guess": guess_kind})
        tol = pick_tol(g, 3, 12)
        for sv in solvers_for(fam):
            cases.extend(mk_cases(sv, s, 20 * n + 100, tol, "%s-%s" % (tag, fam), nontrivial=(n >= 2),
                                 extra={"kappa": kap, "wellposed": True}))
    fams = ["spd", "sdd", "sdd", "sdd-mixed"]
    for t in range(nsmall):
        emit(1 + (t % TIE_MAX_N), fams[t % len(fams)], "small")
    for t in range(nbig):
        emit(g.range(TIE_MAX_N + 1, maxn), fams[t % len(fams)], "big")
    # degenerate starts on every solver: exact guess, zero rhs + zero guess
    for t in range(16 if quick else 80):
        n = g.range(1, 10) if t % 4 else g.range(11, maxn)
        fam = fams[t % len(fams)]
        emit(n, fam, "degenerate", guess=("exact" if t % 2 == 0 else "zero"), rhs=("plain" if t % 2 == 0 else "zero"))
    # zero right-hand side with a NON-zero guess: the solution is 0; "accepted as solved" must not be granted without
    # looking at the residual (the code's tolerance is absolute here)   [added after seeded mutation C09-3]
    for t in range(12 if quick else 60):
        n = g.range(2, 9) if t % 3 else g.range(10, maxn)
        emit(n, fams[t % len(fams)], "zero-rhs-guess", guess="random", rhs="zero")
    return finalize(cases, PID)

case_from_json = iterlib.case_from_json

STATS = {"demanded_success": 0, "not_attainable_skipped": 0, "max_iters_over_n": 0.0, "max_err_over_tol_kappa": 0.0,
         "degenerate_exact_guess": 0, "degenerate_zero_rhs_zero_guess": 0, "err_answers_outside_demand": 0}

def oracle(case, items):
    m = case.meta
    if m.get("role") == "tie":
        return None          # judged through its oracle twin (same system, full answer)
    a = Ans(items)
    s = Sys.from_json(m["sys"])
    n, tol, maxit = s.rows, m["tol"], m["maxit"]
    if not m.get("wellposed"):
        return None
    if a.panic:
        return "solver panicked (%s) on a well-posed %dx%d system" % (a.panic, n, n)
    if len(a.x) != n: return "x has %d components, order %d" % (len(a.x), n)
    A = s.dense()
    nb = norm2(s.b)
    # ---- degenerate starts
    r0 = csc_mul(s.trip, n, s.x0)
    exact0 = all(bi - ri == 0.0 for bi, ri in zip(s.b, r0))      # the float residual the solver forms is exactly zero
    if exact0:
        if nb == 0.0 and all(v == 0.0 for v in s.x0): STATS["degenerate_zero_rhs_zero_guess"] += 1
        else: STATS["degenerate_exact_guess"] += 1
        if not all_finite(a.x): return "start with zero residual: x became non-finite %r" % (a.x[:4],)
        if not a.ok: return "start with zero residual (exact guess / zero rhs with zero guess) was not accepted: Err(%r)" % (a.err,)
        if [f64_bits(v) for v in a.x] != [f64_bits(v) for v in s.x0]:
            return "start with zero residual: a correct x was modified %r -> %r" % (s.x0[:4], a.x[:4])
        return None
    # ---- convergence, where attainable in f64
    kap = m["kappa"]
    if tol < 10 * n * 2.0 ** -52 * kap:
        STATS["not_attainable_skipped"] += 1
        if not a.ok: STATS["err_answers_outside_demand"] += 1
        return None if (a.ok is False or all_finite(a.x)) else "Ok but x not finite"
    if nb == 0.0 and tol < 1e-13 * spec_norm(A) * norm2(s.x0):
        STATS["not_attainable_skipped"] += 1
        return None
    STATS["demanded_success"] += 1
    if not all_finite(a.x): return "x is not finite on a well-posed system: %r" % (a.x[:4],)
    if not a.ok:
        return "no convergence on a well-posed system (kappa %.3g, n=%d, tol %.0e): Err(%.3e) (budget %d)" % (kap, n, tol, a.err, maxit)
    # positive-diagonal SDD and SPD: the calibrated 3n+10; mixed-sign diagonals (indefinite symmetric part): only
    # "proportional to the dimension" = within the budget 20n+100 (near-breakdowns slow BiCG/QMR down to ~9n there)
    bound = ITER_A * n + ITER_B if s.info.get("fam") != "sdd-mixed" else maxit
    STATS["max_iters_over_n"] = max(STATS["max_iters_over_n"], a.k / float(n))
    if a.k > bound:
        return "Ok(%d) needs more than %d*n+%d = %d iterations (n=%d, kappa %.3g, tol %.0e)" % (a.k, ITER_A, ITER_B, bound, n, kap, tol)
    xd = np.linalg.solve(A, np.array(s.b))
    err = float(np.linalg.norm(np.array(a.x) - xd))
    nxd = float(np.linalg.norm(xd))
    k2 = float(np.linalg.cond(A, 2))
    kk = max(kap, k2)
    if nb != 0.0:
        lim = 2 * tol * kk * nxd + 1e-12 * kk * nxd       # ||x - x*|| <= kappa ||r|| / ||b|| ||x*||, accepted r <= tol ||b||; factor 2 + 1e-12 kappa for the drift of the recursive residual
    else:
        lim = 2 * tol * float(np.linalg.norm(np.linalg.inv(A), 2))          # absolute tolerance when b = 0
    if nxd > 0 and nb != 0.0:
        STATS["max_err_over_tol_kappa"] = max(STATS["max_err_over_tol_kappa"], err / (tol * kk * nxd))
    if err > lim:
        return "Ok(%d) but ||x - x_direct|| = %.3e exceeds 2*tol*kappa*||x_direct|| = %.3e (tol %.0e, kappa %.3g)" % (a.k, err, lim, tol, kk)
    return None

def finding_key(case, desc, decoded):
    if decoded is None or not ("no convergence" in desc or "not finite" in desc or "needs more than" in desc):
        return None
    return breakdown_key(case, decoded, PID)

def prepare(tier):
    del iterlib.PENDING[:]

def extra_coverage():
    return {"c09": dict(STATS), "iteration_bound": "%d*n+%d" % (ITER_A, ITER_B), "kappa_max": KAPPA_MAX}
