# C09 -- iterative solvers converge on well-posed systems (SPD for CG; strictly diagonally dominant for
#        BiCG / BiCGSTAB / QMR) within O(n) iterations and agree with the direct solution; degenerate
#        starts (exact guess; zero right-hand side with zero guess) are accepted and never corrupt x.
import math
import numpy as np
from common import *
from engine import Case
import iterlib
from iterlib import *

PID = "C09"
IMPORTS = iterlib.IMPORTS
MODEL_VO = iterlib.MODEL_VO
ITER_A, ITER_B = 3, 10          # iteration bound 3n+10 (DESIGN section 7, C09: calibrated on the repaired tree)
KAPPA_MAX = 1e4
RULE = ("SPD systems (Gram + shift, random sparse pattern; solver CG) and strictly row-diagonally-dominant nonsymmetric systems (random pattern "
        "and signs; solvers BiCG itol 1/2, BiCGSTAB, QMR) of order 1..60 (quick: 1..40), condition (2-norm for SPD, Gershgorin proxy for SDD) <= 1e4, "
        "any triplet order; right-hand sides plain / scaled by 2^-30..2^30 / tiny = scaled by 2^-(55..200) (3 of 4) or 2^+(55..200) (drawn with p = 1/6) / zero; guesses zero / random / exact; tol 1e-3..1e-12; budget 20n+100. "
        "Demanded: Ok within 3n+10 iterations (mixed-sign diagonals: within the budget 20n+100), x finite, ||x - x_direct|| <= 2*tol*kappa*||x_direct|| + 1e-12*kappa*||x_direct|| (the second term for the drift of the recursive residual; b = 0: 2*tol*||A^-1||) -- only where attainable in f64 "
        "(tol >= 10*n*2^-52*kappa; with b = 0: tol >= 1e-13*||A||*||x0||). Exact guess (float residual exactly 0) and zero rhs + zero guess: Ok(0), x untouched. "
        "Systems of order <= 12 also go through the correspondence check. SPECIAL-VALUES FAMILIES (same demands): struct-* = structured SPD / strictly diagonally "
        "dominant matrices of order 1,2,3,4,5,8 (identity, 2I, I/2, -I, diagonal with equally spaced / two distinct / mixed-sign eigenvalues, tridiagonal symmetric / "
        "Laplacian / nonsymmetric, dense upper / lower triangular, dense with equal or alternating entries, arrow, decoupled blocks, explicitly stored zeros) x right-hand "
        "side (A*xt, ones, e_first, e_last, e_mid, alternating, unit norm (0.6,0.8), zero, -0.0) x guess (zero, -0.0, ones, exact, exact except one component, 2*xt, -xt) "
        "x scale (A*2^sa, b*2^sb) x tol (also 2^-20, 2^-33, 3.7e-5, 6.1e-11); exact-zeros = diagonal / block matrices with b = ones or alternating (components of r "
        "vanish exactly during the iteration); scaled-* = random SPD / SDD / mixed systems with A*2^(+-60,120,200), b*2^(0,+-100,+-sa), both signs for every class on "
        "every run; history = executor kind it.seq: an operation on the matrix object (none, transpose twice, from_vecs, insert, scale by 2 or 1/2, x.clone()) then two "
        "calls on the same matrix and x; the call with the budget 20n+100 carries the demands with the previous x as its guess. "
        "extreme-scale = adversarial family of the RECORDED finding f64-square-range (5 systems per quick run, all five entry points): small SPD / strictly diagonally "
        "dominant systems with b or A scaled by 2^+-(520..700) or a solution beyond the f64 range; a failure carries the key exactly when the INPUT has ||b||^2, the "
        "square of an entry of b / x0 / A or a product A_ij x_j of the exact solution outside [2^-1022, 2^1024) AND the failure is a symptom of that cause (x non-finite, Err, Ok with x far from the direct solution, a count above the bound -- not a panic, a wrong length, a modified correct x); inputs in range fall through to the breakdown keys; histories never. "
        "distinct = distinct executor line; non-trivial = order >= 2.")
TRUSTED = ["Coq 8.16.1 kernel + vm_compute (primitive floats)", "Rust executor /verif/harness (kinds it.*)",
           "python driver: generators, numpy.linalg.solve / cond reference, stream comparators",
           "hand-written Gallina model coq/Model/Iter.v (on top of coq/Model/Sparse.v) tied to src/sparse.rs:303-616 by differential execution"]
ASSUMPTIONS = ["Rust semantics of Vec/usize/f64 as modelled", "the iteration bound 3n+10 and the attainability rule are calibrated constants of the search, not theorems",
               "calibration set of 3n+10: the random families small-* / big-* (SPD Gram+shift for CG; strictly row-diagonally-dominant with positive diagonal for BiCG 1/2, BiCGSTAB, QMR; "
               "order 1..60, condition <= 1e4, tol 1e-3..1e-12) on the repaired tree (BiCG after d2fe329); the same bound is now ALSO applied, without a new calibration, to the struct-*, "
               "exact-zeros, unit-rhs, scaled-* and history families; the largest count seen over all of them is 2.7n (evidence: c09.max_iters_over_n); mixed-sign diagonals are held to the budget 20n+100 only"]
UNPROVED = ["convergence is proved in EXACT arithmetic only: cg_terminates_spd_R (SPD, every b, x0, tol >= 0, budget >= n: Ok k with k <= n, solved), cg_direct_solver_R, the same for symmetric strictly diagonally dominant matrices with positive diagonal (sdd_symmetric_is_posdef) and for BiCG on symmetric matrices (bicg_is_cg_on_symmetric); for arbitrary matrices bicg_breakdown_or_terminates (BiCG divides by zero or returns Ok within n+1 iterations); the exits of BiCGSTAB / QMR are characterised and the left-eigenvector class of the recorded breakdowns is a theorem. NOT proved: anything positive about BiCGSTAB / QMR beyond eigenvector and 1x1 starts, and every statement about the floating-point iteration (success within 3n+10, agreement with the direct solution to tol*cond): failing-input search only",
            "RECORDED finding f64-square-range (same mechanism as C15: Vector<f64>::norm_2 squares its entries without scaling): 'right-hand sides of any scale' fails beyond 2^+-511 -- with ||b|| < 2^-511 every solver answers Ok(0) and leaves x at the guess, with ||b|| > 2^512 norm_2(b) = inf and the answer is Err(NaN) with x = NaN; entries of A beyond 2^+-511 overflow / underflow the dot products likewise; witnesses corpus/C09/kf_scale_underflow.json, kf_scale_overflow.json",
            "the degenerate-start theorems are over exact fields (any square-root function with sqrt 0 = 0); their f64 instances are covered by the tie and the search"]

MANIFEST = dict(
    text=("Theorems about the Gallina model of the four solvers (BiCG after the repair d2fe329). Over any field, ANY square-root function with sqrt 0 = 0, "
          "every matrix given as a linear product, every size, budget and tolerance >= 0: exact_guess_ok0 (b - A x0 = 0 => Ok 0, x0 untouched, all solvers, both "
          "BiCG error measures), exact_guess_ok0_rows (the same for EVERY square matrix given as its list of rows) and zero_rhs_zero_guess_ok0. Over ANY arithmetic, floats included: startup_accepts (if the start-up residual the code forms "
          "passes the code's test, Ok 0 with x0 untouched) and zero_budget_keeps_x. The pre-repair BiCG is kept in coq/Legacy/C09Refuted.v with "
          "bicg_legacy_refuted (float instance: Err nan, x = nan on diag(2,3), b=(2,3), x0=(1,1)). The CONVERGENCE half (Ok within 3n+10 iterations on SPD / "
          "strictly diagonally dominant systems of condition <= 1e4, agreement with the direct solution) is NOT proved: it is a failing-input search against "
          "numpy on order <= 60, with the float model tied to the implementation on order <= 12. The search found a new failure class (exact Krylov "
          "breakdowns of BiCG / BiCGSTAB / QMR on small-integer systems), recorded as three open findings keyed by the model's trace when it reproduces the implementation's answer bit for bit: the model's exit code (an exact `== 0` exit / BiCG's 0/0) OR a near-breakdown (smallest scale-free bi-Lanczos pivot of the trace <= 1e-10). The search space includes "
          "structured matrices, joint power-of-two scaling of A and b (absolute thresholds show), one-entry / equal-entry / unit-norm / -0.0 right-hand sides, guesses exact "
          "except in one component, and restarts (two calls on the same matrix object and x: executor kind it.seq, oracle only). Right-hand sides / matrices scaled by "
          "2^+-(520..700) are searched as well; the failures there are the recorded finding f64-square-range (norm_2 squares its entries), keyed by the input and granted only to the symptoms of that cause (non-finite x, Err, Ok with x far from the direct solution, a count above the bound): a panic, a wrong length, a modified correct x stays a violation there."),
    note=("PARTIAL: the degenerate-start half and exact-arithmetic finite termination of CG / symmetric BiCG on SPD and symmetric diagonally dominant systems are theorems. Convergence of the floating-point Krylov iterations is searched, never proved; the iteration "
          "constant 3n+10 (positive-diagonal SDD and SPD; 20n+100 for mixed-sign diagonals) and the attainability rule tol >= 10 n eps kappa are calibrated."),
    technique="Coq proof over an abstract field (degenerate starts) + float-model/implementation differential execution + numpy reference search (convergence)",
    design="7 (C09)")

def solvers_for(fam):
    return ["cg"] if fam == "spd" else ["bicg1", "bicg2", "bicgstab", "qmr"]

def gen_system(g, n, fam, ints):
    """returns (A dict, kappa) with kappa <= KAPPA_MAX, or None"""
    for _ in range(20):
        if fam == "spd":
            A = spd_system(g, n, ints)
            D = np.zeros((n, n))
            for (i, j), v in A.items(): D[i, j] = v
            kap = float(np.linalg.cond(D, 2))
        else:
            A = sdd_system(g, n, ints, mixed_sign=(fam == "sdd-mixed"))
            kap = gershgorin_kappa(A, n)
        if kap <= KAPPA_MAX:
            return A, kap
    return None

def generate(rng, tier):
    cases = []
    quick = (tier == "quick")
    g = rng.fork("c09")
    maxn = 40 if quick else 60
    nsmall = 70 if quick else 1200
    nbig = 40 if quick else 900
    def emit(n, fam, tag, guess=None, rhs=None):
        ints = g.chance(1, 2)
        r = gen_system(g, n, fam, ints)
        if r is None: return
        A, kap = r
        trip = triplets_of(g, A)
        rhs_kind = rhs or g.choice(["plain", "plain", "scaled", "scaled", "zero", "tiny"])
        guess_kind = guess or g.choice(["zero", "zero", "random", "random", "exact"])
        b, x0, xt = rhs_and_guess(g, n, trip, guess_kind, rhs_kind, ints)
        s = Sys(n, n, trip, b, x0, {"fam": fam, "rhs": rhs_kind, "guess": guess_kind})
        tol = pick_tol(g, 3, 12)
        for sv in solvers_for(fam):
            cases.extend(mk_cases(sv, s, 20 * n + 100, tol, "%s-%s" % (tag, fam), nontrivial=(n >= 2),
                                 extra={"kappa": kap, "wellposed": True}))
    fams = ["spd", "sdd", "sdd", "sdd-mixed"]
    for t in range(nsmall):
        emit(1 + (t % TIE_MAX_N), fams[t % len(fams)], "small")
    for t in range(nbig):
        emit(g.range(TIE_MAX_N + 1, maxn), fams[t % len(fams)], "big")
    # degenerate starts on every solver: exact guess, zero rhs + zero guess
    for t in range(16 if quick else 80):
        n = g.range(1, 10) if t % 4 else g.range(11, maxn)
        fam = fams[t % len(fams)]
        emit(n, fam, "degenerate", guess=("exact" if t % 2 == 0 else "zero"), rhs=("plain" if t % 2 == 0 else "zero"))
    # zero right-hand side with a NON-zero guess: the solution is 0; "accepted as solved" must not be granted without
    # looking at the residual (the code's tolerance is absolute here)   [added after seeded mutation C09-3]
    for t in range(12 if quick else 60):
        n = g.range(2, 9) if t % 3 else g.range(10, maxn)
        emit(n, fams[t % len(fams)], "zero-rhs-guess", guess="random", rhs="zero")
    cases.extend(gen_special(rng.fork("c09-special"), tier))
    # extreme scale (recorded finding f64-square-range): failures on these inputs carry the key, decided from the input
    for (sv, s, mi, tol, kap, fam) in extreme_systems(rng.fork("c09-extreme"), tier, lambda n: 20 * n + 100):
        cases.extend(mk_cases(sv, s, mi, tol, "extreme-scale", tie=False, extra={"kappa": kap, "wellposed": True}))
    return finalize(cases, PID)

# ----------------------------------------------------------------------------- special-values families (iterlib: structured catalogue)
def kappa_of(A, n, fam):
    if fam == "spd":
        D = np.zeros((n, n))
        for (i, j), v in A.items(): D[i, j] += v
        return float(np.linalg.cond(D, 2))
    return gershgorin_kappa(A, n)

def gen_special(g, tier):
    """Structured SPD / strictly diagonally dominant matrices (identity, diagonal with few distinct or equally spaced
    eigenvalues, tridiagonal, triangular, dense with equal entries, arrow, decoupled blocks, explicit zeros) x right-hand
    side class (known solution, ones, e_first / e_last / e_mid, alternating, unit norm, zero, -0.0) x guess class (zero,
    -0.0, ones, exact, exact but one component, 2*xt, -xt) x scale of A and of b (powers of two) x tolerance form; and the
    random families with A and b scaled.  All are well-posed members of the property's class: the same demands apply."""
    out = []
    quick = (tier == "quick")
    orders = ["sorted", "shuffled", "reversed", "rowmajor"]
    tols = [1e-3, 1e-6, 1e-9, 2.0 ** -20, 2.0 ** -33, 3.7e-5, 6.1e-11]
    guesses = ["zero", "negzero", "ones"] + GUESS_XT
    reps = 1 if quick else 6
    idx = 0
    for name in STRUCT_ALL:
        for fam in struct_class(name):
            for rep in range(reps):
                n = g.choice(STRUCT_N)
                sa, sb = g.choice(SCALES)
                s = struct_system(name, n, g.choice(RHS_KINDS), g.choice(guesses), sa, sb, g.choice(orders), g)
                s.info["fam"] = fam
                kap = kappa_of(struct_matrix(name, n), n, fam)
                if kap > KAPPA_MAX: continue
                tol = g.choice(tols)
                for sv in solvers_for(fam):
                    out.extend(mk_cases(sv, s, 20 * n + 100, tol, "struct-" + name, nontrivial=(n >= 2),
                                        extra={"kappa": kap, "wellposed": True}))
    # exact zeros inside the residual: diagonal matrices with equally spaced / few distinct eigenvalues and a right-hand side
    # of equal entries (after one step of CG on diag(1,2,3), b = ones the middle component of r is exactly 0)
    for name in ["diag-ap", "diag-pairs", "block"]:
        for n in ([g.choice([3, 4, 5, 8])] if quick else STRUCT_N):
            for rk in ([g.choice(["ones", "alt"])] if quick else ["ones", "alt"]):
                s = struct_system(name, n, rk, "zero", 0, 0, "sorted", g)
                for fam in ["spd", "sdd"]:
                    s2 = Sys(s.rows, s.cols, s.trip, s.b, s.x0, dict(s.info, fam=fam))
                    kap = kappa_of(struct_matrix(name, n), n, fam)
                    for sv in solvers_for(fam):
                        out.extend(mk_cases(sv, s2, 20 * n + 100, g.choice([1e-6, 1e-9, 1e-12]), "exact-zeros", nontrivial=(n >= 2),
                                            extra={"kappa": kap, "wellposed": True}))
    # unit-norm right-hand sides with the zero guess (rho = (r, r) = 1 exactly at the first step: any test that compares a
    # recurrence scalar with its initial value 1.0, or with the previous one, shows here); symmetric structures (no breakdown)
    for name in (g.shuffle(STRUCT_BOTH)[:2] if quick else STRUCT_BOTH):
        n = g.choice([3, 4, 5, 8])              # n >= 3: with e_mid the first AND the last component of the start residual vanish
        for rk in ["e-first", "e-last", "e-mid", "unit"]:
            s = struct_system(name, n, rk, g.choice(["zero", "negzero"]), g.choice([0, 0, 60, -60]), 0, "sorted", g)
            for fam in ["spd", "sdd"]:
                s2 = Sys(s.rows, s.cols, s.trip, s.b, s.x0, dict(s.info, fam=fam))
                kap = kappa_of(struct_matrix(name, n), n, fam)
                for sv in solvers_for(fam):
                    out.extend(mk_cases(sv, s2, 20 * n + 100, g.choice(tols), "unit-rhs", nontrivial=True, tie=(not quick),
                                        extra={"kappa": kap, "wellposed": True}))
    # histories: an operation on the matrix object, then two solver calls on the same matrix and the same x (restart after a
    # partial run, after Ok, after budget 0); symmetric positive definite AND strictly diagonally dominant matrices (every
    # entry point is inside its class; BiCG is CG there, no Lanczos breakdown) and real-valued random SDD systems
    pairs = g.shuffle([(a, b) for a in SOLVERS for b in SOLVERS])
    for t, (s1, s2) in enumerate(pairs if not quick else pairs[:10]):
        for rep in range(1 if quick else 4):
            n = g.range(2, 8)
            pre = g.choice(PRE_OPS[:7])              # not scale by -1 (leaves the class)
            name = g.choice(STRUCT_BOTH)
            s = struct_system(name, n, g.choice(["Axt", "ones", "e-last", "alt"]), g.choice(["zero", "ones", "negzero"]), 0, 0, "shuffled", g)
            s.info["fam"] = "sdd"
            kap = max(kappa_of(struct_matrix(name, n), n, "spd"), kappa_of(struct_matrix(name, n), n, "sdd"))
            first = g.choice([0, 1, 2, n // 2, 20 * n + 100, 20 * n + 100])
            out.append(mk_seq_case(pre, s, g.choice(tols), [s1, s2], [first, 20 * n + 100], "history",
                                   extra={"kappa": kap, "wellposed": True}))
    # the random families with every entry of A times 2^sa and the right-hand side times 2^sb
    fams = ["spd", "sdd", "sdd", "sdd-mixed"]
    for t in range(16 if quick else 80):
        n = g.range(2, 10)
        fam = fams[t % len(fams)]                             # every class with both signs of the exponent, twice
        ints = g.chance(1, 2)
        r = gen_system(g, n, fam, ints)
        if r is None: continue
        A, kap = r
        sa = g.choice([60, 120, 200]) * (1 if (t // len(fams)) % 2 == 0 else -1)
        sb = g.choice([0, 0, 100, -100, sa, -sa]) if abs(sa) < 200 else g.choice([0, sa])
        trip = triplets_of(g, scale_system(A, sa))
        gk = g.choice(["zero", "random", "exact"])
        b, x0, xt = rhs_and_guess(g, n, trip, gk, "plain", ints)
        f = 2.0 ** (sb - sa)                                   # scale of the solution
        b = csc_mul(trip, n, [v * f for v in xt])
        x0 = [v * f for v in x0]
        s = Sys(n, n, trip, b, x0, {"fam": fam, "sa": sa, "sb": sb, "guess": gk})
        tol = pick_tol(g, 3, 12)
        for sv in solvers_for(fam):
            out.extend(mk_cases(sv, s, 20 * n + 100, tol, "scaled-" + fam, extra={"kappa": kap, "wellposed": True}))
    return out

case_from_json = iterlib.case_from_json

STATS = {"demanded_success": 0, "not_attainable_skipped": 0, "max_iters_over_n": 0.0, "max_err_over_tol_kappa": 0.0,
         "degenerate_exact_guess": 0, "degenerate_zero_rhs_zero_guess": 0, "err_answers_outside_demand": 0}

def oracle(case, items):
    m = case.meta
    if m.get("role") == "tie":
        return None          # judged through its oracle twin (same system, full answer)
    if m.get("role") == "seq":
        # a history: calls with the full budget 20n+100 carry the demands of the property, their guess being what the
        # previous call left in x (a call with a smaller budget only prepares the next one)
        if not m.get("wellposed"):
            return None
        answers = split_seq(items, len(m["solvers"]))
        if answers is None:
            return "a solver panicked in the history %r on a well-posed system" % (m["solvers"],)
        s = seq_reference(Sys.from_json(m["sys"]), m["pre"])
        x0 = list(s.x0)
        for j, a in enumerate(answers):
            if not all_finite(x0):
                return None       # the previous (partial) call left no usable guess
            if m["budgets"][j] >= 20 * s.rows + 100:
                sj = Sys(s.rows, s.cols, s.trip, s.b, x0, s.info)
                r = judge(m, sj, a, m["tol"], m["budgets"][j])
                if r:
                    return "history pre=%r, call %d (%s after %r): %s" % (m["pre"], j + 1, m["solvers"][j], m["solvers"][:j], r)
            x0 = list(a.x)
        return None
    a = Ans(items)
    s = Sys.from_json(m["sys"])
    if not m.get("wellposed"):
        return None
    return judge(m, s, a, m["tol"], m["maxit"])

def judge(m, s, a, tol, maxit):
    """the demands of the property on one call on a well-posed system (m: kappa of the matrix)"""
    n = s.rows
    if a.panic:
        return "solver panicked (%s) on a well-posed %dx%d system" % (a.panic, n, n)
    if len(a.x) != n: return "x has %d components, order %d" % (len(a.x), n)
    A = s.dense()
    nb = norm2(s.b)
    # ---- degenerate starts
    r0 = csc_mul(s.trip, n, s.x0)
    exact0 = all(bi - ri == 0.0 for bi, ri in zip(s.b, r0))      # the float residual the solver forms is exactly zero
    if exact0:
        if nb == 0.0 and all(v == 0.0 for v in s.x0): STATS["degenerate_zero_rhs_zero_guess"] += 1
        else: STATS["degenerate_exact_guess"] += 1
        if not all_finite(a.x): return "start with zero residual: x became non-finite %r" % (a.x[:4],)
        if not a.ok: return "start with zero residual (exact guess / zero rhs with zero guess) was not accepted: Err(%r)" % (a.err,)
        if [f64_bits(v) for v in a.x] != [f64_bits(v) for v in s.x0]:
            return "start with zero residual: a correct x was modified %r -> %r" % (s.x0[:4], a.x[:4])
        return None
    # ---- convergence, where attainable in f64
    kap = m["kappa"]
    if tol < 10 * n * 2.0 ** -52 * kap:
        STATS["not_attainable_skipped"] += 1
        if not a.ok: STATS["err_answers_outside_demand"] += 1
        return None if (a.ok is False or all_finite(a.x)) else "Ok but x not finite"
    if nb == 0.0 and tol < 1e-13 * spec_norm(A) * norm2(s.x0):
        STATS["not_attainable_skipped"] += 1
        return None
    STATS["demanded_success"] += 1
    if not all_finite(a.x): return "x is not finite on a well-posed system: %r" % (a.x[:4],)
    if not a.ok:
        return "no convergence on a well-posed system (kappa %.3g, n=%d, tol %.0e): Err(%.3e) (budget %d)" % (kap, n, tol, a.err, maxit)
    # positive-diagonal SDD and SPD: the calibrated 3n+10; mixed-sign diagonals (indefinite symmetric part): only
    # "proportional to the dimension" = within the budget 20n+100 (near-breakdowns slow BiCG/QMR down to ~9n there)
    bound = ITER_A * n + ITER_B if s.info.get("fam") != "sdd-mixed" else maxit
    STATS["max_iters_over_n"] = max(STATS["max_iters_over_n"], a.k / float(n))
    if a.k > bound:
        return "Ok(%d) needs more than %d*n+%d = %d iterations (n=%d, kappa %.3g, tol %.0e)" % (a.k, ITER_A, ITER_B, bound, n, kap, tol)
    xd = np.linalg.solve(A, np.array(s.b))
    err = norm2(list(np.array(a.x) - xd))          # norm2: the numpy value in the ordinary range, scaled form at extreme scale
    nxd = norm2(list(xd))
    k2 = float(np.linalg.cond(A, 2))
    kk = max(kap, k2)
    if nb != 0.0:
        lim = 2 * tol * kk * nxd + 1e-12 * kk * nxd       # ||x - x*|| <= kappa ||r|| / ||b|| ||x*||, accepted r <= tol ||b||; factor 2 + 1e-12 kappa for the drift of the recursive residual
    else:
        lim = 2 * tol * float(np.linalg.norm(np.linalg.inv(A), 2))          # absolute tolerance when b = 0
    if nxd > 0 and nb != 0.0 and not stat_out_of_range(s, xd):
        STATS["max_err_over_tol_kappa"] = max(STATS["max_err_over_tol_kappa"], err / (tol * kk * nxd))
    if err > lim:
        return "Ok(%d) but ||x - x_direct|| = %.3e exceeds 2*tol*kappa*||x_direct|| = %.3e (tol %.0e, kappa %.3g)" % (a.k, err, lim, tol, kk)
    return None

def stat_out_of_range(s, xd):
    """for the STATISTICS only: is the system one of the recorded finding f64-square-range?  Cheap sufficient test first (every
    non-zero magnitude of A, b, x0 and of the float solution within 2^+-255: no square or product leaves the range), the exact
    predicate iterlib.scale_out_of_range otherwise (small systems in practice)."""
    mags = [abs(v) for (_, _, v) in s.trip] + [abs(v) for v in s.b] + [abs(v) for v in s.x0] + [abs(float(v)) for v in xd]
    mags = [v for v in mags if v != 0.0]
    if all(math.isfinite(v) and 2.0 ** -255 <= v <= 2.0 ** 255 for v in mags): return False
    STATS["statistics_excluded_out_of_range_checked"] = STATS.get("statistics_excluded_out_of_range_checked", 0) + 1
    return scale_out_of_range(s)

def finding_key(case, desc, decoded):
    if case.meta.get("role") == "seq":
        return None          # histories have no model twin: nothing is excused
    # recorded finding f64-square-range: decided from the INPUT (||b||^2, a squared entry of b / x0 / A or a product
    # A_ij x_j of the exact solution outside the normal f64 range) AND granted only to the documented symptoms of unscaled
    # squares: x non-finite (NaN / inf), Err(..) instead of convergence, Ok with x far from the direct solution (Ok(0) with
    # x left at the guess), an iteration count above the bound (norm_2(b) = 0 is taken for a zero right-hand side and the test
    # becomes absolute: Ok(32) for n = 3 on b = 2^-539 * (..) with a guess of order 1).  A panic, x of the wrong length, a
    # modified correct x or a refused exact start is not explained by that cause and stays a violation.  Inputs in range
    # fall through to the breakdown keys.
    square_symptom = ("not finite" in desc or "non-finite" in desc or "no convergence" in desc or "exceeds 2*tol*kappa" in desc
                      or "needs more than" in desc or ("was not accepted" in desc and "Err(nan)" in desc))
    if square_symptom and "sys" in case.meta and scale_out_of_range(Sys.from_json(case.meta["sys"])):
        return KEY_SQUARE_RANGE
    if decoded is None or not ("no convergence" in desc or "not finite" in desc or "needs more than" in desc):
        return None
    if "sys" in case.meta and scale_out_of_range(Sys.from_json(case.meta["sys"])):
        return None          # an extreme-scale input whose failure is not a symptom of the squares: no key at all
    return breakdown_key(case, decoded, PID)

def prepare(tier):
    del iterlib.PENDING[:]

def extra_coverage():
    return {"c09": dict(STATS), "iteration_bound": "%d*n+%d" % (ITER_A, ITER_B), "kappa_max": KAPPA_MAX}
