# C06 -- all views of a sparse matrix agree; the compressed-column form stays well-formed.
import itertools
from fractions import Fraction
from common import *
from engine import Case
from sparselib import *
import sparselib

PID = "C06"
IMPORTS = sparselib.IMPORTS
MODEL_VO = sparselib.MODEL_VO
EXHAUSTIVE = False
RULE = ("sp.hist cases (build, then insert/overwrite/scale/transpose steps; after the build and after every step the six public "
        "fields and the four views col_index/to_triplets/to_dense/get-at-every-position are dumped and compared): "
        "(a) every entry pattern (all 2^(r*c) subsets) of every shape r,c <= 3 in two triplet orders (quick: the second order for a quarter of the 3x3 patterns; thorough: three orders, plus shapes 2x4/4x2) "
        "followed by transpose + insert, (b) every permutation of triplet lists with <= 4 entries (<= 5 thorough), (c) random histories of "
        "3..10 steps on shapes <= 8x8 built from triplets or raw arrays, with forced empty first/last rows and columns and the empty "
        "matrix, (d) tie-only streams: duplicate positions, out-of-range triplets, malformed raw arrays, the out-of-range positions of get/insert "
        "(sp.probe at every position 0..r+1 x 0..c+1 of every shape <= 3x3; the in-range probes are judged by the oracle); history-f64 / history-cplx (f64 / Complex<f64> histories) are NOT tie-only: "
        "the reference-model oracle judges them (values by same_value: equal or within 2^-40 relative) and they are tied to the float instance of the model (bit-identical as a rule; the tie counts a stream as `close`, not as a difference, when every float agrees within 1e-10 of the largest magnitude of its group of floats); "
        "round four (structured classes, every class of every dimension in every run, pairings rotate with the seed; one new case in four carries a model term in the quick tier -- counted per element kind "
        "in the float families, so that f64 and Complex<f64> both carry terms in every run, and every fourth large-full case; all in the thorough tier): "
        "(e) op-pairs: every ordered pair of 14 operation classes (insert fresh / first cell / last cell / a stored zero, overwrite with another / the same / a zero value, "
        "scale by 0, 1, -1, 2, 1/2, random, transpose) + a third step on 14 small structured matrices, (f) structured-patterns: 25 named structures (empty, single entry in every corner, "
        "diagonal, full, full but one, full / empty first / last row / column, checker, triangular, border, ...) on the shape classes 1x1, 1xn, nx1, wide, tall, square, 8x8 with the value classes "
        "random / all ones / all equal / opposite signs / stored zeros / 0,1,-1,2,1/2 / huge+tiny and six construction forms, (g) fill-by-insert: matrices built by insertion only until full, then overwritten, "
        "(h) large-full: 8x8 / 8x7 / 7x8 / 8x1 / 1x8 / 8x3..8x6 / 5x8 / 6x8 full or with one hole (up to 64 stored entries; a tall shape with several columns among the termed ones of every run), (i) history-long: 12..24 steps, (j) structured-f64 / structured-cplx with signed zeros, 2^+-200, "
        "+-i, axis-aligned and unit-modulus entries and scale factors; the reference-model oracle now also judges the f64 / Complex<f64> histories and the in-range probes; "
        "distinct = distinct executor line; "
        "non-trivial = at least two stored entries on a shape with r,c >= 2, or a case that must panic")
TRUSTED = ["Coq 8.16.1 kernel + vm_compute", "Rust executor /verif/harness (Rat = i128 rationals)",
           "python driver: generators, dictionary-of-keys reference, wf predicate, stream comparators",
           "hand-written Gallina model coq/Model/Sparse.v tied to src/sparse.rs:1-300 by differential execution (Rat vs Qc exact; f64/Complex vs primitive floats: bit-identical, or counted `close` within 1e-10 / 1e-12 of the largest magnitude of a group of floats)",
           "std semantics as modelled: Vec::sort_by_key is the stable sort by column (modelled by a stable insertion sort); drain(..) visits in order"]
ASSUMPTIONS = ["Rust semantics of Vec/usize as modelled (checked indexing, debug-profile overflow checks)",
               "the dump is canonical in the order of entries within one column (that order is not part of any view or of well-formedness)",
               "the sampled cases are where model and code were compared; the theorems are about the model"]
UNPROVED = ["behaviour on DUPLICATE positions is outside the property's quantifier but specified and proved (block dups of Props/C06.v: get_first_duplicate, to_dense_last_duplicate, views_with_duplicates, views_agree_iff, from_triplets_duplicates, insert_with_duplicates, transpose_is_stable_sort, history_with_duplicates: get returns the first stored duplicate, to_dense the last, the products their sum, for every well-formed storage); behaviour on MALFORMED raw arrays is tied (model = implementation), not specified",
            "from_vecs is an echo of its arguments (from_vecs_wf: well-formed arrays are returned as they are); what it does with malformed arrays is tied, not specified",
            "the f64 / Complex<f64> instances are tied to the float instance of the model (bit-identical, or counted `close` within 1e-10 of the largest magnitude of a group of floats) and searched by the reference model, "
            "which compares every stored / dumped float value with sparselib.same_value: equal, or within 2^-40 RELATIVE (f64: of the larger of the two magnitudes; Complex<f64>: per component, or both components within 2^-40 of "
            "the largest component) -- far above the rounding of the one product per scale step, far below any wrong entry; non-finite values must agree exactly (NaN with NaN); positions, counts and the structure are exact; "
            "nothing about C06 depends on arithmetic laws"]

MANIFEST = dict(
    text=("Theorems about the Gallina model of src/sparse.rs (six public CSC fields, every guard and index checked), for all shapes, "
          "all entry values and all histories: from_triplets on in-range triplets returns a well-formed matrix whose triplet list is a "
          "permutation of the input (from_triplets_wf); from_vecs returns well-formed raw arrays unchanged (from_vecs_wf); well-formedness is preserved by insert, scale and transpose and hence by every "
          "finite history (wfS_step, wfS_history), and every history whose insertions are in range returns (history_total); for "
          "duplicate-free contents get, to_triplets, to_dense and col_index describe one matrix (views_agree), construction does not "
          "depend on the triplet order (order_independent), transpose keeps exactly the swapped entries (transpose_entries) and every "
          "history refines the same history of point-update / value-map / swap operations on the abstract partial map (sp_refines_map).  "
          "The model is run against the implementation "
          "(Rat vs Qc, exact; all public fields and all four views after every step) on every pattern of every shape <= 3x3 in several "
          "triplet orders, every permutation of small triplet lists, random histories on shapes <= 8x8 including empty rows/columns and "
          "the empty matrix, raw-array construction, and tie-only malformed/duplicate/out-of-range streams, and on structured families: every ordered pair of 14 operation classes "
          "(insertions at special cells, overwrites with the same / a zero value, scale by 0, 1, -1, 2, 1/2, transpose), 25 named patterns on every shape class up to 8x8 with special value classes, "
          "matrices built by insertion only, full 8x8 matrices, long histories; a dictionary-of-keys "
          "reference plus the wf predicate on the public fields searches for a failing input in the rational, f64 and Complex<f64> instances (histories and in-range probes)."),
    note=("Which theorems are discharged is reported by the check (theorems k/k) and listed in coq/Props/C06.v; behaviour on duplicate "
          "positions is specified and proved although outside the quantifier, on malformed raw arrays tied but not specified; Vec::sort_by_key is modelled as the stable sort (trusted)."),
    technique="Coq proof over an abstract arithmetic + model/implementation differential execution (vm_compute vs Rust executor) + reference-model search",
    design="7 (C06)")

def val(rng, elt='rat'):
    if elt == 'rat':
        k = rng.below(10)
        if k == 0: return Fraction(0)                       # an explicitly stored zero is a stored entry
        if k < 6: return Fraction(rng.choice([-5, -4, -3, -2, -1, 1, 2, 3, 4, 5, 6, 7]))
        return Fraction(rng.choice([-7, -5, -3, -1, 1, 3, 5, 7]), rng.range(2, 4))
    if elt == 'f64':
        k = rng.below(6)
        if k < 3: return float(rng.range(-6, 6))
        if k < 5: return rng.range(-64, 64) / 8.0
        return (rng.unit() - 0.5) * 10 ** rng.range(-3, 3)
    return complex(val(rng, 'f64'), val(rng, 'f64'))

def rand_cells(rng, r, c, density_num=1, density_den=3, skip_rows=(), skip_cols=()):
    cells = [(i, j) for j in range(c) for i in range(r) if i not in skip_rows and j not in skip_cols]
    return [p for p in cells if rng.chance(density_num, density_den)]

def triplets_of(rng, cells, elt='rat', order="shuffle"):
    ts = [(i, j, val(rng, elt)) for (i, j) in cells]
    if order == "shuffle": return rng.shuffle(ts)
    if order == "rowmajor": return sorted(ts, key=lambda t: (t[0], t[1]))
    if order == "reverse": return sorted(ts, key=lambda t: (t[1], t[0]), reverse=True)
    return ts

def vecs_of(rng, r, c, cells, elt='rat', sort_rows=False):
    """raw CSC arrays of a pattern; within a column the rows are in random order unless sort_rows"""
    vals, ri, cs = [], [], [0]
    for j in range(c):
        col = [i for (i, jj) in cells if jj == j]
        col = sorted(col) if sort_rows else rng.shuffle(col)
        for i in col:
            ri.append(i); vals.append(val(rng, elt))
        cs.append(len(ri))
    return ('V', r, c, vals, ri, cs)

def mk(elt, b, ops, family, nontrivial=None):
    if nontrivial is None:
        n = len(b[3])
        nontrivial = (n >= 2 and b[1] >= 2 and b[2] >= 2)
    return Case(elt, hist_line(elt, b, ops), hist_term(elt, b, ops),
                meta={"kind": "hist", "build": build_to_json(b), "ops": ops_to_json(ops)},
                family=family, nontrivial=nontrivial, check_class=True)

def mk_probe(elt, b, i, j, v, family):
    return Case(elt, probe_line(elt, b, i, j, v), probe_term(elt, b, i, j, v),
                meta={"kind": "probe", "build": build_to_json(b), "i": i, "j": j, "v": str(v)},
                family=family, nontrivial=True, check_class=True)

def rand_ops(rng, r, c, cells, n, elt='rat', bad=False):
    """n steps, tracking the shape and the occupied cells so that both fresh insertions and overwrites occur"""
    occ = set(cells)
    ops = []
    for _ in range(n):
        k = rng.below(10)
        if k < 5 and r * c > 0:
            if occ and rng.chance(1, 3):
                (i, j) = rng.choice(sorted(occ))             # overwrite
            else:
                i, j = rng.below(r), rng.below(c)            # mostly fresh
            if bad and rng.chance(1, 8):
                i, j = rng.range(0, r + 1), rng.range(0, c + 1)
            ops.append(('insert', i, j, val(rng, elt)))
            if i < r and j < c: occ.add((i, j))
        elif k < 7:
            ops.append(('scale', val(rng, elt)))
        else:
            ops.append(('transpose',))
            r, c = c, r
            occ = set((j, i) for (i, j) in occ)
    return ops

def generate(rng, tier):
    cases = []
    thorough = (tier == "thorough")
    # (a) every pattern of every small shape, several triplet orders, then transpose + insert + transpose
    g = rng.fork("patterns")
    shapes = [(r, c) for r in range(0, 4) for c in range(0, 4)]
    if thorough: shapes += [(2, 4), (4, 2)]
    orders = ["shuffle", "reverse"] + (["rowmajor"] if thorough else [])
    for (r, c) in shapes:
        allcells = [(i, j) for j in range(c) for i in range(r)]
        for mask in range(1 << len(allcells)):
            cells = [p for k, p in enumerate(allcells) if (mask >> k) & 1]
            for order in orders:
                if not thorough and order != "shuffle" and r * c == 9 and mask % 4 != 1:
                    continue          # quick: every 3x3 pattern once, a quarter of them in a second order
                ts = triplets_of(g, cells, 'rat', order)
                ops = []
                if r * c > 0:
                    ops = [('transpose',), ('insert', g.below(c), g.below(r), val(g)), ('transpose',)] if order == "shuffle" else \
                          [('insert', g.below(r), g.below(c), val(g)), ('scale', val(g))]
                cases.append(mk('rat', ('T', r, c, ts), ops, "patterns-%dx%d" % (r, c)))
    # (b) every permutation of small triplet lists (construction must not depend on the order)
    g = rng.fork("perms")
    nl = 5 if thorough else 4
    for rep in range(6 if thorough else 4):
        for n in range(2, nl + 1):
            r, c = g.range(2, 4), g.range(2, 4)
            allcells = [(i, j) for j in range(c) for i in range(r)]
            cells = g.shuffle(allcells)[:n]
            base = [(i, j, val(g)) for (i, j) in cells]
            for perm in itertools.permutations(base):
                cases.append(mk('rat', ('T', r, c, list(perm)), [], "permutations-%d" % n))
    # (c) random histories on shapes <= 8x8, triplets or raw arrays, forced empty rows/columns, empty matrix
    g = rng.fork("hist")
    nh = 900 if thorough else 170
    for h in range(nh):
        r, c = g.range(0, 8), g.range(0, 8)
        if h % 17 == 0: r, c = g.choice([(0, 0), (0, 5), (5, 0), (1, 8), (8, 1), (8, 8)])
        skip_rows, skip_cols = set(), set()
        if h % 3 == 0 and r > 1: skip_rows |= {g.choice([0, r - 1])}
        if h % 3 == 1 and c > 1: skip_cols |= {g.choice([0, c - 1])}
        if h % 11 == 0 and c > 2: skip_cols |= {0, c - 1}
        cells = rand_cells(g, r, c, 1, g.choice([2, 3, 5]), skip_rows, skip_cols)
        if h % 13 == 5: cells = []
        if h % 4 == 3:
            b = vecs_of(g, r, c, cells, 'rat', sort_rows=g.chance(1, 2))
            fam = "history-vecs"
        else:
            b = ('T', r, c, triplets_of(g, cells, 'rat', g.choice(["shuffle", "rowmajor", "reverse"])))
            fam = "history-triplets"
        ops = rand_ops(g, r, c, cells, g.range(3, 10))
        cases.append(mk('rat', b, ops, fam))
    # (d) tie-only streams -------------------------------------------------------------------------
    g = rng.fork("dups")
    for h in range(120 if thorough else 40):       # duplicate positions: first stored wins in get, last in to_dense
        r, c = g.range(1, 4), g.range(1, 4)
        cells = [(g.below(r), g.below(c)) for _ in range(g.range(2, 7))]
        b = ('T', r, c, [(i, j, val(g)) for (i, j) in cells])
        cases.append(mk('rat', b, rand_ops(g, r, c, cells, g.range(0, 4)), "tie-duplicates", nontrivial=True))
    g = rng.fork("badtrip")
    for h in range(90 if thorough else 30):        # out-of-range triplets: the build must panic
        r, c = g.range(0, 4), g.range(0, 4)
        cells = [(g.below(r + 1), g.below(c + 1)) for _ in range(g.range(1, 5))]
        cells.append((r, g.below(c + 1)) if g.chance(1, 2) else (g.below(r + 1), c))
        b = ('T', r, c, g.shuffle([(i, j, val(g)) for (i, j) in cells]))
        cases.append(mk('rat', b, [], "tie-out-of-range-triplets", nontrivial=True))
    g = rng.fork("badvecs")
    for h in range(240 if thorough else 80):       # malformed raw arrays: every raw index access must agree
        r, c = g.range(1, 4), g.range(1, 4)
        cells = rand_cells(g, r, c, 1, 2)
        _, _, _, vals, ri, cs = vecs_of(g, r, c, cells, 'rat')
        k = g.below(9)
        if k == 0: cs = cs[:-1]
        elif k == 1: cs = cs + [cs[-1] + g.range(0, 2)]
        elif k == 2: cs = []
        elif k == 3 and len(cs) > 1:
            p = g.below(len(cs)); cs = list(cs); cs[p] = cs[p] + g.range(1, 3)
        elif k == 4 and vals: vals = vals[:-1]
        elif k == 5 and ri: ri = ri[:-1]
        elif k == 6 and ri:
            p = g.below(len(ri)); ri = list(ri); ri[p] = r + g.range(0, 2)
        elif k == 7: cs = [x + 1 for x in cs]
        else: vals = vals + [val(g)]; ri = ri + [g.below(r)]
        b = ('V', r, c, vals, ri, cs)
        ops = rand_ops(g, r, c, cells, g.range(0, 3))
        cases.append(mk('rat', b, ops, "tie-malformed-vecs", nontrivial=True))
    g = rng.fork("probe")
    for r in range(0, 4):
        for c in range(0, 4):
            cells = rand_cells(g, r, c, 1, 2)
            b = ('T', r, c, triplets_of(g, cells))
            for i in range(0, r + 2):
                for j in range(0, c + 2):
                    cases.append(mk_probe('rat', b, i, j, val(g), "probe-get-insert"))
    g = rng.fork("float")
    for h in range(90 if thorough else 30):
        elt = 'f64' if h % 2 == 0 else 'cplx'
        r, c = g.range(1, 6), g.range(1, 6)
        cells = rand_cells(g, r, c, 1, 2)
        b = ('T', r, c, triplets_of(g, cells, elt)) if h % 3 else vecs_of(g, r, c, cells, elt)
        cases.append(mk(elt, b, rand_ops(g, r, c, cells, g.range(2, 6), elt), "history-" + elt))
    cases += special_families(rng.fork("special-values"), thorough)
    # spread the expensive cases evenly over the Coq shards (the engine cuts the list into consecutive runs of 250)
    k = max(1, (len(cases) + 249) // 250)
    cases = [c for r in range(k) for c in cases[r::k]]
    return cases

# ---------------------------------------------------------------------------------------------------------------------
# Round four: structured classes (findings/special-values-specA/C06-table.md).  Every class of every dimension is drawn
# in every run; the pairings rotate with the seed.  In the quick tier one new case in four carries a model term (which
# quarter rotates with the seed), in the thorough tier all; every case is judged by the reference-model oracle.
# ---------------------------------------------------------------------------------------------------------------------
def mk2(elt, b, ops, family, with_term=True):
    c = mk(elt, b, ops, family)
    if not with_term: c.term = None
    return c

def ops_by_class(g, elt, classes, r, c, cells, vals):
    occ = dict(zip(cells, vals)); rr, cc = r, c
    ops = []
    for cls in classes:
        o = op_of(g, elt, cls, rr, cc, occ, lambda rng, e: val(rng, e))
        if o is None: continue
        ops.append(o); occ, rr, cc = track(occ, rr, cc, o)
    return ops

def special_families(g0, thorough):
    cases = []
    seedrot = g0.below(4)
    count = [0]
    def termed():
        count[0] += 1
        return thorough or (count[0] % 4 == seedrot)
    def termed_kind(j):
        """for families that alternate two element kinds on the parity of h: j = h // 2 counts the cases of ONE kind (a counter
        shared by both kinds would give every model term of a run to one of them)"""
        return thorough or (j % 4 == seedrot)
    rv = lambda rng, e: val(rng, e)
    # (e) every ordered pair of operation classes (fresh / first-cell / last-cell insertion, overwrite with another, the same or
    #     a zero value, insertion of a stored zero, scale by 0, 1, -1, 2, 1/2, random, transpose) on small structured matrices
    g = g0.fork("op-pairs")
    bases = [("empty", 2, 3), ("single-last", 3, 2), ("full", 2, 2), ("first-col-empty", 3, 3), ("last-col-empty", 2, 4),
             ("diagonal", 3, 3), ("last-row-full", 4, 2), ("first-col-full", 3, 1), ("full", 1, 3), ("empty", 1, 1), ("checker", 4, 4),
             ("single-first", 1, 1), ("last-col-full", 3, 4), ("first-row-empty", 4, 3)]
    k = g.below(1000)
    for o1 in OP_CLASSES:
        for o2 in OP_CLASSES:
            for rep in range(3 if thorough else 1):
                k += 1
                pat, r, c = bases[k % len(bases)]
                cells = pattern(pat, r, c)
                vals = fill_values(g, 'rat', FILLS[k % len(FILLS)], len(cells), rv)
                b = build_of(g, BUILD_FORMS[k % len(BUILD_FORMS)], r, c, cells, vals)
                third = OP_CLASSES[k % len(OP_CLASSES)]
                cases.append(mk2('rat', b, ops_by_class(g, 'rat', (o1, o2, third), r, c, cells, vals), "op-pairs", termed()))
    # (f) every named structure on every shape class (<= 8 x 8); value class and construction form cycle; two steps by class
    g = g0.fork("structured")
    k = g.below(1000)
    for rep in range(3 if thorough else 1):
        for pat in PATTERNS:
            for sc in SHAPE_CLASSES:
                k += 1
                r, c = shape_of(g, sc, 8)
                cells = pattern(pat, r, c)
                vals = fill_values(g, 'rat', FILLS[k % len(FILLS)], len(cells), rv)
                b = build_of(g, BUILD_FORMS[(k // 3) % len(BUILD_FORMS)], r, c, cells, vals)
                cl = (OP_CLASSES[(k // 2) % len(OP_CLASSES)], OP_CLASSES[(k // 5) % len(OP_CLASSES)])
                cases.append(mk2('rat', b, ops_by_class(g, 'rat', cl, r, c, cells, vals), "structured-patterns", termed()))
    # (g) matrices built by insertion only: from the empty matrix every cell in random order until full, then every cell
    #     overwritten, a transposition in the middle
    g = g0.fork("fill-by-insert")
    for (r, c) in ([(2, 3), (3, 2), (1, 5), (5, 1), (3, 3), (2, 2), (1, 1), (4, 2)] + ([(4, 4), (2, 6), (6, 2), (3, 5)] if thorough else [])):
        order = g.shuffle([(i, j) for j in range(c) for i in range(r)])
        ops = [('insert', i, j, val(g)) for (i, j) in order]
        ops.insert(len(ops) // 2, ('transpose',)); 
        ops = ops[:len(ops) // 2 + 1] + [('insert', j, i, v) for (_, i, j, v) in ops[len(ops) // 2 + 1:]]
        ops += [('insert', j, i, val(g)) for (i, j) in g.shuffle(order)[: (len(order) if thorough else 3)]]
        form = g.choice(["T", "V"])
        b = ('T', r, c, []) if form == "T" else ('V', r, c, [], [], [0] * (c + 1))
        cases.append(mk2('rat', b, ops, "fill-by-insert", termed()))
    # (h) the largest shapes, full or with a single hole (more stored entries than the random histories reach)
    g = g0.fork("large")
    k = g.below(1000)
    for n, (r, c, pat) in enumerate([(8, 8, "full"), (8, 8, "full-but-last"), (8, 7, "full-but-first"), (7, 8, "full"), (8, 1, "full"), (1, 8, "full"),
                        (8, 8, "checker"), (8, 8, "border"), (7, 8, "full-but-last"), (6, 8, "full"), (8, 6, "full-but-first"), (8, 8, "full-but-first"),
                        # so that every residue of n mod 4 holds a tall shape with several columns (rows > cols is what seeded mutation C06-2 needs)
                        (8, 5, "full"), (8, 4, "full-but-last"), (5, 8, "full"), (8, 3, "full")]):
        k += 1
        cells = pattern(pat, r, c)
        vals = fill_values(g, 'rat', FILLS[k % len(FILLS)], len(cells), rv)
        b = build_of(g, BUILD_FORMS[k % len(BUILD_FORMS)], r, c, cells, vals)
        cl = ("insert-last-cell", "overwrite", "transpose", "insert-first-cell", "scale--1")
        # quick tier: every fourth one carries a model term (which one rotates with the seed; three per run, each a
        # history of six dumped states with up to 64 stored entries: well inside the vm_compute budget of the tier)
        cases.append(mk2('rat', b, ops_by_class(g, 'rat', cl, r, c, cells, vals), "large-full", termed() if thorough else (n % 4 == seedrot)))
    # (i) long histories (12..24 steps)
    g = g0.fork("long")
    for h in range(40 if thorough else 10):
        r, c = g.range(1, 5), g.range(1, 5)
        cells = rand_cells(g, r, c, 1, 3)
        b = build_of(g, g.choice(BUILD_FORMS), r, c, cells, [val(g) for _ in cells])
        cases.append(mk2('rat', b, rand_ops(g, r, c, cells, g.range(12, 24)), "history-long", termed()))
    # (j) the float instances: signed zeros, +-1, 2^+-200, axis-aligned and unit-modulus complex entries, scale factors of
    #     the same classes; judged by the same reference (values compared up to the rounding of one product per scale step)
    g = g0.fork("floats")
    k = g.below(1000)
    for h in range(240 if thorough else 80):
        k += 1
        elt = 'f64' if h % 2 == 0 else 'cplx'
        r, c = shape_of(g, SHAPE_CLASSES[k % len(SHAPE_CLASSES)], 6)
        if h % 3 == 0: cells = pattern(PATTERNS[(k // 2) % len(PATTERNS)], r, c)
        else: cells = rand_cells(g, r, c, 1, 2)
        vals = fill_values(g, elt, FILLS[(k // 2) % len(FILLS)], len(cells), rv)
        b = build_of(g, BUILD_FORMS[k % len(BUILD_FORMS)], r, c, cells, vals)
        cl = [g.choice(OP_CLASSES) for _ in range(g.range(1, 4))]
        ops = ops_by_class(g, elt, cl, r, c, cells, vals)
        if h % 5 == 0: ops.append(('scale', g.choice(special_scalars(elt))))
        cases.append(mk2(elt, b, ops, "structured-" + elt, termed_kind(h // 2)))
    return cases

def case_from_json(j):
    elt = j["elt"]; m = j["meta"]
    b = build_from_json(elt, m["build"])
    if m.get("kind") == "probe":
        v = Fraction(m["v"]) if elt == 'rat' else float(m["v"])
        return mk_probe(elt, b, m["i"], m["j"], v, "corpus")
    return mk(elt, b, ops_from_json(elt, m["ops"]), "corpus")

COUNT = {"oracle_in_claim": 0, "oracle_states_checked": 0, "tie_only": 0}

def oracle(case, items):
    elt = case.elt
    if case.meta.get("kind") == "probe":
        b = build_from_json(elt, case.meta["build"])
        v = Fraction(case.meta["v"]) if elt == 'rat' else (complex(case.meta["v"]) if elt == 'cplx' else float(case.meta["v"]))
        i, j = case.meta["i"], case.meta["j"]
        ref = dok_of_build(b)
        if ref is None or i >= ref.r or j >= ref.c:
            COUNT["tie_only"] += 1          # rejection of out-of-range arguments is C20's claim
            return None
        COUNT["oracle_in_claim"] += 1
        COUNT["oracle_states_checked"] += 1
        return oracle_probe(elt, b, i, j, v, items)
    if elt != 'rat':
        b = build_from_json(elt, case.meta["build"])
        ops = ops_from_json(elt, case.meta["ops"])
        if dok_of_build(b) is None:
            COUNT["tie_only"] += 1
            return None
        COUNT["oracle_in_claim"] += 1
        COUNT["oracle_states_checked"] += 1 + len(ops)
        return oracle_hist_e(elt, b, ops, items)
    b = build_from_json('rat', case.meta["build"])
    ops = ops_from_json('rat', case.meta["ops"])
    if dok_of_build(b) is None:
        COUNT["tie_only"] += 1
        return None
    COUNT["oracle_in_claim"] += 1
    COUNT["oracle_states_checked"] += 1 + len(ops)
    return oracle_hist(b, ops, items)

def extra_coverage():
    return {"oracle_cases_inside_the_claim": COUNT["oracle_in_claim"], "oracle_states_checked_upper_bound": COUNT["oracle_states_checked"],
            "tie_only_cases": COUNT["tie_only"]}
