# driver/linalg.py -- independent exact / floating reference linear algebra for the search oracles.
from fractions import Fraction
import math

def matvec(A, n, m, x):
    return [sum((A[i*m+j] * x[j] for j in range(m)), 0 * A[0] if A else 0) for i in range(n)]

def det_exact(A, n):
    """fraction elimination with row exchanges (independent of the implementation's pivot rule)"""
    M = [[Fraction(A[i*n+j]) for j in range(n)] for i in range(n)]
    det = Fraction(1)
    for k in range(n):
        p = next((i for i in range(k, n) if M[i][k] != 0), None)
        if p is None: return Fraction(0)
        if p != k:
            M[p], M[k] = M[k], M[p]; det = -det
        det *= M[k][k]
        for i in range(k + 1, n):
            f = M[i][k] / M[k][k]
            if f != 0:
                for j in range(k, n): M[i][j] -= f * M[k][j]
    return det

def rank_exact(A, n, m):
    M = [[Fraction(A[i*m+j]) for j in range(m)] for i in range(n)]
    r = 0
    for c in range(m):
        p = next((i for i in range(r, n) if M[i][c] != 0), None)
        if p is None: continue
        M[p], M[r] = M[r], M[p]
        for i in range(r + 1, n):
            f = M[i][c] / M[r][c]
            for j in range(c, m): M[i][j] -= f * M[r][j]
        r += 1
    return r

def matmul(A, B, n, k, m):
    z = 0 * (A[0] if A else (B[0] if B else 0))
    return [sum((A[i*k+t] * B[t*m+j] for t in range(k)), z) for i in range(n) for j in range(m)]

def norm_inf_vec(x):
    return max((abs(v) for v in x), default=0.0)

def norm_inf_mat(A, n, m):
    return max((sum(abs(A[i*m+j]) for j in range(m)) for i in range(n)), default=0.0)

def parse_items_vec(items, pos, elt):
    """items: decoded stream; returns (list, newpos) for a 'v' value; raises on panic"""
    if items[pos][0] == 'P': raise ValueError("panic")
    n = items[pos][1]; pos += 1
    out = []
    for _ in range(n):
        x, pos = parse_items_scalar(items, pos, elt)
        out.append(x)
    return out, pos

def parse_items_scalar(items, pos, elt):
    from common import bits_f64
    if elt == 'rat':
        it = items[pos]; return Fraction(it[1], it[2]), pos + 1
    if elt == 'f64':
        return bits_f64(items[pos][1]), pos + 1
    if elt == 'cplx':
        return complex(bits_f64(items[pos][1]), bits_f64(items[pos+1][1])), pos + 2
    raise ValueError(elt)

def parse_items_mat(items, pos, elt):
    r = items[pos][1]; c = items[pos+1][1]; pos += 2
    out = []
    for _ in range(r * c):
        x, pos = parse_items_scalar(items, pos, elt)
        out.append(x)
    return (r, c, out), pos

def isfinite(x):
    if isinstance(x, complex): return math.isfinite(x.real) and math.isfinite(x.imag)
    if isinstance(x, Fraction): return True
    return math.isfinite(x)
