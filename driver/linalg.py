# driver/linalg.py -- independent exact / floating reference linear algebra for the search oracles.
from fractions import Fraction
import math

def matvec(A, n, m, x):
    return [sum((A[i*m+j] * x[j] for j in range(m)), 0 * A[0] if A else 0) for i in range(n)]

def det_exact(A, n):
    """fraction elimination with row exchanges (independent of the implementation's pivot rule)"""
    M = [[Fraction(A[i*n+j]) for j in range(n)] for i in range(n)]
    det = Fraction(1)
    for k in range(n):
        p = next((i for i in range(k, n) if M[i][k] != 0), None)
        if p is None: return Fraction(0)
        if p != k:
            M[p], M[k] = M[k], M[p]; det = -det
        det *= M[k][k]
        for i in range(k + 1, n):
            f = M[i][k] / M[k][k]
            if f != 0:
                for j in range(k, n): M[i][j] -= f * M[k][j]
    return det

def rank_exact(A, n, m):
    M = [[Fraction(A[i*m+j]) for j in range(m)] for i in range(n)]
    r = 0
    for c in range(m):
        p = next((i for i in range(r, n) if M[i][c] != 0), None)
        if p is None: continue
        M[p], M[r] = M[r], M[p]
        for i in range(r + 1, n):
            f = M[i][c] / M[r][c]
            for j in range(c, m): M[i][j] -= f * M[r][j]
        r += 1
    return r

def matmul(A, B, n, k, m):
    z = 0 * (A[0] if A else (B[0] if B else 0))
    return [sum((A[i*k+t] * B[t*m+j] for t in range(k)), z) for i in range(n) for j in range(m)]

def norm_inf_vec(x):
    return max((abs(v) for v in x), default=0.0)

def norm_inf_mat(A, n, m):
    return max((sum(abs(A[i*m+j]) for j in range(m)) for i in range(n)), default=0.0)

def parse_items_vec(items, pos, elt):
    """items: decoded stream; returns (list, newpos) for a 'v' value; raises on panic"""
    if items[pos][0] == 'P': raise ValueError("panic")
    n = items[pos][1]; pos += 1
    out = []
    for _ in range(n):
        x, pos = parse_items_scalar(items, pos, elt)
        out.append(x)
    return out, pos

def parse_items_scalar(items, pos, elt):
    from common import bits_f64
    if elt == 'rat':
        it = items[pos]; return Fraction(it[1], it[2]), pos + 1
    if elt == 'f64':
        return bits_f64(items[pos][1]), pos + 1
    if elt == 'cplx':
        return complex(bits_f64(items[pos][1]), bits_f64(items[pos+1][1])), pos + 2
    raise ValueError(elt)

def parse_items_mat(items, pos, elt):
    r = items[pos][1]; c = items[pos+1][1]; pos += 2
    out = []
    for _ in range(r * c):
        x, pos = parse_items_scalar(items, pos, elt)
        out.append(x)
    return (r, c, out), pos

def isfinite(x):
    if isinstance(x, complex): return math.isfinite(x.real) and math.isfinite(x.imag)
    if isinstance(x, Fraction): return True
    return math.isfinite(x)

# ----------------------------------------------------------------------------- round four (package specA): special structure
def cdet_exact(A, n):
    """exact determinant of a complex matrix with binary-float (or Fraction/int) parts: elimination over (Fraction, Fraction) pairs"""
    def mul(a, b): return (a[0]*b[0] - a[1]*b[1], a[0]*b[1] + a[1]*b[0])
    def sub(a, b): return (a[0]-b[0], a[1]-b[1])
    def div(a, b):
        d = b[0]*b[0] + b[1]*b[1]
        return ((a[0]*b[0] + a[1]*b[1]) / d, (a[1]*b[0] - a[0]*b[1]) / d)
    M = [[(Fraction(complex(A[i*n+j]).real), Fraction(complex(A[i*n+j]).imag)) for j in range(n)] for i in range(n)]
    det = (Fraction(1), Fraction(0))
    for k in range(n):
        p = next((i for i in range(k, n) if M[i][k] != (0, 0)), None)
        if p is None: return (Fraction(0), Fraction(0))
        if p != k:
            M[p], M[k] = M[k], M[p]; det = (-det[0], -det[1])
        det = mul(det, M[k][k])
        for i in range(k + 1, n):
            f = div(M[i][k], M[k][k])
            if f != (0, 0):
                for j in range(k, n): M[i][j] = sub(M[i][j], mul(f, M[k][j]))
    return det

def special_matrices(rng, n):
    """named n x n matrices with special STRUCTURE (exact small rationals, row-major), every one nonsingular:
    the classes a data-dependent fast path or a tie-breaking rule would single out"""
    F = Fraction
    def diag(d): return [d[i] if i == j else F(0) for i in range(n) for j in range(n)]
    out = []
    out.append(("identity", diag([F(1)] * n)))
    out.append(("neg-identity", diag([F(-1)] * n)))
    out.append(("scalar-2", diag([F(2)] * n)))
    out.append(("scalar-half", diag([F(1, 2)] * n)))
    menu = [F(1), F(-1), F(2), F(-2), F(1, 2), F(-1, 2), F(3)]
    out.append(("diag-mixed", diag([menu[(i + rng.below(7)) % 7] for i in range(n)])))
    out.append(("unit-lower", [F(1) if i == j else (F(rng.range(-3, 3)) if j < i else F(0)) for i in range(n) for j in range(n)]))
    out.append(("unit-upper", [F(1) if i == j else (F(rng.range(-3, 3)) if j > i else F(0)) for i in range(n) for j in range(n)]))
    out.append(("anti-diagonal", [F((-1) ** i) if i + j == n - 1 else F(0) for i in range(n) for j in range(n)]))
    out.append(("cyclic-shift", [F(1) if j == (i + 1) % n else F(0) for i in range(n) for j in range(n)]))
    out.append(("toeplitz-121", [F(2) if i == j else (F(-1) if abs(i - j) == 1 else F(0)) for i in range(n) for j in range(n)]))
    out.append(("ones-plus-nI", [F(1 + n) if i == j else F(1) for i in range(n) for j in range(n)]))
    out.append(("arrow", [F(n + 1) if i == j else (F(1) if i == 0 or j == 0 else F(0)) for i in range(n) for j in range(n)]))
    # "near-diagonal impostors": non-zero diagonal, zero first sub- and super-diagonal, entries at distance >= 2 only
    if n >= 3:
        for _ in range(30):
            A = [F(rng.range(1, 4) * (1 if rng.chance(1, 2) else -1)) if i == j else
                 (F(rng.range(-3, 3)) if abs(i - j) >= 2 and rng.chance(2, 3) else F(0)) for i in range(n) for j in range(n)]
            if any(A[i*n+j] != 0 for i in range(n) for j in range(n) if abs(i - j) >= 2) and det_exact(A, n) != 0:
                out.append(("gapped-band", A)); break
        A = diag([F(2 + i) for i in range(n)]); A[n - 1] = F(1); A[(n - 1) * n] = F(-1)
        out.append(("diag-plus-corners", A))
    for _ in range(30):      # every entry +-1: a tie in every pivot search
        A = [F(1) if rng.chance(1, 2) else F(-1) for _ in range(n * n)]
        if det_exact(A, n) != 0:
            out.append(("pm-one", A)); break
    for _ in range(30):      # columns of equal magnitude c_j (ties), different from column to column
        c = [menu[rng.below(7)] for _ in range(n)]
        A = [abs(c[j]) * (1 if rng.chance(1, 2) else -1) for i in range(n) for j in range(n)]
        if det_exact(A, n) != 0:
            out.append(("equal-magnitude-columns", A)); break
    for _ in range(30):
        S = [[F(rng.range(-3, 3)) for _ in range(n)] for _ in range(n)]
        A = [S[min(i, j)][max(i, j)] for i in range(n) for j in range(n)]
        if det_exact(A, n) != 0:
            out.append(("symmetric", A)); break
    for _ in range(30):      # the largest entry of every column sits in the LAST row of the active block at step 0
        A = [F(rng.range(-2, 2)) for _ in range(n * n)]
        for j in range(n): A[(n - 1) * n + j] = F(5 + j) * (1 if rng.chance(1, 2) else -1)
        if det_exact(A, n) != 0:
            out.append(("last-row-dominant", A)); break
    return out

def special_rhs(rng, A, n):
    """named right-hand sides of special structure for the n x n system A"""
    F = Fraction
    out = [("zero", [F(0)] * n), ("e-first", [F(1) if i == 0 else F(0) for i in range(n)]),
           ("e-last", [F(1) if i == n - 1 else F(0) for i in range(n)]), ("ones", [F(1)] * n),
           ("alternating", [F((-1) ** i) for i in range(n)]),
           ("A*ones", [sum((A[i*n+j] for j in range(n)), F(0)) for i in range(n)]),
           ("last-column", [A[i*n+n-1] for i in range(n)]), ("halves", [F(1, 2)] * n)]
    return out

# complex values a fast path or a magnitude shortcut would single out: on the axes, unit modulus off the axes, |re| = |im|
CPLX_SPECIAL = [1, -1, 1j, -1j, complex(0.6, 0.8), complex(-0.8, 0.6), complex(0.6, -0.8), 1 + 1j, 1 - 1j, -1 + 1j, 2, 0.5, 2j, -0.5j, 3 + 4j, 0]

def special_cplx_matrix(rng, n, tries=40):
    """n x n matrix with entries from CPLX_SPECIAL, nonsingular (exact test); None if none was found"""
    import numpy as np
    for _ in range(tries):
        A = [complex(CPLX_SPECIAL[rng.below(len(CPLX_SPECIAL))]) for _ in range(n * n)]
        if cdet_exact(A, n) == (0, 0): continue
        # 0.6 and 0.8 are not binary fractions: [[0.6-0.8i, 1], [1, 0.6+0.8i]] has the exact determinant 1e-17, not 0.  Such a
        # matrix is nonsingular only on paper; the properties speak of rounding accuracy relative to the condition number, so
        # keep the well-conditioned ones (found by the thorough tier of C02: a NaN inverse on the unchanged source)
        if np.linalg.cond(np.array(A, dtype=complex).reshape(n, n)) > 1e6: continue
        return A
    return None
