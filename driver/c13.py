# C13 -- complex arithmetic is exact field arithmetic; operator variants and the ordering agree.
import math
from fractions import Fraction
from common import *
from engine import Case

PID = "C13"
IMPORTS = "From OV Require Import Model.ComplexRun."
MODEL_VO = ["Model/ComplexRun.vo", "Inst/QcInst.vo", "Inst/FloatInst.vo"]
RULE = ("one executor case per operator application (kinds cx.bin/asg[.r].<op>, cx.pair[.r].<op> = binary and assignment form on the same "
        "operands, cx.neg/conj/abs_sqr/abs/sabs/rmul/clone/zero/one/ident, cx.cmp pairs, cx.cmp3 triples); exact tier Complex<Rat> vs "
        "the Qc model: every pair of a 4x4x4x4 grid of components for the four pair kinds and for the ordering, plus seeded random "
        "operands (small integers and fractions, zero parts with probability 1/4, purely real / purely imaginary operands, zero "
        "divisors); float tier Complex<f64> vs the primitive-float model: components 0 or of magnitude 1e-100..1e100 (random 53-bit "
        "mantissa), purely real / imaginary operands, cancelling products, real scalars on either side, plus non-finite / overflowing "
        "/ subnormal operands (tie only); in both tiers structured operand classes (structured_cases): RELATED operands z op w with "
        "w = z, conj z, -z, -conj z, iz, (im z, re z) under all four operators and the ordering; |re| = |im| with every sign pattern on "
        "either side; the units 1, -1, +-i, +-1+-i, 2, 1/2, 2i, -i/2 and unit-modulus 3/5+4/5i on either side, with each other and "
        "through every unary kind; real scalars 1, -1, 2, -2, 1/2, -1/2, 0 and scalars equal to a part of the operand (f64: also on "
        "the left); f64 only: parts in the ratio 2^-k, k = 0..60 (abs, Signed::abs, abs_sqr, *, /; quick: one parity of k per seed "
        "plus every k in 20..30); distinct = distinct executor line; non-trivial = both operands have a non-zero component")
TRUSTED = ["Coq 8.16.1 kernel + vm_compute (primitive floats: bit-exact IEEE-754 binary64)",
           "Rust executor /verif/harness (Rat = i128 rationals; harness/src/k_complex.rs)",
           "python driver: generators, Fraction reference formulae, stream comparators",
           "hand-written Gallina model coq/Model/Complex.v tied to src/complex/mod.rs by differential execution "
           "(Complex<Rat> vs Qc exact; Complex<f64> vs primitive floats, bitwise on the assignment-vs-binary cases)"]
ASSUMPTIONS = ["Rust operator dispatch / by-value operand semantics as modelled; f64 + - * / sqrt are IEEE-754 correctly rounded (as Coq's primitive floats are)",
               "the sampled cases are where model and code were compared; the theorems are about the model"]
UNPROVED = ["the 'few ulps' accuracy is proved for the float instance of the MODEL (Coq primitive binary64 through Flocq; no overflow / "
            "subnormal intermediate): normwise 2.83*2^-53 for *, 7.1*2^-53 for /, componentwise 2^-53 for + - z*r z/r, exact neg/conj, "
            "2^-52 for abs_sqr, 3*2^-53 for abs -- not for the Rust code's f64 arithmetic itself: that Rust's f64 + - * / sqrt are these "
            "IEEE-754 operations is an assumption, supported by the bitwise agreement of every float case of the tie; the search demands "
            "normwise <= 8*2^-53 against the exact rational result",
            "behaviour on overflow / underflow / NaN is outside the property and is neither proved nor tied (only the bitwise agreement "
            "of assignment and binary forms is searched there)"]

MANIFEST = dict(
    text=("Theorems about the Gallina model of src/complex/mod.rs (every operator impl its own function, compound assignments as the statement "
          "sequences of the source). Over an abstract commutative ring / field F: Complex F with these operators satisfies ring_theory (and "
          "field_theory when F is formally real: Q, R); conj / abs_sqr laws; the mixed complex/real forms, real scalar on either side, are the "
          "operations with (r,0); (z/w)*w = z whenever |w|^2 <> 0, the quotient is unique, and division panics exactly when |w|^2 = 0; zero and "
          "one are identities; every compound-assignment form equals its binary form (syntactically for all but mul_assign, which needs "
          "commutativity of + only -- proved for IEEE binary64 from the FloatAxioms specification, so all eight forms agree bit for bit in the "
          "float instance); the lexicographic ordering is a strict total order whenever the component order is (exactly one of <, =, >; "
          "transitive; partial_cmp = Equal iff eq; lt/le/gt/ge consistent); corollaries at Q[i] and at C = R x R. For the float instance itself "
          "(Coq primitive binary64 through Flocq, no overflow/underflow) rounding bounds for every operator: normwise 2.83*2^-53 |z||w| for the "
          "product, 7.1*2^-53 |z|/|w| for the quotient, one rounding per component for + - z*r z/r, 3*2^-53 for |z|. The model is run against the implementation on every operator "
          "variant (Complex<Rat> vs Qc exactly on a full 4^4 grid plus random operands, Complex<f64> vs primitive floats), and independent "
          "Fraction formulae search for a failing input (exact equality on rationals; normwise 8*2^-53 on f64 over 1e-100..1e100; assignment "
          "form bitwise equal to binary form on every f64 operand pair including non-finite ones; trichotomy/transitivity on triples). "
          "Besides independent random operands both tiers run structured operand classes: equal, conjugate, opposite, quarter-turned "
          "and transposed operand pairs, |re| = |im|, the units (1, -1, +-i, 1+-i, 2, 1/2, unit modulus 3/5+4/5i) on either side, unit "
          "real scalars on either side, and (f64) parts in every ratio 2^0 .. 2^-60."),
    note=("The accuracy theorems are about the float instance of the model (IEEE-754 binary64 as specified by Coq's FloatAxioms / Flocq), "
          "which is tied to the Rust code by differential execution on the sampled cases (all float cases bit-identical); that Rust's f64 "
          "operations are those IEEE operations is an assumption. Overflow/underflow/NaN behaviour is outside the property."),
    technique="Coq proof over an abstract ring/field + Flocq rounding bound + model/implementation differential execution (vm_compute vs Rust executor)",
    design="7 (C13)")

U = Fraction(1, 2 ** 53)
ACC = 8 * U                     # normwise accuracy demanded of f64 results in the non-overflowing range (DESIGN 7, C13)
FLOAT_TOL = 64.0 * 2.0 ** -53   # model-vs-implementation tolerance of the float tier (bit-identical counts are reported)

AR = {'crat': 'AQ', 'cplx': 'AF'}
FS = {'crat': 'flat_q', 'cplx': 'flat_f'}
SC = {'crat': 'rat', 'cplx': 'f64'}

BIN = {"add": "cadd", "sub": "csub", "mul": "cmul", "div": "cdiv"}
ASG = {"add": "cadd_assign", "sub": "csub_assign", "mul": "cmul_assign", "div": "cdiv_assign"}
BINR = {"add": "cadd_r", "sub": "csub_r", "mul": "cmul_r", "div": "cdiv_r"}
ASGR = {"add": "cadd_assign_r", "sub": "csub_assign_r", "mul": "cmul_assign_r", "div": "cdiv_assign_r"}

# ----------------------------------------------------------------------------- printers
def tok_s(elt, x):
    return tok_scalar(SC[elt], x)

def tok_z(elt, z):
    return tok_s(elt, z[0]) + ":" + tok_s(elt, z[1])

def coq_s(elt, x):
    return coq_scalar(SC[elt], x)

def coq_z(elt, z):
    return "(@mkC %s %s %s)" % (AR[elt], coq_s(elt, z[0]), coq_s(elt, z[1]))

def parse_s(elt, t):
    if elt == 'crat':
        return Fraction(t)
    return bits_f64(int(t[1:], 16))

def parse_z(elt, t):
    a, b = t.split(":")
    return (parse_s(elt, a), parse_s(elt, b))

def operand_kinds(kind):
    """argument signature of an executor kind: 'z' complex, 'r' real scalar"""
    k = kind[3:]
    if k in ("neg", "conj", "abs_sqr", "clone", "ident", "abs", "sabs", "copy"): return "z"
    if k in ("zero", "one"): return ""
    if k == "cmp": return "zz"
    if k == "cmp3": return "zzz"
    if k in ("rmul", "pair.rmul"): return "rz"
    if k.startswith(("pair.r.", "bin.r.", "asg.r.")): return "zr"
    if k.startswith(("pair.", "bin.", "asg.")): return "zz"
    raise ValueError("unknown kind " + kind)

def term_of(elt, kind, ops):
    A, fs = AR[elt], FS[elt]
    k = kind[3:]
    args = [coq_z(elt, o) if isinstance(o, tuple) else coq_s(elt, o) for o in ops]
    def call(fn): return "(@%s %s %s)" % (fn, A, " ".join(args))
    run1 = lambda fn, res: "@run1%s %s %s %s" % ("r" if res else "", A, fs, call(fn))
    run2 = lambda f1, f2, res: "@run2%s %s %s %s %s" % ("r" if res else "", A, fs, call(f1), call(f2))
    for pre, tab in (("bin.r.", BINR), ("asg.r.", ASGR)):
        if k.startswith(pre): return run1(tab[k[len(pre):]], k.endswith("div"))
    if k.startswith("pair.r."): op = k[7:]; return run2(BINR[op], ASGR[op], op == "div")
    if k == "pair.rmul":
        r, z = args
        return "@flz %s %s (@rmul_c %s %s %s) ++ @flz %s %s (@cmul_r %s %s %s) ++ @flz %s %s (@cmul_assign_r %s %s %s)" % (
            A, fs, A, r, z, A, fs, A, z, r, A, fs, A, z, r)
    if k.startswith("pair."): op = k[5:]; return run2(BIN[op], ASG[op], op == "div")
    for pre, tab in (("bin.", BIN), ("asg.", ASG)):
        if k.startswith(pre): return run1(tab[k[len(pre):]], k.endswith("div"))
    if k == "neg": return run1("cneg", False)
    if k == "conj": return run1("conj", False)
    if k == "clone": return run1("cclone", False)
    if k == "copy": return "@flz %s %s %s ++ @flz %s %s %s" % (A, fs, args[0], A, fs, args[0])
    if k == "abs_sqr": return "%s %s" % (fs, call("abs_sqr"))
    if k == "zero": return "@flz %s %s (@czero %s)" % (A, fs, A)
    if k == "one": return "@flz %s %s (@cone %s)" % (A, fs, A)
    if k == "ident": return "@run_ident %s %s %s" % (A, fs, args[0])
    if k == "cmp": return "@run_cmp %s %s %s" % (A, args[0], args[1])
    if k == "cmp3": return "@run_cmp3 %s %s %s %s" % (A, args[0], args[1], args[2])
    if k == "rmul": return "@flz %s %s (@rmul_c %s %s %s)" % (A, fs, A, args[0], args[1])
    if k == "abs": return "flat_f (@cabs SAF %s)" % args[0]
    if k == "sabs": return "flat_cf (@abs ACF %s)" % args[0]
    raise ValueError("unknown kind " + kind)

def is_fin(x):
    return isinstance(x, Fraction) or (x == x and abs(x) != math.inf)

def in_range(elt, ops):
    """f64 operands inside the quantifier of the property: every component 0 or of magnitude 1e-100..1e100"""
    if elt == 'crat': return True
    for o in ops:
        for x in (o if isinstance(o, tuple) else (o,)):
            if not is_fin(x): return False
            if x != 0 and not (1e-100 <= abs(x) <= 1e100): return False
    return True

def nonzero(o):
    return any(x != 0 for x in (o if isinstance(o, tuple) else (o,)))

def mk(elt, kind, ops, family, exact_bits=False):
    ops = list(ops)
    line = " ".join([kind] + [tok_z(elt, o) if isinstance(o, tuple) else tok_s(elt, o) for o in ops])
    sig = operand_kinds(kind)
    assert len(sig) == len(ops) and all((s == 'z') == isinstance(o, tuple) for s, o in zip(sig, ops)), (kind, ops)
    nt = all(nonzero(o) for o in ops) and len(ops) > 0
    return Case(elt, line, term_of(elt, kind, ops), meta={"kind": kind, "ops": ops, "inrange": in_range(elt, ops)},
                family=family, nontrivial=nt, tol=FLOAT_TOL, check_class=True, exact_bits=exact_bits)

def case_from_line(elt, line, family="corpus"):
    toks = line.split()
    kind = toks[0]
    sig = operand_kinds(kind)
    ops = [parse_z(elt, t) if s == 'z' else parse_s(elt, t) for s, t in zip(sig, toks[1:])]
    return mk(elt, kind, ops, family)

def case_from_json(j):
    return case_from_line(j["elt"], j["line"])

# ----------------------------------------------------------------------------- generators
GRID = [Fraction(-1), Fraction(0), Fraction(1, 2), Fraction(2)]

def rq(rng):
    k = rng.below(8)
    if k < 2: return Fraction(0)
    if k < 5: return Fraction(rng.range(-6, 6))
    return Fraction(rng.range(-9, 9), rng.range(1, 5))

def rq_nz(rng):
    while True:
        x = rq(rng)
        if x != 0: return x

def zq(rng):
    k = rng.below(8)
    if k == 0: return (rq(rng), Fraction(0))           # purely real
    if k == 1: return (Fraction(0), rq(rng))           # purely imaginary
    return (rq(rng), rq(rng))

def zq_nz(rng):
    while True:
        z = zq(rng)
        if nonzero(z): return z

def rf(rng):
    """0 (either sign) or magnitude 1e-100..1e100 with a random 53-bit mantissa"""
    k = rng.below(10)
    s = -1.0 if rng.chance(1, 2) else 1.0
    if k == 0: return s * 0.0
    if k == 1: return s * float(rng.range(1, 9))
    if k == 2: return s * 10.0 ** rng.range(-100, 100)
    while True:
        x = (1.0 + rng.unit()) * 10.0 ** rng.range(-100, 99)
        if 1e-100 <= x <= 1e100: return s * x

def rf_scaled(rng, e):
    s = -1.0 if rng.chance(1, 2) else 1.0
    x = (1.0 + rng.unit()) * 10.0 ** e * 10.0 ** (rng.unit() - 0.5)
    return s * min(max(x, 1e-100), 1e100)

def rf_nz(rng):
    while True:
        x = rf(rng)
        if x != 0: return x

def zf(rng):
    k = rng.below(10)
    if k == 0: return (rf(rng), 0.0 if rng.chance(1, 2) else -0.0)
    if k == 1: return (0.0 if rng.chance(1, 2) else -0.0, rf(rng))
    if k < 5:                                            # both parts of one scale
        e = rng.range(-100, 99)
        return (rf_scaled(rng, e), rf_scaled(rng, e))
    return (rf(rng), rf(rng))

def zf_nz(rng):
    while True:
        z = zf(rng)
        if nonzero(z): return z

EXTREME = [math.inf, -math.inf, math.nan, 1.7976931348623157e308, -1.7976931348623157e308, 1e200, -1e200, 1e155, 1e-155,
           2.2250738585072014e-308, 5e-324, -5e-324, 1e-200, 0.0, -0.0, 1.0, -1.0, 3.0, 1e100, 1e-100]

def zx(rng):
    return (rng.choice(EXTREME), rng.choice(EXTREME))

def cancelling(rng, op):
    """operands whose product (or quotient numerator) cancels in one component: the componentwise error is
    unbounded there, the normwise error is not"""
    e1, e2 = rng.range(-60, 60), rng.range(-40, 40)
    a, b, c = rf_scaled(rng, e1), rf_scaled(rng, e1), rf_scaled(rng, e2)
    d = a * c / b                     # a*c - b*d ~ 0
    if op == "div": d = -d            # a*c + b*d ~ 0
    if rng.chance(1, 2):              # cancel the imaginary part instead: a*d + b*c ~ 0 / b*c - a*d ~ 0
        d = -b * c / a if op == "mul" else b * c / a
    return (a, b), (c, d)

# ---- structured operand classes (special-values audit, findings/special-values-specB/C13-table.md) ----------------
# Operands RELATED to each other: the independent random draws of the float tier never produce them, and an
# operator may treat them specially (squaring when both operands are equal, |z|^2 for a conjugate pair, ...).
RELATIONS = ("same", "conj", "neg", "negconj", "rot", "swap")

def related(z, rel):
    """w as a function of z = (a, b): the same value, conj z, -z, -conj z, i*z, (b, a); exact for Fractions and floats"""
    a, b = z
    if rel == "same": return (a, b)
    if rel == "conj": return (a, -b)
    if rel == "neg": return (-a, -b)
    if rel == "negconj": return (-a, b)
    if rel == "rot": return (-b, a)
    if rel == "swap": return (b, a)
    raise ValueError(rel)

# the units of the Gaussian integers and their neighbours: 1, -1, i, -i, 1+-i, -1+-i, 2, 1/2, 2i, -i/2, and two
# unit-modulus numbers off the axes (3/5 + 4/5 i, -4/5 + 3/5 i; 0.6 + 0.8i in f64)
def units(elt):
    c = (lambda n, d=1: Fraction(n, d)) if elt == 'crat' else (lambda n, d=1: n / d)
    return [(c(1), c(0)), (c(-1), c(0)), (c(0), c(1)), (c(0), c(-1)), (c(1), c(1)), (c(1), c(-1)), (c(-1), c(1)), (c(-1), c(-1)),
            (c(2), c(0)), (c(1, 2), c(0)), (c(0), c(2)), (c(0), c(-1, 2)), (c(3, 5), c(4, 5)), (c(-4, 5), c(3, 5))]

def unit_scalars(elt, with_zero=True):
    c = (lambda n, d=1: Fraction(n, d)) if elt == 'crat' else (lambda n, d=1: n / d)
    return [c(1), c(-1), c(2), c(-2), c(1, 2), c(-1, 2)] + ([c(0)] if with_zero else [])

def tie_parts(elt, g):
    """|re| = |im| != 0 with every combination of signs"""
    x = rq_nz(g) if elt == 'crat' else rf_nz(g)
    return (x if g.chance(1, 2) else -x, x if g.chance(1, 2) else -x)

def graded(g, k, exact_ratio):
    """f64 z whose parts have the ratio 2^-k (times a random mantissa factor in [1,2) unless exact_ratio): one part
    dominates by a controlled amount -- from equal parts (k = 0) to a part below the rounding unit of the other's
    square (k > 53); which part is the small one and the signs are random.  All parts stay inside 1e-100..1e100."""
    while True:
        x = (1.0 + g.unit()) * 10.0 ** g.range(-80, 99)
        m = 1.0 if exact_ratio else 1.0 + g.unit()
        y = x * m * 2.0 ** -k
        if 1e-100 <= abs(y) and abs(x) <= 1e100: break
    if g.chance(1, 2): x = -x
    if g.chance(1, 2): y = -y
    return (x, y) if g.chance(1, 2) else (y, x)

def structured_cases(rng, quick):
    cases = []
    OPS = ("add", "sub", "mul", "div")
    for elt, rz, rz_nz, rs in (('crat', zq, zq_nz, rq), ('cplx', zf, zf_nz, rf)):
        g = rng.fork("structured-" + elt)
        # ---- related operand pairs: z op z, z op conj z, z op -z, z op -conj z, z op iz, z op (im z, re z)
        nz = (4 if elt == 'crat' else 6) if quick else 28
        for t in range(nz):
            z = rz_nz(g) if t % 3 else tie_parts(elt, g)          # every third z has |re| = |im| as well
            if not nonzero(z): continue
            for rel in RELATIONS:
                w = related(z, rel)
                for op in OPS:
                    cases.append(mk(elt, "cx.pair." + op, [z, w], elt + "-related-pair:" + rel))
                cases.append(mk(elt, "cx.cmp", [z, w], elt + "-related-order"))
            cases.append(mk(elt, "cx.cmp3", [z, related(z, "conj"), related(z, "neg")], elt + "-related-order"))
            cases.append(mk(elt, "cx.cmp3", [z, z, related(z, "swap")], elt + "-related-order"))
        # ---- |re| = |im| on either side, the other operand arbitrary: equal parts (x, x) and one of the three other
        #      sign patterns per draw, as the right operand of every operator and as the left operand of one
        for t in range((3 if elt == 'crat' else 6) if quick else 24):
            x = rq_nz(g) if elt == 'crat' else rf_nz(g)
            pats = [(x, x), g.choice([(x, -x), (-x, x), (-x, -x)])] if quick else [(x, x), (x, -x), (-x, x), (-x, -x)]
            for w in pats:
                for op in OPS:
                    cases.append(mk(elt, "cx.pair." + op, [rz(g), w], elt + "-tie-parts"))
                cases.append(mk(elt, "cx.pair." + g.choice(OPS), [w, rz_nz(g)], elt + "-tie-parts"))
        # ---- the units on either side of an arbitrary operand, unit with unit, and through the unary operators
        us = units(elt)
        for u in us:
            z = rz_nz(g)
            for op in OPS:                                        # the unit on either side
                cases.append(mk(elt, "cx.pair." + op, [z, u], elt + "-units"))
                cases.append(mk(elt, "cx.pair." + op, [u, z], elt + "-units"))
            for k in ("neg", "conj", "abs_sqr", "ident") + (("abs", "sabs") if elt == 'cplx' else ()):
                cases.append(mk(elt, "cx." + k, [u], elt + "-units-unary"))
        for t in range(8 if quick else len(us) ** 2):
            u, v = (g.choice(us), g.choice(us)) if quick else (us[t // len(us)], us[t % len(us)])
            for op in OPS:
                cases.append(mk(elt, "cx.pair." + op, [u, v], elt + "-units"))
        # ---- real scalars 1, -1, 2, -2, 1/2, -1/2, 0 and scalars equal to a part of the complex operand
        for t in range(2 if quick else 8):
            z = rz_nz(g)
            scal = unit_scalars(elt) + [z[0], -z[0], z[1]]
            for r in scal:
                for op in OPS:
                    if op == "div" and r == 0: continue
                    cases.append(mk(elt, "cx.pair.r." + op, [z, r], elt + "-unit-scalars"))
                if elt == 'cplx':
                    cases.append(mk(elt, "cx.pair.rmul", [r, z], elt + "-unit-scalars"))
            for u in (us if not quick else [g.choice(us)]):
                for r in unit_scalars(elt, with_zero=False):
                    op = g.choice(OPS)
                    cases.append(mk(elt, "cx.pair.r." + op, [u, r], elt + "-unit-scalars"))
    # ---- f64 only: graded ratio of the parts, 2^0 .. 2^-60 (quick: one parity of k per seed; thorough: every k, both)
    g = rng.fork("structured-graded")
    par = g.below(2)
    for k in range(0, 61):
        if quick and k % 2 != par and not (20 <= k <= 30): continue      # the band around sqrt(2^-53) = 2^-26.5 always
        band = 20 <= k <= 30
        for exact_ratio in ((False, True) if band or not quick else (g.chance(1, 2),)):
            z = graded(g, k, exact_ratio)
            cases.append(mk('cplx', "cx.abs", [z], "cplx-graded-ratio"))
            cases.append(mk('cplx', "cx.sabs", [z], "cplx-graded-ratio"))
            if not quick or (k % 4 == 2 * par and exact_ratio):
                cases.append(mk('cplx', "cx.abs_sqr", [z], "cplx-graded-ratio"))
                cases.append(mk('cplx', "cx.pair.mul", [z, graded(g, k, False)], "cplx-graded-ratio"))
                cases.append(mk('cplx', "cx.pair.div", [zf(g), z], "cplx-graded-ratio"))
    return cases

STRUCTURED = True      # the structured operand classes above (special-values audit)

def generate(rng, tier):
    cases = []
    quick = tier != "thorough"
    # ---------------- exact tier: Complex<Rat> vs Qc
    g = rng.fork("grid")
    pts = [(a, b) for a in GRID for b in GRID]
    for z in pts:
        for w in pts:
            for op in ("add", "sub", "mul", "div"):
                if op == "div" and not nonzero(w):
                    cases.append(mk('crat', "cx.bin.div", [z, w], "crat-div-by-zero"))
                    cases.append(mk('crat', "cx.asg.div", [z, w], "crat-div-by-zero"))
                else:
                    cases.append(mk('crat', "cx.pair." + op, [z, w], "crat-grid-pair"))
            cases.append(mk('crat', "cx.cmp", [z, w], "crat-grid-cmp"))
    for z in pts:
        for r in GRID:
            for op in ("add", "sub", "mul", "div"):
                if op == "div" and r == 0:
                    cases.append(mk('crat', "cx.bin.r.div", [z, r], "crat-div-by-zero"))
                    cases.append(mk('crat', "cx.asg.r.div", [z, r], "crat-div-by-zero"))
                else:
                    cases.append(mk('crat', "cx.pair.r." + op, [z, r], "crat-grid-pair-real"))
        for k in ("neg", "conj", "abs_sqr", "clone", "ident"):
            cases.append(mk('crat', "cx." + k, [z], "crat-grid-unary"))
    cases.append(mk('crat', "cx.zero", [], "crat-grid-unary"))
    cases.append(mk('crat', "cx.one", [], "crat-grid-unary"))
    g = rng.fork("crat")
    N = 25 if quick else 200
    for op in ("add", "sub", "mul", "div"):
        for t in range(N):
            z = zq(g); w = zq_nz(g) if op == "div" else zq(g)
            r = rq_nz(g) if op == "div" else rq(g)
            cases.append(mk('crat', "cx.bin." + op, [z, w], "crat-random"))
            cases.append(mk('crat', "cx.asg." + op, [z, w], "crat-random"))
            cases.append(mk('crat', "cx.pair." + op, [zq(g), zq_nz(g) if op == "div" else zq(g)], "crat-random-pair"))
            cases.append(mk('crat', "cx.bin.r." + op, [z, r], "crat-random-real"))
            cases.append(mk('crat', "cx.asg.r." + op, [z, r], "crat-random-real"))
            cases.append(mk('crat', "cx.pair.r." + op, [zq(g), r], "crat-random-pair"))
    for t in range(N):
        z = zq(g)
        for k in ("neg", "conj", "abs_sqr", "clone", "ident"):
            cases.append(mk('crat', "cx." + k, [z], "crat-random-unary"))
    g = rng.fork("order")
    for t in range(4 * N):
        # components from a small set so that equal real parts (the imaginary parts decide) and equal numbers are frequent
        pool = [Fraction(g.range(-2, 2), g.range(1, 3)) for _ in range(3)]
        zs = [(g.choice(pool), g.choice(pool)) for _ in range(3)]
        cases.append(mk('crat', "cx.cmp3", zs, "crat-order-triples"))
        if t % 4 == 0:
            cases.append(mk('crat', "cx.cmp", [zq(g), zq(g)], "crat-order-pairs"))
    # ---------------- float tier: Complex<f64> vs primitive floats
    g = rng.fork("cplx")
    M = 40 if quick else 500
    for op in ("add", "sub", "mul", "div"):
        for t in range(M):
            z = zf(g); w = zf_nz(g) if op == "div" else zf(g)
            r = rf_nz(g) if op == "div" else rf(g)
            cases.append(mk('cplx', "cx.pair." + op, [z, w], "cplx-pair"))
            cases.append(mk('cplx', "cx.pair.r." + op, [z, r], "cplx-pair-real"))
            if t % 2 == 0:
                cases.append(mk('cplx', "cx.bin." + op, [zf(g), zf_nz(g) if op == "div" else zf(g)], "cplx-single"))
                cases.append(mk('cplx', "cx.asg." + op, [zf(g), zf_nz(g) if op == "div" else zf(g)], "cplx-single"))
                cases.append(mk('cplx', "cx.bin.r." + op, [zf(g), r], "cplx-single"))
                cases.append(mk('cplx', "cx.asg.r." + op, [zf(g), r], "cplx-single"))
        if op in ("mul", "div"):
            for t in range(M):
                z, w = cancelling(g, op)
                if in_range('cplx', [z, w]):
                    cases.append(mk('cplx', "cx.pair." + op, [z, w], "cplx-cancelling"))
    for t in range(M):
        z = zf(g)
        for k in ("neg", "conj", "abs_sqr", "abs", "sabs", "ident"):
            cases.append(mk('cplx', "cx." + k, [z], "cplx-unary"))
        cases.append(mk('cplx', "cx.pair.rmul", [rf(g), zf(g)], "cplx-left-scalar"))
        if t % 4 == 0:
            cases.append(mk('cplx', "cx.rmul", [rf(g), zf(g)], "cplx-left-scalar"))
            cases.append(mk('cplx', "cx.clone", [z], "cplx-unary"))
            cases.append(mk('cplx', "cx.copy", [z], "cplx-unary"))
    cases.append(mk('cplx', "cx.zero", [], "cplx-unary"))
    cases.append(mk('cplx', "cx.one", [], "cplx-unary"))
    g = rng.fork("forder")
    for t in range(2 * M):
        pool = [rf(g) for _ in range(3)]
        zs = [(g.choice(pool), g.choice(pool)) for _ in range(3)]
        cases.append(mk('cplx', "cx.cmp3", zs, "cplx-order-triples"))
        if t % 2 == 0:
            cases.append(mk('cplx', "cx.cmp", zs[:2], "cplx-order-pairs"))
    # non-finite, overflowing and subnormal operands.  The accuracy claim and the ordering claim exclude them
    # (non-overflowing range; NaN-free values), so there is no model-vs-implementation comparison here (term = None:
    # a rewrite that behaves differently only outside the range must stay quiet); what the property states without
    # a range -- the assignment form is bit-identical to the binary form -- is still searched on them, and the
    # ordering is tied and searched on NaN-free operands (infinities, huge, subnormal, signed zeros).
    g = rng.fork("extreme")
    for t in range(M):
        op = ("add", "sub", "mul", "div")[t % 4]
        for c in (mk('cplx', "cx.pair." + op, [zx(g), zx(g)], "cplx-extreme-forms"),
                  mk('cplx', "cx.pair.r." + op, [zx(g), g.choice(EXTREME)], "cplx-extreme-forms"),
                  mk('cplx', "cx.pair.rmul", [g.choice(EXTREME), zx(g)], "cplx-extreme-forms")):
            c.term = None
            cases.append(c)
        zs = [zx(g) for _ in range(3)]
        if all(x == x for z in zs for x in z):
            cases.append(mk('cplx', "cx.cmp3", zs, "cplx-extreme-order"))
            cases.append(mk('cplx', "cx.cmp", zs[:2], "cplx-extreme-order"))
    if STRUCTURED:
        cases += structured_cases(rng.fork("structured"), quick)
    return cases

# ----------------------------------------------------------------------------- oracle (independent reference)
class RefDivZero(Exception):
    pass

def fr(x):
    return x if isinstance(x, Fraction) else Fraction(x)

def fz_(z):
    return (fr(z[0]), fr(z[1]))

def c_add(z, w): return (z[0] + w[0], z[1] + w[1])
def c_neg(z): return (-z[0], -z[1])
def c_mul(z, w): return (z[0] * w[0] - z[1] * w[1], z[0] * w[1] + z[1] * w[0])
def c_inv(w):
    """the inverse from its defining linear system  (c + id)(x + iy) = 1  solved by Cramer's rule"""
    c, d = w
    det = c * c + d * d
    if det == 0: raise RefDivZero()
    return (c / det, -d / det)

def reference(kind, ops):
    """exact results of an executor kind as a list of complex pairs / scalars (field formulae, coded independently of the model)"""
    k = kind[3:]
    o = [fz_(x) if isinstance(x, tuple) else fr(x) for x in ops]
    def binop(op, z, w):
        if op == "add": return c_add(z, w)
        if op == "sub": return c_add(z, c_neg(w))
        if op == "mul": return c_mul(z, w)
        if op == "div": return c_mul(z, c_inv(w))
        raise ValueError(op)
    emb = lambda r: (r, Fraction(0))
    if k.startswith("pair.r."): v = binop(k[7:], o[0], emb(o[1])); return [v, v]
    if k == "pair.rmul": v = c_mul(emb(o[0]), o[1]); return [v, v, v]
    if k.startswith("pair."): v = binop(k[5:], o[0], o[1]); return [v, v]
    if k.startswith(("bin.r.", "asg.r.")): return [binop(k[6:], o[0], emb(o[1]))]
    if k.startswith(("bin.", "asg.")): return [binop(k[4:], o[0], o[1])]
    if k == "neg": return [c_neg(o[0])]
    if k == "conj": return [(o[0][0], -o[0][1])]
    if k in ("clone",): return [o[0]]
    if k == "copy": return [o[0], o[0]]
    if k == "abs_sqr": return [c_mul(o[0], (o[0][0], -o[0][1]))[0]]
    if k == "zero": return [(Fraction(0), Fraction(0))]
    if k == "one": return [(Fraction(1), Fraction(0))]
    if k == "ident": return [o[0]] * 10
    if k == "rmul": return [c_mul(emb(o[0]), o[1])]
    return None

def okey(x):
    """a component as a key of the usual order of the extended reals (exact; -0.0 = 0.0)"""
    if isinstance(x, Fraction): return (0, x)
    if x == math.inf: return (1, Fraction(0))
    if x == -math.inf: return (-1, Fraction(0))
    return (0, Fraction(x))

def items_values(elt, items):
    """decode an answer stream into exact scalars (Fractions; None for non-finite floats)"""
    out = []
    for it in items:
        if it[0] == 'q': out.append(Fraction(it[1], it[2]))
        elif it[0] == 'f':
            x = bits_f64(it[1])
            out.append(Fraction(x) if is_fin(x) else None)
        else: out.append(it)
    return out

WORST = {}      # op -> largest observed normwise error of an f64 result, in units of 2^-53 (measured, reported in the evidence)

def close_enough(got, exp, acc, what=None):
    """normwise: |got - exp| <= acc * |exp| for a tuple of components (exact rational comparison of squares)"""
    if any(g is None for g in got): return False
    err2 = sum((g - e) ** 2 for g, e in zip(got, exp))
    mag2 = sum(e ** 2 for e in exp)
    if what is not None and mag2 != 0:
        r = math.sqrt(float(err2 / mag2)) * 2.0 ** 53
        if r > WORST.get(what, 0.0): WORST[what] = r
    return err2 <= acc * acc * mag2

def extra_coverage():
    return {"f64_worst_normwise_error_in_units_of_2^-53": {k: round(v, 3) for k, v in sorted(WORST.items())},
            "f64_accuracy_demanded_in_units_of_2^-53": 8}

def oracle(case, items):
    m = case.meta
    kind, ops, elt = m["kind"], m["ops"], case.elt
    k = kind[3:]
    panicked = bool(items) and items[-1][0] == 'P'
    # ---- ordering and equality
    if k in ("cmp", "cmp3"):
        if panicked: return "comparison panicked: %r" % (items[-1],)
        if not all(x == x for z in ops for x in z):
            return None                                  # NaN operands: outside the statement ("NaN-free values")
        key = [tuple(okey(x) for x in z) for z in ops]
        bits = [it[1] for it in items]
        if k == "cmp":
            z, w = key
            code = 0 if z < w else (1 if z == w else 2)
            exp = [int(z == w), int(z != w), code, int(z < w), int(z <= w), int(z > w), int(z >= w), int(z < w), int(z <= w)]
            if bits != exp:
                return "eq/ne/partial_cmp/lt/le/gt/ge of %s and %s are %r, the lexicographic order gives %r" % (ops[0], ops[1], bits, exp)
            return None
        lt = lambda i, j: bits[2 * (3 * i + j)]
        eq = lambda i, j: bits[2 * (3 * i + j) + 1]
        for i in range(3):
            for j in range(3):
                if lt(i, j) + eq(i, j) + lt(j, i) != 1:
                    return "trichotomy fails for %s, %s: lt=%d eq=%d gt=%d" % (ops[i], ops[j], lt(i, j), eq(i, j), lt(j, i))
                if eq(i, j) != int(key[i] == key[j]) or lt(i, j) != int(key[i] < key[j]):
                    return "ordering of %s, %s is not the lexicographic one (lt=%d eq=%d)" % (ops[i], ops[j], lt(i, j), eq(i, j))
                for l in range(3):
                    if lt(i, j) and lt(j, l) and not lt(i, l):
                        return "transitivity fails on %s < %s < %s" % (ops[i], ops[j], ops[l])
        return None
    # ---- f64-only modulus
    if k in ("abs", "sabs"):
        if not m["inrange"]: return None
        if panicked: return "abs panicked"
        vals = items_values(elt, items)
        z = fz_(ops[0])
        n2 = z[0] ** 2 + z[1] ** 2
        a = vals[0]
        if a is None or a < 0 or not ((1 - ACC) ** 2 * n2 <= a * a <= (1 + ACC) ** 2 * n2):
            return "|%s| = %r is not sqrt(re^2+im^2) to 8 ulp-units" % (ops[0], a if a is None else float(a))
        if k == "sabs" and (len(vals) != 2 or vals[1] != 0):
            return "Signed::abs(%s) is not (|z|, 0): %r" % (ops[0], vals)
        return None
    # ---- arithmetic: exact field formulae
    try:
        exp = reference(kind, ops) if m["inrange"] else None
    except RefDivZero:
        if elt == 'crat':
            return None if panicked else "division by zero was answered instead of refused: %r" % (items,)
        if panicked: return "f64 division panicked"
        return pair_bits(kind, ops, items) if k.startswith("pair.") else None   # f64: inf/NaN results, outside the range
    if exp is None:
        if k.startswith("pair.") and elt == 'cplx' and not panicked:
            return pair_bits(kind, ops, items)           # bit identity of the forms is demanded for every operand
        return None
    if panicked:
        return "%s panicked (%s) on operands where the field operation is defined" % (kind, items[-1][1])
    vals = items_values(elt, items)
    flat_exp = []
    for e in exp:
        flat_exp.append(e if isinstance(e, tuple) else (e,))
    n = sum(len(e) for e in flat_exp)
    if len(vals) != n:
        return "%s returned %d components, expected %d" % (kind, len(vals), n)
    pos = 0
    for idx, e in enumerate(flat_exp):
        got = tuple(vals[pos:pos + len(e)]); pos += len(e)
        if elt == 'crat':
            if got != e:
                return "%s %s: result %d is %s, the field operation gives %s" % (kind, ops, idx, [str(x) for x in got], [str(x) for x in e])
        else:
            exactk = k in ("neg", "conj", "clone", "copy", "zero", "one")
            if not close_enough(got, e, 0 if exactk else ACC, what=k.split('.')[-1]):
                return "%s %s: result %d is %s, the exact value is %s (normwise error above 8*2^-53)" % (
                    kind, ops, idx, [None if x is None else float(x) for x in got], [float(x) for x in e])
    if k.startswith("pair."):
        return pair_bits(kind, ops, items)
    return None

def pair_bits(kind, ops, items):
    """the compound-assignment form must give the bit-identical result of the binary form"""
    raw = [it[1:] for it in items]
    half = 2
    first = raw[:half]
    for j in range(1, len(raw) // half):
        if raw[j * half:(j + 1) * half] != first:
            return "%s %s: the operator forms disagree bitwise: %r vs %r" % (kind, ops, items[:half], items[j * half:(j + 1) * half])
    return None
