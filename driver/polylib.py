# driver/polylib.py -- shared by c11.py / c12.py: case builders for the executor kinds poly.* and their
# Gallina twins (run_ring / run_calc / run_access / run_ctor / run_div of coq/Model/Poly.v), a reader for
# the answer streams, and an INDEPENDENT textbook coefficient-list model in exact arithmetic
# (fractions.Fraction, Gaussian rationals for Complex) -- the search oracle's reference.
import math
from fractions import Fraction
from common import *
from engine import Case

IMPORTS = "From OV Require Import Model.Poly."
MODEL_VO = ["Model/Poly.vo"]

# ------------------------------------------------------------------ exact scalars
class CQ:
    """Gaussian rational a + bi (exact complex arithmetic for the reference model)"""
    __slots__ = ("re", "im")
    def __init__(self, re, im=0):
        self.re, self.im = Fraction(re), Fraction(im)
    def __add__(self, o): o = cq(o); return CQ(self.re + o.re, self.im + o.im)
    __radd__ = __add__
    def __sub__(self, o): o = cq(o); return CQ(self.re - o.re, self.im - o.im)
    def __rsub__(self, o): return cq(o) - self
    def __mul__(self, o): o = cq(o); return CQ(self.re * o.re - self.im * o.im, self.re * o.im + self.im * o.re)
    __rmul__ = __mul__
    def __neg__(self): return CQ(-self.re, -self.im)
    def __eq__(self, o):
        if not isinstance(o, (CQ, int, Fraction)): return False
        o = cq(o); return self.re == o.re and self.im == o.im
    def __ne__(self, o): return not self.__eq__(o)
    def __hash__(self): return hash((self.re, self.im))
    def __repr__(self): return "(%s+%si)" % (self.re, self.im)
    def mag(self): return max(abs(self.re), abs(self.im))

def cq(x):
    return x if isinstance(x, CQ) else CQ(x, 0)

def mag(x):
    return x.mag() if isinstance(x, CQ) else abs(x)

def finite(x):
    if isinstance(x, complex): return math.isfinite(x.real) and math.isfinite(x.imag)
    if isinstance(x, float): return math.isfinite(x)
    return True

def exact(elt, x):
    """the mathematical value of a scalar of the given element kind (floats are dyadic rationals)"""
    if elt == 'rat': return Fraction(x)
    if elt == 'f64': return Fraction(float(x))
    if elt == 'cplx':
        x = complex(x); return CQ(Fraction(x.real), Fraction(x.imag))
    raise ValueError(elt)

def zero_of(elt):
    return CQ(0, 0) if elt == 'cplx' else Fraction(0)

# JSON-ready encodings of scalars (meta / corpus / replay files)
def enc(elt, x):
    if elt == 'rat':
        x = Fraction(x); return "%d/%d" % (x.numerator, x.denominator)
    if elt == 'f64': return float(x).hex()
    if elt == 'cplx':
        x = complex(x); return [x.real.hex(), x.imag.hex()]
    raise ValueError(elt)

def _f(s):
    return float.fromhex(s) if isinstance(s, str) else float(s)

def dec(elt, j):
    if elt == 'rat': return Fraction(j)
    if elt == 'f64': return _f(j)
    if elt == 'cplx': return complex(_f(j[0]), _f(j[1]))
    raise ValueError(elt)

def enc_poly(elt, p): return [enc(elt, x) for x in p]
def dec_poly(elt, j): return [dec(elt, x) for x in j]

# ------------------------------------------------------------------ textbook reference model (lists, index = power)
def ref_add(p, q):
    if not p: return list(q)
    if not q: return list(p)
    n = max(len(p), len(q))
    return [(p[i] if i < len(p) else 0) + (q[i] if i < len(q) else 0) for i in range(n)]

def ref_neg(p): return [-a for a in p]

def ref_sub(p, q):
    if not p: return ref_neg(q)
    if not q: return list(p)
    n = max(len(p), len(q))
    return [(p[i] if i < len(p) else 0) - (q[i] if i < len(q) else 0) for i in range(n)]

def ref_mul(p, q, zero=Fraction(0)):
    if not p or not q: return []
    out = [zero] * (len(p) + len(q) - 1)
    for k in range(len(out)):
        s = zero
        for i in range(k + 1):
            if i < len(p) and k - i < len(q): s = s + p[i] * q[k - i]
        out[k] = s
    return out

def ref_scale(p, s): return [a * s for a in p]

def ref_eval(p, x, zero=Fraction(0)):
    """sum a_i x^i (None for the empty polynomial: eval panics there, see DESIGN 7/C11)"""
    if not p: return None
    s, xp = zero, 1
    for a in p:
        s = s + a * xp
        xp = xp * x
    return s

def ref_deriv(p):
    """None for the empty polynomial (derivative panics there)"""
    if not p: return None
    return [p[i + 1] * (i + 1) for i in range(len(p) - 1)]

def ref_deriv_n(p, n):
    for _ in range(n):
        if p is None: return None
        p = ref_deriv(p)
    return p

def same_poly_fn(p, q):
    """equal as polynomials (coefficient functions; trailing zeros ignored)"""
    n = max(len(p), len(q))
    return all((p[i] if i < len(p) else 0) == (q[i] if i < len(q) else 0) for i in range(n))

# ------------------------------------------------------------------ answer-stream reader
class Stream:
    def __init__(self, elt, items):
        self.elt, self.items, self.pos = elt, items, 0
    def done(self): return self.pos >= len(self.items)
    def peek_panic(self):
        return self.pos < len(self.items) and self.items[self.pos][0] == 'P'
    def int(self):
        it = self.items[self.pos]
        if it[0] != 'i': raise StreamError("item %d: expected an integer, got %r" % (self.pos, it))
        self.pos += 1; return it[1]
    def _real(self):
        it = self.items[self.pos]; self.pos += 1
        if it[0] == 'q': return Fraction(it[1], it[2]), True
        if it[0] == 'f':
            x = bits_f64(it[1])
            if not math.isfinite(x): return x, False
            return Fraction(x), True
        raise StreamError("item %d: expected a scalar, got %r" % (self.pos - 1, it))
    def scalar(self):
        """exact value of the next scalar, or ('nonfinite', ..) for inf/NaN components"""
        if self.pos >= len(self.items): raise StreamError("answer ends early at item %d" % self.pos)
        if self.elt == 'cplx':
            a, fa = self._real(); b, fb = self._real()
            if not (fa and fb): return ('nonfinite', a, b)
            return CQ(a, b)
        a, fa = self._real()
        return a if fa else ('nonfinite', a)
    def scalar_or_panic(self):
        if self.peek_panic():
            self.pos += 1; return 'P'
        return self.scalar()
    def poly(self):
        n = self.int()
        return [self.scalar() for _ in range(n)]
    def poly_or_panic(self):
        if self.peek_panic():
            self.pos += 1; return 'P'
        return self.poly()

class StreamError(Exception):
    pass

def is_nonfinite(x): return isinstance(x, tuple)
def poly_finite(p): return all(not is_nonfinite(a) for a in p)

# ------------------------------------------------------------------ case builders (both sides from one description)
def _args(elt, spec, vals):
    """spec: string over p (polynomial) s (scalar) n (nat); returns (executor tokens, Gallina arguments)"""
    toks, coq = [], []
    for k, v in zip(spec, vals):
        if k == 'p': toks.append(tok_vec(elt, v)); coq.append(coq_vec(elt, v))
        elif k == 's': toks.append(tok_scalar(elt, v)); coq.append(coq_scalar(elt, v))
        elif k == 'n': toks.append(str(v)); coq.append(str(v))
    return " ".join(toks), " ".join(coq)

KINDS = {   # kind -> (argument spec, Gallina runner [, how the Gallina arguments are formed from the executor's])
    "ring": ("ppss", "run_ring"), "calc": ("ppssn", "run_calc"), "access": ("pns", "run_access"),
    "ctor": ("ssss", "run_ctor"), "div": ("pp", "run_div"),
    # u.polydiv(&u), dividend and divisor the same object: the model has no objects, its twin is run_div u u
    "divself": ("p", "run_div", lambda c: c + " " + c),
    # histories (index-assign / trim / coeffs() followed by the views and operators): search-only, no Gallina twin
    "hist": ("ppns", None),
    # C12: w.polydiv(&w) (the same object) and w.polydiv(&w.clone()), both answers in one stream: search-only, each judged by the oracle
    "divpair": ("p", None),
}

def mk_case(elt, kind, vals, family, nontrivial=True, tol=1e-12, with_term=True):
    spec, runner = KINDS[kind][:2]
    t, c = _args(elt, spec, vals)
    if len(KINDS[kind]) > 2: c = KINDS[kind][2](c)
    line = "poly.%s %s" % (kind, t)
    term = "@%s %s %s %s" % (runner, ARITH[elt], FLAT[elt], c) if (with_term and runner) else None
    jv = []
    for k, v in zip(spec, vals):
        jv.append(enc_poly(elt, v) if k == 'p' else (enc(elt, v) if k == 's' else v))
    return Case(elt, line, term, meta={"kind": kind, "args": jv}, family=family, nontrivial=nontrivial, tol=tol)

def case_vals(case):
    kind = case.meta["kind"]; spec = KINDS[kind][0]; elt = case.elt
    out = []
    for k, j in zip(spec, case.meta["args"]):
        out.append(dec_poly(elt, j) if k == 'p' else (dec(elt, j) if k == 's' else int(j)))
    return kind, out

def case_from_json_common(j, kinds):
    meta = j["meta"]
    if meta.get("kind") not in kinds: return None
    elt = j["elt"]; kind = meta["kind"]; spec = KINDS[kind][0]
    vals = []
    for k, a in zip(spec, meta["args"]):
        vals.append(dec_poly(elt, a) if k == 'p' else (dec(elt, a) if k == 's' else int(a)))
    c = mk_case(elt, kind, vals, "corpus")
    if meta.get("approx"): c.meta["approx"] = True
    return c

# ------------------------------------------------------------------ special values and structured operands
# Mutations of the code exploit values exactly 0 / 1 / -1 / +-i, entries on an axis, operands that are equal or
# otherwise related, all-zero and one-term operands: classes a random draw produces rarely or never.  All values
# below are small dyadic numbers: every intermediate of + - * and of Horner's rule stays exactly representable.
def special_scalars(elt):
    if elt == 'rat':
        return [Fraction(0), Fraction(1), Fraction(-1), Fraction(2), Fraction(1, 2), Fraction(-2), Fraction(-1, 2), Fraction(3)]
    if elt == 'f64':
        return [0.0, -0.0, 1.0, -1.0, 2.0, 0.5, -2.0, -0.5, 3.0]
    if elt == 'cplx':
        return [complex(0.0, 0.0), complex(-0.0, 0.0), complex(0.0, -0.0), complex(1.0, 0.0), complex(-1.0, 0.0), complex(0.0, 1.0),
                complex(0.0, -1.0), complex(2.0, 0.0), complex(0.0, 2.0), complex(0.0, -3.0), complex(-3.0, 0.0), complex(0.5, 0.0), complex(0.0, 0.5),
                complex(1.0, 1.0), complex(1.0, -1.0), complex(-2.0, 2.0)]
    raise ValueError(elt)

def conv(elt, x):
    """an integer / dyadic Fraction as a scalar of the element kind"""
    if elt == 'rat': return Fraction(x)
    if elt == 'f64': return float(x)
    return complex(float(x), 0.0)

def scal_mul(elt, a, b):
    """product of two scalars of the kind (exact for the small dyadic values used here)"""
    if elt == 'rat': return Fraction(a) * Fraction(b)
    if elt == 'f64': return float(a) * float(b)
    return complex(a) * complex(b)

def scal_neg(elt, a):
    if elt == 'rat': return -Fraction(a)
    if elt == 'f64': return -float(a)
    a = complex(a); return complex(-a.real, -a.imag)

STRUCTS = ("all-zero", "monomial", "lead-zeros", "interior-zeros", "all-ones", "alternating", "all-equal", "neg-zeros", "axis")

def struct_poly(rng, elt, n, cls):
    """a polynomial of n coefficients (n >= 1) of the structural class cls"""
    z = conv(elt, 0)
    nz = lambda: rng.choice([v for v in special_scalars(elt) if v != 0])
    if cls == "all-zero": return [z] * n
    if cls == "monomial": return [z] * (n - 1) + [nz()]
    if cls == "lead-zeros":            # two or more vanishing leading coefficients (one when n = 2)
        k = min(n - 1, rng.range(2, 3)) if n > 1 else 0
        return [sval(rng, elt) for _ in range(n - k)] + [z] * k
    if cls == "interior-zeros":        # first and last coefficient non-zero, everything between them zero
        return [nz()] + [z] * (n - 2) + [nz()] if n > 1 else [nz()]
    if cls == "all-ones": return [conv(elt, 1)] * n
    if cls == "alternating": return [conv(elt, 1 if i % 2 == 0 else -1) for i in range(n)]
    if cls == "all-equal":
        c = nz(); return [c] * n
    if cls == "neg-zeros":             # zeros of either sign among the coefficients, the leading one included (floats)
        if elt == 'rat': return [sval(rng, elt) if rng.chance(1, 2) else z for _ in range(n)]
        mz = -0.0 if elt == 'f64' else rng.choice([complex(-0.0, 0.0), complex(0.0, -0.0), complex(-0.0, -0.0)])
        return [(sval(rng, elt) if rng.chance(1, 3) else (mz if rng.chance(2, 3) else z)) for _ in range(n - 1)] + [mz]
    if cls == "axis":                  # every coefficient from the special menu (for Complex: on the axes, +-i, 1+-i)
        return [rng.choice(special_scalars(elt)) for _ in range(n)]
    raise ValueError(cls)

RELATIONS = ("equal", "negated", "scaled", "shifted", "reversed", "derivative", "one-differs")

def related_poly(rng, elt, p, rel):
    """a second operand that stands in the relation rel to p (a separate object with related VALUES)"""
    z = conv(elt, 0)
    if rel == "equal": return list(p)
    if rel == "negated": return [scal_neg(elt, a) for a in p]
    if rel == "scaled":
        c = rng.choice([v for v in special_scalars(elt) if v != 0 and v != 1]); return [scal_mul(elt, a, c) for a in p]
    if rel == "shifted": return [z] * rng.range(1, 2) + list(p)       # x^k * p
    if rel == "reversed": return list(reversed(p))
    if rel == "derivative": return [scal_mul(elt, p[i + 1], conv(elt, i + 1)) for i in range(len(p) - 1)]
    if rel == "one-differs":
        q = list(p)
        if q:
            k = rng.below(len(q)); q[k] = q[k] + conv(elt, 1)
        return q
    raise ValueError(rel)

# ------------------------------------------------------------------ value menus
def small_int(rng, lo=-6, hi=6, pzero=(1, 6)):
    if rng.chance(*pzero): return 0
    return rng.range(lo, hi)

def sval(rng, elt, exact_only=True):
    """a coefficient: exactly representable small values (C11: 'exactly-representable coefficients')"""
    if elt == 'rat':
        k = rng.below(8)
        if k == 0: return Fraction(0)
        if k < 5: return Fraction(rng.range(-6, 6))
        return Fraction(rng.range(-9, 9), rng.range(2, 5))
    if elt == 'f64':
        return float(small_int(rng))
    if elt == 'cplx':
        return complex(float(small_int(rng)), float(small_int(rng, -4, 4, (1, 3))))
    raise ValueError(elt)

def rpoly(rng, elt, n, lead_nonzero=None):
    p = [sval(rng, elt) for _ in range(n)]
    if n and lead_nonzero is True and p[-1] == 0:
        p[-1] = {'rat': Fraction(3), 'f64': 2.0, 'cplx': complex(1.0, -2.0)}[elt]
    if n and lead_nonzero is False:
        p[-1] = {'rat': Fraction(0), 'f64': 0.0, 'cplx': complex(0.0, 0.0)}[elt]
    return p
