# driver/matlib.py -- dense-matrix histories: printers for both sides and an independent
# list-of-rows reference model (the search oracle of C03 / C20).
from fractions import Fraction
from common import *

# op table: name -> (coq constructor, argument kinds)   kinds: n nat, z int, s scalar, v vector, m matrix
OPS = {
    "set_row": ("OSetRow", "nv"), "set_col": ("OSetCol", "nv"), "delete_row": ("ODeleteRow", "n"),
    "resize": ("OResize", "nn"), "transpose_in_place": ("OTransposeInPlace", ""), "swap_rows": ("OSwapRows", "nn"),
    "swap_elem": ("OSwapElem", "nnnn"), "fill": ("OFill", "s"), "fill_diag": ("OFillDiag", "s"),
    "fill_band": ("OFillBand", "zs"), "fill_tridiag": ("OFillTridiag", "sss"), "fill_row": ("OFillRow", "ns"),
    "fill_col": ("OFillCol", "ns"), "clear": ("OClear", ""), "set": ("OSet", "nns"),
    "add_assign": ("OAddAssign", "m"), "sub_assign": ("OSubAssign", "m"),
    "add_assign_own": ("OAddAssign", "m"), "sub_assign_own": ("OSubAssign", "m"),
    "mul_assign_s": ("OMulAssignS", "s"), "div_assign_s": ("ODivAssignS", "s"),
    "add_assign_s": ("OAddAssignS", "s"), "sub_assign_s": ("OSubAssignS", "s"),
    "get": ("OGet", "nn"), "get_row": ("OGetRow", "n"), "get_col": ("OGetCol", "n"), "multiply": ("OMultiply", "v"),
    "transpose": ("OTranspose", ""), "neg": ("ONeg", ""), "add": ("OAdd", "m"), "sub": ("OSub", "m"),
    "scale": ("OScale", "s"), "div": ("ODiv", "s"), "mul": ("OMul", "m"), "mul_l": ("OMulL", "m"),
    "eye": ("OEye", "n"), "numel": ("ONumel", ""), "clone_mut": ("OCloneMut", "s"),
    # both operands the SAME object (&m + &m, &m - &m, &m * &m): the argument (kind 'M') is the current matrix, written out for the
    # Coq side only -- the executor takes both operands from the one register
    "add_self": ("OAdd", "M"), "sub_self": ("OSub", "M"), "mul_self": ("OMul", "M"),
}

def op_line(elt, op):
    name, args = op[0], op[1:]
    kinds = OPS[name][1]
    toks = [name]
    for k, a in zip(kinds, args):
        if k in "nz": toks.append(str(a))
        elif k == "s": toks.append(tok_scalar(elt, a))
        elif k == "v": toks.append(tok_vec(elt, a))
        elif k == "m": toks.append(tok_mat(elt, a))
        # 'M': nothing on the executor side
    toks.append(";")
    return " ".join(toks)

def op_coq(elt, op):
    name, args = op[0], op[1:]
    ctor, kinds = OPS[name]
    parts = ["@%s %s" % (ctor, ARITH[elt])]
    for k, a in zip(kinds, args):
        if k == "n": parts.append(str(a))
        elif k == "z": parts.append(coq_Z(a))
        elif k == "s": parts.append(coq_scalar(elt, a))
        elif k == "v": parts.append(coq_vec(elt, a))
        elif k in "mM": parts.append(coq_mat(elt, a))
    return "(" + " ".join(parts) + ")"

def hist_line(elt, m0, ops):
    return "mat.hist " + tok_mat(elt, m0) + " " + " ".join(op_line(elt, o) for o in ops)

def hist_term(elt, m0, ops):
    return "@mat_hist %s %s %s %s" % (ARITH[elt], FLAT[elt], coq_mat(elt, m0), coq_list([op_coq(elt, o) for o in ops]))

def histeq_line(elt, m0, ops):
    return "mat.histeq " + tok_mat(elt, m0) + " " + " ".join(op_line(elt, o) for o in ops)

def histeq_term(elt, m0, ops):
    return "@mat_histeq %s %s %s %s" % (ARITH[elt], FLAT[elt], coq_mat(elt, m0), coq_list([op_coq(elt, o) for o in ops]))

# ------------------------------------------------------------------ reference model: list of rows
class RefPanic(Exception):
    pass

class RefMat:
    def __init__(self, r, c, vals):
        self.r, self.c = r, c
        self.rows = [list(vals[i*c:(i+1)*c]) for i in range(r)]
    def copy(self):
        return RefMat(self.r, self.c, self.flat())
    def flat(self):
        return [x for row in self.rows for x in row]
    def tup(self):
        return (self.r, self.c, self.flat())

def _chk(b):
    if not b: raise RefPanic()

def ref_step(m, op, zero=Fraction(0), one=Fraction(1)):
    """Textbook semantics of one operation on a list-of-rows matrix; returns the result value
    (None, ('s',x), ('v',[..]), ('m',RefMat), ('n',k)); raises RefPanic where the documented
    range/shape conditions are violated (then the matrix must be left as it was)."""
    name, a = op[0], op[1:]
    if name == "set_row":
        _chk(len(a[1]) == m.c and a[0] < m.r); m.rows[a[0]] = list(a[1]); return None
    if name == "set_col":
        _chk(len(a[1]) == m.r and a[0] < m.c)
        for i in range(m.r): m.rows[i][a[0]] = a[1][i]
        return None
    if name == "delete_row":
        _chk(a[0] < m.r); del m.rows[a[0]]; m.r -= 1; return None
    if name == "resize":
        nr, nc = a
        m.rows = [[(m.rows[i][j] if i < m.r and j < m.c else zero) for j in range(nc)] for i in range(nr)]
        m.r, m.c = nr, nc; return None
    if name == "transpose_in_place":
        t = [[m.rows[i][j] for i in range(m.r)] for j in range(m.c)]
        m.rows, m.r, m.c = t, m.c, m.r; return None
    if name == "swap_rows":
        _chk(a[0] < m.r and a[1] < m.r); m.rows[a[0]], m.rows[a[1]] = m.rows[a[1]], m.rows[a[0]]; return None
    if name == "swap_elem":
        r1, c1, r2, c2 = a
        # raw (i,j) addressing is outside the claim: only flat-buffer bounds apply
        i1, i2 = r1 * m.c + c1, r2 * m.c + c2
        _chk(i1 < m.r * m.c and i2 < m.r * m.c)
        f = m.flat(); f[i1], f[i2] = f[i2], f[i1]
        m.rows = [f[i*m.c:(i+1)*m.c] for i in range(m.r)]; return None
    if name == "fill":
        m.rows = [[a[0]] * m.c for _ in range(m.r)]; return None
    if name == "fill_diag":
        for i in range(min(m.r, m.c)): m.rows[i][i] = a[0]
        return None
    if name == "fill_band":
        for i in range(m.r):
            j = i + a[0]
            if 0 <= j < m.c: m.rows[i][j] = a[1]
        return None
    if name == "fill_tridiag":
        ref_step(m, ("fill_band", -1, a[0])); ref_step(m, ("fill_diag", a[1])); ref_step(m, ("fill_band", 1, a[2])); return None
    if name == "fill_row":
        _chk(a[0] < m.r); m.rows[a[0]] = [a[1]] * m.c; return None
    if name == "fill_col":
        _chk(a[0] < m.c)
        for i in range(m.r): m.rows[i][a[0]] = a[1]
        return None
    if name == "clear":
        m.rows, m.r, m.c = [], 0, 0; return None
    if name == "set":
        i = a[0] * m.c + a[1]
        _chk(i < m.r * m.c)
        f = m.flat(); f[i] = a[2]; m.rows = [f[k*m.c:(k+1)*m.c] for k in range(m.r)]; return None
    if name in ("add_assign", "sub_assign", "add_assign_own", "sub_assign_own"):
        b = RefMat(*a[0]); _chk(b.r == m.r and b.c == m.c)
        sg = 1 if name.startswith("add") else -1
        m.rows = [[m.rows[i][j] + sg * b.rows[i][j] for j in range(m.c)] for i in range(m.r)]; return None
    if name == "mul_assign_s": m.rows = [[x * a[0] for x in r] for r in m.rows]; return None
    if name == "div_assign_s":
        _chk(not (a[0] == 0 and m.r * m.c > 0) or not isinstance(a[0], Fraction))
        m.rows = [[x / a[0] for x in r] for r in m.rows]; return None
    if name == "add_assign_s": m.rows = [[x + a[0] for x in r] for r in m.rows]; return None
    if name == "sub_assign_s": m.rows = [[x - a[0] for x in r] for r in m.rows]; return None
    if name == "get":
        i = a[0] * m.c + a[1]; _chk(i < m.r * m.c); return ('s', m.flat()[i])
    if name == "get_row": _chk(a[0] < m.r); return ('v', list(m.rows[a[0]]))
    if name == "get_col": _chk(a[0] < m.c); return ('v', [m.rows[i][a[0]] for i in range(m.r)])
    if name == "multiply":
        _chk(len(a[0]) == m.c); return ('v', [sum((m.rows[i][j] * a[0][j] for j in range(m.c)), zero) for i in range(m.r)])
    if name == "transpose":
        t = RefMat(m.c, m.r, [m.rows[i][j] for j in range(m.c) for i in range(m.r)]); return ('m', t)
    if name == "neg": return ('m', RefMat(m.r, m.c, [-x for x in m.flat()]))
    if name in ("add_self", "sub_self"):
        sg = 1 if name == "add_self" else -1
        return ('m', RefMat(m.r, m.c, [x + sg * x for x in m.flat()]))
    if name == "mul_self":
        _chk(m.c == m.r)
        return ('m', RefMat(m.r, m.c, [sum((m.rows[i][k] * m.rows[k][j] for k in range(m.c)), zero) for i in range(m.r) for j in range(m.c)]))
    if name in ("add", "sub"):
        b = RefMat(*a[0]); _chk(b.r == m.r and b.c == m.c)
        sg = 1 if name == "add" else -1
        return ('m', RefMat(m.r, m.c, [x + sg * y for x, y in zip(m.flat(), b.flat())]))
    if name == "scale": return ('m', RefMat(m.r, m.c, [x * a[0] for x in m.flat()]))
    if name == "div":
        _chk(not (a[0] == 0 and m.r * m.c > 0) or not isinstance(a[0], Fraction))
        return ('m', RefMat(m.r, m.c, [x / a[0] for x in m.flat()]))
    if name in ("mul", "mul_l"):
        b = RefMat(*a[0])
        x, y = (m, b) if name == "mul" else (b, m)
        _chk(x.c == y.r)
        return ('m', RefMat(x.r, y.c, [sum((x.rows[i][k] * y.rows[k][j] for k in range(x.c)), zero) for i in range(x.r) for j in range(y.c)]))
    if name == "eye": return ('m', RefMat(a[0], a[0], [one if i == j else zero for i in range(a[0]) for j in range(a[0])]))
    if name == "numel": return ('n', m.r * m.c)
    if name == "clone_mut": ref_step(m, ("fill_diag", a[0])); return None
    raise ValueError(name)

def ref_items_scalar(elt, x):
    if elt == 'rat':
        x = Fraction(x); return [('q', x.numerator, x.denominator)]
    if elt == 'f64': return [('f', f64_bits(float(x)))]
    if elt == 'cplx':
        x = complex(x); return [('f', f64_bits(x.real)), ('f', f64_bits(x.imag))]
    raise ValueError(elt)

def ref_items_mat(elt, m, eq=False):
    out = [('i', m.r), ('i', m.c)]
    for x in m.flat(): out += ref_items_scalar(elt, x)
    if eq: out.append(('i', 1))       # a matrix always equals (==) a freshly built one with the same entries
    return out

def ref_items_val(elt, v):
    if v is None: return []
    if v[0] == 's': return ref_items_scalar(elt, v[1])
    if v[0] == 'v':
        out = [('i', len(v[1]))]
        for x in v[1]: out += ref_items_scalar(elt, x)
        return out
    if v[0] == 'm': return ref_items_mat(elt, v[1])
    if v[0] == 'n': return [('i', v[1])]

def ref_hist(elt, m0, ops, eq=False):
    """expected item stream of a history under the reference model (exact element types)"""
    m = RefMat(*m0)
    out = ref_items_mat(elt, m, eq)
    for op in ops:
        snap = m.copy()
        try:
            v = ref_step(m, op)
            out += ref_items_val(elt, v)
        except RefPanic:
            m = snap
            out += [('P', 'guard')]
        out += ref_items_mat(elt, m, eq)
    return out

def streams_equal_exact(exp, got):
    """exact comparison; panic items compare by presence only. Returns None or a description."""
    if len(exp) != len(got):
        k = 0
        while k < min(len(exp), len(got)) and (exp[k] == got[k] or (exp[k][0] == 'P' and got[k][0] == 'P')):
            k += 1
        return "answer has %d items, reference %d; first difference at %d: reference %r, implementation %r" % (len(got), len(exp), k, exp[k:k+3], got[k:k+3])
    for k, (a, b) in enumerate(zip(exp, got)):
        if a[0] == 'P' and b[0] == 'P': continue
        if a != b:
            return "item %d: reference %r, implementation %r" % (k, a, b)
    return None

# ------------------------------------------------------------------ float / complex element kinds (round four, package specA)
def state_after(m0, ops, zero=Fraction(0), one=Fraction(1)):
    """the reference matrix after a history (a panicking step leaves the matrix alone)"""
    m = RefMat(*m0)
    for op in ops:
        snap = m.copy()
        try: ref_step(m, op, zero, one)
        except RefPanic: m = snap
    return m

def ref_hist_float(elt, m0, ops):
    """expected stream of a history at f64 / Complex<f64>: the same list-of-rows semantics evaluated with numpy scalars
    (IEEE: x/0 = inf, no exception).  Items: ('i', n) | ('x', value) | ('P', 'guard')"""
    import numpy as np
    conv = np.float64 if elt == 'f64' else np.complex128
    def cv(a, k):
        if k == 's': return conv(a)
        if k == 'v': return [conv(x) for x in a]
        if k in 'mM': return (a[0], a[1], [conv(x) for x in a[2]])
        return a
    def items_mat(m): return [('i', m.r), ('i', m.c)] + [('x', x) for x in m.flat()]
    def items_val(v):
        if v is None: return []
        if v[0] == 's': return [('x', v[1])]
        if v[0] == 'v': return [('i', len(v[1]))] + [('x', x) for x in v[1]]
        if v[0] == 'm': return items_mat(v[1])
        if v[0] == 'n': return [('i', v[1])]
    with np.errstate(all='ignore'):
        m = RefMat(m0[0], m0[1], [conv(x) for x in m0[2]])
        out = items_mat(m)
        for op in ops:
            kinds = OPS[op[0]][1]
            op2 = (op[0],) + tuple(cv(a, k) for k, a in zip(kinds, op[1:]))
            snap = m.copy()
            try:
                out += items_val(ref_step(m, op2, conv(0), conv(1)))
            except RefPanic:
                m = snap
                out += [('P', 'guard')]
            out += items_mat(m)
    return out

# how many float histories streams_close_float judged / declined to judge (reported in the coverage by C03.extra_coverage)
FLOAT_JUDGED = {"judged": 0, "not_judged_scale_above_1e150": 0}

def streams_close_float(elt, exp, got, rel=1e-9):
    """tolerant comparison of an f64 / Complex<f64> history with its reference: integers and panic positions exactly; a float within
    rel * (largest finite magnitude of the whole history) -- the operations are entrywise sums/products of the operands, so the
    rounding error of an entry is bounded relative to the largest magnitude that ever occurred.  Items where reference or
    implementation is not finite are compared for finiteness only.  Returns None or a description."""
    import math
    per = 1 if elt == 'f64' else 2
    vals = []
    for it in exp:
        if it[0] == 'x':
            z = complex(it[1])
            if math.isfinite(z.real) and math.isfinite(z.imag): vals.append(abs(z))
    scale = max(vals, default=0.0)
    if not math.isfinite(scale) or scale > 1e150:                  # overflow territory: outside the quantifier ("all element values" of moderate size)
        FLOAT_JUDGED["not_judged_scale_above_1e150"] += 1           # a counted skip: the number appears in the coverage of C03
        return None
    FLOAT_JUDGED["judged"] += 1
    k = 0
    for n, it in enumerate(exp):
        if it[0] == 'P':
            if k >= len(got) or got[k][0] != 'P': return "item %d: the reference refuses (guard), the implementation answered %r" % (n, got[k:k+2])
            k += 1; continue
        if it[0] == 'i':
            if k >= len(got) or got[k] != it: return "item %d: reference %r, implementation %r" % (n, it, got[k:k+1])
            k += 1; continue
        if k + per > len(got) or any(g[0] != 'f' for g in got[k:k+per]):
            return "item %d: reference value %r, implementation %r" % (n, it[1], got[k:k+per])
        z = complex(bits_f64(got[k][1]), bits_f64(got[k+1][1]) if per == 2 else 0.0)
        k += per
        e = complex(it[1])
        fin_e = math.isfinite(e.real) and math.isfinite(e.imag); fin_z = math.isfinite(z.real) and math.isfinite(z.imag)
        if fin_e and fin_z:
            if abs(z - e) > rel * max(scale, 1e-300): return "item %d: reference %r, implementation %r (scale of the history %g)" % (n, e, z, scale)
        elif fin_e != fin_z:
            return "item %d: reference %r, implementation %r (finite versus not finite)" % (n, e, z)
    if k != len(got): return "the implementation returned %d items, the reference describes %d" % (len(got), k)
    return None
