#!/usr/bin/env python3
# driver/c03_gen_props.py -- writes coq/Proofs/MatrixSpec.v (the per-operation theorems of C03 in their pinned,
# representation-free form, each derived from its [msp] lemma) and coq/Props/C03.v (Theorem / exact / Check /
# Print Assumptions + a non-vacuity Example per theorem) from ONE table of statements, so that the pinned
# statement and the proved statement cannot drift apart.  Run by hand after editing the table:
#     python3 driver/c03_gen_props.py
# The generated files are committed; the check never runs this script.
import os, re
HERE = os.path.dirname(os.path.abspath(__file__))
COQ = os.path.join(os.path.dirname(HERE), "coq")

def shape(mp, r, c, f):
    """exists-body: wf, shape and entries of the result m'"""
    return ("wf %s /\\ rows %s = %s /\\ cols %s = %s /\\\n      forall i j, i < %s -> j < %s -> entry %s i j = %s" % (mp, mp, r, mp, c, r, c, mp, f))

T = []   # (name, statement, proof script, example statement, example proof)
EX_M = "(mkM (A:=AQ) [q 1 1; q 2 1; q 3 1; q 4 1; q 5 1; q 6 1] 2 3)"
EX_N = "(mkM (A:=AQ) [q 7 1; q (-1) 2; q 0 1; q 2 1; q 1 3; q 5 1] 2 3)"
def ex_wf(extra=""):
    return ("wf %s%s" % (EX_M, extra), "vm_compute; repeat split; auto.")

def add(name, stmt, proof, ex=None):
    T.append((name, stmt.strip(), proof.strip(), ex))

add("idx_bijection",
    """forall r c i j i' j', i < r -> j < c -> i' < r -> j' < c ->
  i * c + j < r * c /\\ (i * c + j = i' * c + j' -> i = i' /\\ j = j')""",
    "intros r c i j i' j' Hi Hj Hi' Hj'. split; [now apply idx_lt | now apply idx_inj].",
    ("1 < 2 /\\ 2 < 3 /\\ 0 < 2 /\\ 1 < 3", "repeat split; auto."))

add("mget_spec",
    """forall (A : Arith) (m : matrix A) i j, wf m -> i < rows m -> j < cols m ->
  mget m i j = Ok (entry m i j)""",
    "intros A m i j Hw Hi Hj. exact (mget_msp _ _ _ m i j (msp_self m Hw) Hi Hj).",
    ("wf %s /\\ 1 < rows %s /\\ 2 < cols %s /\\ mget %s 1 2 = Ok (q 6 1)" % (EX_M, EX_M, EX_M, EX_M), "vm_compute; repeat split; auto."))

add("mset_spec",
    """forall (A : Arith) (m : matrix A) i j x, wf m -> i < rows m -> j < cols m ->
  exists m', mset m i j x = Ok m' /\\ %s""" % shape("m'", "rows m", "cols m", "if (i0 =? i) && (j0 =? j) then x else entry m i0 j0").replace("forall i j, i <", "forall i0 j0, i0 <").replace("-> j <", "-> j0 <").replace("entry m' i j", "entry m' i0 j0"),
    "intros A m i j x Hw Hi Hj. exact (mset_msp _ _ _ m i j x (msp_self m Hw) Hi Hj).",
    ("wf %s /\\ 0 < rows %s /\\ 1 < cols %s" % (EX_M, EX_M, EX_M), "vm_compute; repeat split; auto."))

add("get_row_spec",
    """forall (A : Arith) (m : matrix A) row, wf m ->
  (row < rows m -> exists v, get_row m row = Ok v /\\ length v = cols m /\\
      forall j, j < cols m -> nth j v zero = entry m row j) /\\
  (rows m <= row -> get_row m row = Panic Guard)""",
    "intros A m row Hw. split; [intros Hr; exact (get_row_msp _ _ _ m row (msp_self m Hw) Hr) | apply get_row_guard].",
    ("wf %s /\\ 1 < rows %s /\\ get_row %s 1 = Ok [q 4 1; q 5 1; q 6 1] /\\ get_row %s 2 = Panic Guard" % (EX_M, EX_M, EX_M, EX_M), "vm_compute; repeat split; auto."))

add("get_col_spec",
    """forall (A : Arith) (m : matrix A) col, wf m ->
  (col < cols m -> exists v, get_col m col = Ok v /\\ length v = rows m /\\
      forall i, i < rows m -> nth i v zero = entry m i col) /\\
  (cols m <= col -> get_col m col = Panic Guard)""",
    "intros A m col Hw. split; [intros Hc; exact (get_col_msp _ _ _ m col (msp_self m Hw) Hc) | apply get_col_guard].",
    ("wf %s /\\ 2 < cols %s /\\ get_col %s 2 = Ok [q 3 1; q 6 1] /\\ get_col %s 3 = Panic Guard" % (EX_M, EX_M, EX_M, EX_M), "vm_compute; repeat split; auto."))

add("set_row_spec",
    """forall (A : Arith) (m : matrix A) row v, wf m ->
  (length v = cols m -> row < rows m ->
     exists m', set_row m row v = Ok m' /\\ %s) /\\
  (length v <> cols m \\/ rows m <= row -> set_row m row v = Panic Guard)""" % shape("m'", "rows m", "cols m", "if i =? row then nth j v zero else entry m i j"),
    "intros A m row v Hw. split; [intros Hv Hr; exact (set_row_msp _ _ _ m row v (msp_self m Hw) Hv Hr) | apply set_row_guard].",
    ("wf %s /\\ length [q 9 1; q 8 1; q 7 1] = cols %s /\\ 1 < rows %s" % (EX_M, EX_M, EX_M), "vm_compute; repeat split; auto."))

add("set_col_spec",
    """forall (A : Arith) (m : matrix A) col v, wf m ->
  (length v = rows m -> col < cols m ->
     exists m', set_col m col v = Ok m' /\\ %s) /\\
  (length v <> rows m \\/ cols m <= col -> set_col m col v = Panic Guard)""" % shape("m'", "rows m", "cols m", "if j =? col then nth i v zero else entry m i j"),
    "intros A m col v Hw. split; [intros Hv Hc; exact (set_col_msp _ _ _ m col v (msp_self m Hw) Hv Hc) | apply set_col_guard].",
    # the column index 2 is >= rows: exactly the case the legacy guard rejected
    ("wf %s /\\ length [q 9 1; q 8 1] = rows %s /\\ 2 < cols %s /\\ rows %s <= 2" % (EX_M, EX_M, EX_M, EX_M), "vm_compute; repeat split; auto."))

add("fill_spec",
    """forall (A : Arith) (m : matrix A) x, wf m ->
  exists m', fill m x = Ok m' /\\ %s""" % shape("m'", "rows m", "cols m", "x"),
    "intros A m x Hw. exact (fill_msp _ _ _ m x (msp_self m Hw)).", ex_wf())

add("fill_row_spec",
    """forall (A : Arith) (m : matrix A) row x, wf m ->
  (row < rows m -> exists m', fill_row m row x = Ok m' /\\ %s) /\\
  (rows m <= row -> fill_row m row x = Panic Guard)""" % shape("m'", "rows m", "cols m", "if i =? row then x else entry m i j"),
    "intros A m row x Hw. split; [intros Hr; exact (fill_row_msp _ _ _ m row x (msp_self m Hw) Hr) | apply fill_row_guard].",
    ex_wf(" /\\ 1 < rows %s" % EX_M))

add("fill_col_spec",
    """forall (A : Arith) (m : matrix A) col x, wf m ->
  (col < cols m -> exists m', fill_col m col x = Ok m' /\\ %s) /\\
  (cols m <= col -> fill_col m col x = Panic Guard)""" % shape("m'", "rows m", "cols m", "if j =? col then x else entry m i j"),
    "intros A m col x Hw. split; [intros Hc; exact (fill_col_msp _ _ _ m col x (msp_self m Hw) Hc) | apply fill_col_guard].",
    ex_wf(" /\\ 2 < cols %s" % EX_M))

add("fill_diag_spec",
    """forall (A : Arith) (m : matrix A) x, wf m ->
  exists m', fill_diag m x = Ok m' /\\ %s""" % shape("m'", "rows m", "cols m", "if i =? j then x else entry m i j"),
    "intros A m x Hw. exact (fill_diag_msp _ _ _ m x (msp_self m Hw)).", ex_wf())

add("fill_band_spec",
    """forall (A : Arith) (m : matrix A) (o : Z) x, wf m ->
  exists m', fill_band m o x = Ok m' /\\ %s""" % shape("m'", "rows m", "cols m", "if (Z.of_nat j =? Z.of_nat i + o)%Z then x else entry m i j"),
    "intros A m o x Hw. exact (fill_band_msp _ _ _ m o x (msp_self m Hw)).", ex_wf())

add("fill_tridiag_spec",
    """forall (A : Arith) (m : matrix A) l d u, wf m ->
  exists m', fill_tridiag m l d u = Ok m' /\\ %s""" % shape("m'", "rows m", "cols m", "if j =? i + 1 then u else if i =? j then d else if i =? j + 1 then l else entry m i j"),
    "intros A m l d u Hw. exact (fill_tridiag_msp _ _ _ m l d u (msp_self m Hw)).", ex_wf())

add("swap_elem_spec",
    """forall (A : Arith) (m : matrix A) r1 c1 r2 c2, wf m -> r1 < rows m -> c1 < cols m -> r2 < rows m -> c2 < cols m ->
  exists m', swap_elem m r1 c1 r2 c2 = Ok m' /\\ %s""" % shape("m'", "rows m", "cols m", "if (i =? r1) && (j =? c1) then entry m r2 c2 else if (i =? r2) && (j =? c2) then entry m r1 c1 else entry m i j"),
    "intros A m r1 c1 r2 c2 Hw H1 H2 H3 H4. exact (swap_elem_msp _ _ _ m r1 c1 r2 c2 (msp_self m Hw) H1 H2 H3 H4).",
    ex_wf(" /\\ 0 < rows %s /\\ 2 < cols %s /\\ 1 < rows %s /\\ 0 < cols %s" % (EX_M, EX_M, EX_M, EX_M)))

add("swap_rows_spec",
    """forall (A : Arith) (m : matrix A) r1 r2, wf m ->
  (r1 < rows m -> r2 < rows m -> exists m', swap_rows m r1 r2 = Ok m' /\\ %s) /\\
  (rows m <= r1 \\/ rows m <= r2 -> swap_rows m r1 r2 = Panic Guard)""" % shape("m'", "rows m", "cols m", "if i =? r1 then entry m r2 j else if i =? r2 then entry m r1 j else entry m i j"),
    "intros A m r1 r2 Hw. split; [intros H1 H2; exact (swap_rows_msp _ _ _ m r1 r2 (msp_self m Hw) H1 H2) | apply swap_rows_guard].",
    ex_wf(" /\\ 0 < rows %s /\\ 1 < rows %s" % (EX_M, EX_M)))

add("delete_row_spec",
    """forall (A : Arith) (m : matrix A) row, wf m ->
  (row < rows m -> exists m', delete_row m row = Ok m' /\\ %s) /\\
  (rows m <= row -> delete_row m row = Panic Guard)""" % shape("m'", "(rows m - 1)", "cols m", "if i <? row then entry m i j else entry m (S i) j"),
    "intros A m row Hw. split; [intros Hr; exact (delete_row_msp _ _ _ m row (msp_self m Hw) Hr) | apply delete_row_guard].",
    ex_wf(" /\\ 0 < rows %s" % EX_M))

add("resize_spec",
    """forall (A : Arith) (m : matrix A) nr nc, wf m ->
  exists m', resize m nr nc = Ok m' /\\ %s""" % shape("m'", "nr", "nc", "if (i <? rows m) && (j <? cols m) then entry m i j else zero"),
    "intros A m nr nc Hw. exact (resize_msp _ _ _ m nr nc (msp_self m Hw)).", ex_wf())

add("eye_spec",
    """forall (A : Arith) n,
  exists m', eye (A:=A) n = Ok m' /\\ %s""" % shape("m'", "n", "n", "if i =? j then one else zero"),
    "intros A n. exact (eye_msp n).", None)

add("multiply_spec",
    """forall (A : Arith) (m : matrix A) v, wf m ->
  (length v = cols m -> exists w, multiply m v = Ok w /\\ length w = rows m /\\
      forall i, i < rows m -> nth i w zero = sum_n (cols m) (fun k => mul (entry m i k) (nth k v zero))) /\\
  (length v <> cols m -> multiply m v = Panic Guard)""",
    "intros A m v Hw. split; [intros Hv; exact (multiply_msp _ _ _ m v (msp_self m Hw) Hv) | apply multiply_guard].",
    ex_wf(" /\\ length [q 1 2; q 0 1; q (-1) 1] = cols %s" % EX_M))

def binop(name, fn, lemma, guard, f):
    add(name,
        """forall (A : Arith) (a b : matrix A), wf a -> wf b ->
  (rows a = rows b -> cols a = cols b -> exists m', %s a b = Ok m' /\\ %s) /\\
  (rows a <> rows b \\/ cols a <> cols b -> %s a b = Panic Guard)""" % (fn, shape("m'", "rows a", "cols a", f), fn),
        """intros A a b Ha Hb. split; [intros Hr Hc | apply %s].
  assert (Hb' : msp (rows a) (cols a) (entry b) b) by (rewrite Hr, Hc; now apply msp_self).
  exact (%s _ _ _ _ a b (msp_self a Ha) Hb').""" % (guard, lemma),
        ("wf %s /\\ wf %s /\\ rows %s = rows %s /\\ cols %s = cols %s" % (EX_M, EX_N, EX_M, EX_N, EX_M, EX_N), "vm_compute; repeat split; auto."))
binop("madd_spec", "madd", "madd_msp", "madd_guard", "add (entry a i j) (entry b i j)")
binop("msub_spec", "msub", "msub_msp", "msub_guard", "sub (entry a i j) (entry b i j)")
binop("madd_assign_spec", "madd_assign", "madd_assign_msp", "madd_assign_guard", "add (entry a i j) (entry b i j)")
binop("msub_assign_spec", "msub_assign", "msub_assign_msp", "msub_assign_guard", "sub (entry a i j) (entry b i j)")

add("mneg_spec",
    """forall (A : Arith) (m : matrix A), wf m ->
  exists m', mneg m = Ok m' /\\ %s""" % shape("m'", "rows m", "cols m", "neg (entry m i j)"),
    "intros A m Hw. exact (mneg_msp _ _ _ m (msp_self m Hw)).", ex_wf())

def scal(name, fn, lemma, f, left=False):
    call = "%s s m" % fn if left else "%s m s" % fn
    add(name,
        """forall (A : Arith) (m : matrix A) s, wf m ->
  exists m', %s = Ok m' /\\ %s""" % (call, shape("m'", "rows m", "cols m", f)),
        "intros A m s Hw. exact (%s _ _ _ m s (msp_self m Hw))." % lemma, ex_wf())
scal("mscale_spec", "mscale", "mscale_msp", "mul (entry m i j) s")
scal("mscale_l_spec", "mscale_l", "mscale_l_msp", "mul (entry m i j) s", left=True)
scal("mmul_assign_scalar_spec", "mmul_assign_scalar", "mmul_assign_scalar_msp", "mul (entry m i j) s")
scal("madd_assign_scalar_spec", "madd_assign_scalar", "madd_assign_scalar_msp", "add (entry m i j) s")
scal("msub_assign_scalar_spec", "msub_assign_scalar", "msub_assign_scalar_msp", "sub (entry m i j) s")

def divop(name, fn, lemma):
    add(name,
        """forall (A : Arith) (L : FieldLaws A) (m : matrix A) s, wf m ->
  (s <> zero -> exists m', %s m s = Ok m' /\\ %s) /\\
  (s = zero -> 0 < rows m -> 0 < cols m -> %s m s = Panic DivZero)""" % (fn, shape("m'", "rows m", "cols m", "mul (entry m i j) (fl_inv A L s)"), fn),
        """intros A L m s Hw. split.
  - intros Hs. apply (%s _ _ _ m s (fun x => mul x (fl_inv A L s)) (msp_self m Hw)).
    intros x. rewrite (fl_div A L). destruct (eqb s zero) eqn:E; [|reflexivity].
    apply (fl_eqb A L) in E. contradiction.
  - intros Hs Hr Hc. apply (%s_panic _ _ _ m s DivZero (msp_self m Hw) Hr Hc).
    intros x. rewrite (fl_div A L). destruct (eqb s zero) eqn:E; [reflexivity|].
    assert (E' : eqb s zero = true) by (apply (fl_eqb A L); exact Hs). congruence.""" % (lemma, fn),
        ("wf %s /\\ q 3 2 <> @zero AQ /\\ 0 < rows %s /\\ 0 < cols %s" % (EX_M, EX_M, EX_M), "vm_compute; repeat split; auto; discriminate."))
divop("mdiv_spec", "mdiv", "mdiv_msp")
divop("mdiv_assign_scalar_spec", "mdiv_assign_scalar", "mdiv_assign_scalar_msp")

add("transpose_in_place_spec",
    """forall (A : Arith) (m : matrix A), wf m ->
  exists t, transpose_in_place m = Ok t /\\ %s""" % shape("t", "cols m", "rows m", "entry m j i"),
    "intros A m Hw. exact (transpose_in_place_msp _ _ _ m (msp_self m Hw)).",
    # both branches are inhabited: a non-square and a square well-formed matrix
    ("wf %s /\\ rows %s <> cols %s /\\ wf (mkM (A:=AQ) [q 1 1; q 2 1; q 3 1; q 4 1] 2 2)" % (EX_M, EX_M, EX_M), "vm_compute; repeat split; auto; discriminate."))

add("transpose_spec",
    """forall (A : Arith) (m : matrix A), wf m ->
  exists t, transpose m = Ok t /\\ %s""" % shape("t", "cols m", "rows m", "entry m j i"),
    "intros A m Hw. exact (transpose_in_place_msp _ _ _ m (msp_self m Hw)).", ex_wf())

add("mat_mul_spec",
    """forall (A : Arith) (a b : matrix A), wf a -> wf b ->
  (cols a = rows b -> exists c, mat_mul a b = Ok c /\\ wf c /\\ rows c = rows a /\\ cols c = cols b /\\
      forall i j, i < rows a -> j < cols b ->
        entry c i j = sum_n (cols a) (fun k => mul (entry a i k) (entry b k j))) /\\
  (cols a <> rows b -> mat_mul a b = Panic Guard)""",
    """intros A a b Ha Hb. split; [intros Hk | apply mat_mul_guard].
  assert (Hb' : msp (cols a) (cols b) (entry b) b) by (rewrite Hk; now apply msp_self).
  exact (mat_mul_msp _ _ _ _ _ a b (msp_self a Ha) Hb').""",
    # a wide result (2x3 . 3x5): more columns than rows, the shape the legacy set_col guard refused
    ("wf %s /\\ wf (mkM (A:=AQ) (repeat (q 1 2) 15) 3 5) /\\ cols %s = 3 /\\ rows %s < 5" % (EX_M, EX_M, EX_M), "vm_compute; repeat split; auto."))

HEADER_SPEC = """(* Proofs/MatrixSpec.v -- GENERATED by driver/c03_gen_props.py; do not edit by hand.
   The per-operation theorems of C03 in representation-free form: [wf], shape and [entry] only.
   Each is its [msp] lemma (Proofs/Matrix.v, Proofs/MatrixArith.v) applied to [msp_self]; the
   unfolding of [msp]/[vsp]/[upd_fn] is by conversion. *)
From Coq Require Import List Arith Lia Bool ZArith.
From OV Require Import Base.Panic Base.Arith Model.Vector Model.Matrix Proofs.Matrix Proofs.MatrixArith.
Import ListNotations.

"""
HEADER_PROPS = """(* Props/C03.v -- GENERATED by driver/c03_gen_props.py (statements) -- property theorems only:
   Theorem / exact lemma / Check (pins the statement) / Print Assumptions, and a non-vacuity Example each.
   Conventions: [wf m] is  length (buf m) = rows m * cols m;  [entry m i j] is  nth (i * cols m + j) (buf m) zero
   (used only under wf and with in-range indices); every theorem concludes [= Ok ...] through checked accesses,
   i.e. it also proves that no index leaves the buffer; the guard halves say the operation is [Panic Guard]
   exactly when the documented condition is violated.  All sizes and all element values are universally
   quantified; no ring law is assumed except [FieldLaws] for the two divisions. *)
From Coq Require Import List Arith Lia Bool ZArith Reals.
From OV Require Import Base.Panic Base.Arith Model.Vector Model.Matrix Model.MatOps Inst.QcInst.
From OV Require Import Proofs.Matrix Proofs.MatrixArith Proofs.MatrixSpec%s.
Import ListNotations.
Local Open Scope nat_scope.

Theorem mat_new_wf : forall (A : Arith) r c (x : A),
  wf (mat_new r c x) /\\ rows (mat_new r c x) = r /\\ cols (mat_new r c x) = c.
Proof. intros A r c x. exact (mat_new_wf_lemma r c x). Qed.
Check mat_new_wf : forall (A : Arith) r c (x : A),
  wf (mat_new r c x) /\\ rows (mat_new r c x) = r /\\ cols (mat_new r c x) = c.
Print Assumptions mat_new_wf.

"""

def main():
    extra_path = os.path.join(HERE, "c03_props_extra.v")
    extra = open(extra_path).read() if os.path.exists(extra_path) else ""
    extra_imports = ""
    m = re.match(r"\(\*IMPORTS:(.*?)\*\)\n", extra)
    if m:
        extra_imports = " " + m.group(1).strip(); extra = extra[m.end():]
    with open(os.path.join(COQ, "Proofs", "MatrixSpec.v"), "w") as f:
        f.write(HEADER_SPEC)
        for name, stmt, proof, ex in T:
            f.write("Lemma %s_lemma : %s.\nProof.\n  %s\nQed.\n\n" % (name, stmt, proof))
    with open(os.path.join(COQ, "Props", "C03.v"), "w") as f:
        f.write(HEADER_PROPS % extra_imports)
        for name, stmt, proof, ex in T:
            f.write("Theorem %s : %s.\nProof. exact %s_lemma. Qed.\nCheck %s : %s.\nPrint Assumptions %s.\n" % (name, stmt, name, name, stmt, name))
            if ex:
                f.write("Example %s_nonvacuous : %s.\nProof. %s Qed.\n" % (name, ex[0], ex[1]))
            f.write("\n")
        f.write(extra)
    print("wrote %d theorems" % len(T))

if __name__ == "__main__":
    main()
