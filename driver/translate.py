# driver/translate.py -- fragments of the Coq development that are REGENERATED from /repo/src on
# every check run (DESIGN.md 4.3).  A pattern that no longer matches is a broken tie (TieBroken).
import os, re
from common import REPO, COQDIR

class TieBroken(Exception):
    pass

def _src(rel):
    p = os.path.join(REPO, rel)
    if not os.path.exists(p):
        raise TieBroken("source file %s is missing" % rel)
    return open(p).read()

def _one(rel, pattern, what, flags=0):
    m = re.search(pattern, _src(rel), flags)
    if not m:
        raise TieBroken("translator: cannot find %s in %s (pattern %r)" % (what, rel, pattern))
    return m

def coq_float_lit(tok):
    """a Rust float literal -> exact Coq primitive float term (via python's correctly rounded parse)"""
    import math
    x = float(tok.replace("_", ""))
    if x == 0: return "0%float"
    m, e = math.frexp(abs(x)); mi = int(m * (1 << 53)); ei = e - 53
    while mi % 2 == 0: mi //= 2; ei += 1
    t = "(Z.ldexp (PrimFloat.of_uint63 (Uint63.of_Z %d)) (%d)%%Z)" % (mi, ei)
    return "(PrimFloat.opp %s)" % t if x < 0 else t

def params():
    """numeric constants the models depend on"""
    d = {}
    d["POLYDIV_MAX"] = int(_one("src/polynomial/arithmetic.rs", r"const\s+MAX\s*:\s*usize\s*=\s*(\d+)\s*;", "polydiv MAX").group(1))
    pm = "src/polynomial/mod.rs"
    d["LAGUER_MR"] = int(_one(pm, r"const\s+MR\s*:\s*usize\s*=\s*(\d+)\s*;", "laguer MR").group(1))
    d["LAGUER_MT"] = int(_one(pm, r"const\s+MT\s*:\s*usize\s*=\s*(\d+)\s*;", "laguer MT").group(1))
    _one(pm, r"const\s+MAXIT\s*:\s*usize\s*=\s*MT\s*\*\s*MR\s*;", "laguer MAXIT = MT * MR")
    _one(pm, r"const\s+EPS\s*:\s*f64\s*=\s*f64::EPSILON\s*;", "laguer EPS = f64::EPSILON")
    _one(pm, r"for\s+iter\s+in\s+1\s*\.\.\s*MAXIT\b", "laguer loop `for iter in 1..MAXIT`")
    fr = _one(pm, r"let\s+frac\s*:\s*\[\s*f64\s*;\s*MR\s*\+\s*1\s*\]\s*=\s*\[([^\]]*)\]", "laguer frac[]").group(1)
    d["LAGUER_FRAC"] = [t.strip() for t in fr.split(",") if t.strip()]
    if len(d["LAGUER_FRAC"]) != d["LAGUER_MR"] + 1:
        raise TieBroken("translator: frac[] has %d entries, MR+1 = %d" % (len(d["LAGUER_FRAC"]), d["LAGUER_MR"] + 1))
    nw = "src/newton.rs"
    d["NEWTON_TOL"] = _one(nw, r"let\s+tol\s*:\s*f64\s*=\s*([0-9.eE+\-_]+)\s*;", "Newton default tol").group(1)
    d["NEWTON_DELTA"] = _one(nw, r"let\s+delta\s*:\s*f64\s*=\s*([0-9.eE+\-_]+)\s*;", "Newton default delta").group(1)
    d["NEWTON_MAX_ITER"] = int(_one(nw, r"let\s+max_iter\s*:\s*usize\s*=\s*(\d+)\s*;", "Newton default max_iter").group(1))
    snaps = re.findall(r"\.abs\(\)\s*<\s*([0-9.eE+\-_]+)", _src("src/mesh1d.rs"))
    if len(snaps) != 2 or snaps[0] != snaps[1]:
        raise TieBroken("translator: expected two equal snapping windows in mesh1d.rs get_interpolated_vars, found %r" % snaps)
    d["MESH_SNAP"] = snaps[0]
    return d

def render_params(d):
    L = ["(* gen/Params.v -- numeric constants of the Rust source.  REGENERATED from /repo/src by",
         "   driver/translate.py on every check run; the models take these as definitions. *)",
         "From Coq Require Import List ZArith Floats Uint63.",
         "Definition POLYDIV_MAX : nat := %d." % d["POLYDIV_MAX"],
         "Definition LAGUER_MR : nat := %d." % d["LAGUER_MR"],
         "Definition LAGUER_MT : nat := %d." % d["LAGUER_MT"],
         "Definition LAGUER_FRAC : list float := (%s :: nil)." % " :: ".join(coq_float_lit(t) for t in d["LAGUER_FRAC"]),
         "Definition NEWTON_MAX_ITER : nat := %d." % d["NEWTON_MAX_ITER"],
         "Definition NEWTON_TOL : float := %s." % coq_float_lit(d["NEWTON_TOL"]),
         "Definition NEWTON_DELTA : float := %s." % coq_float_lit(d["NEWTON_DELTA"]),
         "Definition MESH_SNAP : float := %s." % coq_float_lit(d["MESH_SNAP"]),
         "(* the same constants as exact rationals (numerator, denominator) for the models over R / Qc *)",
         "Definition MESH_SNAP_Q : Z * positive := %s." % _qpair(d["MESH_SNAP"]),
         "Definition NEWTON_TOL_Q : Z * positive := %s." % _qpair(d["NEWTON_TOL"]),
         "Definition NEWTON_DELTA_Q : Z * positive := %s." % _qpair(d["NEWTON_DELTA"]),
         ""]
    return "\n".join(L)

def _qpair(tok):
    from fractions import Fraction
    f = Fraction(tok.replace("_", ""))      # the decimal literal as written (not its f64 rounding)
    return "(%d%%Z, %d%%positive)" % (f.numerator, f.denominator)

def write_if_changed(path, text):
    old = open(path).read() if os.path.exists(path) else None
    if old != text:
        os.makedirs(os.path.dirname(path), exist_ok=True)
        with open(path, "w") as f:
            f.write(text)
        return True
    return False

def regenerate():
    """Rewrite coq/gen/*.v from the current source tree.  Returns (changed_files, summary dict)."""
    changed = []
    d = params()
    if write_if_changed(os.path.join(COQDIR, "gen", "Params.v"), render_params(d)):
        changed.append("gen/Params.v")
    return changed, d

# ============================================================================ guard table (C20)
def strip_rust_comments(s):
    s = _strip_comments_only(s)
    # statements / items guarded by the verification hook flag are not part of the code under verification
    return re.sub(r"#\[cfg\(ohsl_verif\)\]\s*[^;{}]*;", "", s)

def _strip_comments_only(s):
    out, i, n = [], 0, len(s)
    while i < n:
        if s.startswith("//", i):
            j = s.find("\n", i); j = n if j < 0 else j
            i = j
        elif s.startswith("/*", i):
            j = s.find("*/", i + 2); j = n - 2 if j < 0 else j
            out.append(" " * 0); i = j + 2
        elif s[i] == '"':
            j = i + 1
            while j < n and s[j] != '"':
                j += 2 if s[j] == "\\" else 1
            out.append('""'); i = j + 1
        else:
            out.append(s[i]); i += 1
    return "".join(out)

def fn_body(src, anchor, after=None, what=""):
    start = 0
    if after:
        m = re.search(after, src)
        if not m: raise TieBroken("translator: cannot find %r (%s)" % (after, what))
        start = m.end()
    m = re.compile(anchor).search(src, start)
    if not m: raise TieBroken("translator: cannot find function %r (%s)" % (anchor, what))
    i = src.find("{", m.end())
    depth, j = 0, i
    while j < len(src):
        if src[j] == "{": depth += 1
        elif src[j] == "}":
            depth -= 1
            if depth == 0: return src[i + 1:j]
        j += 1
    raise TieBroken("translator: unbalanced braces in %s" % what)

class Block:
    def __init__(self, header, parent):
        self.header, self.parent, self.children, self.items = header, parent, [], []   # items: ('text', s) | ('block', Block)
        self.text = ""

def parse_blocks(body):
    root = Block("", None); cur = root; last = 0
    i = 0
    while i < len(body):
        ch = body[i]
        if ch == "{":
            header = body[last:i].strip()
            # a struct literal / closure body also opens a brace; headers keep whatever precedes since the last boundary
            b = Block(header, cur); cur.items.append(("block", b)); cur.children.append(b); cur = b; last = i + 1
        elif ch == "}":
            seg = body[last:i].strip()
            if seg: cur.items.append(("text", seg))
            cur = cur.parent if cur.parent is not None else cur; last = i + 1
        elif ch == ";":
            seg = body[last:i].strip()
            if seg: cur.items.append(("text", seg))
            last = i + 1
        i += 1
    seg = body[last:].strip()
    if seg: cur.items.append(("text", seg))
    return root

# ---- tiny Rust condition parser
_TOK = re.compile(r"\s*(\|\||&&|==|!=|<=|>=|<|>|\+|-|\*|!|\(|\)|\bas\b\s+[A-Za-z0-9_]+|[0-9][0-9_]*(?:\.[0-9]+)?(?:usize|isize|i32|u32|f64)?|[A-Za-z_][A-Za-z0-9_]*(?:::<[^>]*>)?(?:(?:::|\.)[A-Za-z_][A-Za-z0-9_]*|\((?:[^()]*)\)|\[(?:[^\[\]]*)\])*)")
def tokenize(s):
    toks, i = [], 0
    s = s.strip()
    while i < len(s):
        m = _TOK.match(s, i)
        if not m or m.end() == i: raise ValueError("cannot tokenize %r at %d" % (s, i))
        toks.append(m.group(1).strip()); i = m.end()
    return toks

class P:
    def __init__(self, toks): self.t, self.i = toks, 0
    def peek(self): return self.t[self.i] if self.i < len(self.t) else None
    def eat(self, x=None):
        tok = self.peek()
        if x is not None and tok != x: raise ValueError("expected %r got %r" % (x, tok))
        self.i += 1; return tok
    def expr(self): return self.or_()
    def or_(self):
        l = self.and_()
        while self.peek() == "||": self.eat(); l = ("or", l, self.and_())
        return l
    def and_(self):
        l = self.cmp()
        while self.peek() == "&&": self.eat(); l = ("and", l, self.cmp())
        return l
    def cmp(self):
        l = self.add()
        if self.peek() in ("==", "!=", "<=", ">=", "<", ">"):
            op = self.eat(); return (op, l, self.add())
        return l
    def add(self):
        l = self.mul()
        while self.peek() in ("+", "-"):
            op = self.eat(); l = (op, l, self.mul())
        return l
    def mul(self):
        l = self.unary()
        while self.peek() == "*":
            self.eat(); l = ("*", l, self.unary())
        return l
    def unary(self):
        if self.peek() == "-": self.eat(); return ("neg", self.unary())
        if self.peek() == "!": self.eat(); return ("not", self.unary())
        e = self.atom()
        while self.peek() is not None and self.peek().startswith("as "): self.eat()      # casts are transparent over Z
        return e
    def atom(self):
        tok = self.eat()
        if tok == "(":
            e = self.expr(); self.eat(")"); return e
        if tok is None: raise ValueError("unexpected end")
        if tok[0].isdigit(): return ("num", tok)
        return ("atom", re.sub(r"\s+", "", tok))

def parse_cond(s):
    p = P(tokenize(s)); e = p.expr()
    if p.peek() is not None: raise ValueError("trailing tokens in %r" % s)
    return e

def atoms_of(e):
    if e[0] == "atom": return {e[1]}
    if e[0] == "num": return set()
    out = set()
    for x in e[1:]: out |= atoms_of(x)
    return out

def gallina(e, amap):
    k = e[0]
    if k == "atom": return amap[e[1]]
    if k == "num":
        t = re.sub(r"(usize|isize|i32|u32|_)", "", e[1])
        if "." in t: raise ValueError("float literal in structural guard")
        return t
    if k == "neg": return "(- %s)" % gallina(e[1], amap)
    if k == "not": return "(negb %s)" % gallina(e[1], amap)
    a, b = gallina(e[1], amap), gallina(e[2], amap)
    return {"or": "(%s || %s)", "and": "(%s && %s)", "==": "(%s =? %s)", "!=": "(negb (%s =? %s))", "<": "(%s <? %s)", "<=": "(%s <=? %s)",
            ">": "(%s >? %s)", ">=": "(%s >=? %s)", "+": "(%s + %s)", "-": "(%s - %s)", "*": "(%s * %s)"}[k] % (a, b)

def _if_cond(header):
    m = re.match(r"^(?:else\s+)?if\s+(.*)$", header, re.S)
    return m.group(1).strip() if m else None

def guards_of_entry(ent, srccache):
    """list of Gallina boolean terms (the structural guards of the function, in source order)"""
    if ent["file"] not in srccache:
        srccache[ent["file"]] = strip_rust_comments(_src(ent["file"]))
    body = fn_body(srccache[ent["file"]], ent["anchor"], ent.get("after"), ent["key"])
    root = parse_blocks(body)
    amap = {re.sub(r"\s+", "", k): v for k, v in ent["atoms"].items()}
    out, ignored = [], []
    def classify(cond_txt, build):
        try:
            e = parse_cond(cond_txt)
        except ValueError as ex:
            if any(re.search(p, cond_txt) for p in ent["data"]): ignored.append(cond_txt); return
            raise TieBroken("translator: %s: cannot parse guard condition %r (%s)" % (ent["key"], cond_txt, ex))
        missing = [a for a in atoms_of(e) if a not in amap]
        if missing:
            if any(re.search(p, cond_txt) for p in ent["data"]): ignored.append(cond_txt); return
            raise TieBroken("translator: %s: guard %r mentions unknown atoms %s" % (ent["key"], cond_txt, missing))
        try:
            out.append(build(e))
        except ValueError as ex:
            raise TieBroken("translator: %s: guard %r: %s" % (ent["key"], cond_txt, ex))
    def walk(b):
        returned = []          # conditions of `if C { return … }` seen at this level since the last guard
        for idx, (kind, it) in enumerate(b.items):
            if kind == "text":
                if re.match(r"^panic!\s*\(", it):
                    # bare panic at this level
                    if b.header.strip() == "else" and b.parent is not None:
                        # chain-else-panic: negate the conditions of the preceding if / else-if siblings
                        sibs = [x for k, x in b.parent.items if k == "block"]
                        pos = sibs.index(b); chain = []
                        j = pos - 1
                        while j >= 0:
                            c = _if_cond(sibs[j].header)
                            if c is None: break
                            chain.append(c)
                            if not sibs[j].header.startswith("else"): break
                            j -= 1
                        if not chain: raise TieBroken("translator: %s: else-panic without an if chain" % ent["key"])
                        conds = list(reversed(chain))
                        def build(_e, conds=conds):
                            return "(" + " && ".join("(negb %s)" % gallina(parse_cond(c), amap) for c in conds) + ")"
                        for c in conds:
                            miss = [a for a in atoms_of(parse_cond(c)) if a not in amap]
                            if miss: raise TieBroken("translator: %s: else-panic chain condition %r mentions unknown atoms %s" % (ent["key"], c, miss))
                        out.append(build(None))
                    elif _if_cond(b.header) is not None:
                        pass        # handled when visiting the block from its parent (below)
                    elif b is root:
                        if not returned: raise TieBroken("translator: %s: unconditional panic" % ent["key"])
                        rs = list(returned)
                        out.append("(" + " && ".join("(negb %s)" % gallina(parse_cond(c), amap) for c in rs) + ")")
                    else:
                        raise TieBroken("translator: %s: panic in an unrecognised position (block header %r)" % (ent["key"], b.header[:60]))
                continue
            blk = it
            c = _if_cond(blk.header)
            first = blk.items[0] if blk.items else None
            if c is not None and first and first[0] == "text" and re.match(r"^panic!\s*\(", first[1]) and not blk.header.startswith("else"):
                classify(c, lambda e: gallina(e, amap))
                returned = []
            elif c is not None and first and first[0] == "text" and first[1].startswith("return") and b is root and not blk.header.startswith("else"):
                miss = [a for a in atoms_of(parse_cond(c)) if a not in amap] if not any(re.search(p, c) for p in ent["data"]) else ["data"]
                if not miss: returned.append(c)
                walk(blk)
            else:
                walk(blk)
    walk(root)
    return out, ignored

def render_guard_table():
    import guardtable
    cache = {}
    L = ["(* gen/GuardTable.v -- the explicit `if … { panic!(…) }` guards of every checked entry point of C20,",
         "   REGENERATED from /repo/src by driver/translate.py on every check run (integers over Z). *)",
         "From Coq Require Import ZArith Bool.", "Local Open Scope Z_scope.", "Local Open Scope bool_scope.", ""]
    summary = {}
    bodies = {}
    for ent in guardtable.ENTRIES:
        if ent["native"]: continue
        vs = " ".join(n for n, _, _ in ent["vars"])
        if ent["guard_of"]:
            src = guardtable.BYKEY[ent["guard_of"]]
            if ent["file"] not in cache: cache[ent["file"]] = strip_rust_comments(_src(ent["file"]))
            body = fn_body(cache[ent["file"]], ent["anchor"], ent.get("after"), ent["key"])
            callee = re.search(r"fn\s+([a-z_0-9]+)", src["anchor"].replace("\\", "")).group(1)
            if callee not in body:
                raise TieBroken("translator: %s no longer calls %s (whose guard protects it)" % (ent["key"], callee))
            gs, ign = guards_of_entry(src, cache)
            own, _ = guards_of_entry(ent, cache)
            gs = own + gs
        else:
            gs, ign = guards_of_entry(ent, cache)
        term = " || ".join(gs) if gs else "false"
        L.append("Definition g_%s (%s : Z) : bool := %s." % (ent["key"], vs, term))
        summary[ent["key"]] = len(gs)
    L.append("")
    return "\n".join(L), summary

_regen_params = regenerate
def regenerate():
    changed, d = _regen_params()
    text, summary = render_guard_table()
    if write_if_changed(os.path.join(COQDIR, "gen", "GuardTable.v"), text):
        changed.append("gen/GuardTable.v")
    d["guards"] = summary
    return changed, d

# ============================================================================ complex operators (C13)
# A translator for the straight-line operator impls of src/complex/mod.rs: every `impl <Trait> for Complex<T>`
# method body (let statements, compound assignments to self.real / self.imag, a final constructor call) becomes a
# Gallina definition over an arbitrary `Arith` in gen/ComplexOps.v.  Proofs/ComplexGen.v proves each equal to the
# hand-written model of Model/Complex.v (by conversion), so the theorems of C13 are re-checked against what the
# source says on this run.
CX_FUNCS = [
    # (gallina name, impl-header regex, fn name, self var, other param name -> ('c' complex | 's' scalar), returns)
    ("t_conj",        r"impl<T: Clone \+ Signed> Complex<T>", "conj", {}, "c"),
    ("t_cneg",        r"impl<T: Clone \+ Signed> Neg for Complex<T>", "neg", {}, "c"),
    ("t_cadd",        r"impl<T: Clone \+ Number> Add<Complex<T>> for Complex<T>", "add", {"plus": "c"}, "c"),
    ("t_csub",        r"impl<T: Clone \+ Number> Sub<Complex<T>> for Complex<T>", "sub", {"minus": "c"}, "c"),
    ("t_cmul",        r"impl<T: Clone \+ Number> Mul<Complex<T>> for Complex<T>", "mul", {"times": "c"}, "c"),
    ("t_cdiv",        r"impl<T: Clone \+ Number> Div<Complex<T>> for Complex<T>", "div", {"divisor": "c"}, "c"),
    ("t_cadd_r",      r"impl<T: Number> Add<T> for Complex<T>", "add", {"plus": "s"}, "c"),
    ("t_csub_r",      r"impl<T: Number> Sub<T> for Complex<T>", "sub", {"minus": "s"}, "c"),
    ("t_cmul_r",      r"impl<T: Clone \+ Number> Mul<T> for Complex<T>", "mul", {"scalar": "s"}, "c"),
    ("t_cdiv_r",      r"impl<T: Clone \+ Number> Div<T> for Complex<T>", "div", {"scalar": "s"}, "c"),
    ("t_cadd_assign", r"impl<T: Number> AddAssign for Complex<T>", "add_assign", {"rhs": "c"}, "self"),
    ("t_csub_assign", r"impl<T: Number> SubAssign for Complex<T>", "sub_assign", {"rhs": "c"}, "self"),
    ("t_cmul_assign", r"impl<T: Clone \+ Number> MulAssign for Complex<T>", "mul_assign", {"rhs": "c"}, "self"),
    ("t_cdiv_assign", r"impl<T: Clone \+ Number> DivAssign for Complex<T>", "div_assign", {"rhs": "c"}, "self"),
    ("t_cadd_assign_r", r"impl<T: Number> AddAssign<T> for Complex<T>", "add_assign", {"rhs": "s"}, "self"),
    ("t_csub_assign_r", r"impl<T: Number> SubAssign<T> for Complex<T>", "sub_assign", {"rhs": "s"}, "self"),
    ("t_cmul_assign_r", r"impl<T: Clone \+ Number> MulAssign<T> for Complex<T>", "mul_assign", {"rhs": "s"}, "self"),
    ("t_cdiv_assign_r", r"impl<T: Clone \+ Number> DivAssign<T> for Complex<T>", "div_assign", {"rhs": "s"}, "self"),
    ("t_abs_sqr",     r"impl<T: Clone \+ Number> Complex<T>", "abs_sqr", {}, "s"),
]

class _CxExpr:
    """expression parser for the operator bodies: + - * / unary -, parentheses, .clone(), field access"""
    TOK = re.compile(r"\s*(\.clone\(\)|Self::Output::new|Self::new|Complex::new|Zero::zero\(\)|One::one\(\)|[A-Za-z_][A-Za-z0-9_]*(?:\.(?:real|imag))?|\+|-|\*|/|\(|\)|,)")
    def __init__(self, s):
        self.t, i = [], 0
        s = s.strip()
        while i < len(s):
            m = self.TOK.match(s, i)
            if not m or m.end() == i: raise TieBroken("translator(complex): cannot tokenize %r at %r" % (s, s[i:i+20]))
            self.t.append(m.group(1)); i = m.end()
        self.i = 0
    def peek(self): return self.t[self.i] if self.i < len(self.t) else None
    def eat(self, x=None):
        tok = self.peek()
        if x is not None and tok != x: raise TieBroken("translator(complex): expected %r got %r" % (x, tok))
        self.i += 1; return tok
    def expr(self):
        l = self.term()
        while self.peek() in ("+", "-"):
            op = self.eat(); l = (op, l, self.term())
        return l
    def term(self):
        l = self.unary()
        while self.peek() in ("*", "/"):
            op = self.eat(); l = (op, l, self.unary())
        return l
    def unary(self):
        if self.peek() == "-": self.eat(); return ("neg", self.unary())
        return self.post()
    def post(self):
        tok = self.eat()
        if tok == "(":
            e = self.expr(); self.eat(")")
        elif tok in ("Self::Output::new", "Self::new", "Complex::new"):
            self.eat("("); a = self.expr(); self.eat(","); b = self.expr(); self.eat(")"); e = ("new", a, b)
        elif tok == "Zero::zero()": e = ("zero",)
        elif tok == "One::one()": e = ("one",)
        elif tok is None or not re.match(r"[A-Za-z_]", tok): raise TieBroken("translator(complex): unexpected token %r" % tok)
        else: e = ("var", tok)
        while self.peek() == ".clone()": self.eat()
        return e

def _cx_translate(name, body, params, returns):
    """returns Gallina text of the definition body (a `res`-monadic let chain when a division occurs)"""
    stmts = [s.strip() for s in body.split(";")]
    stmts = [s for s in stmts if s]
    env = {"self.real": "(re z)", "self.imag": "(im z)"}
    for p, kind in params.items():
        if kind == "c": env[p + ".real"] = "(re w)"; env[p + ".imag"] = "(im w)"
        else: env[p] = "r"
    lines, counter, uses_div = [], [0], [False]
    def fresh(base):
        counter[0] += 1; return "%s%d" % (base, counter[0])
    def emit(e):
        """expression -> atom/term text, emitting let* for divisions (left to right)"""
        k = e[0]
        if k == "var":
            if e[1] not in env: raise TieBroken("translator(complex): %s: unknown identifier %r" % (name, e[1]))
            return env[e[1]]
        if k == "zero": return "zero"
        if k == "one": return "one"
        if k == "neg": return "(neg %s)" % emit(e[1])
        if k in ("+", "-", "*"):
            a = emit(e[1]); b = emit(e[2])
            return "(%s %s %s)" % ({"+": "add", "-": "sub", "*": "mul"}[k], a, b)
        if k == "/":
            a = emit(e[1]); b = emit(e[2]); v = fresh("q")
            lines.append("let* %s := div %s %s in" % (v, a, b)); uses_div[0] = True
            return v
        raise TieBroken("translator(complex): %s: unexpected expression %r" % (name, e))
    result = None
    for s in stmts:
        m = re.match(r"^let\s+(?:mut\s+)?([a-z_][a-z0-9_]*)\s*(?::\s*[A-Za-z0-9_<>]+)?\s*=\s*(.*)$", s, re.S)
        if m:
            v = fresh(m.group(1)); t = emit(_CxExpr(m.group(2)).expr())
            lines.append("let %s := %s in" % (v, t)); env[m.group(1)] = v; continue
        m = re.match(r"^(self\.real|self\.imag)\s*(\+|-|\*|/)=\s*(.*)$", s, re.S)
        if m:
            tgt, op, rhs = m.groups()
            e = (op, ("var", tgt), _CxExpr(rhs).expr())
            t = emit(e); v = fresh("real" if tgt == "self.real" else "imag")
            lines.append("let %s := %s in" % (v, t)); env[tgt] = v; continue
        # final expression
        e = _CxExpr(s).expr()
        if e[0] == "new":
            a = emit(e[1]); b = emit(e[2]); result = "(mkC %s %s)" % (a, b)
        else:
            result = emit(e)
    if returns == "self":
        if result is not None: raise TieBroken("translator(complex): %s: assignment operator returns a value" % name)
        result = "(mkC %s %s)" % (env["self.real"], env["self.imag"])
    if result is None: raise TieBroken("translator(complex): %s: no result expression" % name)
    final = ("Ok %s" % result) if uses_div[0] else result
    return "\n  ".join(lines + [final]), uses_div[0]

def render_complex_ops():
    src = strip_rust_comments(_src("src/complex/mod.rs"))
    L = ["(* gen/ComplexOps.v -- the operator impls of src/complex/mod.rs, REGENERATED from /repo/src by driver/translate.py",
         "   on every check run (straight-line bodies translated statement by statement; `/` is the fallible `div`). *)",
         "From OV Require Import Base.Panic Base.Arith Model.Complex.", "Section CxGen.", "Context {A : Arith}.", ""]
    sig = {}
    for (gname, header, fn, params, returns) in CX_FUNCS:
        hs = [m for m in re.finditer(header, src)]
        if len(hs) != 1:
            raise TieBroken("translator(complex): impl header %r found %d times" % (header, len(hs)))
        ib = fn_body(src, header, None, gname)          # the impl block
        fb = fn_body(ib, r"fn\s+%s\s*\(" % fn, None, gname)
        hdr = re.search(r"fn\s+%s\s*\(([^)]*)\)" % fn, ib).group(1)
        for p in params:
            if not re.search(r"\b%s\s*:" % p, hdr):
                raise TieBroken("translator(complex): %s: parameter %r not found in `fn %s(%s)`" % (gname, p, fn, hdr))
        body, fallible = _cx_translate(gname, fb, params, returns)
        args = "(z : cplx A)" + (" (w : cplx A)" if "c" in params.values() else "") + (" (r : A)" if "s" in params.values() else "")
        rty = "A" if returns == "s" else "cplx A"
        if fallible: rty = "res (%s)" % rty
        L.append("Definition %s %s : %s :=\n  %s." % (gname, args, rty, body))
        sig[gname] = fallible
    # eq / partial_cmp / zero / one: fixed shapes, checked textually
    eqb = fn_body(fn_body(src, r"impl<T: Clone \+ Number> PartialEq for Complex<T>", None, "eq"), r"fn\s+eq\s*\(", None, "eq")
    if re.sub(r"\s+", "", eqb) != "self.real==other.real&&self.imag==other.imag":
        raise TieBroken("translator(complex): unexpected body of PartialEq::eq: %r" % eqb.strip())
    L.append("Definition t_ceqb (z w : cplx A) : bool := andb (eqb (re z) (re w)) (eqb (im z) (im w)).")
    pc = fn_body(fn_body(src, r"impl<T: Clone \+ Number \+ std::cmp::PartialOrd> PartialOrd for Complex<T>", None, "partial_cmp"), r"fn\s+partial_cmp\s*\(", None, "partial_cmp")
    if re.sub(r"\s+", "", pc) != "ifself.real!=other.real{self.real.partial_cmp(&other.real)}else{self.imag.partial_cmp(&other.imag)}":
        raise TieBroken("translator(complex): unexpected body of PartialOrd::partial_cmp: %r" % pc.strip())
    L.append("Definition t_ccmp {X} (cmp : A -> A -> X) (z w : cplx A) : X :=\n  if negb (eqb (re z) (re w)) then cmp (re z) (re w) else cmp (im z) (im w).")
    zb = fn_body(fn_body(src, r"impl<T: Clone \+ Number> Zero for Complex<T>", None, "zero"), r"fn\s+zero\s*\(", None, "zero")
    ob = fn_body(fn_body(src, r"impl<T: Clone \+ Number> One for Complex<T>", None, "one"), r"fn\s+one\s*\(", None, "one")
    zt, _ = _cx_translate("t_czero", zb, {}, "c"); ot, _ = _cx_translate("t_cone", ob, {}, "c")
    L.append("Definition t_czero : cplx A := %s." % zt)
    L.append("Definition t_cone : cplx A := %s." % ot)
    fm = fn_body(fn_body(src, r"impl Mul<Complex<f64>> for f64", None, "f64*complex"), r"fn\s+mul\s*\(", None, "f64*complex")
    if re.sub(r"\s+", "", fm) != "complex*self":
        raise TieBroken("translator(complex): unexpected body of f64 * Complex: %r" % fm.strip())
    L.append("Definition t_rmul_c (r : A) (z : cplx A) : cplx A := t_cmul_r z r.")
    L += ["", "End CxGen.", ""]
    return "\n".join(L)

_regen_guards = regenerate
def regenerate():
    changed, d = _regen_guards()
    if write_if_changed(os.path.join(COQDIR, "gen", "ComplexOps.v"), render_complex_ops()):
        changed.append("gen/ComplexOps.v")
    return changed, d

# ============================================================================ complex functions (C14)
# The formula files src/complex/{elementary,trigonometric,hyperbolic}.rs (+ abs/arg of mod.rs) are straight-line
# compositions of real libm calls and complex operators.  They are translated, with a two-sorted (R / C) type
# inference, into gen/CFunOps.v over the real-number model of Model/CFun.v; Proofs/CFunGen.v proves every
# regenerated definition convertible with the hand-written one.
CF_FILES = ["src/complex/elementary.rs", "src/complex/trigonometric.rs", "src/complex/hyperbolic.rs"]
CF_CMETH_C = {"sqrt": "csqrt", "ln": "cln", "exp": "cexp", "sin": "csin", "cos": "ccos", "tan": "ctan", "sec": "csec", "csc": "ccsc", "cot": "ccot",
              "asin": "casin", "acos": "cacos", "atan": "catan", "asec": "casec", "acsc": "cacsc", "acot": "cacot",
              "sinh": "csinh", "cosh": "ccosh", "tanh": "ctanh", "sech": "csech", "csch": "ccsch", "coth": "ccoth",
              "asinh": "casinh", "acosh": "cacosh", "atanh": "catanh", "asech": "casech", "acsch": "cacsch", "acoth": "cacoth", "conj": "cconj"}
CF_CMETH_R = {"abs": "cabs", "arg": "arg", "abs_sqr": "abs_sqr"}
CF_RFUN = {"sqrt": "sqrt", "cos": "cos", "sin": "sin", "exp": "exp", "ln": "ln", "cosh": "cosh", "sinh": "sinh"}

class _CfParser:
    TOK = re.compile(r"\s*(f64::[a-z0-9_]+|Complex::<f64>::one\(\)|Cmplx::one\(\)|Complex::new|Cmplx::new|Complex::<f64>::new|[0-9]+\.[0-9]*|[0-9]+|[A-Za-z_][A-Za-z0-9_]*|\.|\+|-|\*|/|\(|\)|,|&)")
    def __init__(self, s, env, name):
        self.t, i, self.env, self.name = [], 0, env, name
        s = s.strip()
        while i < len(s):
            m = self.TOK.match(s, i)
            if not m or m.end() == i: raise TieBroken("translator(cfun): %s: cannot tokenize at %r" % (name, s[i:i+30]))
            self.t.append(m.group(1)); i = m.end()
        self.i = 0
    def peek(self, k=0): return self.t[self.i + k] if self.i + k < len(self.t) else None
    def eat(self, x=None):
        tok = self.peek()
        if x is not None and tok != x: raise TieBroken("translator(cfun): %s: expected %r got %r" % (self.name, x, tok))
        self.i += 1; return tok
    # each production returns (type 'R'|'C', gallina text)
    def expr(self):
        l = self.term()
        while self.peek() in ("+", "-"):
            op = self.eat(); r = self.term(); l = self.binop(op, l, r)
        return l
    def term(self):
        l = self.unary()
        while self.peek() in ("*", "/"):
            op = self.eat(); r = self.unary(); l = self.binop(op, l, r)
        return l
    def binop(self, op, l, r):
        (tl, a), (tr, b) = l, r
        if tl == "R" and tr == "R": return ("R", "(%s %s %s)" % (a, op, b))
        if tl == "C" and tr == "C": return ("C", "(%s %s %s)" % ({"+": "cadd", "-": "csub", "*": "cmul", "/": "cdiv"}[op], a, b))
        if tl == "C" and tr == "R" and op in "+-*": return ("C", "(%s %s %s)" % ({"+": "cadd_r", "-": "csub_r", "*": "cmul_r"}[op], a, b))
        if tl == "R" and tr == "C" and op == "*": return ("C", "(cmul_r %s %s)" % (b, a))      # f64 * Complex delegates to Complex * f64
        raise TieBroken("translator(cfun): %s: unsupported operand types %s %s %s" % (self.name, tl, op, tr))
    def unary(self):
        if self.peek() == "-":
            self.eat(); t, a = self.unary()
            return (t, "(- %s)" % a) if t == "R" else ("C", "(cneg %s)" % a)
        if self.peek() == "*" or self.peek() == "&":       # deref / borrow are transparent
            self.eat(); return self.unary()
        return self.postfix()
    def postfix(self):
        tok = self.eat()
        if tok == "(":
            e = self.expr(); self.eat(")")
        elif tok in ("Complex::new", "Cmplx::new", "Complex::<f64>::new"):
            self.eat("("); (ta, a) = self.expr(); self.eat(","); (tb, b) = self.expr(); self.eat(")")
            if ta != "R" or tb != "R": raise TieBroken("translator(cfun): %s: Complex::new of non-real parts" % self.name)
            e = ("C", "(%s, %s)" % (a, b))
        elif tok in ("Cmplx::one()", "Complex::<f64>::one()"): e = ("C", "cone")
        elif tok.startswith("f64::"):
            f = tok[5:]; self.eat("("); args = [self.expr()]
            while self.peek() == ",": self.eat(); args.append(self.expr())
            self.eat(")"); e = self.rcall(f, args)
        elif re.match(r"[0-9]", tok):
            from fractions import Fraction
            q = Fraction(tok)
            e = ("R", str(q.numerator) if q.denominator == 1 else "(%d / %d)" % (q.numerator, q.denominator))
        elif tok in self.env: e = self.env[tok]
        else: raise TieBroken("translator(cfun): %s: unknown identifier %r" % (self.name, tok))
        while self.peek() == ".":
            self.eat(); m = self.eat()
            if m in ("real", "imag") and self.peek() != "(":
                if e[0] != "C": raise TieBroken("translator(cfun): %s: .%s of a real" % (self.name, m))
                e = ("R", "(%s %s)" % ("re" if m == "real" else "im", e[1])); continue
            self.eat("("); args = []
            if self.peek() != ")":
                args.append(self.expr())
                while self.peek() == ",": self.eat(); args.append(self.expr())
            self.eat(")")
            if m == "clone": continue
            if e[0] == "C":
                if m in CF_CMETH_C and not args: e = ("C", "(%s %s)" % (CF_CMETH_C[m], e[1]))
                elif m in CF_CMETH_R and not args: e = ("R", "(%s %s)" % (CF_CMETH_R[m], e[1]))
                elif m == "pow" and len(args) == 1 and args[0][0] == "C": e = ("C", "(cpow %s %s)" % (e[1], args[0][1]))
                elif m == "powf" and len(args) == 1 and args[0][0] == "R": e = ("C", "(cpowf %s %s)" % (e[1], args[0][1]))
                elif m == "log" and len(args) == 1 and args[0][0] == "C": e = ("C", "(clog %s %s)" % (e[1], args[0][1]))
                else: raise TieBroken("translator(cfun): %s: unknown complex method .%s/%d" % (self.name, m, len(args)))
            else:
                e = self.rcall(m, [e] + args)
        return e
    def rcall(self, f, args):
        if any(t != "R" for t, _ in args): raise TieBroken("translator(cfun): %s: real function %s of a complex argument" % (self.name, f))
        if f in CF_RFUN and len(args) == 1: return ("R", "(%s %s)" % (CF_RFUN[f], args[0][1]))
        if f == "powf" and len(args) == 2: return ("R", "(Rpower %s %s)" % (args[0][1], args[1][1]))
        raise TieBroken("translator(cfun): %s: unknown real function %s/%d" % (self.name, f, len(args)))

def render_cfun_ops():
    L = ["(* gen/CFunOps.v -- the formulas of src/complex/{elementary,trigonometric,hyperbolic}.rs, REGENERATED from /repo/src by",
         "   driver/translate.py on every check run, over the real-number model of Model/CFun.v (libm call -> real function). *)",
         "From Coq Require Import Reals.", "From OV Require Import Model.CFun.", "Local Open Scope R_scope.", ""]
    names = []
    for rel in CF_FILES:
        src = strip_rust_comments(_src(rel))
        for m in re.finditer(r"pub\s+fn\s+([a-z_0-9]+)\s*\(([^)]*)\)\s*->\s*Complex(?:::)?<f64>", src):
            fn, params = m.group(1), m.group(2)
            body = fn_body(src, re.escape(m.group(0)), None, fn)
            env, gargs = {"I": ("C", "ci"), "PI_2": ("R", "(PI / 2)")}, []
            for p in [x.strip() for x in params.split(",") if x.strip()]:
                if p == "&self": env["self"] = ("C", "z"); gargs.append("(z : C)"); continue
                pm = re.match(r"^([a-z_][a-z0-9_]*)\s*:\s*(&?\s*Complex(?:::)?<f64>|f64)$", p)
                if not pm: raise TieBroken("translator(cfun): %s: unexpected parameter %r" % (fn, p))
                ty = "R" if pm.group(2) == "f64" else "C"
                gname = {"w": "w", "x": "x", "b": "b", "r": "r", "theta": "theta"}.get(pm.group(1), pm.group(1))
                env[pm.group(1)] = (ty, gname); gargs.append("(%s : %s)" % (gname, ty))
            lines = []
            stmts = [s.strip() for s in body.split(";") if s.strip()]
            for k, s in enumerate(stmts):
                lm = re.match(r"^let\s+([a-z_][a-z0-9_]*)\s*(?::\s*[A-Za-z0-9_<>:]+)?\s*=\s*(.*)$", s, re.S)
                if lm:
                    p = _CfParser(lm.group(2), env, fn); t, txt = p.expr()
                    if p.peek() is not None: raise TieBroken("translator(cfun): %s: trailing tokens in %r" % (fn, s))
                    v = lm.group(1) + "_"
                    lines.append("let %s := %s in" % (v, txt)); env[lm.group(1)] = (t, v)
                else:
                    if k != len(stmts) - 1: raise TieBroken("translator(cfun): %s: unexpected statement %r" % (fn, s))
                    p = _CfParser(s, env, fn); t, txt = p.expr()
                    if p.peek() is not None: raise TieBroken("translator(cfun): %s: trailing tokens in %r" % (fn, s))
                    if t != "C": raise TieBroken("translator(cfun): %s: result is not complex" % fn)
                    lines.append(txt)
            L.append("Definition t_c%s %s : C :=\n  %s." % (fn, " ".join(gargs), "\n  ".join(lines)))
            names.append(fn)
    # abs / arg of mod.rs: fixed shapes, checked textually
    msrc = strip_rust_comments(_src("src/complex/mod.rs"))
    ab = fn_body(msrc, r"pub fn abs\(&self\) -> f64", None, "abs")
    if re.sub(r"\s+", "", ab) != "f64::sqrt(self.abs_sqr())": raise TieBroken("translator(cfun): unexpected body of Complex::abs: %r" % ab.strip())
    ag = fn_body(msrc, r"pub fn arg\(&self\) -> f64", None, "arg")
    if re.sub(r"\s+", "", ag) != "self.imag.atan2(self.real)": raise TieBroken("translator(cfun): unexpected body of Complex::arg: %r" % ag.strip())
    L.append("Definition t_cabs (z : C) : R := sqrt (abs_sqr z).")
    L.append("Definition t_arg (z : C) : R := atan2 (im z) (re z).")
    L.append("")
    return "\n".join(L), names

_regen_cx = regenerate
def regenerate():
    changed, d = _regen_cx()
    if os.path.exists(os.path.join(COQDIR, "Model", "CFun.v")) and os.path.getsize(os.path.join(COQDIR, "Model", "CFun.v")) > 200:
        text, names = render_cfun_ops()
        if write_if_changed(os.path.join(COQDIR, "gen", "CFunOps.v"), text):
            changed.append("gen/CFunOps.v")
        d["cfun_functions"] = names
    return changed, d

# ============================================================================ driver entry point
# Every fragment is regenerated independently; a fragment whose translator no longer recognises the source is
# reported by name, and only the properties whose Props file depends on that fragment are affected.
FRAGMENTS = []      # (relative .v path under coq/, function returning the text)
def _frag_params():
    return render_params(params())
def _frag_guards():
    return render_guard_table()[0]
def _frag_cfun():
    return render_cfun_ops()[0]
FRAGMENTS += [("gen/Params.v", _frag_params), ("gen/GuardTable.v", _frag_guards), ("gen/ComplexOps.v", render_complex_ops)]

def _cfun_enabled():
    p = os.path.join(COQDIR, "Model", "CFun.v")
    return os.path.exists(p) and os.path.getsize(p) > 200

def regenerate_all():
    """Returns (changed, errors): errors = {fragment: message} for fragments whose translator raised TieBroken."""
    changed, errors = [], {}
    frags = list(FRAGMENTS)
    if _cfun_enabled():
        frags.append(("gen/CFunOps.v", _frag_cfun))
    try:
        import translate_src            # package r2c: loop-code translator (optional)
        frags += translate_src.fragments()
    except ImportError:
        pass
    for rel, fn in frags:
        try:
            text = fn()
        except TieBroken as e:
            errors[rel] = str(e)
            continue
        if write_if_changed(os.path.join(COQDIR, rel), text):
            changed.append(rel)
    return changed, errors

def regenerate():
    changed, errors = regenerate_all()
    if errors:
        raise TieBroken("; ".join("%s: %s" % kv for kv in sorted(errors.items())))
    return changed, {}
