# driver/translate.py -- fragments of the Coq development that are REGENERATED from /repo/src on
# every check run (DESIGN.md 4.3).  A pattern that no longer matches is a broken tie (TieBroken).
import os, re
from common import REPO, COQDIR

class TieBroken(Exception):
    pass

def _src(rel):
    p = os.path.join(REPO, rel)
    if not os.path.exists(p):
        raise TieBroken("source file %s is missing" % rel)
    return open(p).read()

def _one(rel, pattern, what, flags=0):
    m = re.search(pattern, _src(rel), flags)
    if not m:
        raise TieBroken("translator: cannot find %s in %s (pattern %r)" % (what, rel, pattern))
    return m

def coq_float_lit(tok):
    """a Rust float literal -> exact Coq primitive float term (via python's correctly rounded parse)"""
    import math
    x = float(tok.replace("_", ""))
    if x == 0: return "0%float"
    m, e = math.frexp(abs(x)); mi = int(m * (1 << 53)); ei = e - 53
    while mi % 2 == 0: mi //= 2; ei += 1
    t = "(Z.ldexp (PrimFloat.of_uint63 (Uint63.of_Z %d)) (%d)%%Z)" % (mi, ei)
    return "(PrimFloat.opp %s)" % t if x < 0 else t

def params():
    """numeric constants the models depend on"""
    d = {}
    d["POLYDIV_MAX"] = int(_one("src/polynomial/arithmetic.rs", r"const\s+MAX\s*:\s*usize\s*=\s*(\d+)\s*;", "polydiv MAX").group(1))
    pm = "src/polynomial/mod.rs"
    d["LAGUER_MR"] = int(_one(pm, r"const\s+MR\s*:\s*usize\s*=\s*(\d+)\s*;", "laguer MR").group(1))
    d["LAGUER_MT"] = int(_one(pm, r"const\s+MT\s*:\s*usize\s*=\s*(\d+)\s*;", "laguer MT").group(1))
    _one(pm, r"const\s+MAXIT\s*:\s*usize\s*=\s*MT\s*\*\s*MR\s*;", "laguer MAXIT = MT * MR")
    _one(pm, r"const\s+EPS\s*:\s*f64\s*=\s*f64::EPSILON\s*;", "laguer EPS = f64::EPSILON")
    _one(pm, r"for\s+iter\s+in\s+1\s*\.\.\s*MAXIT\b", "laguer loop `for iter in 1..MAXIT`")
    fr = _one(pm, r"let\s+frac\s*:\s*\[\s*f64\s*;\s*MR\s*\+\s*1\s*\]\s*=\s*\[([^\]]*)\]", "laguer frac[]").group(1)
    d["LAGUER_FRAC"] = [t.strip() for t in fr.split(",") if t.strip()]
    if len(d["LAGUER_FRAC"]) != d["LAGUER_MR"] + 1:
        raise TieBroken("translator: frac[] has %d entries, MR+1 = %d" % (len(d["LAGUER_FRAC"]), d["LAGUER_MR"] + 1))
    nw = "src/newton.rs"
    d["NEWTON_TOL"] = _one(nw, r"let\s+tol\s*:\s*f64\s*=\s*([0-9.eE+\-_]+)\s*;", "Newton default tol").group(1)
    d["NEWTON_DELTA"] = _one(nw, r"let\s+delta\s*:\s*f64\s*=\s*([0-9.eE+\-_]+)\s*;", "Newton default delta").group(1)
    d["NEWTON_MAX_ITER"] = int(_one(nw, r"let\s+max_iter\s*:\s*usize\s*=\s*(\d+)\s*;", "Newton default max_iter").group(1))
    snaps = re.findall(r"\.abs\(\)\s*<\s*([0-9.eE+\-_]+)", _src("src/mesh1d.rs"))
    if len(snaps) != 2 or snaps[0] != snaps[1]:
        raise TieBroken("translator: expected two equal snapping windows in mesh1d.rs get_interpolated_vars, found %r" % snaps)
    d["MESH_SNAP"] = snaps[0]
    return d

def render_params(d):
    L = ["(* gen/Params.v -- numeric constants of the Rust source.  REGENERATED from /repo/src by",
         "   driver/translate.py on every check run; the models take these as definitions. *)",
         "From Coq Require Import List ZArith Floats Uint63.",
         "Definition POLYDIV_MAX : nat := %d." % d["POLYDIV_MAX"],
         "Definition LAGUER_MR : nat := %d." % d["LAGUER_MR"],
         "Definition LAGUER_MT : nat := %d." % d["LAGUER_MT"],
         "Definition LAGUER_FRAC : list float := (%s :: nil)." % " :: ".join(coq_float_lit(t) for t in d["LAGUER_FRAC"]),
         "Definition NEWTON_MAX_ITER : nat := %d." % d["NEWTON_MAX_ITER"],
         "Definition NEWTON_TOL : float := %s." % coq_float_lit(d["NEWTON_TOL"]),
         "Definition NEWTON_DELTA : float := %s." % coq_float_lit(d["NEWTON_DELTA"]),
         "Definition MESH_SNAP : float := %s." % coq_float_lit(d["MESH_SNAP"]),
         "(* the same constants as exact rationals (numerator, denominator) for the models over R / Qc *)",
         "Definition MESH_SNAP_Q : Z * positive := %s." % _qpair(d["MESH_SNAP"]),
         "Definition NEWTON_TOL_Q : Z * positive := %s." % _qpair(d["NEWTON_TOL"]),
         "Definition NEWTON_DELTA_Q : Z * positive := %s." % _qpair(d["NEWTON_DELTA"]),
         ""]
    return "\n".join(L)

def _qpair(tok):
    from fractions import Fraction
    f = Fraction(tok.replace("_", ""))      # the decimal literal as written (not its f64 rounding)
    return "(%d%%Z, %d%%positive)" % (f.numerator, f.denominator)

def write_if_changed(path, text):
    old = open(path).read() if os.path.exists(path) else None
    if old != text:
        os.makedirs(os.path.dirname(path), exist_ok=True)
        with open(path, "w") as f:
            f.write(text)
        return True
    return False

def regenerate():
    """Rewrite coq/gen/*.v from the current source tree.  Returns (changed_files, summary dict)."""
    changed = []
    d = params()
    if write_if_changed(os.path.join(COQDIR, "gen", "Params.v"), render_params(d)):
        changed.append("gen/Params.v")
    return changed, d
