# driver/translate.py -- fragments of the Coq development that are REGENERATED from /repo/src on
# every check run (DESIGN.md 4.3).  A pattern that no longer matches is a broken tie (TieBroken).
import os, re
from common import REPO, COQDIR

class TieBroken(Exception):
    pass

def _src(rel):
    p = os.path.join(REPO, rel)
    if not os.path.exists(p):
        raise TieBroken("source file %s is missing" % rel)
    return open(p).read()

def _one(rel, pattern, what, flags=0):
    m = re.search(pattern, _src(rel), flags)
    if not m:
        raise TieBroken("translator: cannot find %s in %s (pattern %r)" % (what, rel, pattern))
    return m

def coq_float_lit(tok):
    """a Rust float literal -> exact Coq primitive float term (via python's correctly rounded parse)"""
    import math
    x = float(tok.replace("_", ""))
    if x == 0: return "0%float"
    m, e = math.frexp(abs(x)); mi = int(m * (1 << 53)); ei = e - 53
    while mi % 2 == 0: mi //= 2; ei += 1
    t = "(Z.ldexp (PrimFloat.of_uint63 (Uint63.of_Z %d)) (%d)%%Z)" % (mi, ei)
    return "(PrimFloat.opp %s)" % t if x < 0 else t

def params():
    """numeric constants the models depend on"""
    d = {}
    d["POLYDIV_MAX"] = int(_one("src/polynomial/arithmetic.rs", r"const\s+MAX\s*:\s*usize\s*=\s*(\d+)\s*;", "polydiv MAX").group(1))
    pm = "src/polynomial/mod.rs"
    d["LAGUER_MR"] = int(_one(pm, r"const\s+MR\s*:\s*usize\s*=\s*(\d+)\s*;", "laguer MR").group(1))
    d["LAGUER_MT"] = int(_one(pm, r"const\s+MT\s*:\s*usize\s*=\s*(\d+)\s*;", "laguer MT").group(1))
    _one(pm, r"const\s+MAXIT\s*:\s*usize\s*=\s*MT\s*\*\s*MR\s*;", "laguer MAXIT = MT * MR")
    _one(pm, r"const\s+EPS\s*:\s*f64\s*=\s*f64::EPSILON\s*;", "laguer EPS = f64::EPSILON")
    _one(pm, r"for\s+iter\s+in\s+1\s*\.\.\s*MAXIT\b", "laguer loop `for iter in 1..MAXIT`")
    fr = _one(pm, r"let\s+frac\s*:\s*\[\s*f64\s*;\s*MR\s*\+\s*1\s*\]\s*=\s*\[([^\]]*)\]", "laguer frac[]").group(1)
    d["LAGUER_FRAC"] = [t.strip() for t in fr.split(",") if t.strip()]
    if len(d["LAGUER_FRAC"]) != d["LAGUER_MR"] + 1:
        raise TieBroken("translator: frac[] has %d entries, MR+1 = %d" % (len(d["LAGUER_FRAC"]), d["LAGUER_MR"] + 1))
    nw = "src/newton.rs"
    d["NEWTON_TOL"] = _one(nw, r"let\s+tol\s*:\s*f64\s*=\s*([0-9.eE+\-_]+)\s*;", "Newton default tol").group(1)
    d["NEWTON_DELTA"] = _one(nw, r"let\s+delta\s*:\s*f64\s*=\s*([0-9.eE+\-_]+)\s*;", "Newton default delta").group(1)
    d["NEWTON_MAX_ITER"] = int(_one(nw, r"let\s+max_iter\s*:\s*usize\s*=\s*(\d+)\s*;", "Newton default max_iter").group(1))
    snaps = re.findall(r"\.abs\(\)\s*<\s*([0-9.eE+\-_]+)", _src("src/mesh1d.rs"))
    if len(snaps) != 2 or snaps[0] != snaps[1]:
        raise TieBroken("translator: expected two equal snapping windows in mesh1d.rs get_interpolated_vars, found %r" % snaps)
    d["MESH_SNAP"] = snaps[0]
    return d

def render_params(d):
    L = ["(* gen/Params.v -- numeric constants of the Rust source.  REGENERATED from /repo/src by",
         "   driver/translate.py on every check run; the models take these as definitions. *)",
         "From Coq Require Import List ZArith Floats Uint63.",
         "Definition POLYDIV_MAX : nat := %d." % d["POLYDIV_MAX"],
         "Definition LAGUER_MR : nat := %d." % d["LAGUER_MR"],
         "Definition LAGUER_MT : nat := %d." % d["LAGUER_MT"],
         "Definition LAGUER_FRAC : list float := (%s :: nil)." % " :: ".join(coq_float_lit(t) for t in d["LAGUER_FRAC"]),
         "Definition NEWTON_MAX_ITER : nat := %d." % d["NEWTON_MAX_ITER"],
         "Definition NEWTON_TOL : float := %s." % coq_float_lit(d["NEWTON_TOL"]),
         "Definition NEWTON_DELTA : float := %s." % coq_float_lit(d["NEWTON_DELTA"]),
         "Definition MESH_SNAP : float := %s." % coq_float_lit(d["MESH_SNAP"]),
         "(* the same constants as exact rationals (numerator, denominator) for the models over R / Qc *)",
         "Definition MESH_SNAP_Q : Z * positive := %s." % _qpair(d["MESH_SNAP"]),
         "Definition NEWTON_TOL_Q : Z * positive := %s." % _qpair(d["NEWTON_TOL"]),
         "Definition NEWTON_DELTA_Q : Z * positive := %s." % _qpair(d["NEWTON_DELTA"]),
         ""]
    return "\n".join(L)

def _qpair(tok):
    from fractions import Fraction
    f = Fraction(tok.replace("_", ""))      # the decimal literal as written (not its f64 rounding)
    return "(%d%%Z, %d%%positive)" % (f.numerator, f.denominator)

def write_if_changed(path, text):
    old = open(path).read() if os.path.exists(path) else None
    if old != text:
        os.makedirs(os.path.dirname(path), exist_ok=True)
        with open(path, "w") as f:
            f.write(text)
        return True
    return False

def regenerate():
    """Rewrite coq/gen/*.v from the current source tree.  Returns (changed_files, summary dict)."""
    changed = []
    d = params()
    if write_if_changed(os.path.join(COQDIR, "gen", "Params.v"), render_params(d)):
        changed.append("gen/Params.v")
    return changed, d

# ============================================================================ guard table (C20)
def strip_rust_comments(s):
    out, i, n = [], 0, len(s)
    while i < n:
        if s.startswith("//", i):
            j = s.find("\n", i); j = n if j < 0 else j
            i = j
        elif s.startswith("/*", i):
            j = s.find("*/", i + 2); j = n - 2 if j < 0 else j
            out.append(" " * 0); i = j + 2
        elif s[i] == '"':
            j = i + 1
            while j < n and s[j] != '"':
                j += 2 if s[j] == "\\" else 1
            out.append('""'); i = j + 1
        else:
            out.append(s[i]); i += 1
    return "".join(out)

def fn_body(src, anchor, after=None, what=""):
    start = 0
    if after:
        m = re.search(after, src)
        if not m: raise TieBroken("translator: cannot find %r (%s)" % (after, what))
        start = m.end()
    m = re.compile(anchor).search(src, start)
    if not m: raise TieBroken("translator: cannot find function %r (%s)" % (anchor, what))
    i = src.find("{", m.end())
    depth, j = 0, i
    while j < len(src):
        if src[j] == "{": depth += 1
        elif src[j] == "}":
            depth -= 1
            if depth == 0: return src[i + 1:j]
        j += 1
    raise TieBroken("translator: unbalanced braces in %s" % what)

class Block:
    def __init__(self, header, parent):
        self.header, self.parent, self.children, self.items = header, parent, [], []   # items: ('text', s) | ('block', Block)
        self.text = ""

def parse_blocks(body):
    root = Block("", None); cur = root; last = 0
    i = 0
    while i < len(body):
        ch = body[i]
        if ch == "{":
            header = body[last:i].strip()
            # a struct literal / closure body also opens a brace; headers keep whatever precedes since the last boundary
            b = Block(header, cur); cur.items.append(("block", b)); cur.children.append(b); cur = b; last = i + 1
        elif ch == "}":
            seg = body[last:i].strip()
            if seg: cur.items.append(("text", seg))
            cur = cur.parent if cur.parent is not None else cur; last = i + 1
        elif ch == ";":
            seg = body[last:i].strip()
            if seg: cur.items.append(("text", seg))
            last = i + 1
        i += 1
    seg = body[last:].strip()
    if seg: cur.items.append(("text", seg))
    return root

# ---- tiny Rust condition parser
_TOK = re.compile(r"\s*(\|\||&&|==|!=|<=|>=|<|>|\+|-|\*|!|\(|\)|\bas\b\s+[A-Za-z0-9_]+|[0-9][0-9_]*(?:\.[0-9]+)?(?:usize|isize|i32|u32|f64)?|[A-Za-z_][A-Za-z0-9_]*(?:::<[^>]*>)?(?:(?:::|\.)[A-Za-z_][A-Za-z0-9_]*|\((?:[^()]*)\)|\[(?:[^\[\]]*)\])*)")
def tokenize(s):
    toks, i = [], 0
    s = s.strip()
    while i < len(s):
        m = _TOK.match(s, i)
        if not m or m.end() == i: raise ValueError("cannot tokenize %r at %d" % (s, i))
        toks.append(m.group(1).strip()); i = m.end()
    return toks

class P:
    def __init__(self, toks): self.t, self.i = toks, 0
    def peek(self): return self.t[self.i] if self.i < len(self.t) else None
    def eat(self, x=None):
        tok = self.peek()
        if x is not None and tok != x: raise ValueError("expected %r got %r" % (x, tok))
        self.i += 1; return tok
    def expr(self): return self.or_()
    def or_(self):
        l = self.and_()
        while self.peek() == "||": self.eat(); l = ("or", l, self.and_())
        return l
    def and_(self):
        l = self.cmp()
        while self.peek() == "&&": self.eat(); l = ("and", l, self.cmp())
        return l
    def cmp(self):
        l = self.add()
        if self.peek() in ("==", "!=", "<=", ">=", "<", ">"):
            op = self.eat(); return (op, l, self.add())
        return l
    def add(self):
        l = self.mul()
        while self.peek() in ("+", "-"):
            op = self.eat(); l = (op, l, self.mul())
        return l
    def mul(self):
        l = self.unary()
        while self.peek() == "*":
            self.eat(); l = ("*", l, self.unary())
        return l
    def unary(self):
        if self.peek() == "-": self.eat(); return ("neg", self.unary())
        if self.peek() == "!": self.eat(); return ("not", self.unary())
        e = self.atom()
        while self.peek() is not None and self.peek().startswith("as "): self.eat()      # casts are transparent over Z
        return e
    def atom(self):
        tok = self.eat()
        if tok == "(":
            e = self.expr(); self.eat(")"); return e
        if tok is None: raise ValueError("unexpected end")
        if tok[0].isdigit(): return ("num", tok)
        return ("atom", re.sub(r"\s+", "", tok))

def parse_cond(s):
    p = P(tokenize(s)); e = p.expr()
    if p.peek() is not None: raise ValueError("trailing tokens in %r" % s)
    return e

def atoms_of(e):
    if e[0] == "atom": return {e[1]}
    if e[0] == "num": return set()
    out = set()
    for x in e[1:]: out |= atoms_of(x)
    return out

def gallina(e, amap):
    k = e[0]
    if k == "atom": return amap[e[1]]
    if k == "num":
        t = re.sub(r"(usize|isize|i32|u32|_)", "", e[1])
        if "." in t: raise ValueError("float literal in structural guard")
        return t
    if k == "neg": return "(- %s)" % gallina(e[1], amap)
    if k == "not": return "(negb %s)" % gallina(e[1], amap)
    a, b = gallina(e[1], amap), gallina(e[2], amap)
    return {"or": "(%s || %s)", "and": "(%s && %s)", "==": "(%s =? %s)", "!=": "(negb (%s =? %s))", "<": "(%s <? %s)", "<=": "(%s <=? %s)",
            ">": "(%s >? %s)", ">=": "(%s >=? %s)", "+": "(%s + %s)", "-": "(%s - %s)", "*": "(%s * %s)"}[k] % (a, b)

def _if_cond(header):
    m = re.match(r"^(?:else\s+)?if\s+(.*)$", header, re.S)
    return m.group(1).strip() if m else None

def guards_of_entry(ent, srccache):
    """list of Gallina boolean terms (the structural guards of the function, in source order)"""
    if ent["file"] not in srccache:
        srccache[ent["file"]] = strip_rust_comments(_src(ent["file"]))
    body = fn_body(srccache[ent["file"]], ent["anchor"], ent.get("after"), ent["key"])
    root = parse_blocks(body)
    amap = {re.sub(r"\s+", "", k): v for k, v in ent["atoms"].items()}
    out, ignored = [], []
    def classify(cond_txt, build):
        try:
            e = parse_cond(cond_txt)
        except ValueError as ex:
            if any(re.search(p, cond_txt) for p in ent["data"]): ignored.append(cond_txt); return
            raise TieBroken("translator: %s: cannot parse guard condition %r (%s)" % (ent["key"], cond_txt, ex))
        missing = [a for a in atoms_of(e) if a not in amap]
        if missing:
            if any(re.search(p, cond_txt) for p in ent["data"]): ignored.append(cond_txt); return
            raise TieBroken("translator: %s: guard %r mentions unknown atoms %s" % (ent["key"], cond_txt, missing))
        try:
            out.append(build(e))
        except ValueError as ex:
            raise TieBroken("translator: %s: guard %r: %s" % (ent["key"], cond_txt, ex))
    def walk(b):
        returned = []          # conditions of `if C { return … }` seen at this level since the last guard
        for idx, (kind, it) in enumerate(b.items):
            if kind == "text":
                if re.match(r"^panic!\s*\(", it):
                    # bare panic at this level
                    if b.header.strip() == "else" and b.parent is not None:
                        # chain-else-panic: negate the conditions of the preceding if / else-if siblings
                        sibs = [x for k, x in b.parent.items if k == "block"]
                        pos = sibs.index(b); chain = []
                        j = pos - 1
                        while j >= 0:
                            c = _if_cond(sibs[j].header)
                            if c is None: break
                            chain.append(c)
                            if not sibs[j].header.startswith("else"): break
                            j -= 1
                        if not chain: raise TieBroken("translator: %s: else-panic without an if chain" % ent["key"])
                        conds = list(reversed(chain))
                        def build(_e, conds=conds):
                            return "(" + " && ".join("(negb %s)" % gallina(parse_cond(c), amap) for c in conds) + ")"
                        for c in conds:
                            miss = [a for a in atoms_of(parse_cond(c)) if a not in amap]
                            if miss: raise TieBroken("translator: %s: else-panic chain condition %r mentions unknown atoms %s" % (ent["key"], c, miss))
                        out.append(build(None))
                    elif _if_cond(b.header) is not None:
                        pass        # handled when visiting the block from its parent (below)
                    elif b is root:
                        if not returned: raise TieBroken("translator: %s: unconditional panic" % ent["key"])
                        rs = list(returned)
                        out.append("(" + " && ".join("(negb %s)" % gallina(parse_cond(c), amap) for c in rs) + ")")
                    else:
                        raise TieBroken("translator: %s: panic in an unrecognised position (block header %r)" % (ent["key"], b.header[:60]))
                continue
            blk = it
            c = _if_cond(blk.header)
            first = blk.items[0] if blk.items else None
            if c is not None and first and first[0] == "text" and re.match(r"^panic!\s*\(", first[1]) and not blk.header.startswith("else"):
                classify(c, lambda e: gallina(e, amap))
                returned = []
            elif c is not None and first and first[0] == "text" and first[1].startswith("return") and b is root and not blk.header.startswith("else"):
                miss = [a for a in atoms_of(parse_cond(c)) if a not in amap] if not any(re.search(p, c) for p in ent["data"]) else ["data"]
                if not miss: returned.append(c)
                walk(blk)
            else:
                walk(blk)
    walk(root)
    return out, ignored

def render_guard_table():
    import guardtable
    cache = {}
    L = ["(* gen/GuardTable.v -- the explicit `if … { panic!(…) }` guards of every checked entry point of C20,",
         "   REGENERATED from /repo/src by driver/translate.py on every check run (integers over Z). *)",
         "From Coq Require Import ZArith Bool.", "Local Open Scope Z_scope.", "Local Open Scope bool_scope.", ""]
    summary = {}
    bodies = {}
    for ent in guardtable.ENTRIES:
        if ent["native"]: continue
        vs = " ".join(n for n, _, _ in ent["vars"])
        if ent["guard_of"]:
            src = guardtable.BYKEY[ent["guard_of"]]
            if ent["file"] not in cache: cache[ent["file"]] = strip_rust_comments(_src(ent["file"]))
            body = fn_body(cache[ent["file"]], ent["anchor"], ent.get("after"), ent["key"])
            callee = re.search(r"fn\s+([a-z_0-9]+)", src["anchor"].replace("\\", "")).group(1)
            if callee not in body:
                raise TieBroken("translator: %s no longer calls %s (whose guard protects it)" % (ent["key"], callee))
            gs, ign = guards_of_entry(src, cache)
            own, _ = guards_of_entry(ent, cache)
            gs = own + gs
        else:
            gs, ign = guards_of_entry(ent, cache)
        term = " || ".join(gs) if gs else "false"
        L.append("Definition g_%s (%s : Z) : bool := %s." % (ent["key"], vs, term))
        summary[ent["key"]] = len(gs)
    L.append("")
    return "\n".join(L), summary

_regen_params = regenerate
def regenerate():
    changed, d = _regen_params()
    text, summary = render_guard_table()
    if write_if_changed(os.path.join(COQDIR, "gen", "GuardTable.v"), text):
        changed.append("gen/GuardTable.v")
    d["guards"] = summary
    return changed, d
