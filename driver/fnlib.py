# driver/fnlib.py -- user functions as shared expression ASTs (coq/Base/FnAst.v, harness/src/fnast.rs).
# An expression is a nested tuple:
#   ('v', k)            variable x_k
#   ('c', value)        literal (float for elt f64, complex for elt cplx)
#   ('+', l, r) ('-', l, r) ('*', l, r) ('/', l, r)
#   ('neg', e)
# One expression is printed three ways: as the executor token, as a Gallina term of type
# `expr AF` / `expr ACF`, and evaluated in python (floats / complex for the search oracle,
# Fraction or mpmath for exact / high-precision references).
from fractions import Fraction
from common import *

OPS = {'+': 'OpAdd', '-': 'OpSub', '*': 'OpMul', '/': 'OpDiv'}

def V(k): return ('v', k)
def C(x): return ('c', x)
def add(a, b): return ('+', a, b)
def sub(a, b): return ('-', a, b)
def mul(a, b): return ('*', a, b)
def div(a, b): return ('/', a, b)
def neg(a): return ('neg', a)

def lit(elt, x):
    return C(complex(x) if elt == 'cplx' else float(x))

def tok(elt, e):
    k = e[0]
    if k == 'v': return "v%d" % e[1]
    if k == 'c': return tok_scalar(elt, e[1])
    if k == 'neg': return "(neg" + tok(elt, e[1]) + ")"
    return "(" + tok(elt, e[1]) + k + tok(elt, e[2]) + ")"

def tok_fns(elt, es):
    return "{" + ",".join(tok(elt, e) for e in es) + "}"

def coq(elt, e):
    k = e[0]
    if k == 'v': return "(EVar %d)" % e[1]
    if k == 'c': return "(ELit %s)" % coq_scalar(elt, e[1])
    if k == 'neg': return "(ENeg %s)" % coq(elt, e[1])
    return "(EBin %s %s %s)" % (OPS[k], coq(elt, e[1]), coq(elt, e[2]))

def coq_typed(elt, e):
    return "(%s : expr %s)" % (coq(elt, e), ARITH[elt])

def coq_fns(elt, es):
    return "([" + "; ".join(coq(elt, e) for e in es) + "] : list (expr %s))" % ARITH[elt]

def ev(e, xs, conv=None):
    """evaluate with python arithmetic; conv converts literals (e.g. Fraction, mpmath.mpf / mpc)"""
    k = e[0]
    if k == 'v': return xs[e[1]]
    if k == 'c': return conv(e[1]) if conv else e[1]
    if k == 'neg': return -ev(e[1], xs, conv)
    a = ev(e[1], xs, conv); b = ev(e[2], xs, conv)
    if k == '+': return a + b
    if k == '-': return a - b
    if k == '*': return a * b
    if k == '/':
        try:
            return a / b
        except ZeroDivisionError:
            # IEEE semantics for the float oracle
            if isinstance(a, complex) or isinstance(b, complex):
                return complex(float('nan'), float('nan'))
            if a != a or a == 0: return float('nan')
            return math.copysign(float('inf'), a) * math.copysign(1.0, b)
    raise ValueError(k)

def evv(es, xs, conv=None):
    return [ev(e, xs, conv) for e in es]

def to_frac(x):
    """exact rational value of a float literal (complex -> pair)"""
    if isinstance(x, complex): return (Fraction(x.real), Fraction(x.imag))
    return Fraction(x)

def horner(elt, coeffs, x=None):
    """c0 + x*(c1 + x*(c2 + ...)) for coeffs [c0, c1, ...]"""
    x = x if x is not None else V(0)
    e = lit(elt, coeffs[-1])
    for c in reversed(coeffs[:-1]):
        e = add(lit(elt, c), mul(x, e))
    return e

def from_json(e):
    """JSON round trip: lists -> tuples; complex literals are stored as {"re":..,"im":..}, floats as hex strings"""
    if isinstance(e, (list, tuple)):
        if e[0] == 'c':
            v = e[1]
            if isinstance(v, dict): return ('c', complex(float.fromhex(v["re"]), float.fromhex(v["im"])))
            if isinstance(v, str): return ('c', float.fromhex(v))
            return ('c', v)
        if e[0] == 'v': return ('v', int(e[1]))
        return tuple([e[0]] + [from_json(x) for x in e[1:]])
    return e

def to_json(e):
    if e[0] == 'c':
        v = e[1]
        if isinstance(v, complex): return ['c', {"re": v.real.hex(), "im": v.imag.hex()}]
        return ['c', float(v).hex()]
    if e[0] == 'v': return ['v', e[1]]
    return [e[0]] + [to_json(x) for x in e[1:]]
