# C10 -- Polynomial::roots returns n finite values, each a zero to a small normwise backward error;
#        one-to-one with the true roots when those are well separated; degree 0 is rejected.
import math
from fractions import Fraction
from common import *
from engine import Case
from rootslib import *

PID = "C10"
IMPORTS = "From OV Require Import Model.Roots."
MODEL_VO = ["Model/Roots.vo"]
RULE = ("polynomials of degree 1..12 over f64 and Complex<f64>, each with and without refinement: built from prescribed roots "
        "(separated, zero, repeated, clustered, conjugate pairs, purely imaginary; exact rational roots, coefficients exact in f64 "
        "where possible), random coefficients of mixed sign and scale (ratio <= 1e6) with vanishing constant/inner coefficients, "
        "closed-form special branches (b = 0, c = 0, d0 = 0, d1 purely imaginary, triple root), quadratics/cubics with coefficient "
        "magnitudes 1e-3..1e3 and real-/imaginary-dominated phases, sparse x^n + a x^k + b, degree 0 and the empty coefficient list; "
        "distinct = distinct executor line; non-trivial = degree >= 2")
TRUSTED = ["Coq 8.16.1 kernel + vm_compute (primitive binary64)", "Rust executor /verif/harness (kind roots.solve; harness/build.rs detects the hook)",
           "the cfg(ohsl_verif) recording hook in src/complex/elementary.rs (/repo commit 05bbbd0): the logged (argument, result) bits of "
           "Complex::sqrt/pow/polar are taken as what libm returned",
           "python driver (generators, exact Fraction evaluation of p(z), comparators, classification of failing inputs by the model's trace)",
           "hand-written Gallina model coq/Model/Roots.v tied to src/polynomial/mod.rs:190-347 by bit-for-bit differential execution",
           "driver/translate.py (LAGUER_MR, LAGUER_MT, frac[] regenerated from the source on every run)"]
ASSUMPTIONS = ["Rust semantics of Vec/usize/f64 as modelled (IEEE-754 binary64, no fused multiply-add, round-to-nearest)",
               "the three libm-backed primitives are an oracle table recorded from the implementation's own run, not modelled",
               "accuracy of the returned roots (backward error) and convergence of Laguerre's iteration are searched, not proved; "
               "five failure classes are recorded known findings (KF-C10-A/B/C/E/F)"]
UNPROVED = ["normwise backward error of the returned values in f64 (tie + search; false of the code on the classes KF-C10-A/B/C/E/F)",
            "convergence of Laguerre's iteration (false of the code from x = 0 on nearly symmetric deflated polynomials: KF-C10-A)",
            "one-to-one correspondence with the true roots (search on well-conditioned prescribed-root families)",
            "that libm's sqrt/pow return square/cube roots (hypotheses of quadratic_factors / cubic_factors; in the tie they are recorded values)"]

MANIFEST = dict(
    text=("Proved in Coq (%d theorems;" % ntheorems("C10") + " closed under the global context except float_roots_memory_safe, which mentions Coq's primitive-float constants) for the executable model coq/Model/Roots.v -- ONE definition, "
          "instantiated at an abstract field for the closed forms and at IEEE binary64 + the recorded libm calls for the tie. "
          "For every arithmetic (floats included): poly_solve returns exactly n values for degree n >= 1 and rejects degree 0 "
          "(roots_length, degree0_rejected); laguer makes at most MAXIT-1 passes, MAXIT regenerated from the source, and an Exhausted exit "
          "has used all of them (laguer_bounded, laguer_exhausted_full); a Converged exit means the code's own test |p(x)| <= EPS*err held "
          "at the returned iterate (laguer_converged_small); the number of laguer calls is n (degree >= 4) + n (refine) (trace_length); "
          "refine = true passes EVERY unpolished value through laguer on the undeflated polynomial (refine_polishes_all), and a polished "
          "value whose call exits Converged passes the smallness test on the undeflated polynomial (polished_converged); the snapping rule "
          "(snap_cases); for the float instance with ANY oracle table and every nonempty input no Vec access is out of bounds and no usize "
          "subtraction underflows, so Polynomial::roots performs no out-of-bounds access and no usize underflow for any input of length >= 2 (so the degree-0 guard is its only index-class panic) (float_roots_memory_safe). Over any commutative ring: laguer's inner loop computes (p(x), p'(x), p''(x)/2), identified by the Taylor expansion "
          "and the running error bound errv (horner_triple, taylor_expansion), so a Converged exit means |p(x)| <= EPS*errv(p,x) at the "
          "returned iterate, for a polished value on the undeflated polynomial (converged_means_small, polished_converged_small); one deflation is p(t) = (t-x) q(t) + p(x) (deflate_spec); the whole deflation phase recomposes "
          "p exactly from the values found and one residual per value, hence p = a_n prod (t - x_j) when the residuals vanish "
          "(deflation_recomposes). Over any field with 2, 3 invertible: the linear, quadratic (either sign choice; the repaired q = 0 "
          "branch, where the legacy code divides by zero; totality) and Cardano formulas (either sign test, incl. the triple-root branch) "
          "return THE roots with multiplicity, provided the square-root and cube-root primitives return square/cube roots "
          "(linear_root, quadratic_factors, quadratic_q0, quadratic_total, cubic_factors). "
          "Legacy: quadratic_legacy_refuted, cubic_sign_legacy_refuted (vm_compute on the committed witnesses). "
          "NOT proved: that the floating-point values returned are accurate roots, and that Laguerre's iteration converges -- both are "
          "false of the code on five recorded classes of inputs (KF-C10-A exhaustion, -B polishing a zero root, -C unpolished deflation "
          "drift, -E overflow of |p(x)| in the convergence test, -F cancellation in the Cardano path). Those halves are covered by a "
          "bit-for-bit tie of the float model to the implementation on every generated case (the three libm primitives as a recorded "
          "oracle table) and by a failing-input search with the property statement as oracle; a failing input is downgraded to a known "
          "finding only if the model reproduces the implementation bit for bit on it and the model's trace shows the recorded cause."),
    note="partial: structure and closed forms proved exactly; float accuracy and convergence by tie + search; 5 open known findings",
    technique="Coq proof (abstract ring/field, loop invariants, field/ring) + differential execution of the float model with an oracle table for libm calls",
    design="DESIGN.md section 7 (C10), 8 (KF-C10-A/B/C), 9 (hook); findings/C10-known-findings.txt (KF-C10-E, -F)")

THETA_POLISHED = 1e-12
THETA_UNPOLISHED = 1e-10

# ----------------------------------------------------------------------------- exact helpers
def cfrac(z):
    z = complex(z)
    return (Fraction(z.real), Fraction(z.imag))
def cmul(a, b): return (a[0]*b[0] - a[1]*b[1], a[0]*b[1] + a[1]*b[0])
def cadd(a, b): return (a[0]+b[0], a[1]+b[1])
def csub(a, b): return (a[0]-b[0], a[1]-b[1])

def peval_exact(coeffs, z):
    """p(z) exactly (complex rational Horner); coeffs low to high, z a complex float"""
    zf = cfrac(z)
    acc = (Fraction(0), Fraction(0))
    for c in reversed(coeffs):
        acc = cadd(cmul(acc, zf), cfrac(c))
    return acc

def fabs2(a):            # |a|^2 of an exact complex
    return a[0]*a[0] + a[1]*a[1]

def expand_roots(roots, lead=(Fraction(1), Fraction(0))):
    """exact coefficients (low to high) of lead * prod (x - r), roots exact complex rationals"""
    p = [lead]
    for r in roots:
        q = [(Fraction(0), Fraction(0))] * (len(p) + 1)
        for i, c in enumerate(p):
            q[i+1] = cadd(q[i+1], c)
            q[i] = csub(q[i], cmul(c, r))
        p = q
    return p

def to_float_coeffs(p):
    """exact complex rational coefficients -> (elt, python coefficients, exactly representable?)"""
    exact = True
    out = []
    for (a, b) in p:
        fa, fb = float(a), float(b)
        if Fraction(fa) != a or Fraction(fb) != b: exact = False
        out.append(complex(fa, fb))
    if all(c.imag == 0 for c in out):
        return 'f64', [c.real for c in out], exact
    return 'cplx', out, exact

# ----------------------------------------------------------------------------- cases
def mk(elt, coeffs, refine, family, prescribed=None, nontrivial=None):
    coeffs = list(coeffs)
    line = line_for(elt, coeffs, refine, False)
    meta = {"coeffs": [[complex(c).real, complex(c).imag] for c in coeffs], "refine": bool(refine)}
    if prescribed is not None:
        meta["prescribed"] = [[str(r[0]), str(r[1])] for r in prescribed]
    term = LazyTerm(elt, coeffs, refine)
    c = Case(elt, line, term, meta=meta, family=family,
             nontrivial=(len(coeffs) >= 3) if nontrivial is None else nontrivial, tol=0.0, exact_bits=True)
    return c

def both(cases, elt, coeffs, family, prescribed=None):
    for refine in (False, True):
        cases.append(mk(elt, coeffs, refine, family + ("+refine" if refine else ""), prescribed))

def dy(rng, lo, hi, den):
    """a dyadic rational k/den in [lo, hi]"""
    return Fraction(rng.range(lo * den, hi * den), den)

def gen_prescribed(rng, fam, deg):
    """list of exact complex roots for the family"""
    Z = Fraction(0)
    rs = []
    if fam == "separated-real":
        pool = rng.shuffle([Fraction(k, 2) for k in range(-8, 9)])
        rs = [(x, Z) for x in pool[:deg]]
    elif fam == "separated-complex":
        pool = rng.shuffle([(Fraction(a, 2), Fraction(b, 2)) for a in range(-4, 5) for b in range(-4, 5)])
        rs = pool[:deg]
    elif fam == "zero-roots":
        k = rng.range(1, max(1, min(deg, 3)))
        pool = rng.shuffle([Fraction(k2, 2) for k2 in range(-6, 7) if k2 != 0])
        rs = [(Z, Z)] * k + [(x, Z) for x in pool[:deg - k]]
    elif fam == "repeated":
        r = (dy(rng, -2, 2, 4), Z if rng.chance(1, 2) else dy(rng, -2, 2, 4))
        m = rng.range(2, max(2, min(deg, 4)))
        m = min(m, deg)
        pool = rng.shuffle([Fraction(k2, 2) for k2 in range(-6, 7)])
        rs = [r] * m + [(x, Z) for x in pool[:deg - m] if (x, Z) != r]
        while len(rs) < deg: rs.append((Fraction(5), Z))
    elif fam == "clustered":
        c = (dy(rng, -2, 2, 4), Z if rng.chance(1, 2) else dy(rng, -2, 2, 4))
        m = min(deg, rng.range(2, 3))
        eps = Fraction(1, 2 ** rng.range(6, 12))
        rs = [(c[0] + eps * i, c[1]) for i in range(m)]
        pool = rng.shuffle([Fraction(k2, 2) for k2 in range(-6, 7)])
        rs += [(x + Fraction(1, 4), Z) for x in pool[:deg - m]]
    elif fam == "conjugate":
        while len(rs) + 2 <= deg:
            a, b = dy(rng, -3, 3, 4), dy(rng, 1, 12, 4)
            if (a, b) in rs: continue
            rs += [(a, b), (a, -b)]
        if len(rs) < deg: rs.append((dy(rng, -3, 3, 4), Z))
    elif fam == "imaginary":
        bs = rng.shuffle([Fraction(k2, 4) for k2 in range(1, 17)])
        i = 0
        conj = rng.chance(1, 2)
        while len(rs) < deg:
            b = bs[i]; i += 1
            if conj and len(rs) + 2 <= deg: rs += [(Z, b), (Z, -b)]
            else: rs.append((Z, b if rng.chance(1, 2) else -b))
    return rs[:deg]

def val(rng):
    k = rng.below(8)
    if k < 2: return 0.0
    if k < 5: return float(rng.range(-9, 9))
    if k < 7: return (rng.unit() * 2 - 1) * 10.0 ** rng.range(-3, 3)
    return float(rng.range(1, 999)) * (1 if rng.chance(1, 2) else -1)

def gen_random(rng, deg, cplx, scaled):
    sc = 10.0 ** rng.range(-3, 3) if scaled else 1.0
    def v():
        x = val(rng)
        return x * sc if scaled and rng.chance(1, 2) else x
    if cplx:
        c = [complex(v(), v() if rng.chance(2, 3) else 0.0) for _ in range(deg + 1)]
        if c[-1] == 0: c[-1] = complex(rng.range(1, 9), rng.range(-3, 3))
        nz = [abs(x) for x in c if x != 0]
    else:
        c = [v() for _ in range(deg + 1)]
        if c[-1] == 0: c[-1] = float(rng.range(1, 9))
        nz = [abs(x) for x in c if x != 0]
    # ratio of nonzero coefficient magnitudes at most 1e6 (the quantifier)
    hi = max(nz)
    c = [x if (x == 0 or abs(x) * 1e6 >= hi) else x * 0 for x in c]
    return c

def generate(rng, tier):
    cases = []
    quick = tier == "quick"
    # --- prescribed roots
    g = rng.fork("prescribed")
    fams = ["separated-real", "separated-complex", "zero-roots", "repeated", "clustered", "conjugate", "imaginary"]
    reps = 2 if quick else 11
    for fam in fams:
        for deg in range(1, 13):
            for t in range(reps):
                rs = gen_prescribed(g, fam, deg)
                if len(rs) != deg: continue
                lead = (Fraction(g.choice([1, 1, -1, 2, 3, -5])), Fraction(0))
                if fam in ("separated-complex", "imaginary") and g.chance(1, 3):
                    lead = (Fraction(g.range(1, 3)), Fraction(g.range(-2, 2)))
                p = expand_roots(rs, lead)
                elt, coeffs, exact = to_float_coeffs(p)
                both(cases, elt, coeffs, "roots-" + fam, prescribed=rs if exact else None)
    # --- random coefficients, mixed sign/scale, vanishing constant and inner coefficients
    g = rng.fork("random")
    reps = 8 if quick else 70
    for cplx in (False, True):
        for deg in range(1, 13):
            for t in range(reps):
                c = gen_random(g, deg, cplx, scaled=(t % 2 == 1))
                if g.chance(1, 6): c[0] = 0 * c[0]              # a root at zero
                both(cases, 'cplx' if cplx else 'f64', c, "random-" + ("cplx" if cplx else "real") + ("-deg<=3" if deg <= 3 else ""))
    # --- closed-form branches
    g = rng.fork("closed")
    reps = 6 if quick else 50
    for t in range(reps):
        a, b, c, d = [float(g.range(-6, 6)) for _ in range(4)]
        if a == 0: a = 1.0
        lows = [("quad-b0", [c, 0.0, a]), ("quad-c0", [0.0, b, a]), ("quad-bc0", [0.0, 0.0, a]),
                ("cubic-x3+d", [d, 0.0, 0.0, a]), ("cubic-d0-zero", [d, 3.0 * a, 3.0 * a, a]),
                ("cubic-cd0", [0.0, 0.0, b, a]), ("cubic-d0", [0.0, c, b, a]),
                ("cubic-triple", [float(-(t % 5 - 2) ** 3), float(3 * (t % 5 - 2) ** 2), float(-3 * (t % 5 - 2)), 1.0]),
                ("linear", [b, a])]
        for name, co in lows:
            both(cases, 'f64', co, "closed-" + name)
        z = complex(g.range(-4, 4), g.range(-4, 4)) or 1j
        w = complex(g.range(-4, 4), g.range(-4, 4))
        for name, co in [("quad-cplx-b0", [w, 0j, z]), ("quad-cplx-c0", [0j, w, z]), ("cubic-cplx-x3+d", [w, 0j, 0j, z]),
                         ("cubic-imag-d", [complex(0, g.range(-5, 5) or 1), 0j, 0j, complex(g.range(1, 4), 0)]),
                         ("linear-cplx", [w, z])]:
            both(cases, 'cplx', co, "closed-" + name)
    # --- closed forms with coefficient magnitudes up to ratio 1e6 and every phase pattern (real-, imaginary-dominated)
    g = rng.fork("closed-scaled")
    reps = 40 if quick else 400
    def ph(g, mag):
        k = g.below(5)
        x = (1.0 + g.below(9)) * mag * (1 if g.chance(1, 2) else -1)
        y = (1.0 + g.below(9)) * mag * (1 if g.chance(1, 2) else -1)
        if k == 0: return complex(x, 0.0)
        if k == 1: return complex(0.0, y)
        if k == 2: return complex(x, y * 1e-6)
        if k == 3: return complex(x * 1e-6, y)
        return complex(x, y)
    for t in range(reps):
        deg = 2 + (t % 2)
        mags = [10.0 ** g.range(-3, 3) for _ in range(deg + 1)]
        lo = max(mags) / 1e6
        co = [ph(g, max(m, lo)) for m in mags]
        if g.chance(1, 5): co[g.below(deg)] = 0j
        if all(c.imag == 0 for c in co): both(cases, 'f64', [c.real for c in co], "closed-scaled-real")
        else: both(cases, 'cplx', co, "closed-scaled-cplx")
    # --- sparse polynomials x^n + a x^k + b (vanishing inner coefficients), real and complex
    g = rng.fork("sparse")
    reps = 4 if quick else 32
    for deg in range(4, 13):
        for t in range(reps):
            k = g.range(1, deg - 1)
            a = float(g.choice([1, 2, 3, 10, 100, 1000])) * (1 if g.chance(1, 2) else -1) * (10.0 ** g.range(0, 3) if g.chance(1, 3) else 1.0)
            b = float(g.choice([1, 2, 5, 32, 100])) * (1 if g.chance(1, 2) else -1)
            lead = float(g.choice([1, 1, 2, 5]))
            if max(abs(a), abs(b), lead) > 1e6 * min(abs(a), abs(b), lead): a = 1000.0
            co = [0.0] * (deg + 1); co[deg] = lead; co[0] = b
            if g.chance(3, 4): co[k] = a
            if g.chance(1, 3):
                cz = [complex(x) for x in co]; cz[0] = complex(0.0, b) if g.chance(1, 2) else complex(b, b)
                both(cases, 'cplx', cz, "sparse-cplx")
            else:
                both(cases, 'f64', co, "sparse-real")
    # --- degree 0 must be rejected; the empty coefficient list panics too (tie only)
    for co in ([1.0], [0.0], [-2.5]):
        both(cases, 'f64', co, "degree0")
    both(cases, 'cplx', [1 + 2j], "degree0")
    both(cases, 'f64', [], "empty")
    return cases

def case_from_json(j):
    m = j["meta"]
    elt = j["elt"]
    cs = [complex(a, b) for a, b in m["coeffs"]]
    coeffs = [c.real for c in cs] if elt == 'f64' else cs
    pres = None
    if "prescribed" in m:
        pres = [(Fraction(a), Fraction(b)) for a, b in m["prescribed"]]
    c = mk(elt, coeffs, m["refine"], j.get("family", "corpus"), pres)
    if "expect_key" in m: c.meta["expect_key"] = m["expect_key"]
    return c

# ----------------------------------------------------------------------------- oracle: the property statement
MATCH_CHECKED = [0]   # cases on which the one-to-one matching with prescribed roots was evaluated
FAILS = {}        # case line -> failure kind (read by finding_key)
FAILED_CASES = {} # case line -> case, every input the oracle rejected (their model traces are computed in one batch)

def fail(case, kind, text, root=None):
    FAILS[case.line] = (kind, root)
    FAILED_CASES[case.line] = case
    return kind + ": " + text

def oracle(case, items):
    m = case.meta
    coeffs = [complex(a, b) for a, b in m["coeffs"]]
    refine = m["refine"]
    a = parse_answer(items)
    n = len(coeffs) - 1
    if n < 0:
        return None                                   # empty coefficient list: outside the quantifier (tie only)
    if n == 0:
        if a["panic"] is None:
            return fail(case, "count", "a degree-0 polynomial was answered (%d values) instead of rejected" % len(a["roots"]))
        return None
    if coeffs[-1] == 0:
        return None                                   # zero leading coefficient: outside the quantifier
    if a["panic"] is not None:
        return fail(case, "count", "the root finder panicked (%s) on a polynomial of degree %d" % (a["panic"], n))
    roots = a["roots"]
    if len(roots) != n:
        return fail(case, "count", "%d values returned for a polynomial of degree %d" % (len(roots), n))
    bad = [k for k, z in enumerate(roots) if not (math.isfinite(z.real) and math.isfinite(z.imag))]
    if bad:
        return fail(case, "non-finite", "root %d of %d is not finite: %r (refine=%s, coefficients %r)" % (bad[0], n, roots[bad[0]], refine, coeffs), root=bad[0])
    theta = Fraction(THETA_POLISHED if refine else THETA_UNPOLISHED)
    amax = max(fabs2(cfrac(c)) for c in coeffs)      # (max |a_k|)^2
    worst = None
    for k, z in enumerate(roots):
        pz = fabs2(peval_exact(coeffs, z))
        z2 = fabs2(cfrac(z))
        scale2 = amax * (max(Fraction(1), z2) ** n)   # (max|a_k| * max(1,|z|)^n)^2
        if pz > theta * theta * scale2:
            be = math.sqrt(float(pz / scale2)) if scale2 else float("inf")
            if worst is None or be > worst[1]: worst = (k, be)
    if worst:
        return fail(case, "backward-error", "root %d = %r has |p(z)| / (max|a_k| max(1,|z|)^n) = %.3g > %g (degree %d, refine=%s, coefficients %r)" % (
            worst[0], roots[worst[0]], worst[1], float(theta), n, refine, coeffs), root=worst[0])
    # one-to-one correspondence with well-separated, well-conditioned prescribed roots
    if "prescribed" in m:
        pres = [(Fraction(x), Fraction(y)) for x, y in m["prescribed"]]
        pc = [complex(float(x), float(y)) for x, y in pres]
        sep = min([abs(pc[i] - pc[j]) for i in range(n) for j in range(i)] or [1.0])
        if sep >= 0.1:
            # condition of each root: kappa_i = max|a| max(1,|r_i|)^n / |p'(r_i)|, p'(r_i) = a_n prod_{j != i} (r_i - r_j)
            am = math.sqrt(float(amax))
            ok = True
            for i in range(n):
                dp = abs(coeffs[-1])
                for jx in range(n):
                    if jx != i: dp *= abs(pc[i] - pc[jx])
                kappa = am * max(1.0, abs(pc[i])) ** n / dp
                if kappa * float(theta) > 1e-7: ok = False
            if ok:
                MATCH_CHECKED[0] += 1
                used = [False] * n
                for i in range(n):
                    tol = 1e-6 * max(1.0, abs(pc[i]))
                    hit = [k for k in range(n) if not used[k] and abs(roots[k] - pc[i]) <= tol]
                    if not hit:
                        return fail(case, "matching", "prescribed root %r (separation %.3g) is matched by no returned value: %r (refine=%s)" % (pc[i], sep, roots, refine))
                    used[min(hit, key=lambda k: abs(roots[k] - pc[i]))] = True
    return None

# ----------------------------------------------------------------------------- known-finding keys, decided by the MODEL's trace
TRACES = None

def traces_for_failures(cases_by_line):
    """one batched Coq run (trace terms) over every case the oracle rejected"""
    global TRACES
    TRACES = {}
    todo = [(ln, c) for ln, c in cases_by_line.items() if isinstance(c.term, LazyTerm)]
    if not todo: return
    terms = [("k%d" % i, c.term.trace_term()) for i, (ln, c) in enumerate(todo)]
    try:
        res = run_coq(terms, "C10trace", IMPORTS)
    except CoqRunError:
        return
    for i, (ln, c) in enumerate(todo):
        TRACES[ln] = res.get("k%d" % i)

def classify(case, items, kind, root=None):
    """the key of DESIGN section 7/C10 for a failing input, or None.  Decided by the model's trace, and only
    if the model reproduces the implementation's answer bit for bit on this very input."""
    global TRACES
    if TRACES is None or case.line not in TRACES:
        FAILED_CASES.setdefault(case.line, case)
        traces_for_failures(FAILED_CASES)
    zs = TRACES.get(case.line)
    if not zs: return None
    bits, tr, cancels = parse_trace(zs)
    if bits is None: return None                      # model panicked / oracle miss: broken tie, no key
    a = parse_answer(items)
    if a["panic"] is not None: return None
    if [(canon_bits(x), canon_bits(y)) for x, y in a["bits"]] != bits: return None    # tie broken on this input: no key
    # the model follows whatever the three libm-backed primitives returned: a key is given only if every recorded call of
    # this input is a genuine sqrt / cube root / polar value (otherwise the cause is the primitive, not a recorded finding)
    if isinstance(case.term, LazyTerm):
        for (w, keys, res) in case.term.log():
            if entry_verdict(w, keys, res) not in ("ok", "skip"): return None
    m = case.meta
    coeffs = [complex(x, y) for x, y in m["coeffs"]]
    n = len(coeffs) - 1
    refine = m["refine"]
    if kind == "count": return None
    polish = tr[n:] if n >= 4 else tr                 # degree >= 4: the n deflation calls come first
    # the laguer calls that produced the offending root k: deflation call n-1-k (degree >= 4), polishing call k
    mine = []
    if root is not None:
        if n >= 4: mine.append(tr[n - 1 - root])
        if refine and root < len(polish): mine.append(polish[root])
    tiny = lambda z: 0 < abs(z) < 2.0 ** -30
    # KF-C10-B: a0 = 0, refine, a polishing call entered with a tiny nonzero estimate of the root 0 and either
    #           left it non-finite or carried it away to another root
    if refine and coeffs[0] == 0 and kind in ("non-finite", "matching"):
        for t in polish:
            if t[2] == 1 and tiny(t[5]):
                if kind == "non-finite" and t[3] == 0: return "KF-C10-B"
                if kind == "matching" and t[3] == 1 and t[0] != 2 and t[1] >= 2: return "KF-C10-B"
    # KF-C10-A: a laguer call that was entered with a finite iterate fell out of its loop (Exhausted)
    # Only calls that can have influenced the offending root count: its own deflation call and every EARLIER deflation call
    # (root j is found on the polynomial deflated by the values found before it: calls 0 .. n-1-j), and its polishing call.
    # Without an identified root, any call of the run.
    if root is not None and n >= 4:
        upstream = list(tr[:n - root]) + ([polish[root]] if refine and root < len(polish) else [])
    elif root is not None:
        upstream = list(mine)
    else:
        upstream = list(tr)
    if any(t[0] == 2 and t[2] == 1 for t in upstream):
        return "KF-C10-A"
    # KF-C10-E: the convergence test |p(x)| <= err of a call that produced the offending root passed with err = inf
    if kind == "backward-error" and any(t[0] == 0 and t[4] == 0 for t in mine):
        return "KF-C10-E"
    # KF-C10-F: degree 3, the closed form itself (before any polishing) is inaccurate or non-finite and the model
    #           shows one of the two cancellations of the Cardano path
    if n == 3 and (cancels[0] == 1 or cancels[1] == 1):
        if kind == "backward-error" and not refine: return "KF-C10-F"
        if kind == "non-finite" and (not refine or (root is not None and polish[root][2] == 0)): return "KF-C10-F"
    # KF-C10-C: unpolished deflation drift: degree >= 4, every call converged / stalled with finite values
    if kind == "backward-error" and (not refine) and n >= 4 and all(t[0] in (0, 1) for t in tr) and all(t[3] == 1 for t in tr):
        return "KF-C10-C"
    return None

KEY_COUNTS = {}
PRIM_COV = {}

def entry_verdict(w, keys, res):
    """one recorded libm call against an independent 40-digit reference: 'ok' | 'skip' (outside the reference range) | a description.
    Complex::sqrt must return a square root with non-negative real part, pow(z, (1/3, 0)) a cube root in the principal
    sector, polar(r, t) = r e^{it}: the hypotheses of quadratic_factors / cubic_factors."""
    import mpmath
    mpmath.mp.dps = 40
    tol = mpmath.mpf(10) ** -12
    args = [bits_f64(k) for k in keys]
    out = complex(bits_f64(res[0]), bits_f64(res[1]))
    if not all(math.isfinite(x) for x in args) or not (math.isfinite(out.real) and math.isfinite(out.imag)):
        return "skip"
    z = mpmath.mpc(args[0], args[1]); o = mpmath.mpc(out.real, out.imag)
    if w == 0:
        # |z|^2 under/overflows in Complex::abs outside this range: not a square root any more (KF-C10-E territory)
        if abs(z) < mpmath.mpf(2) ** -500 or abs(z) > mpmath.mpf(2) ** 500: return "skip"
        if abs(o * o - z) > tol * abs(z) or o.real < -tol * abs(o): return "sqrt"
    elif w == 1:
        if abs(z) < mpmath.mpf(2) ** -500 or abs(z) > mpmath.mpf(2) ** 500: return "skip"
        if args[3] == 0.0 and args[2] == 1.0 / 3.0:
            if abs(o ** 3 - z) > tol * abs(z) or abs(mpmath.arg(o)) > mpmath.pi / 3 + tol: return "pow 1/3"
        else:
            return "skip"
    else:
        r, t = mpmath.mpf(args[0]), mpmath.mpf(args[1])
        ref = mpmath.mpc(r * mpmath.cos(t), r * mpmath.sin(t))
        if abs(o - ref) > tol * max(abs(r), mpmath.mpf(1e-300)): return "polar"
    return "ok"

def extra_checks(exe, rng, tier):
    """The oracle table itself, entry by entry (every distinct recorded call of this run, capped):
    (1) replayed through the PUBLIC API (executor kind roots.prim): the hook logged what the function returns;
    (2) checked against an independent high-precision reference (entry_verdict) -- what makes the recorded table an honest
        stand-in for libm."""
    events = []
    cache = LazyTerm.cache or {}
    seen = {}
    for a in cache.values():
        for w, keys, res in (a["log"] or []):
            seen.setdefault((w, tuple(keys)), res)
    ents = sorted(seen.items())
    cap = 20000 if tier == "quick" else 60000
    if len(ents) > cap:
        g = rng.fork("prim")
        ents = [ents[i] for i in sorted(set(g.below(len(ents)) for _ in range(cap)))]
    lines = ["p%d cplx roots.prim %d %s" % (i, w, " ".join("x%016x" % k for k in keys)) for i, ((w, keys), res) in enumerate(ents)]
    ans = run_harness(exe, lines, "C10prim") if lines else {}
    n_api = n_ref = skipped = 0
    for i, ((w, keys), res) in enumerate(ents):
        got = decode_harness(ans["p%d" % i])
        gb = (canon_bits(got[0][1]), canon_bits(got[1][1]))
        if gb != (canon_bits(res[0]), canon_bits(res[1])):
            events.append(("tie", "hook log disagrees with the public API: which=%d args=%s logged=%s api=%s" % (w, ["%016x" % k for k in keys], res, gb),
                           {"which": w, "args": list(keys)}))
            continue
        n_api += 1
        v = entry_verdict(w, keys, res)
        if v == "skip": skipped += 1
        elif v == "ok": n_ref += 1
        else:
            events.append(("tie", "recorded %s call is not what the closed-form theorems assume: args=%r result=%r" % (
                v, [bits_f64(k) for k in keys], complex(bits_f64(res[0]), bits_f64(res[1]))), {"which": w, "args": list(keys)}))
    PRIM_COV.update({"oracle_entries_distinct": len(seen), "oracle_entries_replayed_through_public_api": n_api,
                     "oracle_entries_checked_against_mpmath": n_ref, "oracle_entries_outside_reference_range": skipped})
    return events, dict(PRIM_COV)

def finding_key(case, desc, items):
    if items is None: return None
    kr = FAILS.get(case.line)
    if kr is None: return None
    k = classify(case, items, kr[0], kr[1])
    KEY_COUNTS[str(k)] = KEY_COUNTS.get(str(k), 0) + 1
    return k

def extra_coverage():
    """measured: the recorded libm calls that drove the model, and how the failing inputs were classified"""
    cache = LazyTerm.cache or {}
    logs = [len(a["log"] or []) for a in cache.values()]
    nohook = sum(1 for a in cache.values() if a.get("nohook"))
    byfail = {}
    for ln, (kind, root) in FAILS.items():
        byfail[kind] = byfail.get(kind, 0) + 1
    return {"libm_calls_recorded": sum(logs), "cases_with_oracle_table": sum(1 for n in logs if n > 0),
            "largest_oracle_table": max(logs) if logs else 0, "executor_without_hook_cases": nohook,
            "one_to_one_matching_evaluated_on": MATCH_CHECKED[0],
            "oracle_failures_by_kind": byfail, "oracle_failures_by_known_finding_key": dict(KEY_COUNTS),
            "thresholds": {"theta_polished": THETA_POLISHED, "theta_unpolished": THETA_UNPOLISHED,
                           "matching": "1e-6 * max(1,|r|) when separation >= 0.1 and kappa * theta <= 1e-7"}}
