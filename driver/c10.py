# C10 -- Polynomial::roots returns n finite values, each a zero to a small normwise backward error;
#        one-to-one with the true roots when those are well separated; degree 0 is rejected.
import math
from fractions import Fraction
from common import *
from engine import Case
from rootslib import *

PID = "C10"
IMPORTS = "From OV Require Import Model.Roots."
MODEL_VO = ["Model/Roots.vo"]
RULE = ("polynomials of degree 1..12 over f64 and Complex<f64>, each with and without refinement: built from prescribed roots "
        "(separated, zero, repeated, clustered, conjugate pairs, purely imaginary; exact rational roots, coefficients exact in f64 "
        "where possible), random coefficients of mixed sign and scale (ratio <= 1e6) with vanishing constant/inner coefficients, "
        "closed-form special branches (b = 0, c = 0, d0 = 0, d1 purely imaginary, triple root), quadratics/cubics with coefficient "
        "magnitudes 1e-3..1e3 and real-/imaginary-dominated phases, closed-common-scale = degree 1..3 with well-separated prescribed roots and EVERY coefficient times 10^+-k, k in {30, 60, 85, 120, 170} "
        "(quick: 6 of the 30 (degree, k, sign) combinations per run, rotating with the seed; adversarial family of the recorded finding KF-C10-H, keyed by the input alone), sparse x^n + a x^k + b, degree 0 and the empty coefficient list; "
        "structured special-value families (findings/special-values-specA/C10-table.md): coefficients iid from the alphabet {0, +-1, +-i, +-2, +-2i, 1/2, -i/2, "
        "0.6+0.8i, -0.8+0.6i, 0.6-0.8i, 1+-i, -1+i} (degrees 1..5) and from {0, +-1, +-2, +-1/2, 3}; quadratics with a prescribed discriminant class "
        "(zero, +-real, +-imaginary, off-axis square) for leading coefficients on the axes / diagonals; cubics by the class of (d0, d1, dis): shifted pure cubes, "
        "depressed, double root, roots in arithmetic progression; roots from an exact alphabet (0, +-1, +-i, +-2, +-2i, 1/2, -i/2, +-1+-i) with and without "
        "repetitions, degrees 2..8; every coefficient times a unit (-1, +-i, 0.6+0.8i, ...) and the variable rotated by -1, +-i; all coefficients times 2^+-30, 2^+-60; "
        "monomials a x^n, zero roots of multiplicity 4..n-1, all-equal / alternating / binomial coefficients; -0.0 for vanishing coefficients and imaginary parts "
        "(both entry points); leading / trailing coefficient 2^+-16 times the others; the same object asked twice (every ordered pair of refine flags), its clone, "
        "a fresh object (executor kind roots.twice); quick tier = a seed-rotated sample of each class; "
        "distinct = distinct executor line; non-trivial = degree >= 2")
TRUSTED = ["Coq 8.16.1 kernel + vm_compute (primitive binary64)", "Rust executor /verif/harness (kinds roots.solve, roots.twice, roots.prim; harness/build.rs detects the hook)",
           "numpy (LAPACK eigenvalues of the companion matrix) as the source of reference roots for the one-to-one matching; every reference root is certified by exact rational evaluation before it is used",
           "the cfg(ohsl_verif) recording hook in src/complex/elementary.rs (/repo commit 05bbbd0): the logged (argument, result) bits of "
           "Complex::sqrt/pow/polar are taken as what libm returned",
           "python driver (generators, exact Fraction evaluation of p(z), comparators, classification of failing inputs by the model's trace; a known-finding key is granted only while MR, MT, frac[] of the source are the pinned values)",
           "hand-written Gallina model coq/Model/Roots.v tied to src/polynomial/mod.rs:190-347 by bit-for-bit differential execution",
           "driver/translate.py (LAGUER_MR, LAGUER_MT, frac[] regenerated from the source on every run)"]
ASSUMPTIONS = ["Rust semantics of Vec/usize/f64 as modelled (IEEE-754 binary64, no fused multiply-add, round-to-nearest)",
               "the three libm-backed primitives are an oracle table recorded from the implementation's own run, not modelled",
               "accuracy of the returned roots (backward error) and convergence of Laguerre's iteration are searched, not proved; "
               "seven failure classes are recorded known findings: six decided by the model's trace (KF-C10-A/B/C/E/F/G) and one decided by the input alone (KF-C10-H, common scale of the coefficients)"]
UNPROVED = ["for degree <= 2 (and the cubic branches under explicit accuracy / no-cancellation hypotheses) the residual / backward / forward error of the closed forms IS proved in the standard rounding model over C (block quadround of Props/C10.v: quadratic_residual_bound |a x^2 + b x + c| <= 16 eps (|a||x|^2 + |b||x| + |c|) with no hypothesis on the discriminant; local form = no overflow / underflow on this input, which is exactly what KF-C10-H violates); NOT proved: the transfer to binary64, polishing (refine = true), degree >= 4", "normwise backward error of the returned values in f64 (tie + search; false of the code on the classes KF-C10-A/B/C/E/F/G/H; the UNPOLISHED backward-error clause at degree >= 4 with every laguer call converged is excused (KF-C10-C) only when the reference roots span a factor >= 2 in modulus; otherwise such a failure is reported as a violation -- the search has seen ONE such input on the unchanged source in 15 quick seeds: VERIF_SEED=8, family random-cplx, degree 11, nine roots of modulus ~1 and two of modulus ~7.5-8 (spread 8.02), backward error 5.5e-9 > 1e-10, findings/C10-KF-C-spread.md)",
            "convergence of Laguerre's iteration (false of the code from x = 0 on nearly symmetric deflated polynomials: KF-C10-A)",
            "one-to-one correspondence with the true roots (search: prescribed-root families, and on every other case of degree >= 2 certified reference roots from an independent solver, when well separated and well conditioned); FALSE of the code on KF-C10-G (refine = true, degree >= 4: two polishing calls entered with different drifted estimates end on the same root, a well-separated true root is matched by no returned value), on KF-C10-B (a0 = 0 with refinement) and on KF-C10-H (common scale)",
            "statelessness of Polynomial::roots (search: the same object asked twice / cloned / fresh, bitwise)",
            "that libm's sqrt/pow return square/cube roots (hypotheses of quadratic_factors / cubic_factors; in the tie they are recorded values)"]

MANIFEST = dict(
    text=("Proved in Coq (%d theorems;" % ntheorems("C10") + " closed under the global context except float_roots_memory_safe, which mentions Coq's primitive-float constants) for the executable model coq/Model/Roots.v -- ONE definition, "
          "instantiated at an abstract field for the closed forms and at IEEE binary64 + the recorded libm calls for the tie. "
          "For every arithmetic (floats included): poly_solve returns exactly n values for degree n >= 1 and rejects degree 0 "
          "(roots_length, degree0_rejected); laguer makes at most MAXIT-1 passes, MAXIT regenerated from the source, and an Exhausted exit "
          "has used all of them (laguer_bounded, laguer_exhausted_full); a Converged exit means the code's own test |p(x)| <= EPS*err held "
          "at the returned iterate (laguer_converged_small); the number of laguer calls is n (degree >= 4) + n (refine) (trace_length); "
          "refine = true passes EVERY unpolished value through laguer on the undeflated polynomial (refine_polishes_all), and a polished "
          "value whose call exits Converged passes the smallness test on the undeflated polynomial (polished_converged); the snapping rule "
          "(snap_cases); for the float instance with ANY oracle table and every nonempty input no Vec access is out of bounds and no usize "
          "subtraction underflows, so Polynomial::roots performs no out-of-bounds access and no usize underflow for any input of length >= 2 (so the degree-0 guard is its only index-class panic) (float_roots_memory_safe). Over any commutative ring: laguer's inner loop computes (p(x), p'(x), p''(x)/2), identified by the Taylor expansion "
          "and the running error bound errv (horner_triple, taylor_expansion), so a Converged exit means |p(x)| <= EPS*errv(p,x) at the "
          "returned iterate, for a polished value on the undeflated polynomial (converged_means_small, polished_converged_small); one deflation is p(t) = (t-x) q(t) + p(x) (deflate_spec); the whole deflation phase recomposes "
          "p exactly from the values found and one residual per value, hence p = a_n prod (t - x_j) when the residuals vanish "
          "(deflation_recomposes). Over any field with 2, 3 invertible: the linear, quadratic (either sign choice; the repaired q = 0 "
          "branch, where the legacy code divides by zero; totality) and Cardano formulas (either sign test, incl. the triple-root branch) "
          "return THE roots with multiplicity, provided the square-root and cube-root primitives return square/cube roots "
          "(linear_root, quadratic_factors, quadratic_q0, quadratic_total, cubic_factors). "
          "Legacy: quadratic_legacy_refuted, cubic_sign_legacy_refuted (vm_compute on the committed witnesses). "
          "NOT proved: that the floating-point values returned are accurate roots, and that Laguerre's iteration converges -- both are "
          "false of the code on seven recorded classes of inputs (KF-C10-A exhaustion, -B polishing a zero root, -C unpolished deflation "
          "drift, -E overflow of |p(x)| in the convergence test, -F cancellation in the Cardano path, -G two polished values collapsing on one root, "
          "-H closed forms not invariant under the common scale of the coefficients). Those halves are covered by a "
          "bit-for-bit tie of the float model to the implementation on every generated case (the three libm primitives as a recorded "
          "oracle table) and by a failing-input search with the property statement as oracle; a failing input is downgraded to a known "
          "finding only if (keys A..G) the model reproduces the implementation bit for bit on it, the model's trace shows the recorded cause, and the Laguerre constants MR, MT, frac[] "
          "of the source (which are regenerated into the model, so the model follows an edit of them) are the pinned ones, or (key H) the INPUT has degree <= 3 and the quantity "
          "the unscaled complex primitives square -- the divisor a_1, the discriminant (degree 2 in the coefficients), the Cardano radicand (degree 6) -- leaves the normal f64 range "
          "when squared, and the failure is a non-finite / inaccurate / unmatched value (never a panic or a wrong count). The search covers, besides random and "
          "prescribed-root polynomials, structured special-value families (axis-aligned / unit-modulus / diagonal coefficient alphabets, prescribed discriminant classes, "
          "unit multiples and rotations, power-of-two scalings, monomials and high zero multiplicities, negative zeros, extreme leading / trailing coefficients, the same "
          "object asked twice) and matches the returned values one to one against certified reference roots whenever those are well separated and well conditioned."),
    note="partial: structure and closed forms proved exactly; float accuracy and convergence by tie + search; 7 open known findings (KF-C10-A,B,C,E,F,G,H)",
    technique="Coq proof (abstract ring/field, loop invariants, field/ring) + differential execution of the float model with an oracle table for libm calls",
    design="DESIGN.md section 7 (C10), 8 (KF-C10-A/B/C), 9 (hook); findings/C10-known-findings.txt (KF-C10-E, -F); findings/special-values-specA/C10-finding-polish-collapse.md (-G); findings/C10-common-scale.md (-H)")

THETA_POLISHED = 1e-12
THETA_UNPOLISHED = 1e-10

# ----------------------------------------------------------------------------- exact helpers
def cfrac(z):
    z = complex(z)
    return (Fraction(z.real), Fraction(z.imag))
def cmul(a, b): return (a[0]*b[0] - a[1]*b[1], a[0]*b[1] + a[1]*b[0])
def cadd(a, b): return (a[0]+b[0], a[1]+b[1])
def csub(a, b): return (a[0]-b[0], a[1]-b[1])

def peval_exact(coeffs, z):
    """p(z) exactly (complex rational Horner); coeffs low to high, z a complex float"""
    zf = cfrac(z)
    acc = (Fraction(0), Fraction(0))
    for c in reversed(coeffs):
        acc = cadd(cmul(acc, zf), cfrac(c))
    return acc

def fabs2(a):            # |a|^2 of an exact complex
    return a[0]*a[0] + a[1]*a[1]

def expand_roots(roots, lead=(Fraction(1), Fraction(0))):
    """exact coefficients (low to high) of lead * prod (x - r), roots exact complex rationals"""
    p = [lead]
    for r in roots:
        q = [(Fraction(0), Fraction(0))] * (len(p) + 1)
        for i, c in enumerate(p):
            q[i+1] = cadd(q[i+1], c)
            q[i] = csub(q[i], cmul(c, r))
        p = q
    return p

def to_float_coeffs(p):
    """exact complex rational coefficients -> (elt, python coefficients, exactly representable?)"""
    exact = True
    out = []
    for (a, b) in p:
        fa, fb = float(a), float(b)
        if Fraction(fa) != a or Fraction(fb) != b: exact = False
        out.append(complex(fa, fb))
    if all(c.imag == 0 for c in out):
        return 'f64', [c.real for c in out], exact
    return 'cplx', out, exact

# ----------------------------------------------------------------------------- cases
def mk(elt, coeffs, refine, family, prescribed=None, nontrivial=None):
    coeffs = list(coeffs)
    line = line_for(elt, coeffs, refine, False)
    meta = {"coeffs": [[complex(c).real, complex(c).imag] for c in coeffs], "refine": bool(refine)}
    if prescribed is not None:
        meta["prescribed"] = [[str(r[0]), str(r[1])] for r in prescribed]
    term = LazyTerm(elt, coeffs, refine)
    c = Case(elt, line, term, meta=meta, family=family,
             nontrivial=(len(coeffs) >= 3) if nontrivial is None else nontrivial, tol=0.0, exact_bits=True)
    return c

def both(cases, elt, coeffs, family, prescribed=None):
    for refine in (False, True):
        cases.append(mk(elt, coeffs, refine, family + ("+refine" if refine else ""), prescribed))

def dy(rng, lo, hi, den):
    """a dyadic rational k/den in [lo, hi]"""
    return Fraction(rng.range(lo * den, hi * den), den)

def gen_prescribed(rng, fam, deg):
    """list of exact complex roots for the family"""
    Z = Fraction(0)
    rs = []
    if fam == "separated-real":
        pool = rng.shuffle([Fraction(k, 2) for k in range(-8, 9)])
        rs = [(x, Z) for x in pool[:deg]]
    elif fam == "separated-complex":
        pool = rng.shuffle([(Fraction(a, 2), Fraction(b, 2)) for a in range(-4, 5) for b in range(-4, 5)])
        rs = pool[:deg]
    elif fam == "zero-roots":
        k = rng.range(1, max(1, min(deg, 3)))
        pool = rng.shuffle([Fraction(k2, 2) for k2 in range(-6, 7) if k2 != 0])
        rs = [(Z, Z)] * k + [(x, Z) for x in pool[:deg - k]]
    elif fam == "repeated":
        r = (dy(rng, -2, 2, 4), Z if rng.chance(1, 2) else dy(rng, -2, 2, 4))
        m = rng.range(2, max(2, min(deg, 4)))
        m = min(m, deg)
        pool = rng.shuffle([Fraction(k2, 2) for k2 in range(-6, 7)])
        rs = [r] * m + [(x, Z) for x in pool[:deg - m] if (x, Z) != r]
        while len(rs) < deg: rs.append((Fraction(5), Z))
    elif fam == "clustered":
        c = (dy(rng, -2, 2, 4), Z if rng.chance(1, 2) else dy(rng, -2, 2, 4))
        m = min(deg, rng.range(2, 3))
        eps = Fraction(1, 2 ** rng.range(6, 12))
        rs = [(c[0] + eps * i, c[1]) for i in range(m)]
        pool = rng.shuffle([Fraction(k2, 2) for k2 in range(-6, 7)])
        rs += [(x + Fraction(1, 4), Z) for x in pool[:deg - m]]
    elif fam == "conjugate":
        while len(rs) + 2 <= deg:
            a, b = dy(rng, -3, 3, 4), dy(rng, 1, 12, 4)
            if (a, b) in rs: continue
            rs += [(a, b), (a, -b)]
        if len(rs) < deg: rs.append((dy(rng, -3, 3, 4), Z))
    elif fam == "imaginary":
        bs = rng.shuffle([Fraction(k2, 4) for k2 in range(1, 17)])
        i = 0
        conj = rng.chance(1, 2)
        while len(rs) < deg:
            b = bs[i]; i += 1
            if conj and len(rs) + 2 <= deg: rs += [(Z, b), (Z, -b)]
            else: rs.append((Z, b if rng.chance(1, 2) else -b))
    return rs[:deg]

def val(rng):
    k = rng.below(8)
    if k < 2: return 0.0
    if k < 5: return float(rng.range(-9, 9))
    if k < 7: return (rng.unit() * 2 - 1) * 10.0 ** rng.range(-3, 3)
    return float(rng.range(1, 999)) * (1 if rng.chance(1, 2) else -1)

def gen_random(rng, deg, cplx, scaled):
    sc = 10.0 ** rng.range(-3, 3) if scaled else 1.0
    def v():
        x = val(rng)
        return x * sc if scaled and rng.chance(1, 2) else x
    if cplx:
        c = [complex(v(), v() if rng.chance(2, 3) else 0.0) for _ in range(deg + 1)]
        if c[-1] == 0: c[-1] = complex(rng.range(1, 9), rng.range(-3, 3))
        nz = [abs(x) for x in c if x != 0]
    else:
        c = [v() for _ in range(deg + 1)]
        if c[-1] == 0: c[-1] = float(rng.range(1, 9))
        nz = [abs(x) for x in c if x != 0]
    # ratio of nonzero coefficient magnitudes at most 1e6 (the quantifier)
    hi = max(nz)
    c = [x if (x == 0 or abs(x) * 1e6 >= hi) else x * 0 for x in c]
    return c

def generate(rng, tier):
    cases = []
    quick = tier == "quick"
    # --- prescribed roots
    g = rng.fork("prescribed")
    fams = ["separated-real", "separated-complex", "zero-roots", "repeated", "clustered", "conjugate", "imaginary"]
    reps = 2 if quick else 11
    for fam in fams:
        for deg in range(1, 13):
            for t in range(reps):
                rs = gen_prescribed(g, fam, deg)
                if len(rs) != deg: continue
                lead = (Fraction(g.choice([1, 1, -1, 2, 3, -5])), Fraction(0))
                if fam in ("separated-complex", "imaginary") and g.chance(1, 3):
                    lead = (Fraction(g.range(1, 3)), Fraction(g.range(-2, 2)))
                p = expand_roots(rs, lead)
                elt, coeffs, exact = to_float_coeffs(p)
                both(cases, elt, coeffs, "roots-" + fam, prescribed=rs if exact else None)
    # --- random coefficients, mixed sign/scale, vanishing constant and inner coefficients
    g = rng.fork("random")
    reps = 8 if quick else 70
    for cplx in (False, True):
        for deg in range(1, 13):
            for t in range(reps):
                c = gen_random(g, deg, cplx, scaled=(t % 2 == 1))
                if g.chance(1, 6): c[0] = 0 * c[0]              # a root at zero
                both(cases, 'cplx' if cplx else 'f64', c, "random-" + ("cplx" if cplx else "real") + ("-deg<=3" if deg <= 3 else ""))
    # --- closed-form branches
    g = rng.fork("closed")
    reps = 6 if quick else 50
    for t in range(reps):
        a, b, c, d = [float(g.range(-6, 6)) for _ in range(4)]
        if a == 0: a = 1.0
        lows = [("quad-b0", [c, 0.0, a]), ("quad-c0", [0.0, b, a]), ("quad-bc0", [0.0, 0.0, a]),
                ("cubic-x3+d", [d, 0.0, 0.0, a]), ("cubic-d0-zero", [d, 3.0 * a, 3.0 * a, a]),
                ("cubic-cd0", [0.0, 0.0, b, a]), ("cubic-d0", [0.0, c, b, a]),
                ("cubic-triple", [float(-(t % 5 - 2) ** 3), float(3 * (t % 5 - 2) ** 2), float(-3 * (t % 5 - 2)), 1.0]),
                ("linear", [b, a])]
        for name, co in lows:
            both(cases, 'f64', co, "closed-" + name)
        z = complex(g.range(-4, 4), g.range(-4, 4)) or 1j
        w = complex(g.range(-4, 4), g.range(-4, 4))
        for name, co in [("quad-cplx-b0", [w, 0j, z]), ("quad-cplx-c0", [0j, w, z]), ("cubic-cplx-x3+d", [w, 0j, 0j, z]),
                         ("cubic-imag-d", [complex(0, g.range(-5, 5) or 1), 0j, 0j, complex(g.range(1, 4), 0)]),
                         ("linear-cplx", [w, z])]:
            both(cases, 'cplx', co, "closed-" + name)
    # --- closed forms with coefficient magnitudes up to ratio 1e6 and every phase pattern (real-, imaginary-dominated)
    g = rng.fork("closed-scaled")
    reps = 40 if quick else 400
    def ph(g, mag):
        k = g.below(5)
        x = (1.0 + g.below(9)) * mag * (1 if g.chance(1, 2) else -1)
        y = (1.0 + g.below(9)) * mag * (1 if g.chance(1, 2) else -1)
        if k == 0: return complex(x, 0.0)
        if k == 1: return complex(0.0, y)
        if k == 2: return complex(x, y * 1e-6)
        if k == 3: return complex(x * 1e-6, y)
        return complex(x, y)
    for t in range(reps):
        deg = 2 + (t % 2)
        mags = [10.0 ** g.range(-3, 3) for _ in range(deg + 1)]
        lo = max(mags) / 1e6
        co = [ph(g, max(m, lo)) for m in mags]
        if g.chance(1, 5): co[g.below(deg)] = 0j
        if all(c.imag == 0 for c in co): both(cases, 'f64', [c.real for c in co], "closed-scaled-real")
        else: both(cases, 'cplx', co, "closed-scaled-cplx")
    # --- closed forms under a COMMON scale of the coefficients (adversarial family of the recorded finding KF-C10-H): degree 1..3,
    #     well-separated prescribed roots (so the ratio of the coefficients is small: inside the quantifier, which restricts only
    #     the ratio), every coefficient times 10^+-k, k in {30, 60, 85, 120, 170}.  The roots do not move; the unscaled squares of
    #     Complex::sqrt/pow/abs/div applied to the divisor (degree 1), the discriminant (degree 2 in the coefficients) and the
    #     Cardano radicand (degree 6) leave the f64 range: NaN, or finite and silently wrong values.  In-range members (degree 1
    #     up to 1e+-120, degree 2 up to 1e+-60) are ordinary cases and must pass.
    g = rng.fork("closed-common-scale")
    KS = [30, 60, 85, 120, 170]
    combos = [(deg, k, sg) for deg in (1, 2, 3) for k in KS for sg in (-1, 1)]
    if quick:      # a few per run, rotating with the seed: two per degree
        o = g.below(10)
        combos = [c for i, c in enumerate(combos) if (i % 10) in (o, (o + 5 + 2) % 10)]
    for (deg, k, sg) in combos:
        cplx_roots = g.chance(1, 4)
        rs = gen_prescribed(g, "separated-complex" if cplx_roots else "separated-real", deg)
        rs = [r for r in rs if r != (Fraction(0), Fraction(0))]
        while len(rs) < deg: rs.append((Fraction(9, 2) + len(rs), Fraction(0)))      # outside the pools: stays well separated
        elt, co, exact = to_float_coeffs(expand_roots(rs, (Fraction(g.choice([1, -1, 2, 3])), Fraction(0))))
        sc = 10.0 ** (sg * k)
        # 10^k is not a power of two: each coefficient is rounded once (relative 2^-53); the prescribed roots are well separated
        # and well conditioned, the matching clause (tolerance 1e-6) is used only under its own condition gate
        sco = [c * sc for c in co]
        both(cases, elt, sco, "closed-common-scale-1e%+d" % (sg * k), prescribed=rs if exact else None)
    # --- sparse polynomials x^n + a x^k + b (vanishing inner coefficients), real and complex
    g = rng.fork("sparse")
    reps = 4 if quick else 32
    for deg in range(4, 13):
        for t in range(reps):
            k = g.range(1, deg - 1)
            a = float(g.choice([1, 2, 3, 10, 100, 1000])) * (1 if g.chance(1, 2) else -1) * (10.0 ** g.range(0, 3) if g.chance(1, 3) else 1.0)
            b = float(g.choice([1, 2, 5, 32, 100])) * (1 if g.chance(1, 2) else -1)
            lead = float(g.choice([1, 1, 2, 5]))
            if max(abs(a), abs(b), lead) > 1e6 * min(abs(a), abs(b), lead): a = 1000.0
            co = [0.0] * (deg + 1); co[deg] = lead; co[0] = b
            if g.chance(3, 4): co[k] = a
            if g.chance(1, 3):
                cz = [complex(x) for x in co]; cz[0] = complex(0.0, b) if g.chance(1, 2) else complex(b, b)
                both(cases, 'cplx', cz, "sparse-cplx")
            else:
                both(cases, 'f64', co, "sparse-real")
    # --- degree 0 must be rejected; the empty coefficient list panics too (tie only)
    for co in ([1.0], [0.0], [-2.5]):
        both(cases, 'f64', co, "degree0")
    both(cases, 'cplx', [1 + 2j], "degree0")
    both(cases, 'f64', [], "empty")
    # --- structured special-value families (findings/special-values-specA/C10-table.md)
    cases += gen_special(rng.fork("special"), tier)
    return cases

def mk_twice(elt, coeffs, f1, f2, coeffs2=None):
    """history / same object (executor kind roots.twice, search only: no model term).  coeffs2: assigned through
    Polynomial::coeffs() between the two calls; meta["coeffs"] is always the polynomial the SECOND call sees"""
    coeffs = list(coeffs)
    line = "roots.twice %s %d %d" % (tok_vec(elt, coeffs), 1 if f1 else 0, 1 if f2 else 0)
    cur = coeffs
    if coeffs2 is not None:
        cur = list(coeffs2); line += " " + tok_vec(elt, cur)
    meta = {"kind": "twice", "coeffs": [[complex(c).real, complex(c).imag] for c in cur], "first": bool(f1), "refine": bool(f2)}
    if coeffs2 is not None: meta["before"] = [[complex(c).real, complex(c).imag] for c in coeffs]
    return Case(elt, line, None, meta=meta, family="twice-%d%d%s" % (f1, f2, "-edited" if coeffs2 is not None else ""), nontrivial=len(cur) >= 3, tol=0.0, exact_bits=True)

# ----------------------------------------------------------------------------- structured special-value families
# Value classes per coefficient: 0, -0.0, +-1, +-i, +-2, +-2i, 1/2, unit modulus off the axes, the diagonals 1+-i;
# structure classes: discriminant of the quadratic / (d0, d1, dis) of the cubic on an axis or zero, roots from a small
# exact alphabet (equal, opposite, conjugate, on both axes), every coefficient multiplied by a unit (i p, -p, (0.6+0.8i) p),
# the variable rotated by a unit (p(x/u) u^n), all coefficients scaled by 2^k, monomials / x^k q(x) / all-equal /
# alternating / binomial coefficients, leading or trailing coefficient 2^+-16 times the others, the same structures on
# both sides of the closed-form / iterative boundary (degree 3 | 4).  Quick tier: a seed-rotated sample of each class;
# thorough tier: the exhaustive or much larger version.
AXIS = [1, -1, 1j, -1j, 2, -2, 2j, -2j, 0.5, -0.5j]
UNIT = [complex(0.6, 0.8), complex(-0.8, 0.6), complex(0.6, -0.8)]
DIAG = [1 + 1j, 1 - 1j, -1 + 1j]
ALPHA = [0j] + [complex(z) for z in AXIS + UNIT + DIAG]
ALPHA_DYADIC = [0j] + [complex(z) for z in AXIS + DIAG]           # exactly representable, products stay exact
REALS = [0.0, 1.0, -1.0, 2.0, -2.0, 0.5, -0.5, 3.0]
ROOT_ALPHA = [complex(z) for z in [0, 1, -1, 1j, -1j, 2, -2, 2j, -2j, 0.5, -0.5j, 1 + 1j, 1 - 1j, -1 + 1j, -1 - 1j, 0.75 + 1j]]
UNITS_EXACT = [-1, 1j, -1j]

def cdivq(a, b):
    d = b[0]*b[0] + b[1]*b[1]
    return ((a[0]*b[0] + a[1]*b[1]) / d, (a[1]*b[0] - a[0]*b[1]) / d)

def emit(cases, coeffs, family, prescribed=None, force_cplx=False):
    """python numbers (low to high) -> the two cases (refine off / on); the element kind is f64 when every imaginary part
    is +0.0 (the sign bit counts: a -0.0 imaginary part can only be passed through the complex entry point)"""
    cs = [complex(c) for c in coeffs]
    real = all(c.imag == 0 and math.copysign(1.0, c.imag) > 0 for c in cs) and not force_cplx
    if real: both(cases, 'f64', [c.real for c in cs], family, prescribed)
    else: both(cases, 'cplx', cs, family, prescribed)

def emit_exact(cases, p, family, prescribed=None):
    """exact complex-rational coefficients; the prescribed roots are kept only when every coefficient is exact in f64"""
    elt, coeffs, exact = to_float_coeffs(p)
    both(cases, elt, coeffs, family, prescribed=prescribed if exact else None)
    return exact

def gen_special(rng, tier):
    cases = []
    quick = tier == "quick"
    def N(q, t): return q if quick else t
    # S1 -- coefficients drawn independently from the alphabet, degrees 1..5 (both sides of the degree 3 | 4 boundary)
    g = rng.fork("alpha-coeffs")
    for deg, cnt in [(1, N(6, 100)), (2, N(18, 400)), (3, N(18, 300)), (4, N(10, 100)), (5, N(4, 30))]:
        for t in range(cnt):
            co = [g.choice(ALPHA) for _ in range(deg + 1)]
            if co[-1] == 0: co[-1] = complex(g.choice(ALPHA[1:]))
            emit(cases, co, "alpha-coeffs-deg%d" % deg)
    for deg, cnt in [(1, N(3, 30)), (2, N(8, 120)), (3, N(8, 120)), (4, N(6, 60)), (6, N(2, 20))]:
        for t in range(cnt):
            co = [g.choice(REALS) for _ in range(deg + 1)]
            if co[-1] == 0: co[-1] = g.choice(REALS[1:])
            emit(cases, co, "alpha-coeffs-real-deg%d" % deg)
    # S2 -- quadratics with a prescribed DISCRIMINANT class: zero, +-real, +-imaginary (squares and non-squares), off-axis square
    g = rng.fork("quad-disc")
    DISC = [(0, 0j), (1, 1), (4, 2), (-1, 1j), (-4, 2j), (2j, 1 + 1j), (-2j, 1 - 1j), (8j, 2 + 2j), (3 + 4j, 2 + 1j),
            (2, None), (-2, None), (1j, None), (-1j, None), (4j, None), (-4j, None), (3, None), (-3j, None)]
    todo = [(a, b, D) for a in AXIS + DIAG for b in ALPHA_DYADIC for D in DISC]
    for (a, b, (D, sq)) in (g.shuffle(todo)[:N(24, 400)]):
        aq, bq, Dq = cfrac(a), cfrac(b), cfrac(D)
        cq = cdivq(csub(cmul(bq, bq), Dq), cmul((Fraction(4), Fraction(0)), aq))
        pres = None
        if sq is not None and sq != 0:
            sqq = cfrac(sq); two_a = cmul((Fraction(2), Fraction(0)), aq); mb = (-bq[0], -bq[1])
            pres = [cdivq(cadd(mb, sqq), two_a), cdivq(csub(mb, sqq), two_a)]
        emit_exact(cases, [cq, bq, aq], "quad-disc-" + ("zero" if D == 0 else "real" if complex(D).imag == 0 else "imag" if complex(D).real == 0 else "offaxis"), pres)
    # S3 -- cubics by the class of (d0, d1, dis): shifted pure cubes a (x-s)^3 - t (d0 = 0), depressed cubics (b = 0),
    #       a double root (dis = 0), roots in arithmetic progression (d1 = 0), three alphabet roots
    g = rng.fork("cubic-class")
    for t in range(N(24, 300)):
        k = t % 5
        a = cfrac(g.choice(AXIS + DIAG))
        pres = None
        if k == 0:
            s0, tt = cfrac(g.choice(ROOT_ALPHA)), cfrac(g.choice(ALPHA_DYADIC))
            p = expand_roots([s0, s0, s0], a); p[0] = csub(p[0], tt); name = "shifted-cube"
        elif k == 1:
            p = [cfrac(g.choice(ALPHA_DYADIC)), cfrac(g.choice(ALPHA_DYADIC)), (Fraction(0), Fraction(0)), a]; name = "depressed"
        elif k == 2:
            r, s0 = cfrac(g.choice(ROOT_ALPHA)), cfrac(g.choice(ROOT_ALPHA))
            pres = [r, r, s0]; p = expand_roots(pres, a); name = "double-root"
        elif k == 3:
            s0, dl = cfrac(g.choice(ROOT_ALPHA)), cfrac(g.choice(ROOT_ALPHA[1:]))
            pres = [csub(s0, dl), s0, cadd(s0, dl)]; p = expand_roots(pres, a); name = "arith-progression"
        else:
            pres = [cfrac(z) for z in g.shuffle(ROOT_ALPHA)[:3]]; p = expand_roots(pres, a); name = "alpha-roots"
        emit_exact(cases, p, "cubic-" + name, pres)
    # S4 -- roots drawn from the exact alphabet (0, +-1, +-i, +-2, +-2i, 1/2, -i/2, +-1+-i), distinct or with repetitions,
    #       degrees 2..8 (the same root structures on both sides of the degree 3 | 4 boundary), leading coefficient on an axis / diagonal
    g = rng.fork("alpha-roots")
    for deg in range(2, 9):
        for t in range(N(3, 24)):
            if t % 3 == 2: pres = [cfrac(g.choice(ROOT_ALPHA)) for _ in range(deg)]            # repetitions likely
            else: pres = [cfrac(z) for z in g.shuffle(ROOT_ALPHA)[:deg]]
            emit_exact(cases, expand_roots(pres, cfrac(g.choice(AXIS + DIAG))), "alpha-roots" + ("-rep" if t % 3 == 2 else ""), pres)
    # S5 -- every coefficient multiplied by a unit (-1, i, -i exactly; 0.6+0.8i rounded), and the variable rotated by a unit
    #       (coefficients a_k u^(n-k): the roots are u r); bases: real-rooted, complex, conjugate pairs, roots at zero
    g = rng.fork("unit")
    for t in range(N(16, 160)):
        deg = g.choice([1, 2, 3, 4, 4, 5, 6, 8, 10, 12])
        fam = g.choice(["separated-real", "separated-real", "separated-complex", "conjugate", "zero-roots"])
        rs = gen_prescribed(g, fam, deg)
        if len(rs) != deg: continue
        p = expand_roots(rs, (Fraction(g.choice([1, -1, 2, 3])), Fraction(0)))
        mode = g.below(3)
        if mode == 0:
            u = cfrac(g.choice(UNITS_EXACT))
            emit_exact(cases, [cmul(c, u) for c in p], "unit-multiple", rs)
        elif mode == 1:
            u = cfrac(g.choice(UNITS_EXACT)); q = []; pw = (Fraction(1), Fraction(0)); pows = []
            for k in range(deg + 1): pows.append(pw); pw = cmul(pw, u)
            q = [cmul(p[k], pows[deg - k]) for k in range(deg + 1)]
            emit_exact(cases, q, "unit-rotation", [cmul(r, u) for r in rs])
        else:
            elt, co, exact = to_float_coeffs(p)
            u = g.choice(UNIT)
            emit(cases, [complex(c) * u for c in co], "unit-multiple-offaxis")
    # S6 -- all coefficients scaled by the same power of two (the roots do not move; absolute thresholds do)
    g = rng.fork("pow2")
    # 2^+-60 puts every coefficient below / above f64::EPSILON and its reciprocal; not beyond: the cubic closed form takes the
    # complex sqrt of a form of degree 6 in the coefficients and Complex::abs squares once more (overflow for |a_k| > ~2^85)
    ks = [-60, 60, -30, 30]
    for t in range(N(24, 200)):
        k = ks[t % len(ks)]
        mode = g.below(4)
        if mode == 0:
            deg = g.choice([1, 2, 3, 4, 4, 5, 6, 9])
            fam = g.choice(["separated-real", "separated-complex", "conjugate", "repeated", "zero-roots"])
            rs = gen_prescribed(g, fam, deg)
            if len(rs) != deg: continue
            elt, co, exact = to_float_coeffs(expand_roots(rs, (Fraction(g.choice([1, -1, 2, 3, -5])), Fraction(0))))
            pres = rs if exact else None
        elif mode == 1:
            deg = g.choice([2, 3]); co = [g.choice(ALPHA) for _ in range(deg + 1)]; pres = None
            if co[-1] == 0: co[-1] = 1 + 0j
        elif mode == 2:
            deg = g.choice([2, 3, 4, 4, 5]); co = [float(g.range(-6, 6)) for _ in range(deg + 1)]; pres = None
            if co[-1] == 0: co[-1] = 1.0
        else:
            deg = g.choice([2, 3]); pres = [cfrac(z) for z in g.shuffle(ROOT_ALPHA)[:deg]]
            elt, co, exact = to_float_coeffs(expand_roots(pres, cfrac(g.choice(AXIS + DIAG))))
        sc = 2.0 ** k
        emit(cases, [complex(c) * sc for c in co], "pow2-scaled-2^%d" % k, pres)
    # S7 -- zero structure: monomials a x^n, x^k q(x) with a zero root of high multiplicity, x^(n-1) (x - r); equal-modulus
    #       and tie structures: all coefficients equal, alternating signs, binomial coefficients ((x+1)^n, one n-fold root)
    g = rng.fork("zero-structure")
    degs = range(1, 13)
    for n in degs:
        for a in ([g.choice(ALPHA[1:])] if quick else g.shuffle(ALPHA[1:])[:6]):
            emit(cases, [0j] * n + [complex(a)], "monomial")
    for t in range(N(8, 60)):
        n = g.range(4, 12); k = g.choice([n - 1, n - 1, n - 2, 4, 5, g.range(4, n - 1)])
        k = min(k, n - 1)
        rs = gen_prescribed(g, "separated-real" if g.chance(1, 2) else "separated-complex", n - k)
        rs = [r for r in rs if r != (Fraction(0), Fraction(0))]
        while len(rs) < n - k: rs.append((Fraction(7, 2), Fraction(0)))
        pres = [(Fraction(0), Fraction(0))] * k + rs
        emit_exact(cases, expand_roots(pres, cfrac(g.choice([1, -1, 1j, 2]))), "zero-multiplicity", pres)
    for n in (range(1, 13) if not quick else g.shuffle(list(range(1, 13)))[:4]):
        a = g.choice(ALPHA[1:])
        emit(cases, [complex(a)] * (n + 1), "all-equal")
        emit(cases, [complex(a) * (-1) ** k for k in range(n + 1)], "alternating")
        if n <= 10: emit(cases, [float(math.comb(n, k)) for k in range(n + 1)], "binomial")
    # S8 -- negative zeros: every vanishing coefficient as -0.0 (real entry point), and -0.0 real / imaginary parts (complex entry point)
    g = rng.fork("negzero")
    for t in range(N(9, 90)):
        deg = g.choice([1, 2, 2, 3, 3, 4, 5, 7])
        co = [float(g.range(-4, 4)) if g.chance(1, 2) else 0.0 for _ in range(deg + 1)]
        if co[-1] == 0: co[-1] = float(g.choice([1, -1, 2]))
        if all(c != 0 for c in co): co[g.below(deg)] = 0.0
        mode = t % 3
        if mode == 0:
            emit(cases, [(-0.0 if c == 0 else c) for c in co], "negzero-real")
        elif mode == 1:
            emit(cases, [complex(-0.0 if c == 0 else c, -0.0) for c in co], "negzero-cplx", force_cplx=True)
        else:
            emit(cases, [complex(c, -0.0 if g.chance(1, 2) else 0.0) if c != 0 else complex(0.0 if g.chance(1, 2) else -0.0, -0.0 if g.chance(1, 2) else 0.0)
                         for c in co], "negzero-mixed", force_cplx=True)
    # S9 -- the leading or the trailing coefficient 2^+-16 times the others (inside the ratio 1e6), on an axis or a diagonal
    g = rng.fork("lead-trail")
    for t in range(N(9, 100)):
        deg = g.choice([1, 2, 3, 4, 5, 8])
        cplx = g.chance(1, 2)
        co = [complex(g.range(1, 9) * g.choice([1, -1]), (g.range(-9, 9) if cplx and g.chance(1, 2) else 0)) for _ in range(deg + 1)]
        sc = 2.0 ** (16 if g.chance(1, 2) else -16)
        u = complex(g.choice([1, -1] + ([1j, -1j, 1 + 1j] if cplx else [])))
        which = t % 3
        if which == 0: co[-1] = u * sc
        elif which == 1: co[0] = u * sc
        else: co[-1] = u * sc; co[0] = complex(g.choice([1, -1])) * sc
        if deg >= 3 and g.chance(1, 3): co[g.range(1, deg - 1)] = 0j
        emit(cases, co, "lead-trail-2^%s16" % ("+" if sc > 1 else "-"))
    # S10 -- history: the SAME polynomial object asked twice (every ordered pair of refine flags), its clone, a fresh object
    g = rng.fork("twice")
    for t in range(N(6, 40)):
        deg = g.choice([1, 2, 3, 4, 5, 7])
        if g.chance(1, 2):
            co = [float(g.range(-6, 6)) for _ in range(deg + 1)]
            if co[-1] == 0: co[-1] = 1.0
            elt = 'f64'
        else:
            co = [complex(g.choice(ALPHA)) for _ in range(deg + 1)]
            if co[-1] == 0: co[-1] = 1j
            elt = 'cplx'
        for f1 in (0, 1):
            for f2 in (0, 1):
                cases.append(mk_twice(elt, co, f1, f2))
        # ... and with the coefficients replaced through coeffs() between the calls (same degree; another degree)
        def other(d):
            c2 = [float(g.range(-6, 6)) for _ in range(d + 1)] if elt == 'f64' else [complex(g.choice(ALPHA)) for _ in range(d + 1)]
            if c2[-1] == 0: c2[-1] = 2.0 if elt == 'f64' else -1j
            return c2
        cases.append(mk_twice(elt, co, t % 2, (t // 2) % 2, other(deg)))
        cases.append(mk_twice(elt, co, (t + 1) % 2, t % 2, other(g.choice([d for d in (1, 2, 3, 4, 6) if d != deg]))))
    return cases

def case_from_json(j):
    m = j["meta"]
    elt = j["elt"]
    cs = [complex(a, b) for a, b in m["coeffs"]]
    coeffs = [c.real for c in cs] if elt == 'f64' else cs
    pres = None
    if "prescribed" in m:
        pres = [(Fraction(a), Fraction(b)) for a, b in m["prescribed"]]
    if m.get("kind") == "twice":
        if "before" in m:
            bs = [complex(a, b) for a, b in m["before"]]
            return mk_twice(elt, [c.real for c in bs] if elt == 'f64' else bs, m["first"], m["refine"], coeffs)
        return mk_twice(elt, coeffs, m["first"], m["refine"])
    c = mk(elt, coeffs, m["refine"], j.get("family", "corpus"), pres)
    if "expect_key" in m: c.meta["expect_key"] = m["expect_key"]
    return c

# ----------------------------------------------------------------------------- oracle: the property statement
MATCH_CHECKED = [0]   # cases on which the one-to-one matching with prescribed roots was evaluated
FAILS = {}        # case line -> failure kind (read by finding_key)
FAILED_CASES = {} # case line -> case, every input the oracle rejected (their model traces are computed in one batch)

def fail(case, kind, text, root=None, unmatched=None):
    """root: index of the offending returned value (non-finite / backward-error); unmatched: indices of the returned values that
    are matched to no true root (matching)"""
    FAILS[case.line] = (kind, root, unmatched)
    FAILED_CASES[case.line] = case
    return kind + ": " + text

def parse_vectors(items):
    """decoded executor items -> list of vectors of (re bits, im bits), or ('P', class)"""
    if items and items[-1][0] == 'P': return ('P', items[-1][1])
    out = []; pos = 0
    while pos < len(items):
        n = items[pos][1]; pos += 1
        out.append([(canon_bits(items[pos + 2*k][1]), canon_bits(items[pos + 2*k + 1][1])) for k in range(n)])
        pos += 2 * n
    return out

def oracle_twice(case, items):
    """a root finder has no state: the second call on the same object, the call on its clone and the call on a fresh
    object must give the same values (bitwise; NaN canonical)"""
    m = case.meta
    vs = parse_vectors(items)
    n = len(m["coeffs"]) - 1
    if isinstance(vs, tuple):
        if n >= 1 and complex(*m["coeffs"][-1]) != 0:
            return fail(case, "count", "the root finder panicked (%s) when the same object was asked twice (degree %d)" % (vs[1], n))
        return None
    if len(vs) != 3:
        return fail(case, "history", "malformed answer of roots.twice")
    second, cloned, fresh = vs
    # The property speaks about each answer, not about bit identity between calls: an answer that differs from the fresh
    # object's is put to the property statement itself (count, finite, backward error, one-to-one); identical answers are the
    # business of the single-call cases (which carry the model term and the known-finding classification).
    for name, v in (("the second call on the SAME object (after roots(refine=%s)%s)" % (m["first"], ", coefficients replaced through coeffs()" if "before" in m else ""), second),
                    ("the call on the CLONE of an object that was asked before", cloned)):
        if v == fresh: continue
        HISTORY_DIFFERS[0] += 1
        sub = Case(case.elt, case.line + " #" + name[:12], None, meta={"coeffs": m["coeffs"], "refine": m["refine"]}, family=case.family)
        its = [('i', len(v))] + [x for a, b in v for x in (('f', a), ('f', b))]
        r = oracle(sub, its)
        if r:
            FAILS.pop(sub.line, None); FAILED_CASES.pop(sub.line, None)
            return fail(case, "history", "%s fails the property where a fresh object's answer is different: %s" % (name, r))
    return None

HISTORY_DIFFERS = [0]

def oracle(case, items):
    m = case.meta
    if m.get("kind") == "twice":
        return oracle_twice(case, items)
    coeffs = [complex(a, b) for a, b in m["coeffs"]]
    refine = m["refine"]
    a = parse_answer(items)
    n = len(coeffs) - 1
    if n < 0:
        return None                                   # empty coefficient list: outside the quantifier (tie only)
    if n == 0:
        if a["panic"] is None:
            return fail(case, "count", "a degree-0 polynomial was answered (%d values) instead of rejected" % len(a["roots"]))
        return None
    if coeffs[-1] == 0:
        return None                                   # zero leading coefficient: outside the quantifier
    if a["panic"] is not None:
        return fail(case, "count", "the root finder panicked (%s) on a polynomial of degree %d" % (a["panic"], n))
    roots = a["roots"]
    if len(roots) != n:
        return fail(case, "count", "%d values returned for a polynomial of degree %d" % (len(roots), n))
    bad = [k for k, z in enumerate(roots) if not (math.isfinite(z.real) and math.isfinite(z.imag))]
    if bad:
        return fail(case, "non-finite", "root %d of %d is not finite: %r (refine=%s, coefficients %r)" % (bad[0], n, roots[bad[0]], refine, coeffs), root=bad[0])
    theta = Fraction(THETA_POLISHED if refine else THETA_UNPOLISHED)
    amax = max(fabs2(cfrac(c)) for c in coeffs)      # (max |a_k|)^2
    worst = None
    for k, z in enumerate(roots):
        pz = fabs2(peval_exact(coeffs, z))
        z2 = fabs2(cfrac(z))
        scale2 = amax * (max(Fraction(1), z2) ** n)   # (max|a_k| * max(1,|z|)^n)^2
        if pz > theta * theta * scale2:
            be = math.sqrt(float(pz / scale2)) if scale2 else float("inf")
            if worst is None or be > worst[1]: worst = (k, be)
    if worst:
        return fail(case, "backward-error", "root %d = %r has |p(z)| / (max|a_k| max(1,|z|)^n) = %.3g > %g (degree %d, refine=%s, coefficients %r)" % (
            worst[0], roots[worst[0]], worst[1], float(theta), n, refine, coeffs), root=worst[0])
    # one-to-one correspondence with well-separated, well-conditioned prescribed roots
    if "prescribed" in m:
        pres = [(Fraction(x), Fraction(y)) for x, y in m["prescribed"]]
        pc = [complex(float(x), float(y)) for x, y in pres]
        sep = min([abs(pc[i] - pc[j]) for i in range(n) for j in range(i)] or [1.0])
        if sep >= 0.1:
            # condition of each root: kappa_i = max|a| max(1,|r_i|)^n / |p'(r_i)|, p'(r_i) = a_n prod_{j != i} (r_i - r_j)
            am = math.sqrt(float(amax))
            ok = True
            for i in range(n):
                dp = abs(coeffs[-1])
                for jx in range(n):
                    if jx != i: dp *= abs(pc[i] - pc[jx])
                kappa = am * max(1.0, abs(pc[i])) ** n / dp
                if kappa * float(theta) > 1e-7: ok = False
            if ok:
                MATCH_CHECKED[0] += 1
                used = [False] * n
                missing = []
                for i in range(n):
                    tol = 1e-6 * max(1.0, abs(pc[i]))
                    hit = [k for k in range(n) if not used[k] and abs(roots[k] - pc[i]) <= tol]
                    if not hit: missing.append(i); continue
                    used[min(hit, key=lambda k: abs(roots[k] - pc[i]))] = True
                if missing:
                    return fail(case, "matching", "prescribed root %r (separation %.3g) is matched by no returned value: %r (refine=%s)" % (pc[missing[0]], sep, roots, refine),
                                unmatched=[k for k in range(n) if not used[k]])
                return None
    # one-to-one correspondence WITHOUT prescribed roots: reference roots from an independent solver (numpy: eigenvalues of the
    # companion matrix), each CERTIFIED by exact evaluation, and used only when they are well separated and well conditioned
    # (same thresholds as above).  Every returned value passing the backward-error test says nothing about multiplicities:
    # [r1, r1] for a polynomial with roots r1 != r2 passes it; this clause does not.
    if n >= 2:
        pc = reference_roots(coeffs)
        if pc is not None:
            am = math.sqrt(float(amax))
            sep = min(abs(pc[i] - pc[j]) for i in range(n) for j in range(i))
            ok = sep >= 0.1
            if ok:
                for i in range(n):
                    dp = abs(coeffs[-1])
                    for jx in range(n):
                        if jx != i: dp *= abs(pc[i] - pc[jx])
                    if dp == 0 or not math.isfinite(dp): ok = False; break
                    kappa = am * max(1.0, abs(pc[i])) ** n / dp
                    if not (kappa * float(theta) <= 1e-7): ok = False; break
                    # certificate: the reference value itself is within 1e-9 max(1,|r|) of a true root (first order, exact residual)
                    be = math.sqrt(float(fabs2(peval_exact(coeffs, pc[i])) / (amax * (max(Fraction(1), fabs2(cfrac(pc[i]))) ** n))))
                    if not (be * kappa <= 1e-9): ok = False; break
            if ok:
                REF_MATCH_CHECKED[0] += 1
                used = [False] * n
                missing = []
                for i in range(n):
                    tol = 1e-6 * max(1.0, abs(pc[i]))
                    hit = [k for k in range(n) if not used[k] and abs(roots[k] - pc[i]) <= tol]
                    if not hit: missing.append(i); continue
                    used[min(hit, key=lambda k: abs(roots[k] - pc[i]))] = True
                if missing:
                    return fail(case, "matching", "reference root %r (certified, separation %.3g) is matched by no returned value: %r (refine=%s, coefficients %r)" % (pc[missing[0]], sep, roots, refine, coeffs),
                                unmatched=[k for k in range(n) if not used[k]])
    return None

REF_MATCH_CHECKED = [0]

def reference_roots(coeffs):
    """the n roots by numpy (LAPACK eigenvalues of the companion matrix): independent of the code under test; None if unusable"""
    import numpy as np
    n = len(coeffs) - 1
    try:
        with np.errstate(all='ignore'):
            r = np.roots(np.array(list(reversed(coeffs)), dtype=complex))
    except Exception:
        return None
    r = [complex(z) for z in r]
    if len(r) != n or not all(math.isfinite(z.real) and math.isfinite(z.imag) for z in r): return None
    return r

# ----------------------------------------------------------------------------- known-finding keys, decided by the MODEL's trace
TRACES = None

def traces_for_failures(cases_by_line):
    """one batched Coq run (trace terms) over every case the oracle rejected"""
    global TRACES
    TRACES = {}
    todo = [(ln, c) for ln, c in cases_by_line.items() if isinstance(c.term, LazyTerm)]
    if not todo: return
    terms = [("k%d" % i, c.term.trace_term()) for i, (ln, c) in enumerate(todo)]
    # a timeout / killed coqc under load must not turn every oracle failure into an unclassified VIOLATION: run again once;
    # a second failure is a machinery error (the exception reaches main: exit 2), never a list of property violations
    try:
        res = run_coq(terms, "C10trace", IMPORTS)
    except CoqRunError:
        import time
        time.sleep(5)
        try:
            res = run_coq(terms, "C10trace-retry", IMPORTS)
        except CoqRunError as e:
            TRACES = None
            raise RuntimeError("C10: the model traces of the %d inputs the oracle rejected could not be computed (Coq run failed twice): %s" % (len(todo), str(e)[:600]))
    for i, (ln, c) in enumerate(todo):
        TRACES[ln] = res.get("k%d" % i)

def classify(case, items, kind, root=None, unmatched=None):
    """the key of DESIGN section 7/C10 for a failing input, or None.  Decided by the model's trace, and only
    if the model reproduces the implementation's answer bit for bit on this very input."""
    global TRACES
    # the keys describe the PINNED algorithm.  MR, MT and frac[] are regenerated from the source into the model, so the model
    # follows an edit of them; a key is granted only while they have the values the recorded findings were established for
    if not constants_pinned():
        return None
    if TRACES is None or case.line not in TRACES:
        FAILED_CASES.setdefault(case.line, case)
        traces_for_failures(FAILED_CASES)
    zs = TRACES.get(case.line)
    if not zs: return None
    bits, tr, cancels = parse_trace(zs)
    if bits is None: return None                      # model panicked / oracle miss: broken tie, no key
    a = parse_answer(items)
    if a["panic"] is not None: return None
    if [(canon_bits(x), canon_bits(y)) for x, y in a["bits"]] != bits: return None    # tie broken on this input: no key
    # the model follows whatever the three libm-backed primitives returned: a key is given only if every recorded call of
    # this input is a genuine sqrt / cube root / polar value (otherwise the cause is the primitive, not a recorded finding)
    if isinstance(case.term, LazyTerm):
        for (w, keys, res) in case.term.log():
            if entry_verdict(w, keys, res) not in ("ok", "skip"): return None
    m = case.meta
    coeffs = [complex(x, y) for x, y in m["coeffs"]]
    n = len(coeffs) - 1
    refine = m["refine"]
    if kind == "count": return None
    polish = tr[n:] if n >= 4 else tr                 # degree >= 4: the n deflation calls come first
    # the laguer calls that produced the offending root k: deflation call n-1-k (degree >= 4), polishing call k
    mine = []
    if root is not None:
        if n >= 4: mine.append(tr[n - 1 - root])
        if refine and root < len(polish): mine.append(polish[root])
    tiny = lambda z: 0 < abs(z) < 2.0 ** -30
    # KF-C10-B: a0 = 0, refine, a polishing call entered with a tiny nonzero estimate of the root 0 and either
    #           left it non-finite or carried it away to another root
    if refine and coeffs[0] == 0 and kind in ("non-finite", "matching"):
        for t in polish:
            if t[2] == 1 and tiny(t[5]):
                if kind == "non-finite" and t[3] == 0: return "KF-C10-B"
                if kind == "matching" and t[3] == 1 and t[0] != 2 and t[1] >= 2: return "KF-C10-B"
    # KF-C10-A: a laguer call that was entered with a finite iterate fell out of its loop (Exhausted)
    # Only calls that can have influenced the offending root count: its own deflation call and every EARLIER deflation call
    # (root j is found on the polynomial deflated by the values found before it: calls 0 .. n-1-j), and its polishing call.
    # Without an identified root, any call of the run.
    if root is not None and n >= 4:
        upstream = list(tr[:n - root]) + ([polish[root]] if refine and root < len(polish) else [])
    elif root is not None:
        upstream = list(mine)
    else:
        upstream = list(tr)
    # kind "matching": the offending values are the returned values matched to no true root (`unmatched`); only the calls
    # that can have influenced one of THEM count (not an Exhausted call anywhere in the run)
    # A value that coincides (1e-6) with an unmatched one is its duplicate: which of the two the greedy matching left over is
    # arbitrary (two polishing calls ending on the same root), so both count as offending.
    if root is None and kind == "matching" and unmatched:
        outs = [complex(bits_f64(x), bits_f64(y)) for x, y in bits]
        off = set(unmatched)
        for u in unmatched:
            for k in range(len(outs)):
                if abs(outs[k] - outs[u]) <= 1e-6 * max(1.0, abs(outs[u])): off.add(k)
        off = sorted(k for k in off if k < n)
        if n >= 4:
            upstream = list(tr[:n - min(off)]) + ([polish[k] for k in off if k < len(polish)] if refine else [])
        else:
            upstream = [polish[k] for k in off if k < len(polish)] if refine else []
    if any(t[0] == 2 and t[2] == 1 for t in upstream):
        return "KF-C10-A"
    # KF-C10-E: the convergence test |p(x)| <= err of a call that produced the offending root passed with err = inf
    if kind == "backward-error" and any(t[0] == 0 and t[4] == 0 for t in mine):
        return "KF-C10-E"
    # KF-C10-F: degree 3, the closed form itself (before any polishing) is inaccurate or non-finite and the model
    #           shows one of the two cancellations of the Cardano path
    if n == 3 and (cancels[0] == 1 or cancels[1] == 1):
        if kind == "backward-error" and not refine: return "KF-C10-F"
        if kind == "non-finite" and (not refine or (root is not None and polish[root][2] == 0)): return "KF-C10-F"
    # KF-C10-C: unpolished deflation drift: degree >= 4, every call converged / stalled with finite values
    #           AND (the documented cause) the root magnitudes span orders: max|r| / min|r| >= KF_C_MIN_SPREAD (= 2) on the reference roots (numpy,
    #           independent of the code); when no usable reference roots exist the trace condition alone decides
    if kind == "backward-error" and (not refine) and n >= 4 and all(t[0] in (0, 1) for t in tr) and all(t[3] == 1 for t in tr):
        ref = reference_roots(coeffs)
        if ref is None: return "KF-C10-C"
        mags = [abs(z) for z in ref]
        if min(mags) == 0 or max(mags) / min(mags) >= KF_C_MIN_SPREAD: return "KF-C10-C"
        return None
    # KF-C10-G (recorded in KNOWN_FINDINGS.txt; findings/special-values-specA/C10-finding-polish-collapse.md): the same drift WITH refinement -- degree >= 4, every
    #           laguer call converged / stalled with finite values, and two polishing calls that were entered with DIFFERENT
    #           unpolished values end on the SAME root, so a well-separated true root is matched by no returned value
    if kind == "matching" and refine and n >= 4 and len(polish) == n and all(t[0] in (0, 1) and t[3] == 1 for t in tr):
        outs = [complex(bits_f64(x), bits_f64(y)) for x, y in bits]
        for i in range(n):
            for jx in range(i):
                if abs(outs[i] - outs[jx]) <= 1e-6 * max(1.0, abs(outs[i])) and abs(polish[i][5] - polish[jx][5]) > 1e-6 * max(1.0, abs(polish[i][5])):
                    return "KF-C10-G"
    return None

KF_C_MIN_SPREAD = 2.0    # KF-C10-C, "root magnitudes differ": max|r| / min|r| of the reference roots at least this (forward deflation drifts when roots are not removed in increasing modulus; observed at a spread of 8 with backward error 5.5e-9: findings/C10-KF-C-spread.md; with all moduli within a factor 2 no drift above 1e-10 was ever observed)
KEY_COUNTS = {}
PRIM_COV = {}

PINNED_LAGUER = {"LAGUER_MR": 8, "LAGUER_MT": 10, "LAGUER_FRAC": [0.0, 0.5, 0.25, 0.75, 0.13, 0.38, 0.62, 0.88, 1.0]}
_PINNED = [None]

def constants_pinned():
    """True iff the Laguerre constants of the CURRENT source (the ones regenerated into gen/Params.v) are the pinned ones"""
    if _PINNED[0] is None:
        try:
            import translate
            d = translate.params()
            _PINNED[0] = (d["LAGUER_MR"] == PINNED_LAGUER["LAGUER_MR"] and d["LAGUER_MT"] == PINNED_LAGUER["LAGUER_MT"]
                          and [float(t.replace("_", "")) for t in d["LAGUER_FRAC"]] == PINNED_LAGUER["LAGUER_FRAC"])
        except Exception:
            _PINNED[0] = False
    return _PINNED[0]

def entry_verdict(w, keys, res):
    """one recorded libm call against an independent 40-digit reference: 'ok' | 'skip' (outside the reference range) | a description.
    Complex::sqrt must return a square root with non-negative real part, pow(z, (1/3, 0)) a cube root in the principal
    sector, polar(r, t) = r e^{it}: the hypotheses of quadratic_factors / cubic_factors."""
    import mpmath
    mpmath.mp.dps = 40
    tol = mpmath.mpf(10) ** -12
    args = [bits_f64(k) for k in keys]
    out = complex(bits_f64(res[0]), bits_f64(res[1]))
    if not all(math.isfinite(x) for x in args) or not (math.isfinite(out.real) and math.isfinite(out.imag)):
        return "skip"
    z = mpmath.mpc(args[0], args[1]); o = mpmath.mpc(out.real, out.imag)
    if w == 0:
        # |z|^2 under/overflows in Complex::abs outside this range: not a square root any more (KF-C10-E territory)
        if abs(z) < mpmath.mpf(2) ** -500 or abs(z) > mpmath.mpf(2) ** 500: return "skip"
        if abs(o * o - z) > tol * abs(z) or o.real < -tol * abs(o): return "sqrt"
    elif w == 1:
        if abs(z) < mpmath.mpf(2) ** -500 or abs(z) > mpmath.mpf(2) ** 500: return "skip"
        if args[3] == 0.0 and args[2] == 1.0 / 3.0:
            if abs(o ** 3 - z) > tol * abs(z) or abs(mpmath.arg(o)) > mpmath.pi / 3 + tol: return "pow 1/3"
        else:
            return "skip"
    else:
        r, t = mpmath.mpf(args[0]), mpmath.mpf(args[1])
        ref = mpmath.mpc(r * mpmath.cos(t), r * mpmath.sin(t))
        if abs(o - ref) > tol * max(abs(r), mpmath.mpf(1e-300)): return "polar"
    return "ok"

def extra_checks(exe, rng, tier):
    """The oracle table itself, entry by entry (every distinct recorded call of this run, capped):
    (1) replayed through the PUBLIC API (executor kind roots.prim): the hook logged what the function returns;
    (2) checked against an independent high-precision reference (entry_verdict) -- what makes the recorded table an honest
        stand-in for libm."""
    events = []
    cache = LazyTerm.cache or {}
    seen = {}
    for a in cache.values():
        for w, keys, res in (a["log"] or []):
            seen.setdefault((w, tuple(keys)), res)
    ents = sorted(seen.items())
    cap = 20000 if tier == "quick" else 60000
    if len(ents) > cap:
        g = rng.fork("prim")
        ents = [ents[i] for i in sorted(set(g.below(len(ents)) for _ in range(cap)))]
    lines = ["p%d cplx roots.prim %d %s" % (i, w, " ".join("x%016x" % k for k in keys)) for i, ((w, keys), res) in enumerate(ents)]
    ans = run_harness(exe, lines, "C10prim") if lines else {}
    n_api = n_ref = skipped = 0
    for i, ((w, keys), res) in enumerate(ents):
        got = decode_harness(ans["p%d" % i])
        gb = (canon_bits(got[0][1]), canon_bits(got[1][1]))
        if gb != (canon_bits(res[0]), canon_bits(res[1])):
            events.append(("tie", "hook log disagrees with the public API: which=%d args=%s logged=%s api=%s" % (w, ["%016x" % k for k in keys], res, gb),
                           {"which": w, "args": list(keys)}))
            continue
        n_api += 1
        v = entry_verdict(w, keys, res)
        if v == "skip": skipped += 1
        elif v == "ok": n_ref += 1
        else:
            events.append(("tie", "recorded %s call is not what the closed-form theorems assume: args=%r result=%r" % (
                v, [bits_f64(k) for k in keys], complex(bits_f64(res[0]), bits_f64(res[1]))), {"which": w, "args": list(keys)}))
    PRIM_COV.update({"oracle_entries_distinct": len(seen), "oracle_entries_replayed_through_public_api": n_api,
                     "oracle_entries_checked_against_mpmath": n_ref, "oracle_entries_outside_reference_range": skipped})
    return events, dict(PRIM_COV)

# ---- recorded finding KF-C10-H (findings/C10-common-scale.md): the closed forms are not invariant under the common scale of the
# coefficients.  Decided from the INPUT alone: degree n <= 3 and the quantity the unscaled complex primitives square -- the divisor
# a_1 (n = 1: Complex division), the discriminant b^2 - 4ac (n = 2: Complex::sqrt takes |.|), the Cardano radicand -27 a^2 dis (n = 3)
# -- is homogeneous of degree d = 1, 2, 6 in the coefficients; the key is given iff (max|c_k|^d)^2 or (min over the non-zero
# coefficients |c_k|^d)^2 lies outside the normal f64 range [2^-1022, 2^1023].  Measured on the unchanged source with roots
# 1, 2(, 3): n = 1 fails from 1e+-155..165 on, n = 2 from 1e-80 / 1e+80, n = 3 from 1e+-30.
H_MIN = Fraction(2) ** -1022
H_MAX = Fraction(2) ** 1023
H_POWER = {1: 2, 2: 4, 3: 12}

def common_scale_out_of_range(coeffs):
    """coeffs: complex floats low to high (leading one non-zero)"""
    n = len(coeffs) - 1
    if n not in H_POWER: return False
    try:
        m2 = [fabs2(cfrac(c)) for c in coeffs if c != 0]      # |c|^2, exact
    except (OverflowError, ValueError):
        return False                                           # non-finite coefficients: outside the quantifier
    if not m2: return False
    e = H_POWER[n] // 2                                        # (|c|^2)^e = |c|^(2d)
    hi, lo = max(m2) ** e, min(m2) ** e
    return hi > H_MAX or hi < H_MIN or lo > H_MAX or lo < H_MIN

def finding_key(case, desc, items):
    if items is None: return None
    kr = FAILS.get(case.line)
    if kr is None: return None
    # KF-C10-H: from the input; only for the symptoms of the cause (a non-finite, inaccurate or unmatched VALUE): a panic or a
    # wrong number of values ("count"), a history failure, stays a violation whatever the scale
    if kr[0] in ("non-finite", "backward-error", "matching") and case.meta.get("kind") != "twice" and "coeffs" in case.meta:
        cs = [complex(a, b) for a, b in case.meta["coeffs"]]
        if len(cs) >= 2 and cs[-1] != 0 and common_scale_out_of_range(cs):
            KEY_COUNTS["KF-C10-H"] = KEY_COUNTS.get("KF-C10-H", 0) + 1
            return "KF-C10-H"
    k = classify(case, items, kr[0], kr[1], kr[2] if len(kr) > 2 else None)
    KEY_COUNTS[str(k)] = KEY_COUNTS.get(str(k), 0) + 1
    return k

def extra_coverage():
    """measured: the recorded libm calls that drove the model, and how the failing inputs were classified"""
    cache = LazyTerm.cache or {}
    logs = [len(a["log"] or []) for a in cache.values()]
    nohook = sum(1 for a in cache.values() if a.get("nohook"))
    byfail = {}
    for ln, kr in FAILS.items():
        kind = kr[0]
        byfail[kind] = byfail.get(kind, 0) + 1
    return {"libm_calls_recorded": sum(logs), "cases_with_oracle_table": sum(1 for n in logs if n > 0),
            "largest_oracle_table": max(logs) if logs else 0, "executor_without_hook_cases": nohook,
            "one_to_one_matching_evaluated_on": MATCH_CHECKED[0],
            "one_to_one_matching_against_certified_reference_roots_evaluated_on": REF_MATCH_CHECKED[0],
            "laguerre_constants_are_the_pinned_ones": constants_pinned(),
            "history_answers_that_differ_from_the_fresh_object": HISTORY_DIFFERS[0],
            "oracle_failures_by_kind": byfail, "oracle_failures_by_known_finding_key": dict(KEY_COUNTS),
            "thresholds": {"theta_polished": THETA_POLISHED, "theta_unpolished": THETA_UNPOLISHED,
                           "matching": "1e-6 * max(1,|r|) when separation >= 0.1 and kappa * theta <= 1e-7"}}
