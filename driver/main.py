import sys, os
sys.path.insert(0, os.path.dirname(os.path.abspath(__file__)))
import argparse
from engine import run_check

def main():
    ap = argparse.ArgumentParser()
    ap.add_argument("pid")
    ap.add_argument("--tier", default=os.environ.get("VERIF_TIER", "quick"))
    ap.add_argument("--replay", default=None)
    a = ap.parse_args()
    seed = int(os.environ.get("VERIF_SEED", "0") or 0)
    tier = a.tier if a.tier in ("quick", "thorough") else "quick"
    try:
        rc = run_check(a.pid.upper(), tier, seed, a.replay)
    except Exception as e:
        import traceback
        traceback.print_exc()
        print("check machinery error: %s" % e)
        sys.exit(2)
    sys.exit(rc)

main()
