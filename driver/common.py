# driver/common.py -- shared machinery: PRNG, value printers (harness tokens / Gallina terms),
# running the executor and the Coq model, decoding the tagged output streams, comparators,
# proof build + assumption audit, evidence and violation reporting.
import os, sys, re, json, math, struct, subprocess, time, hashlib, fcntl, shutil
from fractions import Fraction
from concurrent.futures import ThreadPoolExecutor

VERIF = os.path.dirname(os.path.dirname(os.path.abspath(__file__)))
REPO = os.environ.get("VERIF_REPO", "/repo")
CACHE = os.path.join(VERIF, ".cache")
COQDIR = os.path.join(VERIF, "coq")
HARNESS = os.path.join(VERIF, "harness")
TARGET = os.path.join(CACHE, "target")
def _cpus():
    try: return max(1, len(os.sched_getaffinity(0)))
    except Exception: return os.cpu_count() or 1
NPROC = max(2, min(16, _cpus()))      # coqc processes in flight: never more than the CPUs this process may use

os.makedirs(CACHE, exist_ok=True)

# ----------------------------------------------------------------------------- PRNG
class RNG:
    """SplitMix64: every random choice of a check derives from one state (VERIF_SEED)."""
    def __init__(self, seed):
        self.s = (seed * 0x9E3779B97F4A7C15 + 0x1234567) & 0xFFFFFFFFFFFFFFFF
    def next(self):
        self.s = (self.s + 0x9E3779B97F4A7C15) & 0xFFFFFFFFFFFFFFFF
        z = self.s
        z = ((z ^ (z >> 30)) * 0xBF58476D1CE4E5B9) & 0xFFFFFFFFFFFFFFFF
        z = ((z ^ (z >> 27)) * 0x94D049BB133111EB) & 0xFFFFFFFFFFFFFFFF
        return z ^ (z >> 31)
    def below(self, n):
        return self.next() % n if n > 0 else 0
    def range(self, lo, hi):            # inclusive
        return lo + self.below(hi - lo + 1)
    def choice(self, xs):
        return xs[self.below(len(xs))]
    def chance(self, num, den):
        return self.below(den) < num
    def unit(self):
        return (self.next() >> 11) / float(1 << 53)
    def shuffle(self, xs):
        xs = list(xs)
        for i in range(len(xs) - 1, 0, -1):
            j = self.below(i + 1)
            xs[i], xs[j] = xs[j], xs[i]
        return xs
    def fork(self, tag):
        h = int(hashlib.sha256(("%d:%s" % (self.s, tag)).encode()).hexdigest()[:16], 16)
        return RNG(h)

# ----------------------------------------------------------------------------- scalars
# element kinds: 'rat' (Fraction), 'f64' (float), 'cplx' (complex), 'crat' ((Fraction, Fraction))
def f64_bits(x):
    if x != x:
        return 0x7FF8000000000000
    return struct.unpack("<Q", struct.pack("<d", x))[0]

def bits_f64(b):
    return struct.unpack("<d", struct.pack("<Q", b))[0]

def tok_scalar(elt, x):
    if elt == 'rat':
        x = Fraction(x)
        return "%d/%d" % (x.numerator, x.denominator)
    if elt == 'f64':
        return "x%016x" % f64_bits(float(x))
    if elt == 'cplx':
        x = complex(x)
        return "x%016x:x%016x" % (f64_bits(x.real), f64_bits(x.imag))
    if elt == 'crat':
        return "%d/%d:%d/%d" % (x[0].numerator, x[0].denominator, x[1].numerator, x[1].denominator)
    raise ValueError(elt)

def tok_vec(elt, v):
    return "[" + ",".join(tok_scalar(elt, x) for x in v) + "]"

def tok_mat(elt, m):
    r, c, vals = m
    return "M%dx%d[%s]" % (r, c, ",".join(tok_scalar(elt, x) for x in vals))

def coq_Z(n):
    return "(%d)%%Z" % n

def coq_float(x):
    x = float(x)
    if x != x:
        return "PrimFloat.nan"
    if x == math.inf:
        return "PrimFloat.infinity"
    if x == -math.inf:
        return "PrimFloat.neg_infinity"
    s = math.copysign(1.0, x) < 0
    if x == 0:
        return "(fz %s 0 0)" % ("true" if s else "false")
    m, e = math.frexp(abs(x))
    mi = int(m * (1 << 53))
    ei = e - 53
    while mi % 2 == 0:
        mi //= 2
        ei += 1
    return "(fz %s %d (%d))" % ("true" if s else "false", mi, ei)

def coq_scalar(elt, x):
    if elt == 'rat':
        x = Fraction(x)
        return "(q (%d) %d)" % (x.numerator, x.denominator)
    if elt == 'f64':
        return coq_float(x)
    if elt == 'cplx':
        x = complex(x)
        return "(@mkC AF %s %s)" % (coq_float(x.real), coq_float(x.imag))
    if elt == 'crat':
        return "(@mkC AQ %s %s)" % (coq_scalar('rat', x[0]), coq_scalar('rat', x[1]))
    raise ValueError(elt)

def coq_list(items):
    return "[" + "; ".join(items) + "]"

def coq_vec(elt, v):
    return coq_list([coq_scalar(elt, x) for x in v])

ARITH = {'rat': 'AQ', 'f64': 'AF', 'cplx': 'ACF', 'crat': 'ACQ'}
FLAT = {'rat': 'flat_q', 'f64': 'flat_f', 'cplx': 'flat_cf', 'crat': 'flat_cq'}

def coq_mat(elt, m):
    r, c, vals = m
    return "(@mkM %s %s %d %d)" % (ARITH[elt], coq_vec(elt, vals), r, c)

# ----------------------------------------------------------------------------- build steps
def sh(cmd, timeout=None, cwd=None, env=None):
    e = dict(os.environ)
    e["CARGO_NET_OFFLINE"] = "true"
    if env:
        e.update(env)
    p = subprocess.run(cmd, shell=True, cwd=cwd, env=e, stdout=subprocess.PIPE, stderr=subprocess.STDOUT,
                       timeout=timeout, text=True, errors="replace")
    return p.returncode, p.stdout

class Lock:
    def __init__(self, name):
        self.path = os.path.join(CACHE, name + ".lock")
    def __enter__(self):
        self.f = open(self.path, "w")
        fcntl.flock(self.f, fcntl.LOCK_EX)
    def __exit__(self, *a):
        fcntl.flock(self.f, fcntl.LOCK_UN)
        self.f.close()

HOOK_FLAGS = "--cfg ohsl_verif"


def sh_coq(cmd, cwd=None, timeout=900, tries=3):
    """sh for coqc / coqchk / make invocations: a process that was KILLED (out of memory, timeout under load: exit 124/137/143
    or no Coq error message at all) is run again, up to `tries` times; a genuine Coq error (the output contains "Error") is
    returned at once.  Transient kills must not turn into violations."""
    rc, out = 1, ""
    for attempt in range(tries):
        try:
            rc, out = sh(cmd, cwd=cwd, timeout=timeout)
        except subprocess.TimeoutExpired:
            rc, out = 124, "timeout"
        if rc == 0: return rc, out
        killed = rc in (124, 137, 143, -9, -15) or "Killed" in out or "Error 137" in out or "Out of memory" in out or ("Error" not in out and "error" not in out)
        if not killed: return rc, out
        time.sleep(2 + 5 * attempt)
    return rc, out

def link_repo():
    """harness/Cargo.toml depends on ../.cache/repo: a symlink to /repo (or $VERIF_REPO for scratch worktrees)."""
    link = os.path.join(CACHE, "repo")
    want = os.path.realpath(REPO)
    if not (os.path.islink(link) and os.path.realpath(link) == want):
        try:
            if os.path.islink(link) or os.path.exists(link): os.remove(link)
        except OSError: pass
        os.symlink(want, link)
        # a different tree behind the same path: force cargo to look again
        sh("touch %s/src/lib.rs" % want)
    lock_src = os.path.join(want, "Cargo.lock")
    if os.path.exists(lock_src):
        shutil.copyfile(lock_src, os.path.join(HARNESS, "Cargo.lock"))

def build_harness(profile="debug"):
    """(Re)build the executor against /repo's current working tree, hooks on."""
    with Lock("cargo"):
        link_repo()
        flag = "--release" if profile == "release" else ""
        rc, out = sh("cargo build --offline %s 2>&1" % flag, timeout=900, cwd=HARNESS,
                     env={"RUSTFLAGS": HOOK_FLAGS})
    exe = os.path.join(TARGET, profile, "exec")
    if rc != 0 or not os.path.exists(exe):
        return None, out
    return exe, out

def coq_make(target, timeout=1500):
    """Build one .vo (and its dependencies) with the generated Makefile."""
    with Lock("coq"):
        try:
            rc, out = sh("./mkproject.sh", cwd=COQDIR, timeout=300)
        except subprocess.TimeoutExpired:
            rc, out = sh("./mkproject.sh", cwd=COQDIR, timeout=900)
        if rc != 0:
            return rc, out
        for attempt in range(3):
            try:
                rc, out = sh("timeout %d make -j%d %s 2>&1" % (timeout, NPROC, target), cwd=COQDIR, timeout=timeout + 30)
            except subprocess.TimeoutExpired:
                rc, out = 124, "timeout"
            # a Coq error names a source location (File "...", line ...); a failure without one is a killed coqc
            # (out of memory / timeout under load): build again (make resumes where it stopped)
            if rc == 0 or 'File "' in out: break
            time.sleep(3 + 5 * attempt)
    return rc, out

# ----------------------------------------------------------------------------- proofs
def ntheorems(pid):
    """number of pinned theorems in Props/<pid>.v (for the descriptive texts)"""
    try: return len(re.findall(r"(?m)^\s*Theorem\s", strip_comments(open(os.path.join(COQDIR, "Props", pid + ".v")).read())))
    except OSError: return 0

AXIOM_ALLOW = {
    "ClassicalDedekindReals.sig_forall_dec", "ClassicalDedekindReals.sig_not_dec",
    "FunctionalExtensionality.functional_extensionality_dep", "Classical_Prop.classic",
}
# Coq's primitive machine types/operations (kernel primitives, printed by Print Assumptions; bare when their module is imported)
PRIMS = set("float int opp abs add sub mul div sqrt eqb ltb leb compare classify of_uint63 of_int63 normfr_mantissa frshiftexp ldshiftexp next_up next_down "
            "lsl lsr land lor lxor mod mulc addc addcarryc subc subcarryc diveucl diveucl_21 addmuldiv head0 tail0 asr divs mods ltsb lesb compares "
            "float_spec_* uint63_spec_*".split())
PRIM_TYPE = re.compile(r"^(?:\s|->|\*|\(|\)|\b(?:float|int|bool|comparison|float_class|Z|carry|Set|Type)\b)*$")
FORBIDDEN = re.compile(r"\b(Admitted|admit|Axiom|Axioms|Parameter|Parameters|Conjecture|Unset\s+Guard|bypass_check|type-in-type|impredicative-set|Admit\s+Obligations)\b")

def assumptions_outside_sections(src):
    """Variable / Hypothesis / Context sentences that are not inside a Section (there they declare axioms).
    src: comment-free text.  Returns the offending sentences."""
    bad, stack = [], []
    for m in re.finditer(r"(?ms)^\s*(?:(?:Local|Global|#\[[^\]]*\])\s+)*(Section|Module\s+Type|Module|End|Variables?|Hypothes[ie]s|Context)\b([^.]*?(?:\.[A-Za-z_][^.]*?)*)\.(?=\s|$)", src):
        kw, rest = m.group(1), m.group(2)
        if kw == "Section": stack.append("S")
        elif kw.startswith("Module"):
            if ":=" not in rest: stack.append("M")          # "Module X := Y." opens nothing
        elif kw == "End":
            if stack: stack.pop()
        elif "S" not in stack:
            bad.append(" ".join(m.group(0).split())[:100])
    return bad

def strip_comments(src):
    out, depth, i = [], 0, 0
    while i < len(src):
        if src.startswith("(*", i):
            depth += 1; i += 2
        elif src.startswith("*)", i) and depth > 0:
            depth -= 1; i += 2
        else:
            if depth == 0:
                out.append(src[i])
            i += 1
    return "".join(out)

def vfile_deps(vfile, seen=None):
    """Transitive closure of the OV.* files a .v file requires (by reading its Require lines)."""
    seen = seen if seen is not None else set()
    if vfile in seen or not os.path.exists(vfile):
        return seen
    seen.add(vfile)
    src = strip_comments(open(vfile).read())
    # sentences end with a '.' followed by whitespace / end of file; module names contain dots themselves
    for m in re.finditer(r"(?:From\s+OV\s+)?Require\s+(?:Import\s+|Export\s+)?", src):
        from_ov = m.group(0).lstrip().startswith("From")
        end = re.compile(r"\.(?=\s|$)").search(src, m.end())
        if not end:
            continue
        for mod in src[m.end():end.start()].split():
            if from_ov:
                rel = mod
            elif mod.startswith("OV."):
                rel = mod[3:]
            else:
                continue
            vfile_deps(os.path.join(COQDIR, rel.replace(".", "/") + ".v"), seen)
    return seen

def failing_statement(make_output):
    """name of the Lemma/Theorem that encloses the position coqc reported, e.g. 'Proofs/Guards.v: Lemma guard_mat_set_col_lemma'"""
    m = re.search(r'File "\./([^"]+)", line (\d+)', make_output)
    if not m:
        return None
    path, line = os.path.join(COQDIR, m.group(1)), int(m.group(2))
    try:
        lines = open(path).read().split("\n")
    except OSError:
        return m.group(1)
    for k in range(min(line, len(lines)) - 1, -1, -1):
        mm = re.match(r"\s*(Theorem|Lemma|Corollary|Example|Definition|Fixpoint|Instance|Fact|Remark|Proposition)\s+([A-Za-z0-9_']+)", lines[k])
        if mm:
            return "%s: %s %s (line %d)" % (m.group(1), mm.group(1), mm.group(2), line)
    return "%s line %d" % (m.group(1), line)

def proof_step(pid, tier="quick"):
    """Build Props/<pid>.vo, re-run the property file to capture Print Assumptions, audit.
    Returns dict(obligations, discharged, theorems=[(name, assumptions, ok)], errors=[...])."""
    res = {"obligations": 0, "discharged": 0, "theorems": [], "errors": [], "files": []}
    props = os.path.join(COQDIR, "Props", pid + ".v")
    if not os.path.exists(props):
        res["errors"].append("missing " + props)
        return res
    src = strip_comments(open(props).read())
    names = re.findall(r"^\s*Theorem\s+([A-Za-z0-9_']+)", src, re.M)
    res["obligations"] = len(names) + 1          # + the no-admit/no-axiom audit
    rc, out = coq_make("Props/%s.vo" % pid)
    if rc != 0:
        where = failing_statement(out)
        res["failed_statement"] = where
        res["errors"].append("make Props/%s.vo failed%s:\n%s" % (pid, (" at " + where) if where else "", out[-3000:]))
        return res
    # forbidden-construct audit over every file the property depends on
    deps = sorted(vfile_deps(props))
    res["files"] = [os.path.relpath(d, COQDIR) for d in deps]
    audit_ok = True
    for d in deps:
        txt = strip_comments(open(d).read())
        m = FORBIDDEN.search(txt)
        if m:
            audit_ok = False
            res["errors"].append("forbidden construct %r in %s" % (m.group(0), os.path.relpath(d, COQDIR)))
        for b in assumptions_outside_sections(txt):
            audit_ok = False
            res["errors"].append("assumption declared outside a section in %s: %s" % (os.path.relpath(d, COQDIR), b))
    # ask Coq for the assumptions of every property theorem, one marked block per theorem (a separate tiny file that
    # Requires the compiled property file, so Check/Example output of the property file cannot be confused with axioms)
    n_print = len(re.findall(r"Print\s+Assumptions\s+([A-Za-z0-9_']+)", src))
    if n_print < len(names):
        res["errors"].append("Props/%s.v: %d theorems but %d Print Assumptions" % (pid, len(names), n_print))
    tdir = os.path.join(CACHE, "props_%s_%d" % (pid, os.getpid()))
    os.makedirs(tdir, exist_ok=True)
    nchunk = max(1, min(8, len(names) // 4))
    chunks = [names[k::nchunk] for k in range(nchunk)]
    def ask(k):
        q = os.path.join(tdir, "Assum_%s_%d.v" % (pid, k))
        with open(q, "w") as f:
            f.write("From Coq Require Import String.\nFrom OV Require Import Props.%s.\n" % pid)
            for nm in chunks[k]:
                f.write('Eval compute in "MARK:%s"%%string.\nPrint Assumptions %s.\n' % (nm, nm))
        return sh_coq("timeout 900 coqc -noglob -Q . OV -w -notation-overridden %s 2>&1" % q, cwd=COQDIR, timeout=930)
    with ThreadPoolExecutor(max_workers=nchunk) as ex:
        results = list(ex.map(ask, range(nchunk)))
    shutil.rmtree(tdir, ignore_errors=True)
    bad = [o for r, o in results if r != 0]
    if bad:
        res["errors"].append("assumption query for Props/%s.v failed:\n%s" % (pid, bad[0][-3000:]))
        return res
    out = "\n".join(o for _, o in results)
    amap = {}
    parts = re.split(r'=\s*"MARK:([A-Za-z0-9_\']+)"%string\s*\n\s*:\s*string', out)
    for k in range(1, len(parts) - 1, 2):
        nm, blk = parts[k], parts[k + 1]
        if "Closed under the global context" in blk:
            amap[nm] = []
        elif "Axioms:" in blk:
            body = blk.split("Axioms:", 1)[1]
            amap[nm] = re.findall(r"(?m)^([A-Za-z_][A-Za-z0-9_.']*)\s*(?::|$)", body)
            # a bare primitive name is accepted only with a primitive's type (machine types and their results only)
            for mm in re.finditer(r"(?ms)^([A-Za-z_][A-Za-z0-9_.']*)\s*:(.*?)(?=^[A-Za-z_][A-Za-z0-9_.']*\s*(?::|$)|\Z)", body):
                a, ty = mm.group(1), mm.group(2)
                if a in PRIMS and not PRIM_TYPE.match(ty):
                    amap[nm].append("%s-with-non-primitive-type(%s)" % (a, " ".join(ty.split())[:80]))
    for nm in names:
        if nm not in amap:
            res["theorems"].append((nm, None, False))
            continue
        bad = [a for a in amap[nm] if a not in AXIOM_ALLOW and a not in PRIMS
               and not a.startswith(("PrimFloat.", "Uint63.", "FloatAxioms.", "Uint63Axioms.", "PrimInt63.", "FloatOps.", "SpecFloat."))]
        ok = not bad
        if bad:
            res["errors"].append("theorem %s depends on non-allow-listed axioms %s" % (nm, bad))
        res["theorems"].append((nm, amap[nm], ok))
    res["discharged"] = sum(1 for t in res["theorems"] if t[2]) + (1 if audit_ok else 0)
    if tier == "thorough":
        # independent re-check of the compiled property file and everything it depends on
        res["obligations"] += 1
        rc, out = sh_coq("timeout 2400 coqchk -silent -o -Q . OV OV.Props.%s 2>&1" % pid, cwd=COQDIR, timeout=2500, tries=2)
        m = re.search(r"\* Axioms:(.*?)\n\s*\n\* Constants/Inductives relying on type-in-type:(.*?)\n\s*\n\* Constants/Inductives relying on unsafe \(co\)fixpoints:(.*?)\n\s*\n\* Inductives whose positivity is assumed:(.*?)\n", out, re.S)
        if rc != 0 or not m:
            res["errors"].append("coqchk failed on Props/%s.vo:\n%s" % (pid, out[-1500:]))
        else:
            axioms = [a.strip() for a in m.group(1).split("\n") if a.strip() and a.strip() != "<none>"]
            res["coqchk_axioms"] = axioms
            unsafe = [g.strip() for g in (m.group(2), m.group(3), m.group(4)) if g.strip() != "<none>"]
            # exactly the four named standard-library axioms, plus the kernel's primitive machine types/operations and
            # their specification (declared by the standard library's Floats / Int63 files, nowhere else)
            full = set(("Coq.Reals." if x.startswith("ClassicalDedekind") else "Coq.Logic.") + x for x in AXIOM_ALLOW)
            okax = all(a in full or a.startswith(("Coq.Floats.FloatAxioms.", "Coq.Floats.PrimFloat.", "Coq.Numbers.Cyclic.Int63.PrimInt63.",
                                                  "Coq.Numbers.Cyclic.Int63.Uint63.")) for a in axioms)
            if unsafe:
                res["errors"].append("coqchk: development relies on disabled kernel checks: %s" % unsafe)
            elif not okax:
                res["errors"].append("coqchk: axioms outside the allow-list: %s" % axioms)
            else:
                res["discharged"] += 1
    return res

# ----------------------------------------------------------------------------- running both sides
def run_harness(exe, lines, tag, env=None, prefix=""):
    d = os.path.join(CACHE, "runs")
    os.makedirs(d, exist_ok=True)
    fin = os.path.join(d, "%s_%d.in" % (tag, os.getpid()))
    fout = os.path.join(d, "%s_%d.out" % (tag, os.getpid()))
    with open(fin, "w") as f:
        f.write("\n".join(lines) + "\n")
    rc, out = sh("%s%s %s %s" % (prefix, exe, fin, fout), timeout=1800, env=env)
    if rc != 0 or not os.path.exists(fout):
        raise RuntimeError("executor failed (rc=%s): %s" % (rc, out[-2000:]))
    ans = {}
    for ln in open(fout):
        t = ln.split()
        if t:
            ans[t[0]] = t[1:]
    os.remove(fin); os.remove(fout)
    return ans

PK = {0: "guard", 1: "index", 2: "underflow", 3: "divzero", 4: "unwrap"}

def decode_harness(toks):
    out = []
    for t in toks:
        c = t[0]
        if c == 'i': out.append(('i', int(t[1:])))
        elif c == 'f': out.append(('f', int(t[1:])))
        elif c == 'q':
            n, d = t[1:].split('/'); out.append(('q', int(n), int(d)))
        elif c == 'P': out.append(('P', t[1:]))
        elif c == 't': out.append(('t', t[1:]))
        elif c == '#': out.append(('#', t[1:]))
        else: raise ValueError("bad token " + t)
    return out

def decode_coq(zs):
    out, i = [], 0
    while i < len(zs):
        tag = zs[i]
        if tag == 0: out.append(('i', zs[i+1])); i += 2
        elif tag == 1: out.append(('f', zs[i+1])); i += 2
        elif tag == 2: out.append(('q', zs[i+1], zs[i+2])); i += 3
        elif tag == 9: out.append(('P', PK.get(zs[i+1], "?"))); i += 2
        else: raise ValueError("bad tag %r at %d in %r" % (tag, i, zs[:40]))
    return out

COQ_HEADER = """From Coq Require Import List ZArith Floats QArith Qcanon.
From OV Require Import Base.Panic Base.Arith Base.Flat Model.Complex Inst.QcInst Inst.FloatInst.
%s
Import ListNotations.
Local Open Scope nat_scope.
"""

def run_coq(terms, tag, imports, shard=250, timeout=900):
    """terms: list of (id, gallina term of type list Z).  Evaluates every term with vm_compute
    (one coqc per shard, NPROC in parallel) and returns {id: [ints]}."""
    d = os.path.join(CACHE, "cases", "%s_%d" % (tag, os.getpid()))
    shutil.rmtree(d, ignore_errors=True)
    os.makedirs(d)
    shard = min(shard, max(20, -(-len(terms) // NPROC)))      # balance the shards over the cores
    shards = [terms[i:i+shard] for i in range(0, len(terms), shard)]
    def one(k):
        path = os.path.join(d, "cases_%d.v" % k)
        with open(path, "w") as f:
            f.write(COQ_HEADER % imports)
            for j, (cid, term) in enumerate(shards[k]):
                f.write("Definition c%d : list Z := %s.\nEval vm_compute in c%d.\n" % (j, term, j))
        rc, out = sh_coq("timeout %d coqc -noglob -Q %s OV -w -notation-overridden %s 2>&1" % (timeout, COQDIR, path), timeout=timeout + 30, cwd=d)
        if rc != 0:
            return k, None, out
        parts = re.split(r"(?m)^\s*=\s", out)[1:]
        vals = []
        for p in parts:
            body = p.split(": list Z")[0]
            vals.append([int(x) for x in re.findall(r"-?\d+", body)])
        if len(vals) != len(shards[k]):
            return k, None, "shard %d: expected %d results, got %d\n%s" % (k, len(shards[k]), len(vals), out[-2000:])
        return k, vals, out
    res = {}
    errs = []
    with ThreadPoolExecutor(max_workers=NPROC) as ex:
        for k, vals, out in ex.map(one, range(len(shards))):
            if vals is None:
                errs.append((k, out))
                continue
            for (cid, _), v in zip(shards[k], vals):
                res[cid] = v
    if errs:
        # keep the failing shard for inspection
        raise CoqRunError("coq model run failed in shard(s) %s of %s:\n%s" % ([k for k, _ in errs], d, errs[0][1][-3000:]))
    shutil.rmtree(d, ignore_errors=True)
    return res

class CoqRunError(Exception):
    pass

# ----------------------------------------------------------------------------- comparators
def groups_of_floats(items):
    """indices of maximal runs of consecutive 'f' items"""
    gs, cur = [], []
    for i, it in enumerate(items):
        if it[0] == 'f':
            cur.append(i)
        else:
            if cur: gs.append(cur); cur = []
    if cur: gs.append(cur)
    return gs

def compare_streams(model, impl, tol=1e-10, check_class=False):
    """Returns (verdict, detail, bit_identical): verdict in 'same' | 'close' | 'differ'."""
    if len(model) != len(impl):
        # find first structural difference
        k = 0
        while k < min(len(model), len(impl)) and model[k] == impl[k]:
            k += 1
        return 'differ', "length %d vs %d; first difference at item %d: model=%r impl=%r" % (
            len(model), len(impl), k, model[k:k+3], impl[k:k+3]), False
    bit_identical = True
    for k, (a, b) in enumerate(zip(model, impl)):
        if a[0] != b[0]:
            return 'differ', "item %d: model=%r impl=%r" % (k, a, b), False
        if a[0] == 'P':
            if check_class and a[1] != b[1]:
                return 'differ', "item %d: panic class model=%r impl=%r" % (k, a, b), False
            continue
        if a[0] == 'f':
            if a[1] != b[1]: bit_identical = False
            continue
        if a != b:
            return 'differ', "item %d: model=%r impl=%r" % (k, a, b), False
    if bit_identical:
        return 'same', "", True
    for g in groups_of_floats(model):
        xs = [bits_f64(model[i][1]) for i in g]
        ys = [bits_f64(impl[i][1]) for i in g]
        fin = [abs(x) for x in xs if x == x and abs(x) != math.inf]
        scale = max(fin) if fin else 0.0
        scale = max(scale, 1e-300)
        for i, x, y in zip(g, xs, ys):
            if x != x or y != y:
                if (x != x) != (y != y):
                    return 'differ', "item %d: NaN mismatch model=%r impl=%r" % (i, x, y), False
                continue
            if abs(x) == math.inf or abs(y) == math.inf:
                if x != y:
                    return 'differ', "item %d: inf mismatch model=%r impl=%r" % (i, x, y), False
                continue
            if abs(x - y) > tol * scale:
                return 'differ', "item %d: model=%r impl=%r (scale %g, tol %g)" % (i, x, y, scale, tol), False
    return 'close', "", False

# ----------------------------------------------------------------------------- evidence / violations
def known_findings():
    out = {"open": [], "fixed": []}
    p = os.path.join(VERIF, "KNOWN_FINDINGS.txt")
    if os.path.exists(p):
        for ln in open(p):
            ln = ln.strip()
            if ln.startswith("open:"):
                m = re.match(r"open:\s*property=(\S+)\s+key=(\S+)\s+(.*)", ln)
                if m: out["open"].append({"property": m.group(1), "key": m.group(2), "text": m.group(3)})
            elif ln.startswith("fixed:"):
                m = re.match(r"fixed:\s*property=(\S+)\s+(\S+)\s+(.*)", ln)
                if m: out["fixed"].append({"property": m.group(1), "commit": m.group(2), "text": m.group(3)})
    return out

def write_replay(pid, payload):
    os.makedirs(os.path.join(VERIF, "replays"), exist_ok=True)
    h = hashlib.sha256(json.dumps(payload, sort_keys=True, default=str).encode()).hexdigest()[:12]
    path = os.path.join(VERIF, "replays", "%s-%s.json" % (pid, h))
    with open(path, "w") as f:
        json.dump(payload, f, indent=1, default=str)
    return os.path.relpath(path, VERIF)

def write_evidence(pid, tier, seed, coverage, assumptions, wall, violations):
    os.makedirs(os.path.join(VERIF, "evidence"), exist_ok=True)
    ev = {"property_id": pid, "tier": tier, "seed": seed, "level": "proof", "coverage": coverage,
          "assumptions": assumptions, "wall_s": round(wall, 2), "violations": violations}
    with open(os.path.join(VERIF, "evidence", pid + ".json"), "w") as f:
        json.dump(ev, f, indent=1, default=str)

def frac(x):
    return Fraction(x)
