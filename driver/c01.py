# C01 -- dense direct solvers solve Ax = b for every nonsingular system; the two solvers agree.
from fractions import Fraction
from common import *
from engine import Case
from linalg import *

PID = "C01"
IMPORTS = "From OV Require Import Model.Vector Model.Matrix Model.MatOps Model.Solve."
MODEL_VO = ["Model/Solve.vo"]
RULE = ("square systems n=1..8: dense, zero/tiny leading pivots at several steps, permutation-like, triangular, several exchanges, badly row-scaled, Wilkinson growth matrices; "
        "Rat (exact, vs Qc model), f64 and Complex<f64> (vs primitive-float model, scaled 1e-6..1e6); both solvers per system; "
        "round four: 18 special structures (identity, scalar, diagonal, unit triangular, anti-diagonal, cyclic shift, Toeplitz, arrow, all entries +-1, "
        "columns of equal magnitude, symmetric, last-row-dominant, gapped band, diagonal plus corners) x special right-hand sides (0, e_1, e_n, ones, "
        "alternating, A*ones, last column) at all three element kinds (Complex: columns times 1, +-i, 0.6+0.8i, 1+i); Complex matrices of special values only; "
        "signed zeros; whole system scaled by 2^+-k (k = 200..900 f64, half of them beyond 2^+-512 where squares leave the range; 100..300 Complex); orders 9..12 (Rat) and 9..24 (floats; ..40 thorough); "
        "mis-shaped systems at f64 and Complex as well; "
        "distinct = distinct executor line; non-trivial = n >= 2 and nonsingular")
TRUSTED = ["Coq 8.16.1 kernel + vm_compute", "Rust executor /verif/harness (Rat = i128 rationals)", "python driver (generators, Fraction residual oracle, comparators)",
           "hand-written Gallina model coq/Model/Solve.v tied to src/matrix/solve.rs by differential execution"]
ASSUMPTIONS = ["Rust semantics of Vec/usize as modelled", "float backward stability is searched (1e-11 normwise), not proved",
               "nonsingular is decided exactly (Fraction elimination; over Q(i) for Complex<f64>); exactly singular draws are redrawn and never judged",
               "a float matrix with numpy cond_inf(A) > 1e15 (singular to working precision, e.g. tiny pivots 1e-20 beside entries of order 1) is excused "
               "ONLY a non-finite answer (counted: float_solver_agreement.numerically_singular_skipped); finite answers on such matrices are judged in full"]
UNPROVED = ["round two (Props/C01.v, package round): in the standard rounding model the computed solution of solve_lu satisfies (A+dA)x = b+db with |dA| <= gamma_3n |L||U| (lu_factor_backward_error, solve_lu_backward_error) and solve_basic likewise with gamma_{n+1}; multipliers |l_ik| <= 1+u under partial pivoting; the triangular solves also at binary64 via Flocq. NOT proved: the growth factor (|L||U| versus |A|), i.e. normwise backward stability itself -- tie + search; fails for Complex<f64> at extreme magnitudes (recorded finding cplx-sqmod-range)",
            "solve_lu_sound / solvers_agree are assembled from package c02's LU theorems (this file's theorems are about solve_basic)"]

MANIFEST = dict(
    text=("Theorems over an arbitrary field (all sizes n >= 1, all entries) about the Gallina model of src/matrix/solve.rs, which keeps the flat "
          "row-major buffer, the loop bounds, the pivot rule (initial index 0, strict <) and every panic of the code: "
          "solve_basic_sound (solve_basic M b = Ok x -> |x| = n and M x = b: row operations preserve the solution set, back substitution solves "
          "the triangular system, a zero pivot is a DivZero panic -- including the run in which a zero sub-column makes the pivot search fall back "
          "to row 0), solutions_unique (left inverse => at most one solution), solve_basic_complete (magnitude laws PivLaws + left inverse => Ok), "
          "solve_basic_panic_kind / _singular (the only possible panic is the zero divisor, and it certifies a singular matrix), corollaries "
          "'solved, uniquely' at Qc, R and C (the model's own complex operators), and a 3x3 rational example with a zero leading entry and two "
          "row exchanges evaluated by vm_compute.  The model is run against the implementation on every check (Rat vs Qc exact, f64/Complex<f64> "
          "vs primitive floats; both solvers; zero/tiny pivots, permutation-like, triangular, singular and mis-shaped systems) and an independent "
          "Fraction/float residual oracle searches for a failing input; the measured distribution of row exchanges per system is in the evidence. "
          "Structured families (round four): special structures x special right-hand sides, Complex entries on the axes / of unit modulus / with |re| = |im|, "
          "signed zeros, systems scaled by 2^+-k up to k = 900, orders up to 24 (40 thorough), mis-shaped systems at every element kind."),
    note=("Float backward stability (1e-11 normwise) is searched, not proved.  The LU half of the property (solve_lu_sound, solvers_agree) "
          "rests on package c02's theorems (Proofs/Solve.v: solvers_agree_from_lu_sound composes them); here solve_lu is tied and searched. "
          "Completeness needs PivLaws (abs x = 0 <-> x = 0, x <> 0 -> 0 < |x|, not |x| < 0): MagLaws of DESIGN Appendix E is too weak. "
          "Recorded finding cplx-sqmod-range (findings/C01-complex-extreme-scale.md): for Complex<f64> entries with |z|^2 outside the normal "
          "f64 range both solvers return NaN on perfectly conditioned systems (unscaled modulus and division in src/complex/mod.rs); an "
          "adversarial family and two corpus witnesses exercise it on every run, keyed by the input, so any other failure stays a violation."),
    technique="Coq proof over an abstract field + model/implementation differential execution (vm_compute vs Rust executor) + exact residual oracle",
    design="7 (C01)")

def rval(rng):
    k = rng.below(6)
    if k == 0: return Fraction(0)
    if k < 5: return Fraction(rng.range(-4, 4))
    return Fraction(rng.range(-5, 5), rng.range(2, 3))

def fval(rng, scale=1.0):
    k = rng.below(6)
    if k == 0: return 0.0
    if k < 4: return float(rng.range(-8, 8)) * scale
    return (rng.unit() * 2 - 1) * scale

def gen_matrix(rng, n, fam, elt):
    one = Fraction(1) if elt == 'rat' else 1.0
    v = (lambda: rval(rng)) if elt == 'rat' else (lambda: fval(rng))
    A = [v() for _ in range(n * n)]
    if fam == "dense": pass
    elif fam == "zero-lead":
        for k in range(n):
            if rng.chance(2, 3): A[k*n+k] = 0 * one
        if n > 1: A[0] = 0 * one
    elif fam == "perm":
        p = rng.shuffle(range(n))
        A = [(v() if rng.chance(1, 5) else 0 * one) for _ in range(n * n)]
        for i in range(n): A[i*n+p[i]] = (rng.range(1, 5) * (1 if rng.chance(1, 2) else -1)) * one
    elif fam == "upper":
        for i in range(n):
            for j in range(i): A[i*n+j] = 0 * one
            if A[i*n+i] == 0: A[i*n+i] = one * rng.range(1, 4)
    elif fam == "lower":
        for i in range(n):
            for j in range(i + 1, n): A[i*n+j] = 0 * one
            if A[i*n+i] == 0: A[i*n+i] = -one * rng.range(1, 4)
    elif fam == "tiny-pivot":   # floats only
        for k in range(n):
            if rng.chance(1, 2): A[k*n+k] = 1e-20 * (1 if rng.chance(1, 2) else -1)
    elif fam == "neg-dominant":
        for k in range(n): A[k*n+k] = -one * rng.range(5, 9)
    elif fam == "row-scaled":   # floats only: rows of wildly different magnitude (partial pivoting without row scaling)
        for i in range(n):
            s = 10.0 ** rng.range(-6, 6)
            for j in range(n): A[i*n+j] = A[i*n+j] * s
    elif fam == "wilkinson":    # worst-case element growth 2^(n-1) of partial pivoting
        A = [0 * one for _ in range(n * n)]
        for i in range(n):
            for j in range(i): A[i*n+j] = -one
            A[i*n+i] = one
            A[i*n+n-1] = one
    return A

def pivot_trace(A, n):
    """independent exact re-enactment of the pivot rule of solve_basic (index starts at 0, strict <):
    returns (number of steps k with pivot != k, steps with an exchange, fell back to row 0 on a zero sub-column)"""
    M = [[Fraction(A[i*n+j]) for j in range(n)] for i in range(n)]
    steps = []; fallback = False
    for k in range(n - 1):
        p, mx = 0, Fraction(0)
        for i in range(k, n):
            if mx < abs(M[i][k]): mx, p = abs(M[i][k]), i
        if p != k:
            steps.append(k)
            if p < k: fallback = True
        M[p], M[k] = M[k], M[p]
        if M[k][k] == 0: return len(steps), steps, fallback
        for i in range(k + 1, n):
            e = M[i][k] / M[k][k]
            for j in range(k, n): M[i][j] -= e * M[k][j]
    return len(steps), steps, fallback

PIVOT_STATS = {"exchanges_per_system": {}, "exchange_at_step": {}, "systems_with_exchange_after_step0": 0,
               "zero_subcolumn_row0_fallback": 0, "singular_systems": 0, "systems": 0}

def record_pivots(A, n, elt):
    try:
        Af = [Fraction(x.real if isinstance(x, complex) else x) for x in A]
    except Exception:
        return
    if elt == 'cplx': return     # the complex pivot rule compares moduli: not re-enacted here
    cnt, steps, fb = pivot_trace(Af, n)
    P = PIVOT_STATS
    P["systems"] += 1
    P["exchanges_per_system"][str(cnt)] = P["exchanges_per_system"].get(str(cnt), 0) + 1
    for k in steps: P["exchange_at_step"][str(k)] = P["exchange_at_step"].get(str(k), 0) + 1
    if any(k >= 1 for k in steps): P["systems_with_exchange_after_step0"] += 1
    if fb: P["zero_subcolumn_row0_fallback"] += 1
    if not nonsingular(Af, n): P["singular_systems"] += 1

STATS = {}

def extra_coverage():
    return {"pivot_distribution": PIVOT_STATS, "float_solver_agreement": dict(STATS)}

# ---- recorded finding `cplx-sqmod-range` (findings/C01-complex-extreme-scale.md): Complex<f64> modulus and division square
# the components without scaling.  The key is decided from the INPUT (entries and the exact pivots they lead to), never from
# the fact of failing.
MIN_NORMAL = Fraction(2) ** -1022
MAX_F64 = Fraction(2) ** 1024

def sqmod_out_of_range(re, im):
    s = Fraction(re) ** 2 + Fraction(im) ** 2
    return s != 0 and (s < MIN_NORMAL or s >= MAX_F64)

def cplx_exact_pivots(A, n):
    """pivots of exact elimination with partial pivoting by true modulus (what backsolve divides by)"""
    def mul(a, b): return (a[0]*b[0] - a[1]*b[1], a[0]*b[1] + a[1]*b[0])
    def sub(a, b): return (a[0]-b[0], a[1]-b[1])
    def div(a, b):
        d = b[0]*b[0] + b[1]*b[1]
        return ((a[0]*b[0] + a[1]*b[1]) / d, (a[1]*b[0] - a[0]*b[1]) / d)
    M = [[(Fraction(A[i*n+j].real), Fraction(A[i*n+j].imag)) for j in range(n)] for i in range(n)]
    piv = []
    for k in range(n):
        p = max(range(k, n), key=lambda i: M[i][k][0]**2 + M[i][k][1]**2)
        if M[p][k] == (0, 0): continue
        M[p], M[k] = M[k], M[p]
        piv.append(M[k][k])
        for i in range(k + 1, n):
            f = div(M[i][k], M[k][k])
            if f != (0, 0):
                for j in range(k, n): M[i][j] = sub(M[i][j], mul(f, M[k][j]))
    return piv

def finding_key(case, desc, items):
    """`cplx-sqmod-range` iff the element type is Complex<f64> and some entry of A or b, or some exact pivot, has re^2 + im^2
    outside the normal f64 range (underflows to 0/subnormal, or overflows) AND the failure is one of the documented symptoms of
    the cause: a non-finite component, or a backward error above the bound.  A panic, a wrong length or a disagreement of two
    finite accurate answers is not explained by unscaled squares and stays a violation."""
    m = case.meta
    if case.elt != 'cplx' or m.get("bad") or "A" not in m: return None
    if not ("non-finite component" in desc or "backward error" in desc): return None
    A, b, n = m["A"], m["b"], m["n"]
    try:
        if any(sqmod_out_of_range(complex(z).real, complex(z).imag) for z in list(A) + list(b)): return "cplx-sqmod-range"
        if any(sqmod_out_of_range(p[0], p[1]) for p in cplx_exact_pivots([complex(z) for z in A], n)): return "cplx-sqmod-range"
    except (OverflowError, ValueError):      # non-finite input entries: not this class
        return None
    return None

def gen_extreme_cplx(rng, n):
    """well-conditioned Complex<f64> systems whose entries have |z| in 1e-200..1e-155 or 1e155..1e200:
    scaled diagonal / strictly diagonally dominant / row-permuted dominant; b = A * x0 for a small x0"""
    e = rng.range(155, 200)
    s = 10.0 ** (-e if rng.chance(1, 2) else e)
    pat = rng.below(3)
    A = [0j] * (n * n)
    perm = list(range(n)) if pat < 2 else rng.shuffle(range(n))
    for i in range(n):
        for j in range(n):
            if j == perm[i]:
                A[i*n+j] = complex(rng.range(4 * n, 6 * n) * (1 if rng.chance(1, 2) else -1), rng.range(-3, 3)) * s
            elif pat >= 1 and rng.chance(1, 2):
                A[i*n+j] = complex(rng.range(-2, 2), rng.range(-2, 2)) * s
    x0 = [complex(rng.range(-3, 3), rng.range(-3, 3)) for _ in range(n)]
    b = [sum((A[i*n+j] * x0[j] for j in range(n)), 0j) for i in range(n)]
    return A, b

def nonsingular(A, n):
    try:
        return det_exact([Fraction(x) for x in A], n) != 0
    except Exception:
        return False

def cplx_singular(A, n):
    """exact test over Q(i): the determinant of the complex matrix (binary-float parts) is 0"""
    try:
        return cdet_exact([complex(z) for z in A], n) == (0, 0)
    except (OverflowError, ValueError):      # non-finite entries
        return True

def cplx_nonsingular_draw(draw, n, tries=20):
    """a Complex matrix drawn as a nonsingular real matrix plus random imaginary parts can be exactly singular: redraw"""
    for _ in range(tries):
        A = draw()
        if not cplx_singular(A, n): return A
    return None

def cond_inf(A, n):
    """numpy's infinity-norm condition number of the matrix scaled by a power of two (exact) to magnitude ~1; inf when it cannot be computed"""
    import numpy as np, math
    try:
        mx = max((abs(complex(v)) for v in A), default=0.0)
        if not (mx > 0 and math.isfinite(mx)): return float('inf')
        e = math.frexp(mx)[1]
        M = np.array([complex(math.ldexp(complex(v).real, -e), math.ldexp(complex(v).imag, -e)) for v in A]).reshape(n, n)
        k = float(np.linalg.cond(M, np.inf))
        return k if k == k else float('inf')
    except Exception:
        return float('inf')

def to_elt(rng, A, elt, scale_rows=True):
    if elt == 'rat': return A
    if elt == 'f64': return [float(x) for x in A]
    return [complex(float(x), float(fval(rng)) if rng.chance(2, 3) else 0.0) for x in A]

def mk(elt, n, A, b, family, nontrivial):
    M = (n, n, A)
    record_pivots(A, n, elt)
    line = "mat.solve_both %s %s" % (tok_mat(elt, M), tok_vec(elt, b))
    term = ("fl_res (fun p : list _ * list _ => fl_list %s (fst p) ++ fl_list %s (snd p)) "
            "(let* x := @solve_basic %s %s %s in let* y := @solve_lu %s %s %s in Ok (x, y))") % (
            FLAT[elt], FLAT[elt], ARITH[elt], coq_mat(elt, M), coq_vec(elt, b), ARITH[elt], coq_mat(elt, M), coq_vec(elt, b))
    return Case(elt, line, term, meta={"n": n, "A": A, "b": b}, family=family, nontrivial=nontrivial)

def generate(rng, tier):
    cases = []
    N = 80 if tier == "quick" else 600
    fams_r = ["dense", "zero-lead", "perm", "upper", "lower", "neg-dominant"]
    g = rng.fork("rat")
    for fam in fams_r + ["wilkinson"]:
        for t in range(N):
            n = 1 + (t % 8)
            for _ in range(20):
                A = gen_matrix(g, n, fam, 'rat')
                if nonsingular(A, n) or g.chance(1, 12): break
            b = [rval(g) for _ in range(n)]
            cases.append(mk('rat', n, A, b, "rat-" + fam, n >= 2 and nonsingular(A, n)))
    g = rng.fork("flt")
    for elt in ('f64', 'cplx'):
        for fam in fams_r + ["tiny-pivot", "row-scaled", "wilkinson"]:
            for t in range(max(4, N // 3)):
                n = 1 + (t % 8)
                for _ in range(20):
                    A = gen_matrix(g, n, fam, 'f64')
                    if nonsingular(A, n): break
                if not nonsingular(A, n): continue   # exactly singular float systems are outside the quantifier: inf/nan patterns are not compared
                sc = 10.0 ** g.range(-6, 6) if g.chance(1, 2) else 1.0
                A = [x * sc for x in A]
                b = [fval(g, sc) for _ in range(n)]
                if elt == 'cplx':
                    # imaginary parts added to a nonsingular REAL matrix can make the complex matrix exactly singular
                    # (outside the quantifier): redraw them, give up on the case after 20 draws
                    A = cplx_nonsingular_draw(lambda: [complex(x, fval(g, sc) if g.chance(1, 2) else 0.0) for x in A], n)
                    if A is None: continue
                    b = [complex(x, fval(g, sc)) for x in b]
                cases.append(mk(elt, n, A, b, elt + "-" + fam, n >= 2))
    # Complex<f64> entries ON THE AXES: a real nonsingular matrix with column j multiplied by a unit u_j in {1, -1, i, -i}
    # (still nonsingular), so that every pivot candidate of a column is purely real or purely imaginary, of either sign.
    # The pivot rule compares moduli: shortcuts of Complex::abs that are wrong on an axis (seeded mutations C01-8, C02-7)
    # only show here.
    g = rng.fork("cplx-axes")
    units = [1, -1, 1j, -1j]
    for fam in ["dense", "zero-lead", "perm", "upper", "lower", "neg-dominant"]:
        for t in range(6 if tier == "quick" else 40):
            n = 1 + (t % 6)
            for _ in range(20):
                A = gen_matrix(g, n, fam, 'f64')
                if nonsingular(A, n): break
            if not nonsingular(A, n): continue
            us = [g.choice(units) for _ in range(n)]
            if t % 3 == 0: us = [g.choice([1j, -1j])] * n          # the whole matrix purely imaginary
            Ac = [complex(A[i * n + j]) * us[j] for i in range(n) for j in range(n)]
            b = [complex(fval(g), fval(g) if g.chance(1, 2) else 0.0) for _ in range(n)]
            cases.append(mk('cplx', n, Ac, b, "cplx-axes-" + fam, n >= 2))
    # adversarial: Complex<f64> at magnitudes where re^2+im^2 leaves the normal range (recorded finding cplx-sqmod-range)
    g = rng.fork("cplx-extreme")
    for t in range(8 if tier == "quick" else 60):
        n = 1 + (t % 4)
        A, b = gen_extreme_cplx(g, n)
        cases.append(mk('cplx', n, A, b, "cplx-extreme-scale", True))
    # mismatched / non-square / empty systems: must be rejected (panic), never answered
    g = rng.fork("bad")
    for r in range(0, 4):
        for c in range(0, 4):
            for lb in range(0, 4):
                if r == c and lb == r and r > 0: continue
                A = [rval(g) for _ in range(r * c)]
                M = (r, c, A); b = [rval(g) for _ in range(lb)]
                line = "mat.solve_both %s %s" % (tok_mat('rat', M), tok_vec('rat', b))
                term = ("fl_res (fun p : list _ * list _ => fl_list flat_q (fst p) ++ fl_list flat_q (snd p)) "
                        "(let* x := @solve_basic AQ %s %s in let* y := @solve_lu AQ %s %s in Ok (x, y))") % (
                        coq_mat('rat', M), coq_vec('rat', b), coq_mat('rat', M), coq_vec('rat', b))
                cases.append(Case('rat', line, term, meta={"bad": True, "r": r, "c": c, "lb": lb}, family="rejects", nontrivial=True))
    cases += gen_special(rng, tier)
    return cases

# ---- round four (package specA): the structured classes a data-dependent fast path, a magnitude shortcut, a tie-breaking rule or a
# size threshold would single out and that the random families above never draw (findings/special-values-specA.md)
def rot(g, xs, k):
    """k elements of xs starting at a seed-dependent offset (quick tier: the families rotate with the seed instead of being dropped)"""
    if k >= len(xs): return list(xs)
    o = g.below(len(xs))
    return [xs[(o + i) % len(xs)] for i in range(k)]

def int_matrix(g, n, fam):
    """n x n matrix of small integers (exact Fraction test of nonsingularity stays cheap for large n)"""
    for _ in range(30):
        A = [float(g.range(-8, 8)) if g.chance(5, 6) else 0.0 for _ in range(n * n)]
        if fam == "zero-lead":
            for k in range(n):
                if g.chance(2, 3): A[k*n+k] = 0.0
        elif fam == "perm":
            p = g.shuffle(range(n))
            A = [(float(g.range(-3, 3)) if g.chance(1, 6) else 0.0) for _ in range(n * n)]
            for i in range(n): A[i*n+p[i]] = float(g.range(4, 9) * (1 if g.chance(1, 2) else -1))
        if nonsingular(A, n): return A
    return None

def gen_special(rng, tier):
    cases = []
    quick = tier == "quick"
    # (s1) special STRUCTURE x special right-hand side, all three element kinds, n = 1..6 (thorough: every combination up to 8)
    g = rng.fork("special-structure")
    for n in (range(1, 7) if quick else range(1, 9)):
        for name, A in special_matrices(g, n):
            rhs = special_rhs(g, A, n)
            for bname, b in (rot(g, rhs, 2) if quick else rhs):
                cases.append(mk('rat', n, A, b, "special-rat-" + name, n >= 2))
            bname, b = rhs[g.below(len(rhs))]
            cases.append(mk('f64', n, [float(x) for x in A], [float(x) for x in b], "special-f64-" + name, n >= 2))
            # the same structure with every column multiplied by a unit-modulus number (still nonsingular): entries on the axes,
            # off the axes with modulus exactly 1 (0.6+0.8i), with |re| = |im|
            us = [g.choice([1, 1j, -1j, complex(0.6, 0.8), complex(-0.8, 0.6), 1 + 1j]) for _ in range(n)]
            Ac = [complex(float(A[i*n+j])) * us[j] for i in range(n) for j in range(n)]
            bc = [complex(float(x)) * g.choice([1, 1j, complex(0.6, -0.8)]) for x in b]
            cases.append(mk('cplx', n, Ac, bc, "special-cplx-" + name, n >= 2))
    # (s2) Complex<f64> matrices whose entries are ALL special values (+-1, +-i, 0.6+0.8i, 1+-i, 2, 1/2, 3+4i, 0)
    g = rng.fork("special-cplx-values")
    for t in range(24 if quick else 200):
        n = 1 + (t % 6)
        A = special_cplx_matrix(g, n)
        if A is None: continue
        b = [complex(CPLX_SPECIAL[g.below(len(CPLX_SPECIAL))]) for _ in range(n)]
        cases.append(mk('cplx', n, A, b, "special-cplx-values", n >= 2))
    # (s3) signed zeros: every zero of A and b replaced by -0.0 with probability 1/2 (f64 and Complex<f64>)
    g = rng.fork("neg-zero")
    for t in range(18 if quick else 120):
        n = 1 + (t % 6)
        fam = ["zero-lead", "perm", "upper", "lower"][t % 4]
        for _ in range(20):
            A = gen_matrix(g, n, fam, 'f64')
            if nonsingular(A, n): break
        if not nonsingular(A, n): continue
        nz = lambda x: (-0.0 if (x == 0 and g.chance(1, 2)) else x)
        A = [nz(x) for x in A]
        b = [nz(fval(g)) for _ in range(n)]
        if t % 3 == 2:
            cases.append(mk('cplx', n, [complex(x, nz(0.0)) for x in A], [complex(x, nz(0.0)) for x in b], "cplx-neg-zero", n >= 2))
        else:
            cases.append(mk('f64', n, A, b, "f64-neg-zero", n >= 2))
    # (s4) magnitudes: the whole system scaled by 2^+-k, k = 200..900 (f64; the exact solution does not change), and by 2^+-k,
    # k = 100..300 for Complex<f64> (inside the range where re^2 + im^2 is a normal number: not the recorded finding);
    # well-conditioned patterns with row exchanges.  "whatever the magnitudes" is part of the statement.
    g = rng.fork("extreme-scale")
    for t in range(36 if quick else 240):
        n = 1 + (t % 6)
        fam = ["dense", "zero-lead", "perm", "neg-dominant", "upper", "lower"][(t // 6) % 6]
        A = None
        for _ in range(20):
            A = gen_matrix(g, n, fam, 'f64')
            if nonsingular(A, n): break
        if A is None or not nonsingular(A, n): continue
        cplx = t % 3 == 2
        # f64: half of the exponents beyond 2^+-512, where the SQUARE of an entry leaves the f64 range although every quantity the
        # elimination needs (entries, quotients, products of a quotient with an entry) stays inside it
        k = g.range(100, 300) if cplx else (g.range(520, 900) if t % 2 == 0 else g.range(200, 519))
        sc = 2.0 ** (k if g.chance(1, 2) else -k)
        b = [fval(g) for _ in range(n)]
        if cplx:
            A = cplx_nonsingular_draw(lambda: [complex(x, fval(g) if g.chance(1, 2) else 0.0) * sc for x in A], n)
            if A is None: continue
            b = [complex(x, fval(g)) * sc for x in b]
            cases.append(mk('cplx', n, A, b, "cplx-scaled-2^%s" % ("+k" if sc > 1 else "-k"), n >= 2))
        else:
            # the right-hand side at the scale of A (x = O(1)) or at scale 1 (x tiny/huge but representable: |k| <= 900)
            bs = sc if g.chance(2, 3) else 1.0
            cases.append(mk('f64', n, [x * sc for x in A], [x * bs for x in b], "f64-scaled-2^%s" % ("+k" if sc > 1 else "-k"), n >= 2))
    # (s5) orders above 8 (a blocked / unrolled loop shows its remainder handling only from a few blocks on): Rat 9..12,
    # f64 / Complex<f64> 9..24 (thorough: ..40), integer entries so that the exact nonsingularity test stays cheap
    g = rng.fork("large-order")
    big_r = rot(g, [9, 10, 11, 12], 2) if quick else [9, 10, 11, 12]
    for n in big_r:
        for fam in ["dense", "perm"]:
            A = int_matrix(g, n, fam)
            if A is None: continue
            cases.append(mk('rat', n, [Fraction(int(x)) for x in A], [Fraction(g.range(-4, 4)) for _ in range(n)], "rat-order-9..12-" + fam, True))
    big_f = sorted(set([16, 17] + rot(g, list(range(9, 25)), 4))) if quick else list(range(9, 41))
    for n in big_f:
        for fam in (["dense", "zero-lead", "perm"] if not quick else rot(g, ["dense", "zero-lead", "perm"], 2)):
            A = int_matrix(g, n, fam)
            if A is None: continue
            b = [float(g.range(-8, 8)) for _ in range(n)]
            cases.append(mk('f64', n, A, b, "f64-order-9..40-" + fam, True))
            if n <= 24 and (not quick or n in (16, 17)):
                Ac = cplx_nonsingular_draw(lambda: [complex(x, float(g.range(-3, 3)) if g.chance(1, 3) else 0.0) for x in A], n)
                if Ac is not None:
                    cases.append(mk('cplx', n, Ac, [complex(x, float(g.range(-3, 3))) for x in b], "cplx-order-9..24-" + fam, True))
    # (s6) mis-shaped systems at the float element kinds as well (the guards are generic code, the element kind is not)
    g = rng.fork("bad-float")
    for elt in ('f64', 'cplx'):
        for (r, c, lb) in [(0, 0, 0), (1, 1, 0), (1, 1, 2), (2, 2, 1), (2, 2, 3), (2, 3, 2), (3, 2, 3), (3, 2, 2), (1, 2, 1), (2, 1, 2), (0, 1, 0), (1, 0, 1)]:
            conv = (lambda x: float(x)) if elt == 'f64' else (lambda x: complex(float(x), 1.0))
            M = (r, c, [conv(g.range(-4, 4)) for _ in range(r * c)]); b = [conv(g.range(-4, 4)) for _ in range(lb)]
            line = "mat.solve_both %s %s" % (tok_mat(elt, M), tok_vec(elt, b))
            term = ("fl_res (fun p : list _ * list _ => fl_list %s (fst p) ++ fl_list %s (snd p)) "
                    "(let* x := @solve_basic %s %s %s in let* y := @solve_lu %s %s %s in Ok (x, y))") % (
                    FLAT[elt], FLAT[elt], ARITH[elt], coq_mat(elt, M), coq_vec(elt, b), ARITH[elt], coq_mat(elt, M), coq_vec(elt, b))
            cases.append(Case(elt, line, term, meta={"bad": True, "r": r, "c": c, "lb": lb}, family="rejects-" + elt, nontrivial=True))
    return cases

def case_from_json(j):
    m = j["meta"]; elt = j["elt"]
    if elt == 'rat':
        return mk(elt, m["n"], [Fraction(x) for x in m["A"]], [Fraction(x) for x in m["b"]], "corpus", True)
    if elt == 'f64':
        return mk(elt, m["n"], [float(x) for x in m["A"]], [float(x) for x in m["b"]], "corpus", True)
    return mk(elt, m["n"], [complex(x) for x in m["A"]], [complex(x) for x in m["b"]], "corpus", True)

def oracle(case, items):
    m = case.meta
    if m.get("bad"):
        if not (len(items) == 1 and items[0][0] == 'P'):
            return "mismatched/non-square/empty system (%dx%d, |b|=%d) was answered instead of rejected: %r" % (m["r"], m["c"], m["lb"], items[:6])
        return None
    n, A, b, elt = m["n"], m["A"], m["b"], case.elt
    # singular input is outside the quantifier; decided exactly (Fractions; over Q(i) for Complex: a real nonsingular matrix plus
    # imaginary parts can be exactly singular)
    sing = cplx_singular(A, n) if elt == 'cplx' else not nonsingular(A, n)
    if items and items[-1][0] == 'P':
        if sing: return None
        return "solver panicked (%s) on a nonsingular %s%dx%d system" % (items[-1][1], "complex " if elt == 'cplx' else "", n, n)
    if sing:
        STATS["exactly_singular_skipped"] = STATS.get("exactly_singular_skipped", 0) + 1
        return None      # singular input: outside the quantifier (floats may return inf/nan)
    x, pos = parse_items_vec(items, 0, elt)
    y, pos = parse_items_vec(items, pos, elt)
    for name, sol in (("solve_basic", x), ("solve_lu", y)):
        if len(sol) != n: return "%s returned %d components for n=%d" % (name, len(sol), n)
    kap = None
    if elt != 'rat' and n > 0:
        kap = cond_inf(A, n)
        # a matrix with cond_inf(A) > 1e15 (> 1/(4 eps)) is singular to working precision although its exact determinant is not 0:
        # a pivot may cancel to exactly 0 in binary64 and every LU solver then answers inf/nan.  "backward error of the order of
        # machine epsilon" can only be demanded of an answer that exists: a NON-FINITE answer on such a matrix is counted and
        # skipped; a finite answer is judged like any other (backward stability does not depend on the conditioning).
        if kap > 1e15 and not all(isfinite(v) for v in x + y):
            STATS["numerically_singular_skipped"] = STATS.get("numerically_singular_skipped", 0) + 1
            return None
    for name, sol in (("solve_basic", x), ("solve_lu", y)):
        if elt == 'rat':
            r = [b[i] - sum(A[i*n+j] * sol[j] for j in range(n)) for i in range(n)]
            if any(v != 0 for v in r): return "%s: exact residual b - A x != 0 (%s)" % (name, r)
        else:
            if not all(isfinite(v) for v in sol): return "%s returned a non-finite component on a nonsingular system" % name
            r = max(abs(b[i] - sum(A[i*n+j] * sol[j] for j in range(n))) for i in range(n))
            bound = 1e-11 * (norm_inf_mat(A, n, n) * norm_inf_vec(sol) + norm_inf_vec(b))
            if r > bound: return "%s: backward error %g exceeds 1e-11*(|A||x|+|b|) = %g" % (name, r, bound)
    if elt == 'rat' and x != y: return "the two solvers disagree"
    if elt != 'rat' and n > 0:
        # both answers solve nearby systems (backward errors above), so they differ by at most cond(A) times those:
        # ||x - y|| <= cond_inf(A) * 4e-11 * max(||x||, ||y||) (+ the |b| share, absorbed in the factor 4)
        d = max(abs(x[i] - y[i]) for i in range(n))
        lim = 4e-11 * kap * max(norm_inf_vec(x), norm_inf_vec(y), norm_inf_vec(b) / max(norm_inf_mat(A, n, n), 1e-300))
        STATS["compared"] = STATS.get("compared", 0) + 1
        if d > 0: STATS["differ_bitwise"] = STATS.get("differ_bitwise", 0) + 1
        STATS["max_disagreement_over_limit"] = max(STATS.get("max_disagreement_over_limit", 0.0), d / lim if lim > 0 else 0.0)
        if d > lim: return "solve_basic and solve_lu disagree by %g > 4e-11*cond(A)*|x| = %g (cond %g)" % (d, lim, kap)
    return None
