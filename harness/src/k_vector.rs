// Vector kinds (C15, C16, C20): public API of ohsl::Vector only.
//   vec.hist <v0> (<op> <args> ;)*      history on one vector: after every op its result (if any), P<class> if it panicked,
//                                       then the state (size + elements) if the op is &mut or panicked [rat | f64 | cplx]
//   vec.norms <v> <p>                   norm_1 norm_2 norm_p(p) norm_inf (last: panics on empty) [f64]
//   vec.normlaws <u> <v> <c> <p>        the four norms of u, v, u+v, u*c                        [f64]
//   vec.cx <v>                          conj, real, abs (Signed), norm_inf (last)              [cplx]
//   vec.n1laws <u> <v> <c>              dot(u,v), then norm_1 of u, v, u+v, u*c (generic code)  [rat | f64 | cplx]
//   vec.cnormlaws <u> <v> <c>           dot(u,v), then norm_1 and norm_inf of u, v, u+v, u*c    [cplx]
//   vec.linspace <a> <b> <n>   vec.powspace <a> <b> <n> <p>   vec.scale_l <s> <v>              [f64]
//   vec.ctor <n> <x> <v>                new/zeros/ones/empty/create/clone                      [any]
//   vec.random <n>                      size and number of elements in [0,1)                   [f64]
//   vec.sort_ord <ints>                 Vector<i64>::sort() (the Ord-bounded method), as rationals n/1
//   vec.pardot <v> <w> <reps> <busy>    num_cpus::get() as seen in this process, dot_f64 <reps> times (with <busy>
//                                       spinning background threads), then the sequential dot   [f64]
//   (specB) extended vec.hist ops, SEARCH-ONLY (no model constructor; judged by the python list model): cmp <w> (== and !=),
//       cmp_self (== / != against itself, the same object, and against a clone), dot_self / add_self / sub_self (both operands
//       the same object), field (the public field .vec read directly), sort_desc / sort_absdesc (sort_by with a comparator that is
//       NOT the ascending order), clone_into <w> (Clone::clone_from with target w, source v), clone_from <w> (target v),
//       norms <p> [f64: norm_1 norm_2 norm_p norm_inf of the CURRENT vector], scale_l <s> [f64], cxview [cplx: conj real abs
//       norm_inf of the current vector], dot_f64 <w> [f64: num_cpus, dot_f64 twice, dot]
//   vec.pardot_self <v> <reps> <busy>   like vec.pardot with BOTH operands the same object: v.dot_f64(&v)          [f64]
//   vec.pardot_after <v0> <w> <reps> <busy> (<op> <args> ;)*   the edits are applied to v0 (vec.hist ops, output discarded), w gets
//                                       spare capacity (push + pop), then as vec.pardot on the edited vector      [f64]
use std::panic::{catch_unwind, AssertUnwindSafe};
use std::sync::atomic::{AtomicBool, Ordering};
use std::sync::Arc;
use ohsl::{Cmplx, Vector};
use crate::io::{Args, Out, Elt};
use crate::rat::Rat;

fn same_v<T: Elt>(a: &Vector<T>, b: &Vector<T>) -> bool {
    let mut o1 = Out::new(); let mut o2 = Out::new();
    o1.v(a); o2.v(b);
    o1.toks == o2.toks
}
fn check_same<T: Elt>(a: &Vector<T>, snap: &Vector<T>, what: &str) {
    if !same_v(a, snap) { panic!("harness: operand mutated by {}", what); }
}

// what is not available for every element type
pub trait VX: Elt {
    fn resize(_v: &mut Vector<Self>, _n: usize) { panic!("harness: resize n/a for this element type"); }
    // element-type specific views of the CURRENT vector of a history (specB): everything is computed first and emitted
    // afterwards, so a panicking view emits nothing before its P token
    fn norms(_v: &Vector<Self>, _p: f64, _out: &mut Out) { panic!("harness: norms n/a for this element type"); }
    fn scale_l(_v: &Vector<Self>, _s: f64, _out: &mut Out) { panic!("harness: scale_l n/a for this element type"); }
    fn cxview(_v: &Vector<Self>, _out: &mut Out) { panic!("harness: cxview n/a for this element type"); }
    fn dot_f64(_v: &Vector<Self>, _w: &Vector<Self>, _out: &mut Out) { panic!("harness: dot_f64 n/a for this element type"); }
}
impl VX for Rat { fn resize(v: &mut Vector<Rat>, n: usize) { v.resize(n); } }
impl VX for f64 {
    fn resize(v: &mut Vector<f64>, n: usize) { v.resize(n); }
    fn norms(v: &Vector<f64>, p: f64, out: &mut Out) {
        let snap = v.clone();
        let r = [v.norm_1(), v.norm_2(), v.norm_p(p), v.norm_inf()];
        check_same(v, &snap, "norms");
        for x in r { out.f(x); }
    }
    fn scale_l(v: &Vector<f64>, s: f64, out: &mut Out) { let r = s * v.clone(); out.v(&r); }
    fn dot_f64(v: &Vector<f64>, w: &Vector<f64>, out: &mut Out) {
        let (sv, sw) = (v.clone(), w.clone());
        let r = [v.dot_f64(w), v.dot_f64(w), v.dot(w)];
        check_same(v, &sv, "dot_f64"); check_same(w, &sw, "dot_f64");
        out.usize(num_cpus::get());
        for x in r { out.f(x); }
    }
}
impl VX for Cmplx {
    fn cxview(v: &Vector<Cmplx>, out: &mut Out) {
        let snap = v.clone();
        let (c, r, a, n) = (v.conj(), v.real(), v.abs(), v.norm_inf());
        check_same(v, &snap, "conj/real/abs/norm_inf");
        out.v(&c); out.v(&r); out.v(&a); out.f(n);
    }
}

// the &mut self operations: the state is reported after them (and after every panic)
const MUTATING: [&str; 21] = ["push", "push_front", "insert", "pop", "swap", "resize", "assign", "clear", "sort", "set",
    "add_assign", "sub_assign", "add_assign_s", "sub_assign_s", "mul_assign_s", "div_assign_s", "clone_mut", "_",
    "sort_desc", "sort_absdesc", "clone_from"];

fn step<T: VX>(v: &mut Vector<T>, op: &str, a: &mut Args, out: &mut Out) {
    match op {
        // ---- edits
        "push" => { let x = a.s::<T>(); v.push(x); }
        "push_front" => { let x = a.s::<T>(); v.push_front(x); }
        "insert" => { let p = a.usize(); let x = a.s::<T>(); v.insert(p, x); }
        "pop" => { let x = v.pop(); out.s(&x); }
        "swap" => { let (i, j) = (a.usize(), a.usize()); v.swap(i, j); }
        "resize" => { let n = a.usize(); T::resize(v, n); }
        "assign" => { let x = a.s::<T>(); v.assign(x); }
        "clear" => { v.clear(); }
        "sort" => { v.sort_by(|x, y| x.partial_cmp(y).unwrap()); }
        "find" => { let x = a.s::<T>(); let snap = v.clone(); let i = v.find(x); check_same(v, &snap, "find"); out.usize(i); }
        "set" => { let i = a.usize(); let x = a.s::<T>(); v[i] = x; }
        // ---- compound assignments
        "add_assign" => { let w = a.v::<T>(); *v += w; }
        "sub_assign" => { let w = a.v::<T>(); *v -= w; }
        "add_assign_s" => { let x = a.s::<T>(); *v += x; }
        "sub_assign_s" => { let x = a.s::<T>(); *v -= x; }
        "mul_assign_s" => { let x = a.s::<T>(); *v *= x; }
        "div_assign_s" => { let x = a.s::<T>(); *v /= x; }
        // ---- value-returning (&self: operand must stay unchanged; owned and borrowed forms must agree)
        "get" => { let i = a.usize(); out.s(&v[i]); }
        "size" => { out.usize(v.size()); }
        "sum" => { let snap = v.clone(); let s = v.sum(); check_same(v, &snap, "sum"); out.s(&s); }
        "product" => { let s = v.product(); out.s(&s); }
        "sum_slice" => { let (s, e) = (a.usize(), a.usize()); let snap = v.clone(); let r = v.sum_slice(s, e); check_same(v, &snap, "sum_slice"); out.s(&r); }
        "product_slice" => { let (s, e) = (a.usize(), a.usize()); let r = v.product_slice(s, e); out.s(&r); }
        "dot" => { let w = a.v::<T>(); let (s1, s2) = (v.clone(), w.clone()); let d = v.dot(&w);
            check_same(v, &s1, "dot"); check_same(&w, &s2, "dot"); out.s(&d); }
        "add" => { let w = a.v::<T>(); let (s1, s2) = (v.clone(), w.clone()); let r = &*v + &w;
            check_same(v, &s1, "+"); check_same(&w, &s2, "+");
            let r2 = v.clone() + &w; let r3 = v.clone() + w.clone();
            if !same_v(&r, &r2) || !same_v(&r, &r3) { panic!("harness: owned/borrowed forms differ (vec +)"); }
            out.v(&r); }
        "sub" => { let w = a.v::<T>(); let (s1, s2) = (v.clone(), w.clone()); let r = &*v - &w;
            check_same(v, &s1, "-"); check_same(&w, &s2, "-");
            let r2 = v.clone() - &w; let r3 = v.clone() - w.clone();
            if !same_v(&r, &r2) || !same_v(&r, &r3) { panic!("harness: owned/borrowed forms differ (vec -)"); }
            out.v(&r); }
        "neg" => { let r = -(v.clone()); out.v(&r); }
        "scale" => { let x = a.s::<T>(); let r = v.clone() * x; out.v(&r); }
        "div" => { let x = a.s::<T>(); let r = v.clone() / x; out.v(&r); }
        "abs" => { let snap = v.clone(); let r = v.abs(); check_same(v, &snap, "abs"); out.v(&r); }
        "norm_1" => { let snap = v.clone(); let r = v.norm_1(); check_same(v, &snap, "norm_1"); out.s(&r); }
        "clone_mut" => { // clone independence
            let x = a.s::<T>(); let snap = v.clone(); let mut c = v.clone();
            c.assign(x); c.push(x); check_same(v, &snap, "clone.assign");
            let csnap = c.clone(); v.push(x); check_same(&c, &csnap, "orig.push"); }
        // ---- specB: forms and trait impls that no other op reaches (search-only ops)
        "cmp" => { let w = a.v::<T>(); let (s1, s2) = (v.clone(), w.clone());
            let (e, n) = (*v == w, *v != w);
            check_same(v, &s1, "=="); check_same(&w, &s2, "==");
            out.boolean(e); out.boolean(n); }
        "cmp_self" => { let c = v.clone();
            #[allow(clippy::eq_op)]
            let r = [*v == *v, *v != *v, *v == c, *v != c, c == *v, c != *v];
            for b in r { out.boolean(b); } }
        "dot_self" => { let snap = v.clone(); let d = v.dot(&*v); check_same(v, &snap, "dot(self)"); out.s(&d); }
        "add_self" => { let snap = v.clone(); let r = &*v + &*v; check_same(v, &snap, "+(self)"); out.v(&r); }
        "sub_self" => { let snap = v.clone(); let r = &*v - &*v; check_same(v, &snap, "-(self)"); out.v(&r); }
        "field" => { out.usize(v.vec.len()); for x in v.vec.iter() { out.s(x); } }
        "sort_desc" => { v.sort_by(|x, y| y.partial_cmp(x).unwrap()); }
        "sort_absdesc" => { v.sort_by(|x, y| y.abs().partial_cmp(&x.abs()).unwrap().then(y.partial_cmp(x).unwrap())); }
        "clone_into" => { let mut w = a.v::<T>(); let snap = v.clone(); w.clone_from(&*v); check_same(v, &snap, "clone_from(source)"); out.v(&w); }
        "clone_from" => { let w = a.v::<T>(); let snap = w.clone(); v.clone_from(&w); check_same(&w, &snap, "clone_from(source)"); }
        "norms" => { let p = a.f64(); T::norms(v, p, out); }
        "scale_l" => { let s = a.f64(); T::scale_l(v, s, out); }
        "cxview" => { T::cxview(v, out); }
        "dot_f64" => { let w = a.v::<T>(); T::dot_f64(v, &w, out); }
        _ => panic!("harness: unknown vector op {}", op),
    }
}

fn spin(n: usize, body: &mut dyn FnMut()) {
    // run body while n background threads spin (scheduling noise for the threaded dot product)
    let stop = Arc::new(AtomicBool::new(false));
    let mut hs = Vec::new();
    for _ in 0..n {
        let st = stop.clone();
        hs.push(std::thread::spawn(move || { let mut x = 0u64; while !st.load(Ordering::Relaxed) { x = x.wrapping_mul(6364136223846793005).wrapping_add(1); std::hint::black_box(x); } }));
    }
    let r = catch_unwind(AssertUnwindSafe(|| body()));
    stop.store(true, Ordering::Relaxed);
    for h in hs { let _ = h.join(); }
    if let Err(e) = r { std::panic::resume_unwind(e); }
}

pub fn run<T: VX>(kind: &str, a: &mut Args, out: &mut Out) {
    match kind {
        "vec.hist" => {
            let mut v = a.v::<T>();
            out.v(&v);
            while a.more() {
                let op = a.word();
                let r = catch_unwind(AssertUnwindSafe(|| step(&mut v, op, a, out)));
                if r.is_err() {
                    let msg = crate::LAST_PANIC.with(|p| p.borrow().clone());
                    let cls = crate::classify(&msg);
                    if cls == "harness" || cls == "ratovf" { panic!("{}", msg); }
                    out.toks.push(format!("P{}", cls));
                }
                while a.more() { if a.word() == ";" { break; } }
                if r.is_err() || MUTATING.contains(&op) { out.v(&v); }
            }
        }
        "vec.ctor" => {
            let n = a.usize(); let x = a.s::<T>(); let w = a.vec_std::<T>();
            out.v(&Vector::<T>::new(n, x)); out.v(&Vector::<T>::zeros(n)); out.v(&Vector::<T>::ones(n));
            let e = Vector::<T>::empty(); out.v(&e);
            let c = Vector::<T>::create(w.clone()); out.v(&c); out.usize(c.size());
            let d = c.clone(); out.v(&d);
            out.boolean(c == d);
        }
        "vec.norms" => {
            let v = a.v::<f64>(); let p = a.f64(); let snap = v.clone();
            out.f(v.norm_1()); out.f(v.norm_2()); out.f(v.norm_p(p));
            check_same(&v, &snap, "norms");
            out.f(v.norm_inf());
        }
        "vec.normlaws" => {
            let u = a.v::<f64>(); let v = a.v::<f64>(); let c = a.f64(); let p = a.f64();
            let s = &u + &v; let cu = u.clone() * c;
            for w in [&u, &v, &s, &cu] { out.f(w.norm_1()); out.f(w.norm_2()); out.f(w.norm_p(p)); out.f(w.norm_inf()); }
        }
        "vec.cx" => {
            let v = a.v::<Cmplx>(); let snap = v.clone();
            out.v(&v.conj()); out.v(&v.real()); out.v(&v.abs());
            check_same(&v, &snap, "conj/real/abs");
            out.f(v.norm_inf());
        }
        "vec.n1laws" => {
            let u = a.v::<T>(); let v = a.v::<T>(); let c = a.s::<T>();
            let (su, sv) = (u.clone(), v.clone());
            let s = &u + &v; let cu = u.clone() * c;
            let d = u.dot(&v); out.s(&d);
            for w in [&u, &v, &s, &cu] { let r = w.norm_1(); out.s(&r); }
            check_same(&u, &su, "n1laws"); check_same(&v, &sv, "n1laws");
        }
        "vec.cnormlaws" => {
            let u = a.v::<Cmplx>(); let v = a.v::<Cmplx>(); let c = a.s::<Cmplx>();
            let (su, sv) = (u.clone(), v.clone());
            let s = &u + &v; let cu = u.clone() * c;
            let d = u.dot(&v); out.s(&d);
            check_same(&u, &su, "cnormlaws"); check_same(&v, &sv, "cnormlaws");
            for w in [&u, &v, &s, &cu] { let r = w.norm_1(); out.s(&r); out.f(w.norm_inf()); }
        }
        "vec.linspace" => { let (x, y) = (a.f64(), a.f64()); let n = a.usize(); out.v(&Vector::<f64>::linspace(x, y, n)); }
        "vec.powspace" => { let (x, y) = (a.f64(), a.f64()); let n = a.usize(); let p = a.f64(); out.v(&Vector::<f64>::powspace(x, y, n, p)); }
        "vec.scale_l" => { let s = a.f64(); let v = a.v::<f64>(); let r = s * v.clone(); out.v(&r); let r2 = v * s; out.v(&r2); }
        "vec.random" => {
            let n = a.usize(); let v = Vector::<f64>::random(n);
            out.usize(v.size());
            let mut inside = 0; for i in 0..v.size() { if v[i] >= 0.0 && v[i] < 1.0 { inside += 1; } }
            out.usize(inside);
        }
        "vec.sort_ord" => {
            let xs: Vec<i64> = a.strs().into_iter().map(|t| t.parse().expect("harness: bad int")).collect();
            let mut v = Vector::<i64>::create(xs);
            v.sort();
            out.usize(v.size());
            for i in 0..v.size() { out.q(Rat::int(v[i] as i128)); }
        }
        "vec.pardot" => {
            let v = a.v::<f64>(); let w = a.v::<f64>(); let reps = a.usize(); let busy = a.usize();
            let (sv, sw) = (v.clone(), w.clone());
            out.usize(num_cpus::get());
            let mut rs: Vec<f64> = Vec::new();
            spin(busy, &mut || { for _ in 0..reps { rs.push(v.dot_f64(&w)); } });
            for r in rs { out.f(r); }
            check_same(&v, &sv, "dot_f64"); check_same(&w, &sw, "dot_f64");
            out.f(v.dot(&w));
        }
        "vec.pardot_self" => {
            let v = a.v::<f64>(); let reps = a.usize(); let busy = a.usize();
            let sv = v.clone();
            out.usize(num_cpus::get());
            let mut rs: Vec<f64> = Vec::new();
            spin(busy, &mut || { for _ in 0..reps { rs.push(v.dot_f64(&v)); } });
            for r in rs { out.f(r); }
            check_same(&v, &sv, "dot_f64(self)");
            out.f(v.dot(&v));
        }
        "vec.pardot_after" => {
            let mut v = a.v::<f64>(); let mut w = a.v::<f64>(); let reps = a.usize(); let busy = a.usize();
            let mut scratch = Out::new();
            while a.more() {
                let op = a.word();
                let r = catch_unwind(AssertUnwindSafe(|| step(&mut v, op, a, &mut scratch)));
                if r.is_err() {
                    let msg = crate::LAST_PANIC.with(|p| p.borrow().clone());
                    if crate::classify(&msg) == "harness" { panic!("{}", msg); }
                }
                while a.more() { if a.word() == ";" { break; } }
            }
            w.push(0.0); w.pop();                                   // capacity of w differs from its length
            let (sv, sw) = (v.clone(), w.clone());
            out.usize(num_cpus::get());
            let mut rs: Vec<f64> = Vec::new();
            spin(busy, &mut || { for _ in 0..reps { rs.push(v.dot_f64(&w)); } });
            for r in rs { out.f(r); }
            check_same(&v, &sv, "dot_f64"); check_same(&w, &sw, "dot_f64");
            out.f(v.dot(&w));
        }
        // vec.pardot_hist <v> <w> [k1,k2,...]   one process, the affinity of the calling thread set to the first k_i CPUs of
        // the original mask before the i-th call (worker threads inherit it): per step num_cpus::get(), dot_f64, dot
        "vec.pardot_hist" => {
            let v = a.v::<f64>(); let w = a.v::<f64>();
            let ks: Vec<usize> = a.strs().into_iter().map(|t| t.parse().expect("harness: bad int")).collect();
            let orig = affinity::get();
            for k in ks {
                let sub: Vec<usize> = orig.iter().cloned().take(k).collect();
                if sub.len() < k { panic!("harness: affinity {} not available", k); }
                affinity::set(&sub);
                out.usize(num_cpus::get());
                out.f(v.dot_f64(&w));
                out.f(v.dot(&w));
            }
            affinity::set(&orig);
        }
        _ => panic!("harness: unknown kind {}", kind),
    }
}

// CPU affinity of the calling thread (Linux): the executor's own use of the C library, not the library under test
mod affinity {
    extern "C" {
        fn sched_getaffinity(pid: i32, cpusetsize: usize, mask: *mut u64) -> i32;
        fn sched_setaffinity(pid: i32, cpusetsize: usize, mask: *const u64) -> i32;
    }
    pub fn get() -> Vec<usize> {
        let mut m = [0u64; 16];
        let rc = unsafe { sched_getaffinity(0, 128, m.as_mut_ptr()) };
        if rc != 0 { panic!("harness: sched_getaffinity failed"); }
        (0..1024).filter(|c| (m[c / 64] >> (c % 64)) & 1 == 1).collect()
    }
    pub fn set(cpus: &[usize]) {
        let mut m = [0u64; 16];
        for &c in cpus { m[c / 64] |= 1u64 << (c % 64); }
        let rc = unsafe { sched_setaffinity(0, 128, m.as_ptr()) };
        if rc != 0 { panic!("harness: sched_setaffinity failed"); }
    }
}
