// Vector kinds (C15, C20) -- filled in with the C15 check.
use crate::io::{Args, Out, Elt};
pub fn run<T: Elt>(kind: &str, _a: &mut Args, _out: &mut Out) {
    panic!("harness: unknown kind {}", kind);
}
