// Dense matrix kinds (C01, C02, C03, C18, C20).
use std::panic::{catch_unwind, AssertUnwindSafe};
use ohsl::{Matrix, Vector};
use crate::io::{Args, Out, Elt};

fn same<T: Elt>(a: &Matrix<T>, b: &Matrix<T>) -> bool {
    if a.rows() != b.rows() || a.cols() != b.cols() { return false; }
    let mut o1 = Out::new(); let mut o2 = Out::new();
    o1.m(a); o2.m(b);
    o1.toks == o2.toks
}
fn same_v<T: Elt>(a: &Vector<T>, b: &Vector<T>) -> bool {
    let mut o1 = Out::new(); let mut o2 = Out::new();
    o1.v(a); o2.v(b);
    o1.toks == o2.toks
}
fn check_same<T: Elt>(a: &Matrix<T>, snap: &Matrix<T>, what: &str) {
    if !same(a, snap) { panic!("harness: operand mutated by {}", what); }
}

// the norms exist for Matrix<f64> only; `run` is generic in the element type
fn as_f64<T: Elt>(m: &Matrix<T>) -> &Matrix<f64> {
    (m as &dyn std::any::Any).downcast_ref::<Matrix<f64>>().unwrap_or_else(|| panic!("harness: norms need elt f64"))
}

// a fresh matrix with the same shape and entries, built through the public API only (new + index)
fn rebuild<T: Elt>(m: &Matrix<T>) -> Matrix<T> {
    let mut r = Matrix::<T>::new(m.rows(), m.cols(), T::zero());
    for i in 0..m.rows() { for j in 0..m.cols() { r[(i, j)] = m[(i, j)]; } }
    r
}

// one step of a history; returns normally or panics (caught by the caller)
fn step<T: Elt>(m: &mut Matrix<T>, op: &str, a: &mut Args, out: &mut Out) {
    match op {
        "set_row" => { let r = a.usize(); let v = a.v::<T>(); m.set_row(r, v); }
        "set_col" => { let c = a.usize(); let v = a.v::<T>(); m.set_col(c, v); }
        "delete_row" => { let r = a.usize(); m.delete_row(r); }
        "resize" => { let r = a.usize(); let c = a.usize(); m.resize(r, c); }
        "transpose_in_place" => { m.transpose_in_place(); }
        "swap_rows" => { let r1 = a.usize(); let r2 = a.usize(); m.swap_rows(r1, r2); }
        "swap_elem" => { let (r1, c1, r2, c2) = (a.usize(), a.usize(), a.usize(), a.usize()); m.swap_elem(r1, c1, r2, c2); }
        "fill" => { let x = a.s::<T>(); m.fill(x); }
        "fill_diag" => { let x = a.s::<T>(); m.fill_diag(x); }
        "fill_band" => { let o = a.isize(); let x = a.s::<T>(); m.fill_band(o, x); }
        "fill_tridiag" => { let (l, d, u) = (a.s::<T>(), a.s::<T>(), a.s::<T>()); m.fill_tridiag(l, d, u); }
        "fill_row" => { let r = a.usize(); let x = a.s::<T>(); m.fill_row(r, x); }
        "fill_col" => { let c = a.usize(); let x = a.s::<T>(); m.fill_col(c, x); }
        "clear" => { m.clear(); }
        "set" => { let (i, j) = (a.usize(), a.usize()); let x = a.s::<T>(); m[(i, j)] = x; }
        "add_assign" => { let b = a.m::<T>(); let snap = b.clone(); *m += &b; check_same(&b, &snap, "+="); }
        "sub_assign" => { let b = a.m::<T>(); let snap = b.clone(); *m -= &b; check_same(&b, &snap, "-="); }
        "add_assign_own" => { let b = a.m::<T>(); *m += b; }
        "sub_assign_own" => { let b = a.m::<T>(); *m -= b; }
        "mul_assign_s" => { let x = a.s::<T>(); *m *= x; }
        "div_assign_s" => { let x = a.s::<T>(); *m /= x; }
        "add_assign_s" => { let x = a.s::<T>(); *m += x; }
        "sub_assign_s" => { let x = a.s::<T>(); *m -= x; }
        // value-returning (by reference: the operand must stay bit-for-bit unchanged, owned form must agree)
        "get" => { let (i, j) = (a.usize(), a.usize()); out.s(&m[(i, j)]); }
        "get_row" => { let r = a.usize(); let snap = m.clone(); let v = m.get_row(r); check_same(m, &snap, "get_row"); out.v(&v); }
        "get_col" => { let c = a.usize(); let snap = m.clone(); let v = m.get_col(c); check_same(m, &snap, "get_col"); out.v(&v); }
        "multiply" => { let v = a.v::<T>(); let snap = m.clone(); let vs = v.clone();
            let r = m.multiply(&v); check_same(m, &snap, "multiply");
            if !same_v(&v, &vs) { panic!("harness: operand mutated by multiply"); }
            let r2 = &*m * &v; let r3 = m.clone() * v.clone();
            if !same_v(&r, &r2) || !same_v(&r, &r3) { panic!("harness: owned/borrowed forms differ (mat*vec)"); }
            out.v(&r); }
        "transpose" => { let snap = m.clone(); let t = m.transpose(); check_same(m, &snap, "transpose"); out.m(&t); }
        "neg" => { let snap = m.clone(); let r = -&*m; check_same(m, &snap, "neg");
            let r2 = -(m.clone()); if !same(&r, &r2) { panic!("harness: owned/borrowed forms differ (neg)"); } out.m(&r); }
        "add" => { let b = a.m::<T>(); let (s1, s2) = (m.clone(), b.clone()); let r = &*m + &b;
            check_same(m, &s1, "+"); check_same(&b, &s2, "+");
            let r2 = m.clone() + b.clone(); if !same(&r, &r2) { panic!("harness: owned/borrowed forms differ (+)"); } out.m(&r); }
        "sub" => { let b = a.m::<T>(); let (s1, s2) = (m.clone(), b.clone()); let r = &*m - &b;
            check_same(m, &s1, "-"); check_same(&b, &s2, "-");
            let r2 = m.clone() - b.clone(); if !same(&r, &r2) { panic!("harness: owned/borrowed forms differ (-)"); } out.m(&r); }
        "scale" => { let x = a.s::<T>(); let s1 = m.clone(); let r = &*m * x; check_same(m, &s1, "*s");
            let r2 = m.clone() * x; if !same(&r, &r2) { panic!("harness: owned/borrowed forms differ (*s)"); } out.m(&r); }
        "div" => { let x = a.s::<T>(); let s1 = m.clone(); let r = &*m / x; check_same(m, &s1, "/s");
            let r2 = m.clone() / x; if !same(&r, &r2) { panic!("harness: owned/borrowed forms differ (/s)"); } out.m(&r); }
        "mul" => { let b = a.m::<T>(); let (s1, s2) = (m.clone(), b.clone()); let r = &*m * &b;
            check_same(m, &s1, "*"); check_same(&b, &s2, "*");
            let r2 = m.clone() * b.clone(); if !same(&r, &r2) { panic!("harness: owned/borrowed forms differ (*)"); } out.m(&r); }
        "mul_l" => { let b = a.m::<T>(); let r = &b * &*m; out.m(&r); }
        // both operands the SAME object (round four): &m + &m, &m - &m, &m * &m
        "add_self" => { let snap = m.clone(); let r = &*m + &*m; check_same(m, &snap, "+ (same object)"); out.m(&r); }
        "sub_self" => { let snap = m.clone(); let r = &*m - &*m; check_same(m, &snap, "- (same object)"); out.m(&r); }
        "mul_self" => { let snap = m.clone(); let r = &*m * &*m; check_same(m, &snap, "* (same object)");
            let r2 = &*m * &snap; if !same(&r, &r2) { panic!("harness: owned/borrowed forms differ (m * m with one object vs two)"); } out.m(&r); }
        "eye" => { let n = a.usize(); out.m(&Matrix::<T>::eye(n)); }
        "numel" => { out.usize(m.numel()); }
        "clone_mut" => { // clone independence: mutate the clone, original must not move; then mutate original
            let snap = m.clone(); let mut c = m.clone();
            let x = a.s::<T>();
            c.fill(x); check_same(m, &snap, "clone.fill");
            let csnap = c.clone(); m.fill_diag(x); check_same(&c, &csnap, "orig.fill_diag"); }
        _ => panic!("harness: unknown matrix op {}", op),
    }
}

pub fn run<T: Elt>(kind: &str, a: &mut Args, out: &mut Out) {
    match kind {
        // mat.hist <M> (<op> <args>)*    after every op: result (if any), P<class> if it panicked, then the state
        // mat.histeq: the same, and after every state dump the derived PartialEq of the matrix against a freshly
        // built one with the same shape and entries (i1 / i0): stale or missing raw storage becomes observable
        "mat.hist" | "mat.histeq" => {
            let eq = kind == "mat.histeq";
            let mut m = a.m::<T>();
            out.m(&m);
            if eq { out.boolean(m == rebuild(&m)); }
            while a.more() {
                let op = a.word();
                let r = catch_unwind(AssertUnwindSafe(|| step(&mut m, op, a, out)));
                if r.is_err() {
                    let msg = crate::LAST_PANIC.with(|p| p.borrow().clone());
                    let cls = crate::classify(&msg);
                    if cls == "harness" || cls == "ratovf" { panic!("{}", msg); }
                    out.toks.push(format!("P{}", cls));
                    // skip the unread arguments of the failed op: ops are separated by ';'
                }
                while a.more() { if a.word() == ";" { break; } }
                out.m(&m);
                if eq { out.boolean(m == rebuild(&m)); }
            }
        }
        // norms of functions.rs (impl Matrix<f64> only): norm_1, norm_inf, norm_max, norm_frob
        "mat.norms" => { let m = a.m::<T>(); let snap = m.clone();
            let mf = as_f64(&m);
            let (n1, ni, nm, nf) = (mf.norm_1(), mf.norm_inf(), mf.norm_max(), mf.norm_frob());
            check_same(&m, &snap, "norms");
            out.f(n1); out.f(ni); out.f(nm); out.f(nf); }
        // f64 * Matrix<f64> (the only scalar-on-the-left operator): owned form only; compared with matrix * scalar
        "mat.scale_l" => { let m = a.m::<T>(); let x = a.f64();
            let mf: Matrix<f64> = as_f64(&m).clone();
            let r = x * mf.clone();
            out.m(&r); out.m(&(mf * x)); }
        // norm_p(p) for a general exponent (libm powf: oracle only)
        "mat.norm_p" => { let m = a.m::<T>(); let p = a.f64(); out.f(as_f64(&m).norm_p(p)); }
        "mat.solve_basic" => { let mut m = a.m::<T>(); let b = a.v::<T>(); let bs = b.clone();
            let x = m.solve_basic(&b); if !same_v(&b, &bs) { panic!("harness: operand mutated by solve_basic"); } out.v(&x); }
        "mat.solve_lu" => { let mut m = a.m::<T>(); let b = a.v::<T>(); let bs = b.clone();
            let x = m.solve_lu(&b); if !same_v(&b, &bs) { panic!("harness: operand mutated by solve_lu"); } out.v(&x); }
        "mat.solve_both" => { let m = a.m::<T>(); let b = a.v::<T>(); let bs = b.clone();
            let mut m1 = m.clone(); let x = m1.solve_basic(&b);
            let mut m2 = m.clone(); let y = m2.solve_lu(&b);
            if !same_v(&b, &bs) { panic!("harness: operand mutated by solve"); }
            out.v(&x); out.v(&y); }
        // the constructors (round four): Matrix::new(r, c, x) with an arbitrary fill value, Matrix::empty()
        "mat.ctor" => { let (r, c) = (a.usize(), a.usize()); let x = a.s::<T>();
            let m = Matrix::<T>::new(r, c, x);
            out.m(&m); out.usize(m.numel()); out.boolean(m == rebuild(&m) || x != x);
            let e = Matrix::<T>::empty();
            out.m(&e); out.usize(e.numel()); out.boolean(e == Matrix::<T>::new(0, 0, x)); }
        "mat.lu" => { let mut m = a.m::<T>(); let (p, perm) = m.lu_decomp_in_place(); out.usize(p); out.m(&perm); out.m(&m); }
        "mat.det" => { let m = a.m::<T>(); let snap = m.clone(); let d = m.determinant(); check_same(&m, &snap, "determinant"); out.s(&d); }
        "mat.inverse" => { let m = a.m::<T>(); let snap = m.clone(); let inv = m.inverse(); check_same(&m, &snap, "inverse"); out.m(&inv); }
        _ => panic!("harness: unknown kind {}", kind),
    }
}
