// Polynomial root finder kinds (C10).  elt = f64 (Polynomial<f64>::roots) | cplx (Polynomial<Cmplx>::roots).
//
//   roots.solve [coeffs] <refine 0|1> <dumplog 0|1>
//     -> usize n, then n complex roots (2n floats);
//        with dumplog = 1 additionally the libm call log recorded by the cfg(ohsl_verif) hook
//        (DESIGN section 9): usize count, then per call  i<which> i<arg0..arg3> i<res0> i<res1>
//        (u64 bit patterns; which: 0 sqrt, 1 pow, 2 polar), or the tag `tnohook` when the ohsl tree
//        the executor was built against does not carry the hook (see harness/build.rs).
//   roots.prim <which> xA xB xC xD   -> the two result floats of Complex::sqrt / pow / polar (public API)
//   roots.twice [coeffs] <f1 0|1> <f2 0|1> [[coeffs2]]
//     history / same object: ONE polynomial object p; p.roots(f1), then (if coeffs2 is given) *p.coeffs() = coeffs2,
//     then p.roots(f2) on the same object, then p.clone().roots(f2), then a FRESH object built from the current
//     coefficients .roots(f2).
//     -> three vectors: second call on the same object, call on the clone, call on the fresh object
//        (each: usize n, 2n floats).  The coefficients of p are compared bitwise with the input afterwards
//        (`operand mutated` is reported by the engine as a violation).
#![allow(unused_imports, dead_code)]
use ohsl::{Cmplx, Polynomial, Vector};
use crate::io::{Args, Out, Elt};

#[cfg(ohsl_has_hook)]
mod hook {
    pub const PRESENT: bool = true;
    pub fn start() { ohsl::verif_hooks::start(); }
    pub fn take() -> Vec<(u8, [u64; 4], [u64; 2])> { ohsl::verif_hooks::take() }
}
#[cfg(not(ohsl_has_hook))]
mod hook {
    pub const PRESENT: bool = false;
    pub fn start() {}
    pub fn take() -> Vec<(u8, [u64; 4], [u64; 2])> { Vec::new() }
}

pub fn run(elt: &str, kind: &str, a: &mut Args, out: &mut Out) {
    match kind {
        "roots.solve" => {
            let roots: Vector<Cmplx>;
            let log;
            match elt {
                "f64" => {
                    let c = a.vec_std::<f64>();
                    let refine = a.usize() != 0;
                    let p = Polynomial::<f64>::new(c);
                    hook::start();
                    let r = std::panic::catch_unwind(std::panic::AssertUnwindSafe(|| p.roots(refine)));
                    log = hook::take();
                    roots = match r { Ok(v) => v, Err(e) => std::panic::resume_unwind(e) };
                }
                "cplx" => {
                    let c = a.vec_std::<Cmplx>();
                    let refine = a.usize() != 0;
                    let p = Polynomial::<Cmplx>::new(c);
                    hook::start();
                    let r = std::panic::catch_unwind(std::panic::AssertUnwindSafe(|| p.roots(refine)));
                    log = hook::take();
                    roots = match r { Ok(v) => v, Err(e) => std::panic::resume_unwind(e) };
                }
                _ => panic!("harness: roots.solve needs elt f64 or cplx, got {}", elt),
            }
            let dumplog = a.usize() != 0;
            out.v(&roots);
            if dumplog {
                if !hook::PRESENT { out.tag("nohook"); }
                else {
                    out.usize(log.len());
                    for (which, args, res) in log.iter() {
                        out.int(*which as i128);
                        for x in args.iter() { out.int(*x as i128); }
                        for x in res.iter() { out.int(*x as i128); }
                    }
                }
            }
        }
        "roots.twice" => {
            fn same_bits(a: &[f64], b: &[f64]) -> bool { a.len() == b.len() && a.iter().zip(b.iter()).all(|(x, y)| x.to_bits() == y.to_bits()) }
            match elt {
                "f64" => {
                    let c = a.vec_std::<f64>();
                    let (f1, f2) = (a.usize() != 0, a.usize() != 0);
                    let mut p = Polynomial::<f64>::new(c.clone());
                    let _first = p.roots(f1);
                    let c = if a.more() { let c2 = a.vec_std::<f64>(); *p.coeffs() = c2.clone(); c2 } else { c };
                    let second = p.roots(f2);
                    let cloned = p.clone().roots(f2);
                    let fresh = Polynomial::<f64>::new(c.clone()).roots(f2);
                    if !same_bits(p.coeffs(), &c) { panic!("harness: operand mutated by Polynomial<f64>::roots"); }
                    out.v(&second); out.v(&cloned); out.v(&fresh);
                }
                "cplx" => {
                    let c = a.vec_std::<Cmplx>();
                    let (f1, f2) = (a.usize() != 0, a.usize() != 0);
                    let mut p = Polynomial::<Cmplx>::new(c.clone());
                    let _first = p.roots(f1);
                    let c = if a.more() { let c2 = a.vec_std::<Cmplx>(); *p.coeffs() = c2.clone(); c2 } else { c };
                    let second = p.roots(f2);
                    let cloned = p.clone().roots(f2);
                    let fresh = Polynomial::<Cmplx>::new(c.clone()).roots(f2);
                    let flat = |v: &Vec<Cmplx>| -> Vec<f64> { v.iter().flat_map(|z| [z.real, z.imag]).collect() };
                    if !same_bits(&flat(p.coeffs()), &flat(&c)) { panic!("harness: operand mutated by Polynomial<Cmplx>::roots"); }
                    out.v(&second); out.v(&cloned); out.v(&fresh);
                }
                _ => panic!("harness: roots.twice needs elt f64 or cplx, got {}", elt),
            }
        }
        "roots.prim" => {
            let which = a.usize();
            let (x0, x1, x2, x3) = (a.f64(), a.f64(), a.f64(), a.f64());
            let r = match which {
                0 => Cmplx::new(x0, x1).sqrt(),
                1 => Cmplx::new(x0, x1).pow(&Cmplx::new(x2, x3)),
                2 => Cmplx::polar(x0, x1),
                _ => panic!("harness: roots.prim which = {}", which),
            };
            out.f(r.real); out.f(r.imag);
        }
        _ => panic!("harness: unknown kind {}", kind),
    }
}
