// Exact rationals over i128 (Copy), implementing the ohsl numeric traits.
// Overflow panics with "ratovf" (the case is discarded); division by zero panics with "ratdiv0".
use std::ops::{Add, Sub, Mul, Div, Neg, AddAssign, SubAssign, MulAssign, DivAssign};
use std::cmp::Ordering;
use ohsl::traits::{Zero, One, Number, Signed};

#[derive(Clone, Copy, Debug)]
pub struct Rat { pub n: i128, pub d: i128 }

fn gcd(mut a: i128, mut b: i128) -> i128 {
    if a < 0 { a = -a; }
    if b < 0 { b = -b; }
    while b != 0 { let t = a % b; a = b; b = t; }
    a
}
fn ck(x: Option<i128>) -> i128 { match x { Some(v) => v, None => panic!("ratovf") } }

impl Rat {
    pub fn new(n: i128, d: i128) -> Rat {
        if d == 0 { panic!("ratdiv0"); }
        let g = gcd(n, d);
        let (mut n, mut d) = if g == 0 { (0, 1) } else { (n / g, d / g) };
        if d < 0 { n = ck(n.checked_neg()); d = ck(d.checked_neg()); }
        // keep magnitudes where products cannot overflow silently
        Rat { n, d }
    }
    pub fn int(n: i128) -> Rat { Rat { n, d: 1 } }
}
impl Default for Rat { fn default() -> Rat { Rat { n: 0, d: 1 } } }
impl PartialEq for Rat { fn eq(&self, o: &Rat) -> bool { self.n == o.n && self.d == o.d } }
impl PartialOrd for Rat {
    fn partial_cmp(&self, o: &Rat) -> Option<Ordering> {
        let l = ck(self.n.checked_mul(o.d));
        let r = ck(o.n.checked_mul(self.d));
        l.partial_cmp(&r)
    }
}
impl Add for Rat { type Output = Rat; fn add(self, o: Rat) -> Rat {
    let g = gcd(self.d, o.d);
    let (sd, od) = (self.d / g, o.d / g);
    let n = ck(ck(self.n.checked_mul(od)).checked_add(ck(o.n.checked_mul(sd))));
    let d = ck(ck(sd.checked_mul(od)).checked_mul(g));
    Rat::new(n, d) } }
impl Neg for Rat { type Output = Rat; fn neg(self) -> Rat { Rat { n: ck(self.n.checked_neg()), d: self.d } } }
impl Sub for Rat { type Output = Rat; fn sub(self, o: Rat) -> Rat { self + (-o) } }
impl Mul for Rat { type Output = Rat; fn mul(self, o: Rat) -> Rat {
    let g1 = gcd(self.n, o.d); let g2 = gcd(o.n, self.d);
    let (g1, g2) = (if g1 == 0 { 1 } else { g1 }, if g2 == 0 { 1 } else { g2 });
    let n = ck((self.n / g1).checked_mul(o.n / g2));
    let d = ck((self.d / g2).checked_mul(o.d / g1));
    Rat::new(n, d) } }
impl Div for Rat { type Output = Rat; fn div(self, o: Rat) -> Rat {
    if o.n == 0 { panic!("ratdiv0"); }
    let inv = if o.n < 0 { Rat { n: ck(o.d.checked_neg()), d: ck(o.n.checked_neg()) } } else { Rat { n: o.d, d: o.n } };
    self * inv } }
impl AddAssign for Rat { fn add_assign(&mut self, o: Rat) { *self = *self + o; } }
impl SubAssign for Rat { fn sub_assign(&mut self, o: Rat) { *self = *self - o; } }
impl MulAssign for Rat { fn mul_assign(&mut self, o: Rat) { *self = *self * o; } }
impl DivAssign for Rat { fn div_assign(&mut self, o: Rat) { *self = *self / o; } }
impl Zero for Rat { fn zero() -> Rat { Rat { n: 0, d: 1 } } }
impl One for Rat { fn one() -> Rat { Rat { n: 1, d: 1 } } }
impl Number for Rat {}
impl Signed for Rat { fn abs(&self) -> Rat { if self.n < 0 { -*self } else { *self } } }
impl std::fmt::Display for Rat { fn fmt(&self, f: &mut std::fmt::Formatter<'_>) -> std::fmt::Result { write!(f, "{}/{}", self.n, self.d) } }
