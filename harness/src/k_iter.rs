// Iterative sparse solvers (C08, C09): f64 only.
//   it.cg | it.bicgstab | it.qmr   <rows> <cols> [ri..] [ci..] [vals..] [b..] [x0..] <max_iter> <tol>
//   it.bicg <itol>                 <rows> <cols> [ri..] [ci..] [vals..] [b..] [x0..] <max_iter> <tol>
// The matrix is built with Sparse::from_triplets from the triplets in the order given.
// Answer: i0 i<k> (Ok(k)) or i1 f<err> (Err(err)), then x (length, components), then the budget.
// With the suffix ".t" (it.cg.t, it.bicg.t, ...) the answer is the stream of the correspondence check:
// i0 i<k> x budget after Ok, i1 budget after Err (a non-converged run is not compared float by float).
// The operands b (a shared reference) must come back bit-for-bit unchanged.
#![allow(unused_imports, dead_code)]
use ohsl::{Sparse, Vector};
use crate::io::{Args, Out, Elt};

// HISTORIES (special-values audit):
//   it.seq <pre> <rows> <cols> [ri..] [ci..] [vals..] [b..] [x0..] <tol> [solver codes..] [budgets..]
// builds the matrix, applies the operation <pre> to it, then calls the listed solvers ONE AFTER THE OTHER on the same
// matrix object and the same x (each call starts from what the previous one left).  Solver codes: 0 cg, 1 bicg itol 1,
// 2 bicg itol 2, 3 bicgstab, 4 qmr.  <pre>: none | tt (transpose twice) | vecs (rebuilt with Sparse::from_vecs from its
// own CSC arrays) | insert (built from all triplets but the last one, which is then stored with Sparse::insert) |
// scale:<f64> (Sparse::scale; the reference matrix is the scaled one) | clone-x (x is replaced by x.clone() first).
// Answer: for every call i0 i<k> | i1 f<err>, then x (length, components), then the budget.
fn run_seq(a: &mut Args, out: &mut Out) {
    let pre = a.word().to_string();
    let rows = a.usize();
    let cols = a.usize();
    let ri = a.usizes();
    let ci = a.usizes();
    let vals = a.vec_std::<f64>();
    if ri.len() != ci.len() || ri.len() != vals.len() { panic!("harness: triplet lists differ in length"); }
    let b = a.v::<f64>();
    let mut x = a.v::<f64>();
    let tol = a.f64();
    let codes = a.usizes();
    let budgets = a.usizes();
    if codes.len() != budgets.len() { panic!("harness: solver and budget lists differ in length"); }
    let mut triplets: Vec<(usize, usize, f64)> = (0..ri.len()).map(|k| (ri[k], ci[k], vals[k])).collect();
    let s: Sparse<f64> = if pre == "insert" && !triplets.is_empty() {
        let last = triplets.pop().unwrap();
        let mut s0 = Sparse::<f64>::from_triplets(rows, cols, &mut triplets);
        s0.insert(last.0, last.1, last.2);
        s0
    } else {
        let s0 = Sparse::<f64>::from_triplets(rows, cols, &mut triplets);
        if pre == "tt" { s0.transpose().transpose() }
        else if pre == "vecs" { Sparse::<f64>::from_vecs(rows, cols, s0.val.clone(), s0.row_index.clone(), s0.col_start.clone()) }
        else if pre.starts_with("scale:") { let c = crate::io::parse_f64(&pre[6..]); let mut s1 = s0; s1.scale(&c); s1 }
        else if pre == "none" || pre == "insert" || pre == "clone-x" { s0 }
        else { panic!("harness: unknown pre-operation {}", pre) }
    };
    if pre == "clone-x" { x = x.clone(); }
    let bsnap: Vec<u64> = (0..b.size()).map(|i| b[i].to_bits()).collect();
    for (c, &max_iter) in codes.iter().zip(budgets.iter()) {
        let r = match *c {
            0 => s.solve_cg(&b, &mut x, max_iter, tol),
            1 => s.solve_bicg(&b, &mut x, max_iter, tol, 1),
            2 => s.solve_bicg(&b, &mut x, max_iter, tol, 2),
            3 => s.solve_bicgstab(&b, &mut x, max_iter, tol),
            4 => s.solve_qmr(&b, &mut x, max_iter, tol),
            _ => panic!("harness: unknown solver code {}", c),
        };
        for i in 0..b.size() {
            if b[i].to_bits() != bsnap[i] { panic!("harness: operand mutated by solver {}", c); }
        }
        match r {
            Ok(k) => { out.usize(0); out.usize(k); }
            Err(e) => { out.usize(1); out.f(e); }
        }
        out.v(&x);
        out.usize(max_iter);
    }
}

pub fn run(kind0: &str, a: &mut Args, out: &mut Out) {
    if kind0 == "it.seq" { return run_seq(a, out); }
    let brief = kind0.ends_with(".t");
    let kind = if brief { &kind0[..kind0.len() - 2] } else { kind0 };
    let itol = if kind == "it.bicg" { a.usize() } else { 0 };
    let rows = a.usize();
    let cols = a.usize();
    let ri = a.usizes();
    let ci = a.usizes();
    let vals = a.vec_std::<f64>();
    if ri.len() != ci.len() || ri.len() != vals.len() { panic!("harness: triplet lists differ in length"); }
    let b = a.v::<f64>();
    let mut x = a.v::<f64>();
    let max_iter = a.usize();
    let tol = a.f64();
    let mut triplets: Vec<(usize, usize, f64)> = (0..ri.len()).map(|k| (ri[k], ci[k], vals[k])).collect();
    let s = Sparse::<f64>::from_triplets(rows, cols, &mut triplets);
    let bsnap: Vec<u64> = (0..b.size()).map(|i| b[i].to_bits()).collect();
    let r = match kind {
        "it.cg" => s.solve_cg(&b, &mut x, max_iter, tol),
        "it.bicg" => s.solve_bicg(&b, &mut x, max_iter, tol, itol),
        "it.bicgstab" => s.solve_bicgstab(&b, &mut x, max_iter, tol),
        "it.qmr" => s.solve_qmr(&b, &mut x, max_iter, tol),
        _ => panic!("harness: unknown kind {}", kind),
    };
    for i in 0..b.size() {
        if b[i].to_bits() != bsnap[i] { panic!("harness: operand mutated by {}", kind); }
    }
    if brief {
        match r {
            Ok(k) => { out.usize(0); out.usize(k); out.v(&x); }
            Err(_) => { out.usize(1); }
        }
        out.usize(max_iter);
        return;
    }
    match r {
        Ok(k) => { out.usize(0); out.usize(k); }
        Err(e) => { out.usize(1); out.f(e); }
    }
    out.v(&x);
    out.usize(max_iter);
}
