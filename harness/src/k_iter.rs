// iter kinds -- filled in by the corresponding check (see /verif/CONVENTIONS.md).
#![allow(unused_imports, dead_code)]
use crate::io::{Args, Out, Elt};
pub fn run(kind: &str, _a: &mut Args, _out: &mut Out) {
    panic!("harness: unknown kind {}", kind);
}
