// Iterative sparse solvers (C08, C09): f64 only.
//   it.cg | it.bicgstab | it.qmr   <rows> <cols> [ri..] [ci..] [vals..] [b..] [x0..] <max_iter> <tol>
//   it.bicg <itol>                 <rows> <cols> [ri..] [ci..] [vals..] [b..] [x0..] <max_iter> <tol>
// The matrix is built with Sparse::from_triplets from the triplets in the order given.
// Answer: i0 i<k> (Ok(k)) or i1 f<err> (Err(err)), then x (length, components), then the budget.
// With the suffix ".t" (it.cg.t, it.bicg.t, ...) the answer is the stream of the correspondence check:
// i0 i<k> x budget after Ok, i1 budget after Err (a non-converged run is not compared float by float).
// The operands b (a shared reference) must come back bit-for-bit unchanged.
#![allow(unused_imports, dead_code)]
use ohsl::{Sparse, Vector};
use crate::io::{Args, Out, Elt};

pub fn run(kind0: &str, a: &mut Args, out: &mut Out) {
    let brief = kind0.ends_with(".t");
    let kind = if brief { &kind0[..kind0.len() - 2] } else { kind0 };
    let itol = if kind == "it.bicg" { a.usize() } else { 0 };
    let rows = a.usize();
    let cols = a.usize();
    let ri = a.usizes();
    let ci = a.usizes();
    let vals = a.vec_std::<f64>();
    if ri.len() != ci.len() || ri.len() != vals.len() { panic!("harness: triplet lists differ in length"); }
    let b = a.v::<f64>();
    let mut x = a.v::<f64>();
    let max_iter = a.usize();
    let tol = a.f64();
    let mut triplets: Vec<(usize, usize, f64)> = (0..ri.len()).map(|k| (ri[k], ci[k], vals[k])).collect();
    let s = Sparse::<f64>::from_triplets(rows, cols, &mut triplets);
    let bsnap: Vec<u64> = (0..b.size()).map(|i| b[i].to_bits()).collect();
    let r = match kind {
        "it.cg" => s.solve_cg(&b, &mut x, max_iter, tol),
        "it.bicg" => s.solve_bicg(&b, &mut x, max_iter, tol, itol),
        "it.bicgstab" => s.solve_bicgstab(&b, &mut x, max_iter, tol),
        "it.qmr" => s.solve_qmr(&b, &mut x, max_iter, tol),
        _ => panic!("harness: unknown kind {}", kind),
    };
    for i in 0..b.size() {
        if b[i].to_bits() != bsnap[i] { panic!("harness: operand mutated by {}", kind); }
    }
    if brief {
        match r {
            Ok(k) => { out.usize(0); out.usize(k); out.v(&x); }
            Err(_) => { out.usize(1); }
        }
        out.usize(max_iter);
        return;
    }
    match r {
        Ok(k) => { out.usize(0); out.usize(k); }
        Err(e) => { out.usize(1); out.f(e); }
    }
    out.v(&x);
    out.usize(max_iter);
}
