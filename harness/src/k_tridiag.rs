// Tridiagonal kinds (C05): tri.ctor tri.views tri.sets tri.arith tri.mul tri.solve tri.empty tri.hist
// Every API call runs under its own catch_unwind: Tridiagonal's explicit panics all carry
// "Tridiagonal error"/"Tridiagonal matrix" (one of them reads "index out of bounds", which the
// generic classifier would take for a Vec bounds failure), so the class is decided here.
use std::any::Any;
use std::panic::{catch_unwind, AssertUnwindSafe};
use ohsl::{Tridiagonal, Vector};
use crate::io::{Args, Out, Elt};

fn class_of(msg: &str) -> &'static str {
    let c = crate::classify(msg);
    if c == "harness" || c == "ratovf" { return c; }
    if msg.starts_with("Tridiagonal") || msg.starts_with("Vector sizes") { "guard" } else { c }
}

// run f; on panic push P<class> and return None (harness/ratovf panics are passed on)
fn caught<R>(out: &mut Out, f: impl FnOnce(&mut Out) -> R) -> Option<R> {
    let mut tmp = Out::new();
    let r = catch_unwind(AssertUnwindSafe(|| f(&mut tmp)));
    match r {
        Ok(v) => { out.toks.append(&mut tmp.toks); Some(v) }
        Err(_) => {
            let msg = crate::LAST_PANIC.with(|p| p.borrow().clone());
            let cls = class_of(&msg);
            if cls == "harness" || cls == "ratovf" { panic!("{}", msg); }
            out.toks.push(format!("P{}", cls));
            None
        }
    }
}

fn dump<T: Elt>(out: &mut Out, t: &Tridiagonal<T>) {
    out.usize(t.size());
    out.v(t.subdiagonal()); out.v(t.maindiagonal()); out.v(t.superdiagonal());
}
fn toks<T: Elt>(t: &Tridiagonal<T>) -> Vec<String> { let mut o = Out::new(); dump(&mut o, t); o.toks }
fn vtoks<T: Elt>(v: &Vector<T>) -> Vec<String> { let mut o = Out::new(); o.v(v); o.toks }
fn unchanged<T: Elt>(t: &Tridiagonal<T>, snap: &Vec<String>, what: &str) {
    if &toks(t) != snap { panic!("harness: operand mutated by {}", what); }
}

fn read3<T: Elt>(a: &mut Args) -> (Vec<T>, Vec<T>, Vec<T>) {
    let s = a.vec_std::<T>(); let m = a.vec_std::<T>(); let p = a.vec_std::<T>();
    (s, m, p)
}

// the views of one matrix: accessors, every (i,j) in [0,n]x[0,n], convert, transpose (both forms), convert of the transpose, det
fn do_views<T: Elt>(t: &Tridiagonal<T>, out: &mut Out) {
    let snap = toks(t);
    dump(out, t);
    let n = t.size();
    for i in 0..n + 1 { for j in 0..n + 1 {
        caught(out, |o| { let x = t[(i, j)]; o.s(&x); });
    } }
    caught(out, |o| { let d = t.convert(); o.m(&d); });
    unchanged(t, &snap, "index/convert");
    let tt = t.transpose();
    unchanged(t, &snap, "transpose");
    dump(out, &tt);
    let mut t2 = t.clone(); t2.transpose_in_place();
    if toks(&t2) != toks(&tt) { panic!("harness: forms differ (transpose / transpose_in_place)"); }
    caught(out, |o| { let d = tt.convert(); o.m(&d); });
    caught(out, |o| { let d = t.det(); o.s(&d); });
    unchanged(t, &snap, "det");
}

fn do_mul<T: Elt>(t: &Tridiagonal<T>, v: &Vector<T>, out: &mut Out) {
    let (snap, vs) = (toks(t), vtoks(v));
    let r = caught(out, |o| { let r = t * v; o.v(&r); r });
    unchanged(t, &snap, "&T * &v");
    if vtoks(v) != vs { panic!("harness: operand mutated by &T * &v"); }
    let mut o2 = Out::new();
    let r2 = caught(&mut o2, |_| t.clone() * v.clone());
    match (r, r2) {
        (Some(x), Some(y)) => if vtoks(&x) != vtoks(&y) { panic!("harness: owned/borrowed forms differ (T*v)"); },
        (None, None) => {},
        _ => panic!("harness: owned/borrowed forms differ (T*v panics)"),
    }
}

fn do_solve<T: Elt>(t: &Tridiagonal<T>, r: &Vector<T>, out: &mut Out) {
    let (snap, rs) = (toks(t), vtoks(r));
    let res = catch_unwind(AssertUnwindSafe(|| t.solve(r)));
    match res {
        Ok(u) => out.v(&u),
        Err(_) => {
            let msg = crate::LAST_PANIC.with(|p| p.borrow().clone());
            let cls = class_of(&msg);
            if cls == "harness" || cls == "ratovf" { panic!("{}", msg); }
            let code = if msg.contains("zero on leading diagonal") { 1 }
                       else if msg.contains("zero pivot") { 2 }
                       else if msg.contains("sizes do not agree") { 3 } else { 0 };
            out.int(code);
            out.toks.push(format!("P{}", cls));
        }
    }
    unchanged(t, &snap, "solve");
    if vtoks(r) != rs { panic!("harness: operand mutated by solve"); }
}

pub fn run<T: Elt>(kind: &str, a: &mut Args, out: &mut Out) {
    match kind {
        // tri.ctor <which> ...   -> dump or P
        "tri.ctor" => {
            let which = a.word();
            match which {
                "with_vecs" => { let (s, m, p) = read3::<T>(a);
                    caught(out, |o| { let t = Tridiagonal::with_vecs(s, m, p); dump(o, &t); }); }
                "with_vectors" => { let (s, m, p) = read3::<T>(a);
                    caught(out, |o| { let t = Tridiagonal::with_vectors(Vector::create(s), Vector::create(m), Vector::create(p)); dump(o, &t); }); }
                "new" => { let n = a.usize();
                    caught(out, |o| { let t = Tridiagonal::<T>::new(n); dump(o, &t); }); }
                "with_elements" => { let (x, y, z) = (a.s::<T>(), a.s::<T>(), a.s::<T>()); let n = a.usize();
                    caught(out, |o| { let t = Tridiagonal::<T>::with_elements(x, y, z, n); dump(o, &t); }); }
                "resize" => { let (s, m, p) = read3::<T>(a); let n = a.usize();
                    caught(out, |o| { let mut t = Tridiagonal::with_vecs(s, m, p); t.resize(n); dump(o, &t); }); }
                _ => panic!("harness: unknown tri.ctor {}", which),
            }
        }
        // tri.empty: the n = 0 object and what each entry point does with it
        "tri.empty" => {
            let t = Tridiagonal::<T>::empty();
            dump(out, &t);
            caught(out, |o| { let d = t.convert(); o.m(&d); });
            caught(out, |o| { let d = t.det(); o.s(&d); });
            caught(out, |o| { let u = t.solve(&Vector::<T>::empty()); o.v(&u); });
            caught(out, |o| { let u = &t * &Vector::<T>::empty(); o.v(&u); });
        }
        // tri.views <sub> <main> <sup>
        "tri.views" => {
            let (s, m, p) = read3::<T>(a);
            let t = match caught(out, |_| Tridiagonal::with_vecs(s, m, p)) { Some(t) => t, None => return };
            do_views(&t, out);
        }
        // tri.sets <sub> <main> <sup> (<i> <j> <x>)*
        "tri.sets" => {
            let (s, m, p) = read3::<T>(a);
            let mut t = match caught(out, |_| Tridiagonal::with_vecs(s, m, p)) { Some(t) => t, None => return };
            dump(out, &t);
            while a.more() {
                let (i, j) = (a.usize(), a.usize()); let x = a.s::<T>();
                let c = t.clone();
                caught(out, |_| { t[(i, j)] = x; });
                // the clone must be independent of the original
                let _ = c;
                dump(out, &t);
            }
        }
        // tri.arith <sub> <main> <sup> <sub2> <main2> <sup2> <s>
        "tri.arith" => {
            let (s, m, p) = read3::<T>(a);
            let (s2, m2, p2) = read3::<T>(a);
            let x = a.s::<T>();
            let t = match caught(out, |_| Tridiagonal::with_vecs(s, m, p)) { Some(t) => t, None => return };
            let t2 = match caught(out, |_| Tridiagonal::with_vecs(s2, m2, p2)) { Some(t) => t, None => return };
            let snap = toks(&t);
            caught(out, |o| { let r = -(t.clone()); dump(o, &r); });
            caught(out, |o| { let r = t.clone() + t2.clone(); dump(o, &r); });
            caught(out, |o| { let r = t.clone() - t2.clone(); dump(o, &r); });
            caught(out, |o| { let r = t.clone() * x; dump(o, &r); });
            {   // f64 * Tridiagonal<f64> exists for f64 only
                let tb: Box<dyn Any> = Box::new(t.clone());
                let xb: Box<dyn Any> = Box::new(x);
                if let (Ok(tf), Ok(xf)) = (tb.downcast::<Tridiagonal<f64>>(), xb.downcast::<f64>()) {
                    caught(out, |o| { let r = *xf * *tf; dump(o, &r); });
                }
            }
            caught(out, |o| { let r = t.clone() / x; dump(o, &r); });
            caught(out, |o| { let mut r = t.clone(); r += x; dump(o, &r); });
            caught(out, |o| { let mut r = t.clone(); r -= x; dump(o, &r); });
            caught(out, |o| { let mut r = t.clone(); r *= x; dump(o, &r); });
            caught(out, |o| { let mut r = t.clone(); r /= x; dump(o, &r); });
            unchanged(&t, &snap, "arithmetic on clones");
        }
        // tri.mul <sub> <main> <sup> <v>
        "tri.mul" => {
            let (s, m, p) = read3::<T>(a);
            let v = a.v::<T>();
            let t = match caught(out, |_| Tridiagonal::with_vecs(s, m, p)) { Some(t) => t, None => return };
            do_mul(&t, &v, out);
        }
        // tri.solve <sub> <main> <sup> <r>   -> solution, or message code + P<class>
        "tri.solve" => {
            let (s, m, p) = read3::<T>(a);
            let r = a.v::<T>();
            let t = match caught(out, |_| Tridiagonal::with_vecs(s, m, p)) { Some(t) => t, None => return };
            do_solve(&t, &r, out);
        }
        // tri.hist <ctor> <args> (<op> <args> ;)*
        //   ctor: vecs s m p | vectors s m p | elements a b c n | new n
        //   mutating ops answer nothing (P<class> when they panic; the state is then the one before the op):
        //     set i j x | tip | tr | clone | adds x | subs x | muls x | divs x | neg | scale x | div x | lscale x (f64) |
        //     addt s m p | subt s m p | resize n
        //   views answer as the single-shot kinds do: dump | views | mul v | solve r
        "tri.hist" => {
            let which = a.word();
            let built = match which {
                "vecs" => { let (s, m, p) = read3::<T>(a); caught(out, |_| Tridiagonal::with_vecs(s, m, p)) }
                "vectors" => { let (s, m, p) = read3::<T>(a);
                    caught(out, |_| Tridiagonal::with_vectors(Vector::create(s), Vector::create(m), Vector::create(p))) }
                "elements" => { let (x, y, z) = (a.s::<T>(), a.s::<T>(), a.s::<T>()); let n = a.usize();
                    caught(out, |_| Tridiagonal::<T>::with_elements(x, y, z, n)) }
                "new" => { let n = a.usize(); caught(out, |_| Tridiagonal::<T>::new(n)) }
                _ => panic!("harness: unknown tri.hist constructor {}", which),
            };
            let mut t = match built { Some(t) => t, None => return };
            while a.more() {
                let op = a.word();
                match op {
                    "dump" => dump(out, &t),
                    "views" => do_views(&t, out),
                    "mul" => { let v = a.v::<T>(); do_mul(&t, &v, out); }
                    "solve" => { let r = a.v::<T>(); do_solve(&t, &r, out); }
                    "set" => { let (i, j) = (a.usize(), a.usize()); let x = a.s::<T>(); caught(out, |_| { t[(i, j)] = x; }); }
                    "tip" => { caught(out, |_| { t.transpose_in_place(); }); }
                    "adds" => { let x = a.s::<T>(); caught(out, |_| { t += x; }); }
                    "subs" => { let x = a.s::<T>(); caught(out, |_| { t -= x; }); }
                    "muls" => { let x = a.s::<T>(); caught(out, |_| { t *= x; }); }
                    "divs" => { let x = a.s::<T>(); caught(out, |_| { t /= x; }); }
                    "resize" => { let n = a.usize(); caught(out, |_| { t.resize(n); }); }
                    // value-returning forms with a borrowed receiver (&self): applied to the current state itself, which must come out
                    // unchanged (receiver snapshot); the result then replaces it
                    "tr" | "clone" => {
                        let snap = toks(&t);
                        let r = if op == "tr" { caught(out, |_| t.transpose()) } else { caught(out, |_| t.clone()) };
                        unchanged(&t, &snap, if op == "tr" { "transpose(&self)" } else { "clone(&self)" });
                        if let Some(r) = r { t = r; }
                    }
                    _ => {
                        // value-returning forms that consume their receiver (self by value): computed from a clone of the current
                        // state, which then replaces it (nothing of the receiver is left to observe)
                        let cur = t.clone();
                        let r = match op {
                            "neg" => caught(out, |_| -cur),
                            "scale" => { let x = a.s::<T>(); caught(out, |_| cur * x) }
                            "div" => { let x = a.s::<T>(); caught(out, |_| cur / x) }
                            "lscale" => { let x = a.s::<T>();
                                let tb: Box<dyn Any> = Box::new(cur);
                                let xb: Box<dyn Any> = Box::new(x);
                                match (tb.downcast::<Tridiagonal<f64>>(), xb.downcast::<f64>()) {
                                    (Ok(tf), Ok(xf)) => {
                                        let r = caught(out, |_| *xf * *tf);
                                        r.map(|r| { let rb: Box<dyn Any> = Box::new(r); *rb.downcast::<Tridiagonal<T>>().ok().expect("harness: lscale type") })
                                    }
                                    _ => panic!("harness: lscale exists for f64 only"),
                                } }
                            "addt" => { let (s, m, p) = read3::<T>(a);
                                let t2 = Tridiagonal::with_vecs(s, m, p); caught(out, |_| cur + t2) }
                            "subt" => { let (s, m, p) = read3::<T>(a);
                                let t2 = Tridiagonal::with_vecs(s, m, p); caught(out, |_| cur - t2) }
                            _ => panic!("harness: unknown tri.hist op {}", op),
                        };
                        if let Some(r) = r { t = r; }
                    }
                }
                while a.more() { if a.word() == ";" { break; } }
            }
        }
        _ => panic!("harness: unknown kind {}", kind),
    }
}
