// exec: line-protocol executor of the ohsl API (see /verif/DESIGN.md, appendix A).
//   exec <cases-file> <answers-file>
// one case per line:   <id> <elt> <kind> <args...>
// one answer per line: <id> <tokens...>      (the last token is P<class> if the case panicked)
mod rat;
mod io;
mod k_matrix;
mod k_vector;
mod k_complex;
mod k_banded;
mod k_tridiag;
mod k_sparse;
mod k_poly;
mod k_newton;
mod k_mesh;
mod k_iter;
mod k_roots;
mod k_cfun;
mod k_guards;
mod fnast;

use std::io::{BufRead, Write};
use std::panic::{catch_unwind, AssertUnwindSafe};
use std::cell::RefCell;
use io::{Args, Out};
use rat::Rat;
use ohsl::Cmplx;

thread_local! { static LAST_PANIC: RefCell<String> = RefCell::new(String::new()); }

fn classify(msg: &str) -> &'static str {
    if msg.contains("harness:") { "harness" }
    else if msg.contains("ratovf") { "ratovf" }
    else if msg.contains("ratdiv0") { "divzero" }
    else if msg.contains("subtract with overflow") || msg.contains("add with overflow") || msg.contains("multiply with overflow") { "underflow" }
    else if msg.contains("index out of bounds") || msg.contains("out of range") || msg.contains("out of bounds") && msg.contains("len") || msg.contains("insertion index") || msg.contains("removal index") || msg.contains("range end index") || msg.contains("range start index") || msg.contains("slice index") { "index" }
    else if msg.contains("called `Option::unwrap()`") || msg.contains("called `Result::unwrap()`") { "unwrap" }
    else { "guard" }
}

fn dispatch(elt: &str, kind: &str, a: &mut Args, out: &mut Out) {
    let fam = kind.split('.').next().unwrap_or("");
    macro_rules! by_elt { ($m:ident) => { match elt {
        "rat" => $m::run::<Rat>(kind, a, out),
        "f64" => $m::run::<f64>(kind, a, out),
        "cplx" => $m::run::<Cmplx>(kind, a, out),
        _ => panic!("harness: unknown family/elt {} {}", kind, elt),
    } } }
    match fam {
        "mat" => by_elt!(k_matrix),
        "vec" => by_elt!(k_vector),
        "band" => by_elt!(k_banded),
        "tri" => by_elt!(k_tridiag),
        "sp" => by_elt!(k_sparse),
        "poly" => by_elt!(k_poly),
        "newton" => by_elt!(k_newton),
        "mesh" => by_elt!(k_mesh),
        // Complex<T> kinds carry their own element handling (elt = "crat" | "cplx")
        "cx" => k_complex::run_cx(elt, kind, a, out),
        // f64-only families
        "it" => k_iter::run(kind, a, out),        // iterative sparse solvers (C08, C09)
        "roots" => k_roots::run(elt, kind, a, out),   // Polynomial::roots (C10), elt = f64 | cplx
        "guard" => k_guards::run_kind(kind, a, out),   // C20: checked entry points on explicit size tuples
        "cf" => k_cfun::run(kind, a, out),        // Complex<f64> elementary/trig/hyperbolic functions (C14)
        _ => panic!("harness: unknown family/elt {} {}", kind, elt),
    }
}

fn main() {
    let argv: Vec<String> = std::env::args().collect();
    if argv.len() < 3 { eprintln!("usage: exec <cases> <answers>"); std::process::exit(2); }
    std::panic::set_hook(Box::new(|info| {
        let msg = if let Some(s) = info.payload().downcast_ref::<&str>() { s.to_string() }
                  else if let Some(s) = info.payload().downcast_ref::<String>() { s.clone() }
                  else { "unknown".to_string() };
        LAST_PANIC.with(|p| *p.borrow_mut() = msg);
    }));
    let fin = std::io::BufReader::new(std::fs::File::open(&argv[1]).expect("open cases"));
    let mut fout = std::io::BufWriter::new(std::fs::File::create(&argv[2]).expect("create answers"));
    // every case runs in its own thread under a watchdog: a call that does not return (an unbounded loop introduced
    // by a change of the library) is answered with `Ptimeout` and the run goes on; the abandoned thread dies with the
    // process.  VERIF_CASE_TIMEOUT (seconds, default 10); after three timeouts the limit drops to 2 s.
    let limit: u64 = std::env::var("VERIF_CASE_TIMEOUT").ok().and_then(|v| v.parse().ok()).unwrap_or(10);
    let mut timeouts = 0u32;
    for line in fin.lines() {
        let line = line.unwrap();
        let id = match line.split_whitespace().next() { Some(t) => t.to_string(), None => continue };
        if line.split_whitespace().count() < 3 { continue; }
        let (tx, rx) = std::sync::mpsc::channel::<String>();
        let l2 = line.clone();
        let h = std::thread::Builder::new().stack_size(256 << 20).spawn(move || {
            let toks: Vec<&str> = l2.split_whitespace().collect();
            let (elt, kind) = (toks[1], toks[2]);
            let mut args = Args::new(toks[3..].to_vec());
            let mut out = Out::new();
            let r = catch_unwind(AssertUnwindSafe(|| dispatch(elt, kind, &mut args, &mut out)));
            if r.is_err() {
                let msg = LAST_PANIC.with(|p| p.borrow().clone());
                out.toks.push(format!("P{}", classify(&msg)));
                if classify(&msg) == "harness" { out.toks.push(format!("#{}", msg.replace(' ', "_"))); }
            }
            let _ = tx.send(out.toks.join(" "));
        }).expect("spawn case thread");
        let secs = if timeouts >= 3 { 2 } else { limit };
        match rx.recv_timeout(std::time::Duration::from_secs(secs)) {
            Ok(ans) => { let _ = h.join(); writeln!(fout, "{} {}", id, ans).unwrap(); }
            Err(_) => { timeouts += 1; writeln!(fout, "{} Ptimeout", id).unwrap(); }
        }
    }
    fout.flush().unwrap();
    drop(fout);
    std::process::exit(0);      // abandoned (timed-out) case threads end here
}
