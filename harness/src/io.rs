// Token-level protocol shared by every kind: typed argument reader and typed output writer.
use ohsl::{Cmplx, Complex, Matrix, Vector};
use ohsl::traits::{Number, Signed};
use crate::rat::Rat;

pub struct Out { pub toks: Vec<String> }
impl Out {
    pub fn new() -> Out { Out { toks: Vec::new() } }
    pub fn int(&mut self, i: i128) { self.toks.push(format!("i{}", i)); }
    pub fn usize(&mut self, i: usize) { self.int(i as i128); }
    pub fn boolean(&mut self, b: bool) { self.int(if b { 1 } else { 0 }); }
    pub fn f(&mut self, x: f64) {
        let b = if x.is_nan() { 0x7FF8000000000000u64 } else { x.to_bits() };
        self.toks.push(format!("f{}", b));
    }
    pub fn q(&mut self, r: Rat) { self.toks.push(format!("q{}/{}", r.n, r.d)); }
    pub fn s<T: Elt>(&mut self, x: &T) { x.emit(self); }
    pub fn v<T: Elt>(&mut self, v: &Vector<T>) {
        self.usize(v.size());
        for i in 0..v.size() { v[i].emit(self); }
    }
    pub fn m<T: Elt>(&mut self, m: &Matrix<T>) {
        self.usize(m.rows()); self.usize(m.cols());
        for i in 0..m.rows() { for j in 0..m.cols() { m[(i, j)].emit(self); } }
    }
    pub fn tag(&mut self, s: &str) { self.toks.push(format!("t{}", s)); }
}

pub trait Elt: Copy + Clone + Number + Signed + PartialOrd + std::fmt::Debug + 'static {
    fn parse(s: &str) -> Self;
    fn emit(&self, out: &mut Out);
}

pub fn parse_f64(s: &str) -> f64 {
    let h = s.strip_prefix('x').unwrap_or_else(|| panic!("harness: bad f64 token {}", s));
    f64::from_bits(u64::from_str_radix(h, 16).expect("harness: bad hex"))
}
pub fn parse_rat(s: &str) -> Rat {
    match s.split_once('/') {
        Some((n, d)) => Rat::new(n.parse().expect("harness: bad rat"), d.parse().expect("harness: bad rat")),
        None => Rat::int(s.parse().expect("harness: bad rat")),
    }
}
impl Elt for f64 {
    fn parse(s: &str) -> f64 { parse_f64(s) }
    fn emit(&self, out: &mut Out) { out.f(*self); }
}
impl Elt for Rat {
    fn parse(s: &str) -> Rat { parse_rat(s) }
    fn emit(&self, out: &mut Out) { out.q(*self); }
}
impl Elt for Cmplx {
    fn parse(s: &str) -> Cmplx {
        let (a, b) = s.split_once(':').expect("harness: bad cplx");
        Cmplx::new(parse_f64(a), parse_f64(b))
    }
    fn emit(&self, out: &mut Out) { out.f(self.real); out.f(self.imag); }
}
pub fn parse_crat(s: &str) -> Complex<Rat> {
    let (a, b) = s.split_once(':').expect("harness: bad crat");
    Complex::new(parse_rat(a), parse_rat(b))
}
pub fn emit_crat(z: &Complex<Rat>, out: &mut Out) { out.q(z.real); out.q(z.imag); }

pub struct Args<'a> { toks: Vec<&'a str>, pos: usize }
impl<'a> Args<'a> {
    pub fn new(toks: Vec<&'a str>) -> Args<'a> { Args { toks, pos: 0 } }
    pub fn word(&mut self) -> &'a str {
        if self.pos >= self.toks.len() { panic!("harness: missing argument"); }
        self.pos += 1; self.toks[self.pos - 1]
    }
    pub fn more(&self) -> bool { self.pos < self.toks.len() }
    pub fn usize(&mut self) -> usize { self.word().parse().expect("harness: bad usize") }
    pub fn isize(&mut self) -> isize { self.word().parse().expect("harness: bad isize") }
    pub fn f64(&mut self) -> f64 { parse_f64(self.word()) }
    pub fn s<T: Elt>(&mut self) -> T { T::parse(self.word()) }
    fn list(tok: &'a str) -> Vec<&'a str> {
        let inner = tok.strip_prefix('[').and_then(|t| t.strip_suffix(']')).unwrap_or_else(|| panic!("harness: bad list {}", tok));
        if inner.is_empty() { Vec::new() } else { inner.split(',').collect() }
    }
    pub fn vec_std<T: Elt>(&mut self) -> Vec<T> { Self::list(self.word()).into_iter().map(T::parse).collect() }
    pub fn v<T: Elt>(&mut self) -> Vector<T> { Vector::create(self.vec_std()) }
    pub fn usizes(&mut self) -> Vec<usize> { Self::list(self.word()).into_iter().map(|t| t.parse().expect("harness: bad usize")).collect() }
    pub fn strs(&mut self) -> Vec<&'a str> { Self::list(self.word()) }
    // M<r>x<c>[...] built through the public API only (new + index)
    pub fn m<T: Elt>(&mut self) -> Matrix<T> {
        let tok = self.word();
        let t = tok.strip_prefix('M').expect("harness: bad matrix");
        let (dims, rest) = t.split_at(t.find('[').expect("harness: bad matrix"));
        let (r, c) = dims.split_once('x').expect("harness: bad matrix");
        let (r, c): (usize, usize) = (r.parse().unwrap(), c.parse().unwrap());
        let vals: Vec<T> = Self::list(rest).into_iter().map(T::parse).collect();
        assert_eq!(vals.len(), r * c, "harness: matrix literal size");
        let mut m = Matrix::<T>::new(r, c, T::zero());
        for i in 0..r { for j in 0..c { m[(i, j)] = vals[i * c + j]; } }
        m
    }
}
