// Mesh kinds (C19): histories of operations on one Mesh1D<T,T> / Mesh2D<T>.
//   mesh.hist1 <nvars> <nodes> (<op> <args> ;)*
//   mesh.hist2 <nvars> <xnodes> <ynodes> (<op> <args> ;)*
// After every op: the op's result (if any) or P<class> if it panicked; the op `dump` reads the whole
// state back through the public API.  An op that may have written part of its effect before
// panicking ends the history (the model does the same).
// Nodes of a Mesh2D are f64 in the library; they are carried exactly in the element type of the
// run (a dyadic rational in the exact tier).  Only the public API of ohsl is used.
#![allow(unused_imports, dead_code)]
use std::any::Any;
use std::panic::{catch_unwind, AssertUnwindSafe};
use ohsl::{Mesh1D, Mesh2D, Vector, Matrix, Cmplx};
use crate::io::{Args, Out, Elt};
use crate::rat::Rat;
use crate::fnast;

fn to_f64<T: Elt>(x: &T) -> f64 {
    let a = x as &dyn Any;
    if let Some(v) = a.downcast_ref::<f64>() { return *v; }
    if let Some(r) = a.downcast_ref::<Rat>() {
        let v = (r.n as f64) / (r.d as f64);
        // must be exact: the model carries the rational
        let back = f64_to_rat(v);
        if back.n != r.n || back.d != r.d { panic!("harness: node {}/{} is not an f64", r.n, r.d); }
        return v;
    }
    if let Some(c) = a.downcast_ref::<Cmplx>() { return c.real; }
    panic!("harness: to_f64");
}

fn f64_to_rat(x: f64) -> Rat {
    if x == 0.0 { return Rat::int(0); }
    if !x.is_finite() { panic!("ratovf"); }
    let bits = x.to_bits();
    let sign: i128 = if (bits >> 63) == 1 { -1 } else { 1 };
    let e = ((bits >> 52) & 0x7ff) as i32;
    let frac = (bits & 0xfffffffffffff) as i128;
    let (mut m, mut ex) = if e == 0 { (frac, -1074) } else { (frac | (1i128 << 52), e - 1075) };
    while m % 2 == 0 { m /= 2; ex += 1; }
    if ex >= 0 {
        if ex > 60 { panic!("ratovf"); }
        Rat::new(sign * (m << ex), 1)
    } else {
        if -ex > 100 { panic!("ratovf"); }
        Rat::new(sign * m, 1i128 << (-ex))
    }
}

fn from_f64<T: Elt>(x: f64) -> T {
    let mut out = T::zero();
    {
        let a = &mut out as &mut dyn Any;
        if let Some(v) = a.downcast_mut::<f64>() { *v = x; }
        else if let Some(r) = a.downcast_mut::<Rat>() { *r = f64_to_rat(x); }
        else if let Some(c) = a.downcast_mut::<Cmplx>() { *c = Cmplx::new(x, 0.0); }
        else { panic!("harness: from_f64"); }
    }
    out
}

fn nodes_f64<T: Elt>(v: &Vector<T>) -> Vector<f64> {
    let mut r = Vec::new();
    for i in 0..v.size() { r.push(to_f64(&v[i])); }
    Vector::create(r)
}
fn emit_f64_vec<T: Elt>(v: &Vector<f64>, out: &mut Out) {
    out.usize(v.size());
    for i in 0..v.size() { from_f64::<T>(v[i]).emit(out); }
}

fn dump1<T: Elt>(m: &Mesh1D<T, T>, out: &mut Out) {
    out.usize(m.nvars());
    out.v(&m.nodes());
    for k in 0..m.nnodes() { out.v(&m[k]); }
}
fn dump1x<T: Elt>(m: &Mesh1D<T, f64>, out: &mut Out) {
    out.usize(m.nvars());
    emit_f64_vec::<T>(&m.nodes(), out);
    for k in 0..m.nnodes() { out.v(&m[k]); }
}
fn dump2<T: Elt>(m: &Mesh2D<T>, out: &mut Out) {
    out.usize(m.nvars());
    let (nx, ny) = m.nnodes();
    out.usize(nx); out.usize(ny);
    emit_f64_vec::<T>(&m.xnodes(), out);
    emit_f64_vec::<T>(&m.ynodes(), out);
    for i in 0..nx { for j in 0..ny { out.v(&m[(i, j)]); } }
}

// the file as written: number of lines, then per line the number of whitespace tokens and the tokens
// parsed with f64::from_str (the parser the library's reader uses)
fn emit_file(path: &str, out: &mut Out) {
    let text = std::fs::read_to_string(path).unwrap_or_else(|_| panic!("harness: cannot read back {}", path));
    let mut lines: Vec<&str> = text.split('\n').collect();
    if let Some(l) = lines.last() { if l.is_empty() { lines.pop(); } }
    out.usize(lines.len());
    for l in lines {
        let toks: Vec<&str> = l.split_whitespace().collect();
        out.usize(toks.len());
        for t in toks {
            // a token the reader's parser rejects is reported as NaN (never written by a case: values are finite), so that a
            // corrupted file shows up as a difference from the model's tokens rather than as an executor failure
            let x: f64 = t.parse().unwrap_or(f64::NAN);
            out.f(x);
        }
    }
}

// Every output goes to a file that ALREADY EXISTS and is longer than anything the cases write (a previous, larger
// mesh written under the same name): `output` must replace it, not overwrite its head (seeded mutation C19-6 lost the
// truncation and passed every round trip through a fresh file).
fn stale(path: &str) {
    let line = "9.25e0 ".repeat(16);
    let text: String = (0..96).map(|_| format!("{}\n", line)).collect();
    std::fs::write(path, text).unwrap_or_else(|_| panic!("harness: cannot prepare {}", path));
}

fn as_f64_1<T: Elt>(m: &mut Mesh1D<T, T>) -> &mut Mesh1D<f64, f64> {
    (m as &mut dyn Any).downcast_mut::<Mesh1D<f64, f64>>().unwrap_or_else(|| panic!("harness: f64-only mesh op"))
}
fn as_f64_2<T: Elt>(m: &mut Mesh2D<T>) -> &mut Mesh2D<f64> {
    (m as &mut dyn Any).downcast_mut::<Mesh2D<f64>>().unwrap_or_else(|| panic!("harness: f64-only mesh op"))
}

fn step1<T: Elt>(m: &mut Mesh1D<T, T>, op: &str, a: &mut Args, out: &mut Out) {
    match op {
        "set" => { let k = a.usize(); let v = a.v::<T>(); m.set_nodes_vars(k, v); }
        "get" => { let k = a.usize(); let v = m.get_nodes_vars(k); out.v(&v); }
        "idx" => { let k = a.usize(); let v = m[k].clone(); out.v(&v); }
        "idxset" => { let k = a.usize(); let v = a.v::<T>(); m[k] = v; }
        "idxelem" => { let k = a.usize(); let var = a.usize(); let x = a.s::<T>(); m[k][var] = x; }
        "coord" => { let k = a.usize(); let x = m.coord(k); out.s(&x); }
        "nnodes" => { out.usize(m.nnodes()); }
        "dump" => { dump1(m, out); }
        "interp" => { let x = a.f64(); let v = as_f64_1(m).get_interpolated_vars(x); out.v(&v); }
        "trap" => { let var = a.usize(); let s = as_f64_1(m).trapezium(var); out.f(s); }
        "file" => { let prec = a.usize(); let path = a.word(); let nv2 = a.usize(); let nodes2 = a.v::<f64>();
            let mf = as_f64_1(m);
            stale(path);
            mf.output(path, prec);
            emit_file(path, out);
            let mut m2 = Mesh1D::<f64, f64>::new(nodes2, nv2);
            m2.read(path);
            dump1(&m2, out);
            let _ = std::fs::remove_file(path); }
        "reread" => { let prec = a.usize(); let path = a.word();
            let mf = as_f64_1(m);
            stale(path);
            mf.output(path, prec);
            emit_file(path, out);
            mf.read(path);
            let _ = std::fs::remove_file(path);
            dump1(m, out); }
        // output, then read() into a mesh that already HOLDS data (nodes2, data2 row-major; as many variables as the writer):
        // the file as written, the reader through the index path, the guarded path + coord, the quadrature of every variable on the
        // mesh that was read, and the writer again (the reader must not touch it)
        "fileinto" => { let prec = a.usize(); let path = a.word(); let nodes2 = a.v::<f64>(); let data2 = a.v::<f64>();
            let mf = as_f64_1(m);
            let nv = mf.nvars(); let n2 = nodes2.size();
            if data2.size() != n2 * nv { panic!("harness: fileinto data length"); }
            stale(path);
            mf.output(path, prec);
            emit_file(path, out);
            let mut m2 = Mesh1D::<f64, f64>::new(nodes2, nv);
            for k in 0..n2 { m2.set_nodes_vars(k, Vector::create((0..nv).map(|v| data2[k * nv + v]).collect())); }
            m2.read(path);
            let _ = std::fs::remove_file(path);
            dump1(&m2, out);
            out.usize(m2.nnodes());
            for k in 0..m2.nnodes() { out.v(&m2.get_nodes_vars(k)); out.f(m2.coord(k)); }
            for v in 0..nv { out.f(m2.trapezium(v)); }
            dump1(m, out); }
        _ => panic!("harness: unknown mesh1 op {}", op),
    }
}
fn ends1(op: &str) -> bool { matches!(op, "idxelem" | "file" | "reread" | "fileinto") }

fn step2<T: Elt>(m: &mut Mesh2D<T>, op: &str, a: &mut Args, out: &mut Out) {
    match op {
        "set" => { let i = a.usize(); let j = a.usize(); let v = a.v::<T>(); m.set_nodes_vars(i, j, v); }
        "get" => { let i = a.usize(); let j = a.usize(); let v = m.get_nodes_vars(i, j); out.v(&v); }
        "idx" => { let i = a.usize(); let j = a.usize(); let v = m[(i, j)].clone(); out.v(&v); }
        "idxset" => { let i = a.usize(); let j = a.usize(); let v = a.v::<T>(); m[(i, j)] = v; }
        "idxelem" => { let i = a.usize(); let j = a.usize(); let var = a.usize(); let x = a.s::<T>(); m[(i, j)][var] = x; }
        "assign" => { let x = a.s::<T>(); m.assign(x); }
        "xsec" => { let i = a.usize(); let s = m.cross_section_xnode(i); dump1x(&s, out); }
        "ysec" => { let j = a.usize(); let s = m.cross_section_ynode(j); dump1x(&s, out); }
        "varmat" => { let var = a.usize(); let mm = m.var_as_matrix(var); out.m(&mm); }
        "apply" => { let e = fnast::parse::<T>(a.word()); let var = a.usize();
            let f = move |x: f64, y: f64| -> T { fnast::eval(&e, &[from_f64::<T>(x), from_f64::<T>(y)]) };
            m.apply(&f, var); }
        "coord" => { let i = a.usize(); let j = a.usize(); let (x, y) = m.coord(i, j);
            from_f64::<T>(x).emit(out); from_f64::<T>(y).emit(out); }
        "nnodes" => { let (nx, ny) = m.nnodes(); out.usize(nx); out.usize(ny); }
        "dump" => { dump2(m, out); }
        "trap" => { let var = a.usize(); let s = as_f64_2(m).trapezium(var); out.f(s); }
        "sqtrap" => { let var = a.usize(); let s = as_f64_2(m).square_trapezium(var); out.f(s); }
        "file" => { let prec = a.usize(); let path = a.word();
            stale(path); as_f64_2(m).output(path, prec); emit_file(path, out); let _ = std::fs::remove_file(path); }
        "filevar" => { let prec = a.usize(); let path = a.word(); let var = a.usize();
            stale(path); as_f64_2(m).output_var(path, var, prec); emit_file(path, out); let _ = std::fs::remove_file(path); }
        _ => panic!("harness: unknown mesh2 op {}", op),
    }
}
fn ends2(op: &str) -> bool { matches!(op, "idxelem" | "assign" | "apply" | "file" | "filevar") }

// returns Some(class) if the step panicked with a library panic; re-raises machinery panics
fn guarded<F: FnOnce()>(f: F) -> Option<&'static str> {
    let r = catch_unwind(AssertUnwindSafe(f));
    if r.is_err() {
        let msg = crate::LAST_PANIC.with(|p| p.borrow().clone());
        let cls = crate::classify(&msg);
        if cls == "harness" || cls == "ratovf" { panic!("{}", msg); }
        return Some(cls);
    }
    None
}

pub fn run<T: Elt>(kind: &str, a: &mut Args, out: &mut Out) {
    match kind {
        "mesh.hist1" => {
            let nvars = a.usize();
            let nodes = a.v::<T>();
            let mut m = Mesh1D::<T, T>::new(nodes, nvars);
            while a.more() {
                let op = a.word();
                let p = guarded(|| step1(&mut m, op, a, out));
                while a.more() { if a.word() == ";" { break; } }
                if let Some(cls) = p {
                    out.toks.push(format!("P{}", cls));
                    if ends1(op) { break; }
                }
            }
        }
        "mesh.hist2" => {
            let nvars = a.usize();
            let xs = a.v::<T>();
            let ys = a.v::<T>();
            let mut m = Mesh2D::<T>::new(nodes_f64(&xs), nodes_f64(&ys), nvars);
            while a.more() {
                let op = a.word();
                let p = guarded(|| step2(&mut m, op, a, out));
                while a.more() { if a.word() == ";" { break; } }
                if let Some(cls) = p {
                    out.toks.push(format!("P{}", cls));
                    if ends2(op) { break; }
                }
            }
        }
        _ => panic!("harness: unknown kind {}", kind),
    }
}
