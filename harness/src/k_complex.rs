// Complex kinds (C13): elt = "crat" (Complex<Rat>) or "cplx" (Complex<f64>).
// Every operator impl of src/complex/mod.rs has its own kind; the `cx.pair.*` kinds run the binary
// form and the compound-assignment form on the same operands and emit both results (the property
// demands bit identity between the two); `cx.cmp` / `cx.cmp3` observe equality and the ordering.
// Only the public API of ohsl is used (operators, `new`, `conj`, `abs_sqr`, `abs`, Zero/One,
// PartialEq/PartialOrd, Clone, the public fields `real` / `imag`).
#![allow(unused_imports, dead_code)]
use std::cmp::Ordering;
use ohsl::{Cmplx, Complex};
use ohsl::traits::{Number, Signed, Zero, One};
use crate::io::{Args, Out, Elt};
use crate::rat::Rat;

fn pz<T: Elt>(a: &mut Args) -> Complex<T> {
    let tok = a.word();
    let (re, im) = tok.split_once(':').unwrap_or_else(|| panic!("harness: bad complex token {}", tok));
    Complex::new(T::parse(re), T::parse(im))
}
fn ez<T: Elt>(z: &Complex<T>, out: &mut Out) { z.real.emit(out); z.imag.emit(out); }

fn ord_code(o: Option<Ordering>) -> i128 {
    match o { Some(Ordering::Less) => 0, Some(Ordering::Equal) => 1, Some(Ordering::Greater) => 2, None => 3 }
}

// a clone taken before an operator call must still describe the operand afterwards (all operators take
// their operands by value, so this can only fail if `clone` itself is wrong)
fn same_tokens<T: Elt>(x: &Complex<T>, y: &Complex<T>) -> bool {
    let (mut o1, mut o2) = (Out::new(), Out::new());
    ez(x, &mut o1); ez(y, &mut o2);
    o1.toks == o2.toks
}

fn binary<T: Elt>(op: &str, z: Complex<T>, w: Complex<T>) -> Complex<T> {
    match op { "add" => z + w, "sub" => z - w, "mul" => z * w, "div" => z / w,
               _ => panic!("harness: unknown complex binary op {}", op) }
}
fn assign<T: Elt>(op: &str, z: Complex<T>, w: Complex<T>) -> Complex<T> {
    let mut t = z;
    match op { "add" => { t += w; } "sub" => { t -= w; } "mul" => { t *= w; } "div" => { t /= w; }
               _ => panic!("harness: unknown complex assign op {}", op) }
    t
}
fn binary_r<T: Elt>(op: &str, z: Complex<T>, r: T) -> Complex<T> {
    match op { "add" => z + r, "sub" => z - r, "mul" => z * r, "div" => z / r,
               _ => panic!("harness: unknown complex/real binary op {}", op) }
}
fn assign_r<T: Elt>(op: &str, z: Complex<T>, r: T) -> Complex<T> {
    let mut t = z;
    match op { "add" => { t += r; } "sub" => { t -= r; } "mul" => { t *= r; } "div" => { t /= r; }
               _ => panic!("harness: unknown complex/real assign op {}", op) }
    t
}

fn cmp_items<T: Elt>(z: &Complex<T>, w: &Complex<T>, out: &mut Out) {
    out.boolean(z == w); out.boolean(z != w);
    out.int(ord_code(z.partial_cmp(w)));
    out.boolean(z < w); out.boolean(z <= w); out.boolean(z > w); out.boolean(z >= w);
}

fn run_generic<T: Elt>(kind: &str, a: &mut Args, out: &mut Out) -> bool {
    let k = kind.strip_prefix("cx.").unwrap_or(kind);
    if let Some(op) = k.strip_prefix("pair.r.") {          // cx.pair.r.<op> z r : z op r , then z op= r
        let z = pz::<T>(a); let r = a.s::<T>();
        ez(&binary_r(op, z.clone(), r), out); ez(&assign_r(op, z, r), out);
        return true;
    }
    if let Some(op) = k.strip_prefix("pair.") {            // cx.pair.<op> z w : z op w , then z op= w
        let z = pz::<T>(a); let w = pz::<T>(a);
        ez(&binary(op, z.clone(), w.clone()), out); ez(&assign(op, z, w), out);
        return true;
    }
    if let Some(op) = k.strip_prefix("bin.r.") { let z = pz::<T>(a); let r = a.s::<T>(); ez(&binary_r(op, z, r), out); return true; }
    if let Some(op) = k.strip_prefix("asg.r.") { let z = pz::<T>(a); let r = a.s::<T>(); ez(&assign_r(op, z, r), out); return true; }
    if let Some(op) = k.strip_prefix("bin.") { let z = pz::<T>(a); let w = pz::<T>(a); ez(&binary(op, z, w), out); return true; }
    if let Some(op) = k.strip_prefix("asg.") { let z = pz::<T>(a); let w = pz::<T>(a); ez(&assign(op, z, w), out); return true; }
    match k {
        "neg" => { let z = pz::<T>(a); ez(&(-z), out); }
        "conj" => { let z = pz::<T>(a); let c = z.conj(); ez(&c, out); }
        "abs_sqr" => { let z = pz::<T>(a); z.abs_sqr().emit(out); }
        "clone" => { let z = pz::<T>(a); let c = z.clone();
            if !same_tokens(&z, &c) { panic!("harness: clone differs from its original"); }
            ez(&c, out); }
        "zero" => { ez(&<Complex<T> as Zero>::zero(), out); }
        "one" => { ez(&<Complex<T> as One>::one(), out); }
        // identities: z+0, 0+z, z-0, z*1, 1*z, z/1, z+0(real), z-0(real), z*1(real), z/1(real)
        "ident" => { let z = pz::<T>(a);
            let zero = <Complex<T> as Zero>::zero; let one = <Complex<T> as One>::one;
            ez(&(z.clone() + zero()), out); ez(&(zero() + z.clone()), out); ez(&(z.clone() - zero()), out);
            ez(&(z.clone() * one()), out); ez(&(one() * z.clone()), out); ez(&(z.clone() / one()), out);
            ez(&(z.clone() + T::zero()), out); ez(&(z.clone() - T::zero()), out);
            ez(&(z.clone() * T::one()), out); ez(&(z.clone() / T::one()), out); }
        // equality and ordering of one pair: eq ne partial_cmp lt le gt ge  (and lt, le once more: the model has two renderings)
        "cmp" => { let z = pz::<T>(a); let w = pz::<T>(a);
            cmp_items(&z, &w, out); out.boolean(z < w); out.boolean(z <= w); }
        // a triple: for every ordered pair (i, j), i, j in 0..3: lt, eq   (trichotomy / transitivity / irreflexivity)
        "cmp3" => { let zs = [pz::<T>(a), pz::<T>(a), pz::<T>(a)];
            for i in 0..3 { for j in 0..3 { out.boolean(zs[i] < zs[j]); out.boolean(zs[i] == zs[j]); } } }
        _ => return false,
    }
    true
}

fn run_f64_only(kind: &str, a: &mut Args, out: &mut Out) -> bool {
    match kind {
        "cx.abs" => { let z = pz::<f64>(a); out.f(Cmplx::abs(&z)); }                        // inherent: sqrt(abs_sqr)
        "cx.sabs" => { let z = pz::<f64>(a); let s: Cmplx = <Cmplx as Signed>::abs(&z); ez(&s, out); } // Signed::abs = (|z|, 0)
        "cx.rmul" => { let r = a.f64(); let z = pz::<f64>(a); ez(&(r * z), out); }             // f64 * Complex<f64>
        "cx.pair.rmul" => { let r = a.f64(); let z = pz::<f64>(a);                            // r * z, z * r, z *= r
            ez(&(r * z), out); ez(&(z * r), out); let mut t = z; t *= r; ez(&t, out); }
        "cx.copy" => { let z = pz::<f64>(a); let c = z; let d = c; ez(&c, out); ez(&d, out); }  // Copy for Complex<f64>
        _ => return false,
    }
    true
}

pub fn run_cx(elt: &str, kind: &str, a: &mut Args, out: &mut Out) {
    let done = match elt {
        "crat" => run_generic::<Rat>(kind, a, out),
        "cplx" => run_f64_only(kind, a, out) || run_generic::<f64>(kind, a, out),
        _ => panic!("harness: unknown element type {} for {}", elt, kind),
    };
    if !done { panic!("harness: unknown kind {}", kind); }
}
