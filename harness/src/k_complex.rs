// Complex kinds (C13, C14): elt = "crat" (Complex<Rat>) or "cplx" (Complex<f64>).
#![allow(unused_imports, dead_code)]
use crate::io::{Args, Out};
pub fn run_cx(_elt: &str, kind: &str, _a: &mut Args, _out: &mut Out) {
    panic!("harness: unknown kind {}", kind);
}
