// Polynomial kinds (C11, C12): poly.ring, poly.calc, poly.access, poly.ctor, poly.hist, poly.div, poly.divself, poly.divpair.
// Only the public API of ohsl::Polynomial is used (new/empty/quadratic/cubic, size, degree, index,
// eval, is_zero, trim, derivative*, the operator impls, polydiv).  The printed streams are mirrored
// by run_ring / run_calc / run_access / run_ctor / run_div of coq/Model/Poly.v.
use std::panic::{catch_unwind, AssertUnwindSafe};
use ohsl::Polynomial;
use crate::io::{Args, Out, Elt};

fn poly<T: Elt>(a: &mut Args) -> Polynomial<T> { Polynomial::new(a.vec_std::<T>()) }

// coefficients through size() and the (guarded) index operator
fn dump<T: Elt>(p: &Polynomial<T>, out: &mut Out) {
    out.usize(p.size());
    for i in 0..p.size() { out.s(&p[i]); }
}
fn toks<T: Elt>(p: &Polynomial<T>) -> Vec<String> { let mut o = Out::new(); dump(p, &mut o); o.toks }
fn deg<T: Elt>(p: &Polynomial<T>, out: &mut Out) {
    match p.degree() { Ok(d) => out.int(d as i128), Err(_) => out.int(-1) }
}
fn check_same<T: Elt>(p: &Polynomial<T>, snap: &Vec<String>, what: &str) {
    if &toks(p) != snap { panic!("harness: operand mutated by {}", what); }
}
fn check_forms<T: Elt>(r: &Polynomial<T>, r2: &Polynomial<T>, what: &str) {
    if toks(r) != toks(r2) { panic!("harness: owned/borrowed forms differ ({})", what); }
}

// same-object forms: the same coefficients up to rounding (exact for Rat; for floats within 1e-12 of the largest
// coefficient: a squaring path that rounds differently violates no property; dropped cross terms do)
fn check_forms_rounding<T: Elt>(r: &Polynomial<T>, r2: &Polynomial<T>, what: &str) {
    let (a, b) = (toks(r), toks(r2));
    let fl = |t: &String| -> Option<f64> { t.strip_prefix('x').and_then(|h| u64::from_str_radix(h, 16).ok()).map(f64::from_bits) };
    let scale = a.iter().chain(b.iter()).filter_map(|t| fl(t)).filter(|x| x.is_finite()).fold(0.0f64, |m, x| m.max(x.abs()));
    let ok = a.len() == b.len() && a.iter().zip(b.iter()).all(|(x, y)| x == y || match (fl(x), fl(y)) {
        (Some(u), Some(v)) => (u - v).abs() <= 1e-12 * scale,
        _ => false });
    if !ok { panic!("harness: owned/borrowed forms differ ({})", what); }
}

// run f; a library panic becomes a P<class> token and the stream continues (machinery errors propagate)
fn guarded<F: FnOnce(&mut Out)>(out: &mut Out, f: F) {
    let mut local = Out::new();
    let r = catch_unwind(AssertUnwindSafe(|| f(&mut local)));
    match r {
        Ok(()) => out.toks.extend(local.toks),
        Err(_) => {
            let msg = crate::LAST_PANIC.with(|p| p.borrow().clone());
            let cls = crate::classify(&msg);
            if cls == "harness" || cls == "ratovf" { panic!("{}", msg); }
            out.toks.push(format!("P{}", cls));
        }
    }
}

// outcome of polydiv: 0 q r | 1 (divide by zero polynomial) | 2 (exceeded maximum iterations) | 3 (any other Err: never expected)
fn div_out<T: Elt>(r: Result<(Polynomial<T>, Polynomial<T>), &'static str>, out: &mut Out) {
    match r {
        Ok((q, r)) => { out.int(0); dump(&q, out); dump(&r, out); }
        Err(msg) => {
            if msg.contains("divide by zero") { out.int(1); }
            else if msg.contains("maximum iterations") { out.int(2); }
            else { out.int(3); }   // degree() of an empty polynomial
        }
    }
}

pub fn run<T: Elt>(kind: &str, a: &mut Args, out: &mut Out) {
    match kind {
        // poly.ring <p> <q> <x> <s>: p+q p-q p*q -p p*s q+p q-p q*p (coefficients, degree), then eval at x of
        // p, q and the eight results (each eval guarded: the empty polynomial panics)
        "poly.ring" => {
            let p = poly::<T>(a); let q = poly::<T>(a); let x = a.s::<T>(); let s = a.s::<T>();
            let (sp, sq) = (toks(&p), toks(&q));
            let add = &p + &q; let sub = &p - &q; let mul = &p * &q; let neg = -&p; let sc = &p * s;
            let add2 = &q + &p; let sub2 = &q - &p; let mul2 = &q * &p;
            check_same(&p, &sp, "polynomial operators"); check_same(&q, &sq, "polynomial operators");
            check_forms(&add, &(p.clone() + q.clone()), "+"); check_forms(&sub, &(p.clone() - q.clone()), "-");
            check_forms(&mul, &(p.clone() * q.clone()), "*"); check_forms(&neg, &(-p.clone()), "neg");
            check_forms(&sc, &(p.clone() * s), "*s");
            // both operands the SAME object: a shortcut keyed on pointer equality must agree with the general operator
            // (seeded mutation C11-8: a squaring fast path for `&p * &p` that dropped the cross terms)
            check_forms_rounding(&(&p * &p), &(&p * &p.clone()), "p * p, both operands the same object");
            check_forms_rounding(&(&p + &p), &(&p + &p.clone()), "p + p, both operands the same object");
            check_forms_rounding(&(&p - &p), &(&p - &p.clone()), "p - p, both operands the same object");
            let rs = [add, sub, mul, neg, sc, add2, sub2, mul2];
            for r in rs.iter() { dump(r, out); deg(r, out); }
            guarded(out, |o| o.s(&p.eval(x)));
            guarded(out, |o| o.s(&q.eval(x)));
            for r in rs.iter() { guarded(out, |o| o.s(&r.eval(x))); }
        }
        // poly.calc <p> <q> <x> <s> <nmax>: derivative_n(p, n), derivative_at(p, x, n) for n = 0..=nmax; then
        // (p+q)'  p'+q'  (p*q)'  p'*q + p*q'  (p*s)'  p'*s     (each guarded)
        "poly.calc" => {
            let p = poly::<T>(a); let q = poly::<T>(a); let x = a.s::<T>(); let s = a.s::<T>(); let nmax = a.usize();
            let sp = toks(&p);
            for n in 0..=nmax {
                guarded(out, |o| dump(&p.derivative_n(n), o));
                guarded(out, |o| o.s(&p.derivative_at(x, n)));
            }
            check_same(&p, &sp, "derivative_n/derivative_at");
            guarded(out, |o| dump(&(&p + &q).derivative(), o));
            guarded(out, |o| { let dp = p.derivative(); let dq = q.derivative(); dump(&(&dp + &dq), o) });
            guarded(out, |o| dump(&(&p * &q).derivative(), o));
            guarded(out, |o| { let dp = p.derivative(); let dq = q.derivative(); dump(&(&(&dp * &q) + &(&p * &dq)), o) });
            guarded(out, |o| dump(&(&p * s).derivative(), o));
            guarded(out, |o| { let dp = p.derivative(); dump(&(&dp * s), o) });
            check_same(&p, &sp, "derivative");
        }
        // poly.access <p> <i> <x>: size, degree, is_zero, p[i], p[i] = x (then p), trim (then p)
        "poly.access" => {
            let p = poly::<T>(a); let i = a.usize(); let x = a.s::<T>();
            out.usize(p.size()); deg(&p, out); out.boolean(p.is_zero());
            guarded(out, |o| o.s(&p[i]));
            guarded(out, |o| { let mut c = p.clone(); c[i] = x; dump(&c, o) });
            guarded(out, |o| { let mut c = p.clone(); c.trim(); dump(&c, o) });
        }
        // poly.hist <p> <q> <i> <x>: HISTORIES -- a mutating operation followed by another one and then by the views and
        // operators (every block on a fresh clone of p; a library panic inside a block is its whole answer):
        //  H1 p[i] = x; trim            -> p, degree, is_zero        H2 trim; trim         -> p, [second trim changed nothing]
        //  H3 trim; p[i] = x            -> p                         H4 coeffs().len(); coeffs().push(x) -> len, p, degree
        //  H5 coeffs()[i] = x           -> p                         H6 t = trim p: t+q, t*q, q-t, t(x), t'
        //  H7 p[i] = x: p(x), p', p*q
        // (coeffs() -- the mutable view of the coefficient vector -- is public API that no other kind calls)
        "poly.hist" => {
            let p = poly::<T>(a); let q = poly::<T>(a); let i = a.usize(); let x = a.s::<T>();
            let (sp, sq) = (toks(&p), toks(&q));
            guarded(out, |o| { let mut c = p.clone(); c[i] = x; c.trim(); dump(&c, o); deg(&c, o); o.boolean(c.is_zero()); });
            guarded(out, |o| { let mut c = p.clone(); c.trim(); let s1 = toks(&c); c.trim(); dump(&c, o); o.boolean(toks(&c) == s1); });
            guarded(out, |o| { let mut c = p.clone(); c.trim(); c[i] = x; dump(&c, o); });
            guarded(out, |o| { let mut c = p.clone(); o.usize(c.coeffs().len()); c.coeffs().push(x); dump(&c, o); deg(&c, o); });
            guarded(out, |o| { let mut c = p.clone(); c.coeffs()[i] = x; dump(&c, o); });
            guarded(out, |o| { let mut t = p.clone(); t.trim(); dump(&(&t + &q), o); dump(&(&t * &q), o); dump(&(&q - &t), o);
                               o.s(&t.eval(x)); dump(&t.derivative(), o); });
            guarded(out, |o| { let mut c = p.clone(); c[i] = x; o.s(&c.eval(x)); dump(&c.derivative(), o); dump(&(&c * &q), o); });
            check_same(&p, &sp, "a history on a clone"); check_same(&q, &sq, "a history on a clone");
        }
        // poly.ctor <a> <b> <c> <d>: quadratic(a,b,c), cubic(a,b,c,d), empty()
        "poly.ctor" => {
            let (ca, cb, cc, cd) = (a.s::<T>(), a.s::<T>(), a.s::<T>(), a.s::<T>());
            dump(&Polynomial::quadratic(ca, cb, cc), out);
            dump(&Polynomial::cubic(ca, cb, cc, cd), out);
            let e = Polynomial::<T>::empty(); dump(&e, out); deg(&e, out);
        }
        // poly.div <u> <v>: 0 q r | 1 (divide by zero polynomial) | 2 (exceeded maximum iterations); a panic ends the answer
        "poly.div" => {
            let u = poly::<T>(a); let v = poly::<T>(a);
            let (su, sv) = (toks(&u), toks(&v));
            let r = u.polydiv(&v);
            check_same(&u, &su, "polydiv"); check_same(&v, &sv, "polydiv");
            div_out(r, out);
        }
        // poly.divself <u>: u.polydiv(&u), dividend and divisor the SAME object; the stream of poly.div (model: run_div u u)
        "poly.divself" => {
            let u = poly::<T>(a);
            let su = toks(&u);
            let r = u.polydiv(&u);
            check_same(&u, &su, "polydiv (same object)");
            div_out(r, out);
        }
        // poly.divpair <w>: the answer of w.polydiv(&w) (dividend and divisor the SAME object), then the answer of w.polydiv(&w.clone()),
        // each in the format of poly.div and each guarded (a library panic is that answer: one P token).  Nothing is compared here: the
        // oracle judges each answer against u = q*v + r, deg r < deg v, and demands the same outcome class of both
        "poly.divpair" => {
            let w = poly::<T>(a);
            let sw = toks(&w);
            guarded(out, |o| div_out(w.polydiv(&w), o));
            guarded(out, |o| { let c = w.clone(); div_out(w.polydiv(&c), o) });
            check_same(&w, &sw, "polydiv (same object)");
        }
        _ => panic!("harness: unknown kind {}", kind),
    }
}
