// cf.* kinds (C14): the public Complex<f64> elementary / trigonometric / hyperbolic functions.
//   cf.<name> <z>             one complex argument -> re im   (abs, arg, abs_sqr -> one f64)
//   cf.pow <z> <w> | cf.log <z> <b> | cf.powf <z> <x> | cf.polar <r> <theta>      -> re im
//   cf.all <z>                every one-argument function at z:  t<name> re im ...  (real-valued: t<name> v)
//   cf.seq <f1,f2,..> <z>     f1(z), f2(f1(z)), ...: every intermediate value          (round trips)
//   cf.powid <z> <w>          pow(z,w), exp(w * ln z), powf(z, re w), log(z, w)        (identities, by the code's own operators)
//   cf.polarid <z>            polar(|z|, arg z);   cf.polarinv <r> <t>  |polar(r,t)|, arg polar(r,t)
//   cf.const <NAME>           the f64 constant of src/constant.rs
// arguments: complex `x<hex>:x<hex>`, real `x<hex>` (bit patterns); results as bit patterns.
#![allow(unused_imports, dead_code)]
use ohsl::{Cmplx, Complex};
use ohsl::traits::One;
use crate::io::{Args, Out, Elt};

fn cz(a: &mut Args) -> Cmplx { a.s::<Cmplx>() }

pub const UNARY: [&str; 30] = ["conj", "sqrt", "exp", "ln",
    "sin", "cos", "tan", "sec", "csc", "cot", "asin", "acos", "atan", "asec", "acsc", "acot",
    "sinh", "cosh", "tanh", "sech", "csch", "coth", "asinh", "acosh", "atanh", "asech", "acsch", "acoth",
    "neg", "inv"];

fn apply1(name: &str, z: Cmplx) -> Cmplx {
    match name {
        "conj" => z.conj(),
        "neg" => -z,                                   // helpers for the identity search only
        "inv" => Cmplx::one() / z,
        "sqrt" => z.sqrt(),
        "exp" => z.exp(),
        "ln" => z.ln(),
        "sin" => z.sin(), "cos" => z.cos(), "tan" => z.tan(),
        "sec" => z.sec(), "csc" => z.csc(), "cot" => z.cot(),
        "asin" => z.asin(), "acos" => z.acos(), "atan" => z.atan(),
        "asec" => z.asec(), "acsc" => z.acsc(), "acot" => z.acot(),
        "sinh" => z.sinh(), "cosh" => z.cosh(), "tanh" => z.tanh(),
        "sech" => z.sech(), "csch" => z.csch(), "coth" => z.coth(),
        "asinh" => z.asinh(), "acosh" => z.acosh(), "atanh" => z.atanh(),
        "asech" => z.asech(), "acsch" => z.acsch(), "acoth" => z.acoth(),
        _ => panic!("harness: unknown function {}", name),
    }
}

pub fn run(kind: &str, a: &mut Args, out: &mut Out) {
    let name = kind.strip_prefix("cf.").unwrap_or_else(|| panic!("harness: unknown kind {}", kind));
    match name {
        "abs" => { let z = cz(a); out.f(z.abs()); }
        "arg" => { let z = cz(a); out.f(z.arg()); }
        "abs_sqr" => { let z = cz(a); out.f(z.abs_sqr()); }
        "polar" => { let r = a.f64(); let t = a.f64(); out.s(&Complex::<f64>::polar(r, t)); }
        "pow" => { let z = cz(a); let w = cz(a); out.s(&z.pow(&w)); }
        "powf" => { let z = cz(a); let x = a.f64(); out.s(&z.powf(x)); }
        "log" => { let z = cz(a); let b = cz(a); out.s(&z.log(b)); }
        "const" => {
            let c = a.word();
            let v = match c {
                "PI" => ohsl::constant::PI, "PI_2" => ohsl::constant::PI_2, "PI_4" => ohsl::constant::PI_4,
                "I_re" => ohsl::constant::I.real, "I_im" => ohsl::constant::I.imag,
                _ => panic!("harness: unknown constant {}", c),
            };
            out.f(v);
        }
        "all" => {
            let z = cz(a);
            out.tag("abs"); out.f(z.abs());
            out.tag("arg"); out.f(z.arg());
            out.tag("abs_sqr"); out.f(z.abs_sqr());
            for f in UNARY.iter() { out.tag(f); out.s(&apply1(f, z)); }
        }
        "seq" => {
            let fs = a.word(); let mut z = cz(a);
            for f in fs.split(',') { z = apply1(f, z); out.s(&z); }
        }
        "powid" => {
            let z = cz(a); let w = cz(a);
            out.s(&z.pow(&w)); out.s(&(w * z.ln()).exp()); out.s(&z.powf(w.real)); out.s(&z.log(w));
        }
        "polarid" => { let z = cz(a); out.s(&Complex::<f64>::polar(z.abs(), z.arg())); }
        "polarinv" => { let r = a.f64(); let t = a.f64(); let p = Complex::<f64>::polar(r, t); out.f(p.abs()); out.f(p.arg()); }
        _ => { let z = cz(a); out.s(&apply1(name, z)); }
    }
}
