// User functions for Newton / Jacobian / Mesh2D::apply as small expression ASTs, evaluated in a
// fixed operation order so that the Gallina model (which receives the same AST as a term)
// performs the same IEEE operations in the same order.
//   expr ::= v<k> | <scalar literal> | (<expr> <op> <expr>) | (neg <expr>)     op in + - * /
// Tokens are whitespace-free: the driver writes e.g.  ((v0*v0)-x4000000000000000)
#![allow(dead_code)]
use crate::io::Elt;

#[derive(Clone, Debug)]
pub enum Expr<T> { Var(usize), Lit(T), Bin(char, Box<Expr<T>>, Box<Expr<T>>), Neg(Box<Expr<T>>) }

pub fn parse<T: Elt>(s: &str) -> Expr<T> {
    let b = s.as_bytes();
    let (e, pos) = parse_at::<T>(s, b, 0);
    if pos != b.len() { panic!("harness: trailing input in expr {}", s); }
    e
}

fn parse_at<T: Elt>(s: &str, b: &[u8], mut i: usize) -> (Expr<T>, usize) {
    if b[i] == b'(' {
        i += 1;
        if s[i..].starts_with("neg") {
            let (e, j) = parse_at::<T>(s, b, i + 3);
            if b[j] != b')' { panic!("harness: bad neg expr {}", s); }
            return (Expr::Neg(Box::new(e)), j + 1);
        }
        let (l, j) = parse_at::<T>(s, b, i);
        let op = b[j] as char;
        if !"+-*/".contains(op) { panic!("harness: bad operator in expr {}", s); }
        let (r, k) = parse_at::<T>(s, b, j + 1);
        if b[k] != b')' { panic!("harness: bad expr {}", s); }
        return (Expr::Bin(op, Box::new(l), Box::new(r)), k + 1);
    }
    if b[i] == b'v' {
        let mut j = i + 1;
        while j < b.len() && b[j].is_ascii_digit() { j += 1; }
        return (Expr::Var(s[i + 1..j].parse().expect("harness: bad var")), j);
    }
    // scalar literal: runs until an operator or ')' at this level (literals contain no parentheses;
    // rationals are written n/d only inside '<' '>' to keep '/' unambiguous: <3/4>)
    if b[i] == b'<' {
        let j = i + s[i..].find('>').expect("harness: bad literal");
        return (Expr::Lit(T::parse(&s[i + 1..j])), j + 1);
    }
    let mut j = i;
    while j < b.len() && !b")+-*/(".contains(&b[j]) { j += 1; }
    (Expr::Lit(T::parse(&s[i..j])), j)
}

pub fn eval<T: Elt>(e: &Expr<T>, v: &[T]) -> T {
    match e {
        Expr::Var(k) => v[*k],
        Expr::Lit(c) => *c,
        Expr::Neg(a) => -eval(a, v),
        Expr::Bin(op, l, r) => { let a = eval(l, v); let b = eval(r, v);
            match op { '+' => a + b, '-' => a - b, '*' => a * b, '/' => a / b, _ => unreachable!() } }
    }
}
