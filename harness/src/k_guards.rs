// C20: every checked entry point on explicit tuples of sizes / arguments.
//   guard.<entry> <k> <t11> .. <t1k> <t21> .. <t2k> ...      (k = number of integer variables)
// answer: one i<code> per tuple
//   0 returned a value, operands untouched, owned form (where one exists) agrees
//   1 panicked, and the receiver / operands are bit-for-bit what they were before the call
//   2 panicked AFTER writing to the receiver (storage of another element was modified)
//   3 returned, but a by-reference operand was modified
//   4 returned, but the owned and the borrowed form disagree
//   5 the by-reference form panicked but the consuming (owned) form of the same operation returned a value
//   6 returned, but the write landed in (or also changed) the storage of another element
//   8 (own / own2 / self kinds) two forms that C20 does not state to be bit-identical (assign, scalar-left, method, same object on both
//     sides with inexact data) differ beyond rounding: an entry off by more than 1e-12 * the largest entry, or another shape
//   9 (own / own2 / self kinds) one form of the operation panicked where the other returned a value
// guard.<entry>@zero ...: the same calls with the PAYLOAD (value / vector written, second operand, right-hand side) all zeros.
// guard.h_<entry> ...: the receiver is produced by a HISTORY (resize / transpose_in_place / delete_row) before the checked call.
// guard.own2_<type> n..: owned vs borrowed forms on operands whose products and sums are INEXACT in f64.
#![allow(dead_code)]
use std::panic::{catch_unwind, AssertUnwindSafe};
use ohsl::{Banded, Matrix, Mesh1D, Mesh2D, Polynomial, Sparse, Tridiagonal, Vector};
use crate::io::{Args, Out};

// payload mode: generic data, or all zeros (a fast path keyed on a zero value / zero vector must not skip a guard)
thread_local! { static ZERO: std::cell::Cell<bool> = std::cell::Cell::new(false); }
fn zero_mode() -> bool { ZERO.with(|z| z.get()) }
fn pv(n: usize) -> Vector<f64> { if zero_mode() { Vector::<f64>::new(n, 0.0) } else { vecn(n) } }
fn px(x: f64) -> f64 { if zero_mode() { 0.0 } else { x } }
fn pm(r: usize, c: usize) -> Matrix<f64> { if zero_mode() { Matrix::<f64>::new(r, c, 0.0) } else { matn(r, c) } }
fn pb(n: usize, m1: usize, m2: usize) -> Banded<f64> { if zero_mode() { Banded::<f64>::new(n, m1, m2, 0.0) } else { bandn(n, m1, m2) } }

fn u(x: i64) -> usize { if x < 0 { panic!("harness: negative size"); } x as usize }
fn vecn(n: usize) -> Vector<f64> { Vector::create((0..n).map(|i| 1.0 + i as f64 * 0.5).collect()) }
fn matn(r: usize, c: usize) -> Matrix<f64> {
    let mut m = Matrix::<f64>::new(r, c, 0.0);
    for i in 0..r { for j in 0..c { m[(i, j)] = if i == j { 10.0 + i as f64 } else { 0.25 + (i * c + j) as f64 * 0.125 }; } }
    m
}
fn bandn(n: usize, m1: usize, m2: usize) -> Banded<f64> {
    let mut b = Banded::<f64>::new(n, m1, m2, 0.5);
    b.fill_band(0, 10.0);
    b
}
fn trin(n: usize) -> Tridiagonal<f64> { if n == 0 { Tridiagonal::empty() } else { Tridiagonal::with_elements(1.0, 4.0, 1.5, n) } }
fn sparsen(r: usize, c: usize) -> Sparse<f64> {
    let mut t: Vec<(usize, usize, f64)> = Vec::new();
    for i in 0..r.min(c) { t.push((i, i, 4.0 + i as f64)); }
    if r > 1 && c > 1 { t.push((1, 0, 0.5)); t.push((0, 1, 0.25)); }
    Sparse::from_triplets(r, c, &mut t)
}
fn nodes(n: usize) -> Vector<f64> { Vector::create((0..n).map(|i| i as f64 * 0.5).collect()) }
fn mesh1(nn: usize, nv: usize) -> Mesh1D<f64, f64> {
    let mut m = Mesh1D::<f64, f64>::new(nodes(nn), nv);
    for k in 0..nn { m.set_nodes_vars(k, Vector::create((0..nv).map(|v| (k * 10 + v) as f64).collect())); }
    m
}
fn mesh2(nx: usize, ny: usize, nv: usize) -> Mesh2D<f64> {
    let mut m = Mesh2D::<f64>::new(nodes(nx), nodes(ny), nv);
    for i in 0..nx { for j in 0..ny { m.set_nodes_vars(i, j, Vector::create((0..nv).map(|v| (i * 100 + j * 10 + v) as f64).collect())); } }
    m
}
fn polyn(len: usize) -> Polynomial<f64> { Polynomial::new((0..len).map(|i| 1.0 + i as f64).collect()) }

fn bits_v(v: &Vector<f64>) -> Vec<u64> { v.vec.iter().map(|x| x.to_bits()).collect() }
fn bits_m(m: &Matrix<f64>) -> Vec<u64> {
    let mut o = vec![m.rows() as u64, m.cols() as u64];
    for i in 0..m.rows() { for j in 0..m.cols() { o.push(m[(i, j)].to_bits()); } }
    o
}
fn bits_b(b: &Banded<f64>) -> Vec<u64> {
    let mut o = vec![b.size() as u64, b.size_below() as u64, b.size_above() as u64];
    o.extend(bits_m(b.compact())); o
}
fn bits_t(t: &Tridiagonal<f64>) -> Vec<u64> {
    let mut o = vec![t.size() as u64];
    o.extend(bits_v(t.subdiagonal())); o.extend(bits_v(t.maindiagonal())); o.extend(bits_v(t.superdiagonal())); o
}
fn bits_s(s: &Sparse<f64>) -> Vec<u64> {
    let mut o = vec![s.rows as u64, s.cols as u64, s.nonzero as u64];
    o.extend(s.val.iter().map(|x| x.to_bits()));
    o.extend(s.row_index.iter().map(|x| *x as u64)); o.extend(s.col_start.iter().map(|x| *x as u64)); o
}
fn bits_m1(m: &Mesh1D<f64, f64>) -> Vec<u64> {
    let mut o = vec![m.nnodes() as u64, m.nvars() as u64];
    o.extend(bits_v(&m.nodes()));
    for k in 0..m.nnodes() { o.extend(bits_v(&m.get_nodes_vars(k))); }
    o
}
fn bits_m2(m: &Mesh2D<f64>) -> Vec<u64> {
    let (nx, ny) = m.nnodes();
    let mut o = vec![nx as u64, ny as u64, m.nvars() as u64];
    for i in 0..nx { for j in 0..ny { o.extend(bits_v(&m.get_nodes_vars(i, j))); } }
    o
}
fn bits_p(p: &Polynomial<f64>) -> Vec<u64> { let mut q = p.clone(); q.coeffs().iter().map(|x| x.to_bits()).collect() }

// run `f`; `same()` tells afterwards whether every observed object still equals its snapshot;
// `agree` (only consulted on success) tells whether the owned form gave the same result.
fn run<R>(f: impl FnOnce() -> R, same: impl FnOnce() -> bool, agree: impl FnOnce(&R) -> bool, mutating: bool) -> i128 {
    match catch_unwind(AssertUnwindSafe(f)) {
        Err(_) => {
            let msg = crate::LAST_PANIC.with(|p| p.borrow().clone());
            if msg.contains("harness:") { panic!("{}", msg); }
            if same() { 1 } else { 2 }
        }
        Ok(r) => {
            if !mutating && !same() { return 3; }
            if !agree(&r) { return 4; }
            0
        }
    }
}

fn yes<R>(_: &R) -> bool { true }
// the consuming counterpart must reject what the by-reference form rejects
fn also_owned<R>(code: i128, f: impl FnOnce() -> R) -> i128 {
    if code != 1 { return code; }
    if catch_unwind(AssertUnwindSafe(f)).is_err() { 1 } else { 5 }
}

fn entry(key: &str, t: &[i64]) -> i128 {
    match key {
        // ---------------------------------------------------------------- Vector
        "vec_add_ref" | "vec_sub_ref" => {
            let (a, b) = (vecn(u(t[0])), pv(u(t[1]))); let (sa, sb) = (bits_v(&a), bits_v(&b));
            let add = key == "vec_add_ref";
            let c = run(|| if add { &a + &b } else { &a - &b }, || bits_v(&a) == sa && bits_v(&b) == sb,
                |r| { let o = if add { a.clone() + b.clone() } else { a.clone() - b.clone() }; let o2 = if add { a.clone() + &b } else { a.clone() - &b };
                      bits_v(r) == bits_v(&o) && bits_v(r) == bits_v(&o2) }, false);
            let c = also_owned(c, || if add { a.clone() + b.clone() } else { a.clone() - b.clone() });
            also_owned(c, || if add { a.clone() + &b } else { a.clone() - &b })
        }
        "vec_add_assign" | "vec_sub_assign" => {
            let (mut a, b) = (vecn(u(t[0])), pv(u(t[1]))); let sa = bits_v(&a);
            let add = key == "vec_add_assign";
            let r = catch_unwind(AssertUnwindSafe(|| if add { a += b.clone() } else { a -= b.clone() }));
            if r.is_err() { if bits_v(&a) == sa { 1 } else { 2 } } else { 0 }
        }
        "vec_dot" => { let (a, b) = (vecn(u(t[0])), pv(u(t[1]))); let (sa, sb) = (bits_v(&a), bits_v(&b));
            run(|| a.dot(&b), || bits_v(&a) == sa && bits_v(&b) == sb, yes, false) }
        "vec_dot_f64" => { let (a, b) = (vecn(u(t[0])), pv(u(t[1]))); let (sa, sb) = (bits_v(&a), bits_v(&b));
            run(|| a.dot_f64(&b), || bits_v(&a) == sa && bits_v(&b) == sb, yes, false) }
        "vec_sum_slice" => { let a = vecn(u(t[0])); let sa = bits_v(&a);
            run(|| a.sum_slice(u(t[1]), u(t[2])), || bits_v(&a) == sa, yes, false) }
        "vec_product_slice" => { let a = vecn(u(t[0])); let sa = bits_v(&a);
            run(|| a.product_slice(u(t[1]), u(t[2])), || bits_v(&a) == sa, yes, false) }
        "vec_index" => { let a = vecn(u(t[0])); let sa = bits_v(&a);
            run(|| a[u(t[1])], || bits_v(&a) == sa, yes, false) }
        // ---------------------------------------------------------------- Matrix
        "mat_get_row" => { let m = matn(u(t[0]), u(t[1])); let s = bits_m(&m); run(|| m.get_row(u(t[2])), || bits_m(&m) == s, yes, false) }
        "mat_get_col" => { let m = matn(u(t[0]), u(t[1])); let s = bits_m(&m); run(|| m.get_col(u(t[2])), || bits_m(&m) == s, yes, false) }
        "mat_set_row" => { let mut m = matn(u(t[0]), u(t[1])); let s = bits_m(&m);
            let r = catch_unwind(AssertUnwindSafe(|| m.set_row(u(t[2]), pv(u(t[3]))))); if r.is_err() { if bits_m(&m) == s { 1 } else { 2 } } else { 0 } }
        "mat_set_col" => { let mut m = matn(u(t[0]), u(t[1])); let s = bits_m(&m);
            let r = catch_unwind(AssertUnwindSafe(|| m.set_col(u(t[2]), pv(u(t[3]))))); if r.is_err() { if bits_m(&m) == s { 1 } else { 2 } } else { 0 } }
        "mat_delete_row" => { let mut m = matn(u(t[0]), u(t[1])); let s = bits_m(&m);
            let r = catch_unwind(AssertUnwindSafe(|| m.delete_row(u(t[2])))); if r.is_err() { if bits_m(&m) == s { 1 } else { 2 } } else { 0 } }
        "mat_multiply" => { let m = matn(u(t[0]), u(t[1])); let v = pv(u(t[2])); let (s, sv) = (bits_m(&m), bits_v(&v));
            let c = run(|| m.multiply(&v), || bits_m(&m) == s && bits_v(&v) == sv,
                |r| { let o = &m * &v; let o2 = m.clone() * v.clone(); bits_v(r) == bits_v(&o) && bits_v(r) == bits_v(&o2) }, false);
            let c = also_owned(c, || &m * &v); also_owned(c, || m.clone() * v.clone()) }
        "mat_swap_rows" => { let mut m = matn(u(t[0]), u(t[1])); let s = bits_m(&m);
            let r = catch_unwind(AssertUnwindSafe(|| m.swap_rows(u(t[2]), u(t[3])))); if r.is_err() { if bits_m(&m) == s { 1 } else { 2 } } else { 0 } }
        "mat_fill_row" => { let mut m = matn(u(t[0]), u(t[1])); let s = bits_m(&m);
            let r = catch_unwind(AssertUnwindSafe(|| m.fill_row(u(t[2]), px(7.0)))); if r.is_err() { if bits_m(&m) == s { 1 } else { 2 } } else { 0 } }
        "mat_fill_col" => { let mut m = matn(u(t[0]), u(t[1])); let s = bits_m(&m);
            let r = catch_unwind(AssertUnwindSafe(|| m.fill_col(u(t[2]), px(7.0)))); if r.is_err() { if bits_m(&m) == s { 1 } else { 2 } } else { 0 } }
        "mat_solve_basic" | "mat_solve_lu" => { let mut m = matn(u(t[0]), u(t[1])); let b = pv(u(t[2])); let (s, sb) = (bits_m(&m), bits_v(&b));
            let basic = key == "mat_solve_basic";
            let r = catch_unwind(AssertUnwindSafe(|| if basic { m.solve_basic(&b) } else { m.solve_lu(&b) }));
            if r.is_err() { if bits_m(&m) == s && bits_v(&b) == sb { 1 } else { 2 } } else if bits_v(&b) != sb { 3 } else { 0 } }
        "mat_lu" => { let mut m = matn(u(t[0]), u(t[1])); let s = bits_m(&m);
            let r = catch_unwind(AssertUnwindSafe(|| m.lu_decomp_in_place())); if r.is_err() { if bits_m(&m) == s { 1 } else { 2 } } else { 0 } }
        "mat_inverse" => { let m = matn(u(t[0]), u(t[1])); let s = bits_m(&m); run(|| m.inverse(), || bits_m(&m) == s, yes, false) }
        "mat_determinant" => { let m = matn(u(t[0]), u(t[1])); let s = bits_m(&m); run(|| m.determinant(), || bits_m(&m) == s, yes, false) }
        "mat_add_ref" | "mat_sub_ref" => { let (a, b) = (matn(u(t[0]), u(t[1])), pm(u(t[2]), u(t[3]))); let (sa, sb) = (bits_m(&a), bits_m(&b));
            let add = key == "mat_add_ref";
            let c = run(|| if add { &a + &b } else { &a - &b }, || bits_m(&a) == sa && bits_m(&b) == sb,
                |r| { let o = if add { a.clone() + b.clone() } else { a.clone() - b.clone() }; bits_m(r) == bits_m(&o) }, false);
            also_owned(c, || if add { a.clone() + b.clone() } else { a.clone() - b.clone() }) }
        "mat_add_assign_ref" | "mat_sub_assign_ref" => { let (mut a, b) = (matn(u(t[0]), u(t[1])), pm(u(t[2]), u(t[3]))); let (sa, sb) = (bits_m(&a), bits_m(&b));
            let add = key == "mat_add_assign_ref";
            let r = catch_unwind(AssertUnwindSafe(|| if add { a += &b } else { a -= &b }));
            if r.is_err() { if bits_m(&a) == sa && bits_m(&b) == sb { also_owned(1, || { let mut o = matn(u(t[0]), u(t[1])); if add { o += b.clone() } else { o -= b.clone() }; o }) } else { 2 } } else if bits_m(&b) != sb { 3 } else {
                let mut o = matn(u(t[0]), u(t[1])); if add { o += b.clone() } else { o -= b.clone() }; if bits_m(&o) == bits_m(&a) { 0 } else { 4 } } }
        "mat_mul_ref" => { let (a, b) = (matn(u(t[0]), u(t[1])), pm(u(t[2]), u(t[3]))); let (sa, sb) = (bits_m(&a), bits_m(&b));
            let c = run(|| &a * &b, || bits_m(&a) == sa && bits_m(&b) == sb, |r| { let o = a.clone() * b.clone(); bits_m(r) == bits_m(&o) }, false);
            also_owned(c, || a.clone() * b.clone()) }
        // ---------------------------------------------------------------- Banded
        "band_fill_band" => { let mut b = Banded::<f64>::new(u(t[0]), u(t[1]), u(t[2]), 0.5); let s = bits_b(&b);
            let r = catch_unwind(AssertUnwindSafe(|| b.fill_band(t[3] as isize, px(7.0)))); if r.is_err() { if bits_b(&b) == s { 1 } else { 2 } } else { 0 } }
        "band_solve" => { let b = bandn(u(t[0]), u(t[1]), u(t[2])); let v = pv(u(t[3])); let (s, sv) = (bits_b(&b), bits_v(&v));
            run(|| b.solve(&v), || bits_b(&b) == s && bits_v(&v) == sv, yes, false) }
        "band_index" => { let b = bandn(u(t[0]), u(t[1]), u(t[2])); let s = bits_b(&b); run(|| b[(u(t[3]), u(t[4]))], || bits_b(&b) == s, yes, false) }
        "band_index_mut" => { let mut b = bandn(u(t[0]), u(t[1]), u(t[2])); let s = bits_b(&b);
            let r = catch_unwind(AssertUnwindSafe(|| { b[(u(t[3]), u(t[4]))] = px(7.0); })); if r.is_err() { if bits_b(&b) == s { 1 } else { 2 } } else { 0 } }
        "band_add_ref" | "band_sub_ref" => { let (a, b) = (bandn(u(t[0]), u(t[1]), u(t[2])), pb(u(t[3]), u(t[4]), u(t[5]))); let (sa, sb) = (bits_b(&a), bits_b(&b));
            let add = key == "band_add_ref";
            let c = run(|| if add { &a + &b } else { &a - &b }, || bits_b(&a) == sa && bits_b(&b) == sb,
                |r| { let o = if add { a.clone() + b.clone() } else { a.clone() - b.clone() }; bits_b(r) == bits_b(&o) }, false);
            also_owned(c, || if add { a.clone() + b.clone() } else { a.clone() - b.clone() }) }
        "band_add_assign_ref" | "band_sub_assign_ref" => { let (mut a, b) = (bandn(u(t[0]), u(t[1]), u(t[2])), pb(u(t[3]), u(t[4]), u(t[5]))); let (sa, sb) = (bits_b(&a), bits_b(&b));
            let add = key == "band_add_assign_ref";
            let r = catch_unwind(AssertUnwindSafe(|| if add { a += &b } else { a -= &b }));
            if r.is_err() { if bits_b(&a) == sa && bits_b(&b) == sb { also_owned(1, || { let mut o = bandn(u(t[0]), u(t[1]), u(t[2])); if add { o += b.clone() } else { o -= b.clone() }; o }) } else { 2 } } else if bits_b(&b) != sb { 3 } else {
                let mut o = bandn(u(t[0]), u(t[1]), u(t[2])); if add { o += b.clone() } else { o -= b.clone() }; if bits_b(&o) == bits_b(&a) { 0 } else { 4 } } }
        "band_mul_vec" => { let b = bandn(u(t[0]), u(t[1]), u(t[2])); let v = pv(u(t[3])); let (s, sv) = (bits_b(&b), bits_v(&v));
            let c = run(|| &b * &v, || bits_b(&b) == s && bits_v(&v) == sv, |r| { let o = b.clone() * v.clone(); bits_v(r) == bits_v(&o) }, false);
            also_owned(c, || b.clone() * v.clone()) }
        // ---------------------------------------------------------------- Tridiagonal
        "tri_with_vectors" => run(|| Tridiagonal::with_vectors(pv(u(t[0])), pv(u(t[1])), pv(u(t[2]))), || true, yes, false),
        "tri_with_vecs" => run(|| Tridiagonal::with_vecs(pv(u(t[0])).vec, pv(u(t[1])).vec, pv(u(t[2])).vec), || true, yes, false),
        "tri_convert" => { let a = trin(u(t[0])); let s = bits_t(&a); run(|| a.convert(), || bits_t(&a) == s, yes, false) }
        "tri_solve" => { let a = trin(u(t[0])); let v = pv(u(t[1])); let (s, sv) = (bits_t(&a), bits_v(&v));
            run(|| a.solve(&v), || bits_t(&a) == s && bits_v(&v) == sv, yes, false) }
        "tri_index" => { let a = trin(u(t[0])); let s = bits_t(&a); run(|| a[(u(t[1]), u(t[2]))], || bits_t(&a) == s, yes, false) }
        "tri_index_mut" => { let mut a = trin(u(t[0])); let s = bits_t(&a);
            let r = catch_unwind(AssertUnwindSafe(|| { a[(u(t[1]), u(t[2]))] = px(7.0); })); if r.is_err() { if bits_t(&a) == s { 1 } else { 2 } } else { 0 } }
        "tri_add" => { let (a, b) = (trin(u(t[0])), trin(u(t[1]))); run(|| a.clone() + b.clone(), || true, yes, false) }
        "tri_sub" => { let (a, b) = (trin(u(t[0])), trin(u(t[1]))); run(|| a.clone() - b.clone(), || true, yes, false) }
        "tri_mul_vec" => { let a = trin(u(t[0])); let v = pv(u(t[1])); let (s, sv) = (bits_t(&a), bits_v(&v));
            let c = run(|| &a * &v, || bits_t(&a) == s && bits_v(&v) == sv, |r| { let o = a.clone() * v.clone(); bits_v(r) == bits_v(&o) }, false);
            also_owned(c, || a.clone() * v.clone()) }
        // ---------------------------------------------------------------- Sparse
        "sp_from_triplets" => { let (r, c) = (u(t[0]), u(t[1]));
            run(|| { let mut tr: Vec<(usize, usize, f64)> = Vec::new();
                     if r > 0 && c > 0 { tr.push((r - 1, c - 1, 2.0)); }
                     if !(r > 0 && c > 0 && u(t[2]) == r - 1 && u(t[3]) == c - 1) { tr.push((u(t[2]), u(t[3]), px(3.0))); }
                     Sparse::from_triplets(r, c, &mut tr) }, || true, yes, false) }
        "sp_get" => { let s = sparsen(u(t[0]), u(t[1])); let b = bits_s(&s); run(|| s.get(u(t[2]), u(t[3])), || bits_s(&s) == b, yes, false) }
        "sp_insert" => { let mut s = sparsen(u(t[0]), u(t[1])); let b = bits_s(&s);
            let r = catch_unwind(AssertUnwindSafe(|| s.insert(u(t[2]), u(t[3]), px(9.0)))); if r.is_err() { if bits_s(&s) == b { 1 } else { 2 } } else { 0 } }
        "sp_multiply" => { let s = sparsen(u(t[0]), u(t[1])); let x = pv(u(t[2])); let (b, sx) = (bits_s(&s), bits_v(&x));
            run(|| s.multiply(&x), || bits_s(&s) == b && bits_v(&x) == sx, yes, false) }
        "sp_transpose_multiply" => { let s = sparsen(u(t[0]), u(t[1])); let x = pv(u(t[2])); let (b, sx) = (bits_s(&s), bits_v(&x));
            run(|| s.transpose_multiply(&x), || bits_s(&s) == b && bits_v(&x) == sx, yes, false) }
        "sp_solve_bicg" | "sp_solve_bicgstab" | "sp_solve_cg" | "sp_solve_qmr" => {
            let (r, c) = (u(t[0]), u(t[1]));
            let mut tr: Vec<(usize, usize, f64)> = Vec::new();
            for i in 0..r.min(c) { tr.push((i, i, 4.0 + i as f64)); }
            let s = Sparse::from_triplets(r, c, &mut tr);
            let b = pv(u(t[2])); let mut x = Vector::<f64>::new(u(t[3]), 0.0);
            let (bs, sb, sx) = (bits_s(&s), bits_v(&b), bits_v(&x));
            let res = catch_unwind(AssertUnwindSafe(|| match key {
                "sp_solve_bicg" => s.solve_bicg(&b, &mut x, 50, 1e-10, u(t[4])),
                "sp_solve_bicgstab" => s.solve_bicgstab(&b, &mut x, 50, 1e-10),
                "sp_solve_cg" => s.solve_cg(&b, &mut x, 50, 1e-10),
                _ => s.solve_qmr(&b, &mut x, 50, 1e-10) }));
            if res.is_err() { if bits_s(&s) == bs && bits_v(&b) == sb && bits_v(&x) == sx { 1 } else { 2 } }
            else if bits_s(&s) != bs || bits_v(&b) != sb { 3 } else { 0 } }
        // ---------------------------------------------------------------- meshes
        "mesh1_set_nodes_vars" => { let mut m = mesh1(u(t[0]), u(t[1])); let s = bits_m1(&m);
            let r = catch_unwind(AssertUnwindSafe(|| m.set_nodes_vars(u(t[2]), pv(u(t[3]))))); if r.is_err() { if bits_m1(&m) == s { 1 } else { 2 } } else { 0 } }
        "mesh1_get_nodes_vars" => { let m = mesh1(u(t[0]), u(t[1])); let s = bits_m1(&m); run(|| m.get_nodes_vars(u(t[2])), || bits_m1(&m) == s, yes, false) }
        "mesh2_set_nodes_vars" => { let mut m = mesh2(u(t[0]), u(t[1]), u(t[2])); let s = bits_m2(&m);
            let r = catch_unwind(AssertUnwindSafe(|| m.set_nodes_vars(u(t[3]), u(t[4]), pv(u(t[5]))))); if r.is_err() { if bits_m2(&m) == s { 1 } else { 2 } } else { 0 } }
        "mesh2_get_nodes_vars" => { let m = mesh2(u(t[0]), u(t[1]), 2); let s = bits_m2(&m); run(|| m.get_nodes_vars(u(t[2]), u(t[3])), || bits_m2(&m) == s, yes, false) }
        "mesh2_var_as_matrix" => { let m = mesh2(u(t[0]), u(t[1]), u(t[2])); let s = bits_m2(&m); run(|| m.var_as_matrix(u(t[3])), || bits_m2(&m) == s, yes, false) }
        // ---------------------------------------------------------------- Polynomial
        "poly_index" => { let p = polyn(u(t[0])); let s = bits_p(&p); run(|| p[u(t[1])], || bits_p(&p) == s, yes, false) }
        "poly_index_mut" => { let mut p = polyn(u(t[0])); let s = bits_p(&p);
            let r = catch_unwind(AssertUnwindSafe(|| { p[u(t[1])] = px(7.0); })); if r.is_err() { if bits_p(&p) == s { 1 } else { 2 } } else { 0 } }
        "poly_roots_degree" => { let p = polyn(u(t[0])); let s = bits_p(&p); run(|| p.roots(false), || bits_p(&p) == s, yes, false) }
        // ---------------------------------------------------------------- std-checked accessors (no explicit guard)
        "vec_index_mut" => { let mut a = vecn(u(t[0])); let sa = bits_v(&a);
            let r = catch_unwind(AssertUnwindSafe(|| { a[u(t[1])] = px(7.0); })); if r.is_err() { if bits_v(&a) == sa { 1 } else { 2 } } else { 0 } }
        "vec_swap" => { let mut a = vecn(u(t[0])); let sa = bits_v(&a);
            let r = catch_unwind(AssertUnwindSafe(|| a.swap(u(t[1]), u(t[2])))); if r.is_err() { if bits_v(&a) == sa { 1 } else { 2 } } else { 0 } }
        "vec_insert" => { let mut a = vecn(u(t[0])); let sa = bits_v(&a);
            let r = catch_unwind(AssertUnwindSafe(|| a.insert(u(t[1]), px(7.0)))); if r.is_err() { if bits_v(&a) == sa { 1 } else { 2 } } else { 0 } }
        "vec_pop" => { let mut a = vecn(u(t[0])); let sa = bits_v(&a);
            let r = catch_unwind(AssertUnwindSafe(|| a.pop())); if r.is_err() { if bits_v(&a) == sa { 1 } else { 2 } } else { 0 } }
        "mesh1_index" => { let m = mesh1(u(t[0]), 2); let s = bits_m1(&m); run(|| m[u(t[1])].clone(), || bits_m1(&m) == s, yes, false) }
        "mesh1_index_mut" => { let mut m = mesh1(u(t[0]), 2); let s = bits_m1(&m);
            let r = catch_unwind(AssertUnwindSafe(|| { m[u(t[1])] = pv(2); })); if r.is_err() { if bits_m1(&m) == s { 1 } else { 2 } } else { 0 } }
        "mesh1_coord" => { let m = mesh1(u(t[0]), 2); let s = bits_m1(&m); run(|| m.coord(u(t[1])), || bits_m1(&m) == s, yes, false) }
        "mesh2_coord" => { let m = mesh2(u(t[0]), u(t[1]), 1); let s = bits_m2(&m); run(|| m.coord(u(t[2]), u(t[3])), || bits_m2(&m) == s, yes, false) }
        "mesh2_cross_section_xnode" => { let m = mesh2(u(t[0]), u(t[1]), 2); let s = bits_m2(&m); run(|| bits_m1(&m.cross_section_xnode(u(t[2]))), || bits_m2(&m) == s, yes, false) }
        "mesh2_cross_section_ynode" => { let m = mesh2(u(t[0]), u(t[1]), 2); let s = bits_m2(&m); run(|| bits_m1(&m.cross_section_ynode(u(t[2]))), || bits_m2(&m) == s, yes, false) }
        "mesh2_apply" => { let mut m = mesh2(u(t[0]), u(t[1]), u(t[2])); let s = bits_m2(&m);
            let r = catch_unwind(AssertUnwindSafe(|| { let z = zero_mode(); m.apply(&move |x, y| if z { 0.0 } else { x + 2.0 * y }, u(t[3])) })); if r.is_err() { if bits_m2(&m) == s { 1 } else { 2 } } else { 0 } }
        "band_index_rows" => { let b = bandn(u(t[0]), u(t[1]), u(t[2])); let s = bits_b(&b); run(|| b[(u(t[3]), u(t[3]))], || bits_b(&b) == s, yes, false) }
        // ---------------------------------------------------------------- quadrature: the variable index (std-checked)
        "mesh1_trapezium" => { let m = mesh1(u(t[0]), u(t[1])); let s = bits_m1(&m); run(|| m.trapezium(u(t[2])), || bits_m1(&m) == s, yes, false) }
        "mesh2_trapezium" => { let m = mesh2(u(t[0]), u(t[1]), u(t[2])); let s = bits_m2(&m); run(|| m.trapezium(u(t[3])), || bits_m2(&m) == s, yes, false) }
        "mesh2_square_trapezium" => { let m = mesh2(u(t[0]), u(t[1]), u(t[2])); let s = bits_m2(&m); run(|| m.square_trapezium(u(t[3])), || bits_m2(&m) == s, yes, false) }
        // ---------------------------------------------------------------- receivers produced by a history
        // Banded built as (n, a1, a2), then resize(n, m1, m2): the band test and the storage must both follow the NEW bandwidths
        "h_band_index" => { let mut b = bandn(u(t[0]), u(t[1]), u(t[2])); b.resize(u(t[0]), u(t[3]), u(t[4])); let s = bits_b(&b);
            run(|| b[(u(t[5]), u(t[6]))], || bits_b(&b) == s, yes, false) }
        "h_band_index_mut" => { let n = u(t[0]); let (m1, m2) = (u(t[3]), u(t[4])); let (i, j) = (u(t[5]), u(t[6]));
            let mut b = bandn(n, u(t[1]), u(t[2])); b.resize(n, m1, m2);
            // give every in-band entry its own value through the write accessor (an entry that shares storage with another shows below)
            let inband = |p: usize, q: usize| q <= p + m2 && p <= q + m1;
            let fill = catch_unwind(AssertUnwindSafe(|| { for p in 0..n { for q in 0..n { if inband(p, q) { b[(p, q)] = 100.0 + (p * 10 + q) as f64; } } } }));
            if fill.is_err() { return 1; }      // an in-band write was refused: reported for the in-band tuples as `in-range call panicked`
            let s = bits_b(&b);
            let r = catch_unwind(AssertUnwindSafe(|| { b[(i, j)] = 7.0; }));
            if r.is_err() { return if bits_b(&b) == s { 1 } else { 2 }; }
            let frame = catch_unwind(AssertUnwindSafe(|| { let mut ok = true;
                for p in 0..n { for q in 0..n { if inband(p, q) {
                    let want = if (p, q) == (i, j) { 7.0 } else { 100.0 + (p * 10 + q) as f64 };
                    if b[(p, q)].to_bits() != want.to_bits() { ok = false; } } } }
                ok }));
            match frame { Ok(true) => 0, _ => 6 } }
        // Tridiagonal built with n0 rows, then resize(n)
        "h_tri_index" => { let mut a = trin(u(t[0])); a.resize(u(t[1])); let s = bits_t(&a); run(|| a[(u(t[2]), u(t[3]))], || bits_t(&a) == s, yes, false) }
        "h_tri_index_mut" => { let mut a = trin(u(t[0])); a.resize(u(t[1])); let s = bits_t(&a);
            let r = catch_unwind(AssertUnwindSafe(|| { a[(u(t[2]), u(t[3]))] = 7.0; })); if r.is_err() { if bits_t(&a) == s { 1 } else { 2 } } else { 0 } }
        // Matrix r x c, then h = 0 transpose_in_place | 1 delete_row(0) | 2 resize(c + 1, r)
        "h_mat_get_row" | "h_mat_get_col" | "h_mat_set_row" | "h_mat_set_col" => {
            let (r, c) = (u(t[0]), u(t[1])); let mut m = matn(r, c);
            match t[2] { 0 => m.transpose_in_place(), 1 => m.delete_row(0), _ => m.resize(c + 1, r) }
            let s = bits_m(&m);
            match key {
                "h_mat_get_row" => run(|| m.get_row(u(t[3])), || bits_m(&m) == s, yes, false),
                "h_mat_get_col" => run(|| m.get_col(u(t[3])), || bits_m(&m) == s, yes, false),
                _ => { let row = key == "h_mat_set_row";
                    let res = catch_unwind(AssertUnwindSafe(|| if row { m.set_row(u(t[3]), pv(u(t[4]))) } else { m.set_col(u(t[3]), pv(u(t[4]))) }));
                    if res.is_err() { if bits_m(&m) == s { 1 } else { 2 } } else { 0 } } } }
        _ => panic!("harness: unknown guard entry {}", key),
    }
}

// clone independence: mutate the clone, the original must not move; mutate the original, the clone must not move
fn clone_check(ty: &str, n: usize) -> i128 {
    match ty {
        "vector" => { let mut a = vecn(n); let mut c = a.clone(); let sa = bits_v(&a);
            c.push(9.0); if n > 0 { c[0] = -1.0; } if bits_v(&a) != sa { return 1; }
            let sc = bits_v(&c); a.assign(3.0); a.push(1.0); if bits_v(&c) != sc { return 1; } 0 }
        "matrix" => { let mut a = matn(n, n + 1); let mut c = a.clone(); let sa = bits_m(&a);
            c.fill(9.0); c.resize(n + 1, n); if bits_m(&a) != sa { return 1; }
            let sc = bits_m(&c); a.fill_diag(3.0); a.transpose_in_place(); if bits_m(&c) != sc { return 1; } 0 }
        "banded" => { let mut a = bandn(n + 1, 1.min(n), 1.min(n)); let mut c = a.clone(); let sa = bits_b(&a);
            c.fill(9.0); c *= 2.0; if bits_b(&a) != sa { return 1; }
            let sc = bits_b(&c); a.fill_band(0, 3.0); a += 1.0; if bits_b(&c) != sc { return 1; } 0 }
        "tridiagonal" => { let mut a = trin(n + 1); let mut c = a.clone(); let sa = bits_t(&a);
            c[(0, 0)] = 9.0; c *= 2.0; if bits_t(&a) != sa { return 1; }
            let sc = bits_t(&c); a[(n, n)] = 3.0; a += 1.0; a.transpose_in_place(); if bits_t(&c) != sc { return 1; } 0 }
        "polynomial" => { let mut a = polyn(n + 1); let mut c = a.clone(); let sa = bits_p(&a);
            c[0] = 9.0; c.coeffs().push(1.0); if bits_p(&a) != sa { return 1; }
            let sc = bits_p(&c); a[n] = 3.0; a.coeffs().pop(); if bits_p(&c) != sc { return 1; } 0 }
        _ => panic!("harness: unknown clone type {}", ty),
    }
}

// owned (consuming) vs borrowed forms of the operators that have no size guard: results must be bit-identical and the
// borrowed operands untouched.  Scalars include values whose reciprocal is inexact (a reciprocal-multiply rewrite shows).
fn own_check(ty: &str, n: usize) -> i128 {
    let scalars = [3.0f64, 10.0, 49.0, 0.1, -7.0, 2.0];
    match ty {
        "matrix" => { let a = matn(n, n + 1); let sa = bits_m(&a);
            for s in scalars {
                if bits_m(&(&a * s)) != bits_m(&(a.clone() * s)) { return 4; }
                if bits_m(&(&a / s)) != bits_m(&(a.clone() / s)) { return 4; }
                { let c = forms(|| s * a.clone(), || &a * s, bits_m, 2, false); if c != 0 { return c; } }      // scalar-left form: within rounding
            }
            if bits_m(&(-&a)) != bits_m(&(-(a.clone()))) { return 4; }
            if bits_m(&a) != sa { return 3; } 0 }
        "banded" => { let a = bandn(n + 1, 1.min(n), 1.min(n)); let sa = bits_b(&a);
            for s in scalars {
                if bits_b(&(&a * s)) != bits_b(&(a.clone() * s)) { return 4; }
                if bits_b(&(&a / s)) != bits_b(&(a.clone() / s)) { return 4; }
            }
            if bits_b(&(-&a)) != bits_b(&(-(a.clone()))) { return 4; }
            if bits_b(&a) != sa { return 3; } 0 }
        "polynomial" => { let p = polyn(n + 1); let q = polyn(n / 2 + 1); let (sp, sq) = (bits_p(&p), bits_p(&q));
            if bits_p(&(&p + &q)) != bits_p(&(p.clone() + q.clone())) { return 4; }
            if bits_p(&(&q + &p)) != bits_p(&(q.clone() + p.clone())) { return 4; }
            if bits_p(&(&p - &q)) != bits_p(&(p.clone() - q.clone())) { return 4; }
            if bits_p(&(&q - &p)) != bits_p(&(q.clone() - p.clone())) { return 4; }
            if bits_p(&(&p * &q)) != bits_p(&(p.clone() * q.clone())) { return 4; }
            if bits_p(&(-&p)) != bits_p(&(-(p.clone()))) { return 4; }
            for s in scalars { if bits_p(&(&p * s)) != bits_p(&(p.clone() * s)) { return 4; } }
            if bits_p(&p) != sp || bits_p(&q) != sq { return 3; } 0 }
        "vector" => { let a = vecn(n); let b = vecn(n); let (sa, sb) = (bits_v(&a), bits_v(&b));
            if bits_v(&(&a + &b)) != bits_v(&(a.clone() + b.clone())) { return 4; }
            if bits_v(&(&a - &b)) != bits_v(&(a.clone() - b.clone())) { return 4; }
            if bits_v(&(&a + &b)) != bits_v(&(a.clone() + &b)) { return 4; }
            if bits_v(&a) != sa || bits_v(&b) != sb { return 3; } 0 }
        _ => panic!("harness: unknown own type {}", ty),
    }
}

// operands whose sums and products are INEXACT in f64 (the builders above are small dyadic numbers: every operation on them is exact, so
// a consuming form that reassociates, commutes the accumulation or multiplies by a reciprocal agrees with the borrowed form on them)
fn xval(k: usize) -> f64 { let x = 0.1 * (k as f64 + 1.0) + 1.0 / (k as f64 + 3.0); if k % 3 == 1 { -x } else { x } }
fn vecx(n: usize, o: usize) -> Vector<f64> { Vector::create((0..n).map(|i| xval(i + o)).collect()) }
fn matx(r: usize, c: usize, o: usize) -> Matrix<f64> {
    let mut m = Matrix::<f64>::new(r, c, 0.0);
    for i in 0..r { for j in 0..c { m[(i, j)] = xval(i * c + j + o) * (1.0 + 0.01 * j as f64); } }
    m
}
fn bandx(n: usize, m1: usize, m2: usize, o: usize) -> Banded<f64> {
    let mut b = Banded::<f64>::new(n, m1, m2, 0.0);
    for i in 0..n { for j in 0..n { if j <= i + m2 && i <= j + m1 { b[(i, j)] = xval(i * n + j + o); } } }
    b
}
fn trix(n: usize, o: usize) -> Tridiagonal<f64> { Tridiagonal::with_vectors(vecx(n - 1, o), vecx(n, o + 7), vecx(n - 1, o + 13)) }
fn polyx(len: usize, o: usize) -> Polynomial<f64> { Polynomial::new((0..len).map(|i| xval(i + o)).collect()) }

// two forms of one operation, each under catch_unwind.  Panic-vs-value must agree exactly (code 9 otherwise).  `exact`: the values must be
// bit-identical (code 4) -- demanded of op(a.clone(), b.clone()) against op(&a, &b) ("their consuming counterparts return identical
// results") and of every comparison on the dyadic builders, where every sum and product is exact.  Not `exact` (assign forms, scalar-left
// forms, methods, the same object on both sides -- C20 states nothing bitwise about those): same shape, and every entry within
// 1e-12 * (largest entry of either result) of its counterpart (code 8 otherwise; a NaN on one side only is code 8).
fn close(x: &[u64], y: &[u64], head: usize) -> bool {
    if x.len() != y.len() { return false; }
    let h = head.min(x.len());
    if x[..h] != y[..h] { return false; }
    let mut scale = 0.0f64;
    for w in x[h..].iter().chain(y[h..].iter()) { let v = f64::from_bits(*w).abs(); if v.is_finite() && v > scale { scale = v; } }
    for (p, q) in x[h..].iter().zip(y[h..].iter()) {
        if p == q { continue; }
        let d = (f64::from_bits(*p) - f64::from_bits(*q)).abs();
        if !(d <= 1e-12 * scale) { return false; }
    }
    true
}
fn forms<R>(f1: impl FnOnce() -> R, f2: impl FnOnce() -> R, bits: impl Fn(&R) -> Vec<u64>, head: usize, exact: bool) -> i128 {
    let r1 = catch_unwind(AssertUnwindSafe(f1)); let r2 = catch_unwind(AssertUnwindSafe(f2));
    match (r1, r2) {
        (Ok(x), Ok(y)) => { let (bx, by) = (bits(&x), bits(&y)); if bx == by { 0 } else if exact { 4 } else if close(&bx, &by, head) { 0 } else { 8 } }
        (Err(_), Err(_)) => 0,
        _ => 9,
    }
}
macro_rules! chk { ($e:expr) => { let c: i128 = $e; if c != 0 { return c; } } }
const HV: usize = 0; const HM: usize = 2; const HB: usize = 5; const HT: usize = 1; const HP: usize = 0;

fn own2_check(ty: &str, n: usize) -> i128 {
    let scalars = [3.0f64, 0.1, -7.0, 1.0 / 3.0];
    match ty {
        "matrix" => { let a = matx(n, n + 1, 0); let c = matx(n, n + 1, 5); let b = matx(n + 1, n + 2, 2); let v = vecx(n + 1, 1);
            let (sa, sc, sb, sv) = (bits_m(&a), bits_m(&c), bits_m(&b), bits_v(&v));
            // consuming against by-reference: identical
            chk!(forms(|| &a + &c, || a.clone() + c.clone(), bits_m, HM, true));
            chk!(forms(|| &a - &c, || a.clone() - c.clone(), bits_m, HM, true));
            chk!(forms(|| &a * &b, || a.clone() * b.clone(), bits_m, HM, true));
            chk!(forms(|| &a * &v, || a.clone() * v.clone(), bits_v, HV, true));
            chk!(forms(|| { let mut x = a.clone(); x += &c; x }, || { let mut y = a.clone(); y += c.clone(); y }, bits_m, HM, true));
            chk!(forms(|| { let mut x = a.clone(); x -= &c; x }, || { let mut y = a.clone(); y -= c.clone(); y }, bits_m, HM, true));
            // method / assign forms against the binary form: same outcome class, values within rounding
            chk!(forms(|| a.multiply(&v), || &a * &v, bits_v, HV, false));
            chk!(forms(|| { let mut x = a.clone(); x += &c; x }, || &a + &c, bits_m, HM, false));
            chk!(forms(|| { let mut x = a.clone(); x -= &c; x }, || &a - &c, bits_m, HM, false));
            for s in scalars {
                chk!(forms(|| &a * s, || a.clone() * s, bits_m, HM, true));
                chk!(forms(|| &a / s, || a.clone() / s, bits_m, HM, true));
                chk!(forms(|| s * a.clone(), || &a * s, bits_m, HM, false));
                chk!(forms(|| { let mut x = a.clone(); x *= s; x }, || &a * s, bits_m, HM, false));
                chk!(forms(|| { let mut x = a.clone(); x /= s; x }, || &a / s, bits_m, HM, false));
            }
            if bits_m(&a) != sa || bits_m(&c) != sc || bits_m(&b) != sb || bits_v(&v) != sv { return 3; } 0 }
        "banded" => { let (m1, m2) = (1.min(n), 2.min(n)); let a = bandx(n + 1, m1, m2, 0); let c = bandx(n + 1, m1, m2, 4); let v = vecx(n + 1, 2);
            let (sa, sc, sv) = (bits_b(&a), bits_b(&c), bits_v(&v));
            chk!(forms(|| &a + &c, || a.clone() + c.clone(), bits_b, HB, true));
            chk!(forms(|| &a - &c, || a.clone() - c.clone(), bits_b, HB, true));
            chk!(forms(|| &a * &v, || a.clone() * v.clone(), bits_v, HV, true));
            chk!(forms(|| { let mut x = a.clone(); x += &c; x }, || { let mut y = a.clone(); y += c.clone(); y }, bits_b, HB, true));
            chk!(forms(|| { let mut x = a.clone(); x -= &c; x }, || { let mut y = a.clone(); y -= c.clone(); y }, bits_b, HB, true));
            chk!(forms(|| { let mut x = a.clone(); x += &c; x }, || &a + &c, bits_b, HB, false));
            chk!(forms(|| { let mut x = a.clone(); x -= &c; x }, || &a - &c, bits_b, HB, false));
            for s in scalars {
                chk!(forms(|| &a * s, || a.clone() * s, bits_b, HB, true));
                chk!(forms(|| &a / s, || a.clone() / s, bits_b, HB, true));
                chk!(forms(|| { let mut x = a.clone(); x *= s; x }, || &a * s, bits_b, HB, false));
                chk!(forms(|| { let mut x = a.clone(); x /= s; x }, || &a / s, bits_b, HB, false));
            }
            if bits_b(&a) != sa || bits_b(&c) != sc || bits_v(&v) != sv { return 3; } 0 }
        "tridiagonal" => { let a = trix(n + 1, 0); let v = vecx(n + 1, 3); let (sa, sv) = (bits_t(&a), bits_v(&v));
            chk!(forms(|| &a * &v, || a.clone() * v.clone(), bits_v, HV, true));
            for s in scalars {
                chk!(forms(|| s * a.clone(), || a.clone() * s, bits_t, HT, false));
                chk!(forms(|| { let mut x = a.clone(); x *= s; x }, || a.clone() * s, bits_t, HT, false));
                chk!(forms(|| { let mut x = a.clone(); x /= s; x }, || a.clone() / s, bits_t, HT, false));
            }
            if bits_t(&a) != sa || bits_v(&v) != sv { return 3; } 0 }
        "polynomial" => { let p = polyx(n + 1, 0); let q = polyx(n / 2 + 2, 5); let p2 = p.clone(); let (sp, sq) = (bits_p(&p), bits_p(&q));
            chk!(forms(|| &p + &q, || p.clone() + q.clone(), bits_p, HP, true));
            chk!(forms(|| &q + &p, || q.clone() + p.clone(), bits_p, HP, true));
            chk!(forms(|| &p - &q, || p.clone() - q.clone(), bits_p, HP, true));
            chk!(forms(|| &q - &p, || q.clone() - p.clone(), bits_p, HP, true));
            chk!(forms(|| &p * &q, || p.clone() * q.clone(), bits_p, HP, true));
            chk!(forms(|| &q * &p, || q.clone() * p.clone(), bits_p, HP, true));
            chk!(forms(|| &p * &p2, || p.clone() * p2.clone(), bits_p, HP, true));
            // the same object on both sides (a squaring path may round differently): within rounding
            chk!(forms(|| &p * &p, || p.clone() * p.clone(), bits_p, HP, false));
            for s in scalars { chk!(forms(|| &p * s, || p.clone() * s, bits_p, HP, true)); }
            if bits_p(&p) != sp || bits_p(&q) != sq || bits_p(&p2) != sp { return 3; } 0 }
        "vector" => { let a = vecx(n, 0); let b = vecx(n, 4); let (sa, sb) = (bits_v(&a), bits_v(&b));
            chk!(forms(|| &a + &b, || a.clone() + b.clone(), bits_v, HV, true));
            chk!(forms(|| &a - &b, || a.clone() - b.clone(), bits_v, HV, true));
            chk!(forms(|| &a + &b, || a.clone() + &b, bits_v, HV, true));
            chk!(forms(|| &a - &b, || a.clone() - &b, bits_v, HV, true));
            chk!(forms(|| { let mut x = a.clone(); x += b.clone(); x }, || &a + &b, bits_v, HV, false));
            chk!(forms(|| { let mut x = a.clone(); x -= b.clone(); x }, || &a - &b, bits_v, HV, false));
            for s in scalars {
                chk!(forms(|| s * a.clone(), || a.clone() * s, bits_v, HV, false));
                chk!(forms(|| { let mut x = a.clone(); x *= s; x }, || a.clone() * s, bits_v, HV, false));
                chk!(forms(|| { let mut x = a.clone(); x /= s; x }, || a.clone() / s, bits_v, HV, false));
            }
            if bits_v(&a) != sa || bits_v(&b) != sb { return 3; } 0 }
        _ => panic!("harness: unknown own2 type {}", ty),
    }
}

// clone: a faithful copy at the moment it is taken (code 7 otherwise), and independent afterwards under EVERY public mutator of the type,
// applied to the clone first and to the original first (code 1 otherwise)
fn indep<X: Clone>(make: &dyn Fn() -> X, bits: &dyn Fn(&X) -> Vec<u64>, muts: &[&dyn Fn(&mut X)]) -> i128 {
    for m in muts {
        let mut a = make(); let mut c = a.clone();
        if bits(&c) != bits(&a) { return 7; }
        let sa = bits(&a); m(&mut c); if bits(&a) != sa { return 1; }
        let sc = bits(&c); m(&mut a); if bits(&c) != sc { return 1; }
        let mut a = make(); let mut c = a.clone();
        let sc = bits(&c); m(&mut a); if bits(&c) != sc { return 1; }
        let sa = bits(&a); m(&mut c); if bits(&a) != sa { return 1; }
    }
    0
}
fn clone2_check(ty: &str, n: usize) -> i128 {
    match ty {
        "vector" => indep(&|| vecx(n, 0), &|v| bits_v(v), &[
            &|v| v.push(9.0), &|v| v.push_front(9.0), &|v| v.insert(v.size() / 2, 9.0), &|v| if v.size() > 0 { v.pop(); },
            &|v| if v.size() > 1 { let l = v.size() - 1; v.swap(0, l); }, &|v| v.clear(), &|v| v.resize(v.size() + 2), &|v| v.resize(v.size() / 2),
            &|v| v.assign(3.5), &|v| if v.size() > 0 { let l = v.size() - 1; v[l] = -1.0; }, &|v| *v += 1.5, &|v| *v -= 1.5, &|v| *v *= 3.0, &|v| *v /= 3.0,
            &|v| { let w = vecn(v.size()); *v += w; }, &|v| { let w = vecn(v.size()); *v -= w; }, &|v| v.sort_by(|x, y| y.partial_cmp(x).unwrap()) ]),
        "matrix" => indep(&|| matx(n, n + 1, 0), &|m| bits_m(m), &[
            &|m| m.fill(9.0), &|m| m.fill_diag(9.0), &|m| m.fill_band(1, 9.0), &|m| m.fill_tridiag(1.0, 2.0, 3.0),
            &|m| if m.rows() > 0 { m.fill_row(m.rows() - 1, 9.0); }, &|m| m.fill_col(m.cols() - 1, 9.0),
            &|m| if m.rows() > 0 { let c = m.cols(); m.set_row(0, vecn(c)); }, &|m| { let r = m.rows(); m.set_col(0, vecn(r)); },
            &|m| if m.rows() > 0 { m.delete_row(0); }, &|m| if m.rows() > 1 { let l = m.rows() - 1; m.swap_rows(0, l); },
            &|m| if m.rows() > 1 { let (r, c) = (m.rows() - 1, m.cols() - 1); m.swap_elem(0, 0, r, c); },
            &|m| { let (r, c) = (m.rows(), m.cols()); m.resize(r + 1, c); }, &|m| { let (r, c) = (m.rows(), m.cols()); m.resize(r, c - 1); },
            &|m| m.transpose_in_place(), &|m| if m.rows() > 0 { m[(0, 0)] = -1.0; }, &|m| m.clear(),
            &|m| *m += 1.5, &|m| *m -= 1.5, &|m| *m *= 3.0, &|m| *m /= 3.0,
            &|m| { let o = matn(m.rows(), m.cols()); *m += &o; }, &|m| { let o = matn(m.rows(), m.cols()); *m -= o; } ]),
        "banded" => indep(&|| bandx(n + 1, 1.min(n), 2.min(n), 0), &|b| bits_b(b), &[
            &|b| b.fill(9.0), &|b| b.fill_band(0, 9.0), &|b| { let (k, p, q) = (b.size(), b.size_below(), b.size_above()); b.resize(k + 1, p, q); },
            &|b| { let (k, p) = (b.size(), b.size_below()); b.resize(k, p, 0); }, &|b| b[(0, 0)] = -1.0,
            &|b| *b += 1.5, &|b| *b -= 1.5, &|b| *b *= 3.0, &|b| *b /= 3.0,
            &|b| { let o = bandn(b.size(), b.size_below(), b.size_above()); *b += &o; }, &|b| { let o = bandn(b.size(), b.size_below(), b.size_above()); *b -= o; } ]),
        "tridiagonal" => indep(&|| trix(n + 1, 0), &|t| bits_t(t), &[
            &|t| t[(0, 0)] = -1.0, &|t| if t.size() > 1 { t[(1, 0)] = -1.0; t[(0, 1)] = -2.0; }, &|t| { let k = t.size(); t.resize(k + 1); },
            &|t| if t.size() > 1 { let k = t.size(); t.resize(k - 1); }, &|t| t.transpose_in_place(),
            &|t| *t += 1.5, &|t| *t -= 1.5, &|t| *t *= 3.0, &|t| *t /= 3.0 ]),
        "polynomial" => indep(&|| polyx(n + 1, 0), &|p| bits_p(p), &[
            &|p| p[0] = -1.0, &|p| { let l = p.size() - 1; p[l] = 0.0; p.trim(); }, &|p| p.coeffs().push(1.0), &|p| { p.coeffs().pop(); },
            &|p| p.coeffs().clear(), &|p| p.coeffs().reverse() ]),
        _ => panic!("harness: unknown clone2 type {}", ty),
    }
}

// the SAME object on both sides of a by-reference operator: the outcome class (value or panic) must be that of the same call with an
// equal but distinct second operand (code 9 otherwise); the value must be bit-identical on the dyadic / integer builders, where every sum
// and product is exact (code 4), and within rounding on the inexact builders (code 8: a symmetric path may round differently)
fn self_check(ty: &str, n: usize) -> i128 {
    match ty {
        "vector" => { for exact in [true, false] { let a = if exact { vecn(n) } else { vecx(n, 0) }; let b = a.clone(); let sa = bits_v(&a);
                chk!(forms(|| &a + &a, || &a + &b, bits_v, HV, exact));
                chk!(forms(|| &a - &a, || &a - &b, bits_v, HV, exact));
                chk!(forms(|| a.dot(&a), || a.dot(&b), |x| vec![x.to_bits()], 0, exact));
                chk!(forms(|| a.dot_f64(&a), || a.dot_f64(&b), |x| vec![x.to_bits()], 0, exact));
                if bits_v(&a) != sa || bits_v(&b) != sa { return 3; } }
            0 }
        "matrix" => { for exact in [true, false] { for (r, c) in [(n, n), (n, n + 1), (n + 1, n)] {
                let a = if exact { matn(r, c) } else { matx(r, c, 0) }; let b = a.clone(); let sa = bits_m(&a);
                chk!(forms(|| &a + &a, || &a + &b, bits_m, HM, exact));
                chk!(forms(|| &a - &a, || &a - &b, bits_m, HM, exact));
                chk!(forms(|| &a * &a, || &a * &b, bits_m, HM, exact));
                chk!(forms(|| { let mut x = a.clone(); x += &a; x }, || { let mut y = a.clone(); y += &b; y }, bits_m, HM, exact));
                if bits_m(&a) != sa || bits_m(&b) != sa { return 3; } } }
            0 }
        "banded" => { for exact in [true, false] { let a = if exact { bandn(n + 1, 1.min(n), 2.min(n)) } else { bandx(n + 1, 1.min(n), 2.min(n), 0) }; let b = a.clone(); let sa = bits_b(&a);
                chk!(forms(|| &a + &a, || &a + &b, bits_b, HB, exact));
                chk!(forms(|| &a - &a, || &a - &b, bits_b, HB, exact));
                if bits_b(&a) != sa || bits_b(&b) != sa { return 3; } }
            0 }
        "polynomial" => { for exact in [true, false] { let p = if exact { polyn(n + 1) } else { polyx(n + 1, 0) }; let q = p.clone(); let sp = bits_p(&p);
                chk!(forms(|| &p + &p, || &p + &q, bits_p, HP, exact));
                chk!(forms(|| &p - &p, || &p - &q, bits_p, HP, exact));
                chk!(forms(|| &p * &p, || &p * &q, bits_p, HP, exact));
                if bits_p(&p) != sp || bits_p(&q) != sp { return 3; } }
            0 }
        _ => panic!("harness: unknown self type {}", ty),
    }
}

pub fn run_kind(kind: &str, a: &mut Args, out: &mut Out) {
    let key = kind.strip_prefix("guard.").unwrap_or_else(|| panic!("harness: bad guard kind {}", kind));
    if let Some(ty) = key.strip_prefix("clone2_") {
        while a.more() { let n = a.usize(); out.int(clone2_check(ty, n)); }
        return;
    }
    if let Some(ty) = key.strip_prefix("self_") {
        while a.more() { let n = a.usize(); out.int(self_check(ty, n)); }
        return;
    }
    if let Some(ty) = key.strip_prefix("own2_") {
        while a.more() { let n = a.usize(); out.int(own2_check(ty, n)); }
        return;
    }
    let (key, zero) = match key.strip_suffix("@zero") { Some(k) => (k, true), None => (key, false) };
    ZERO.with(|z| z.set(zero));
    if let Some(ty) = key.strip_prefix("clone_") {
        while a.more() { let n = a.usize(); out.int(clone_check(ty, n)); }
        return;
    }
    if let Some(ty) = key.strip_prefix("own_") {
        while a.more() { let n = a.usize(); out.int(own_check(ty, n)); }
        return;
    }
    let k = a.usize();
    let mut t: Vec<i64> = Vec::with_capacity(k);
    while a.more() {
        t.clear();
        for _ in 0..k { t.push(a.word().parse::<i64>().expect("harness: bad integer")); }
        out.int(entry(key, &t));
    }
}
