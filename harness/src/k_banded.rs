// Banded matrix kinds (C04).  Everything goes through the public API of ohsl::Banded:
// new, index / index_mut, fill, resize, fill_band, the operators, solve, det, compact().
//
//   band.hist <B> (<op> <args> ;)*
//       answer: state, then per op: result value (if any) or P<class>, the state only where the op `dump` asks for it
//       state  = n m1 m2 rows cols <compact values, row-major>
//   <B> = B<n>,<m1>,<m2>[v,...]   every slot of the n x (m1+m2+1) compact storage, padding included.
//
// A literal is built through the public API only: every slot (i,s) of the compact storage is the
// in-band element (i, i+s) of an upper-banded matrix of the same row width (Banded::new(n, 0, m1+m2)),
// written with index_mut; resize(n, m1, m2) then re-labels the bandwidths and copies the storage.
// Nothing is verified here: the first item of the answer is the state after construction, which the
// driver compares with the literal (oracle) and with the model (tie).
use std::panic::{catch_unwind, AssertUnwindSafe};
use ohsl::{Banded, Vector};
use crate::io::{Args, Out, Elt};

fn split_list(tok: &str) -> Vec<&str> {
    let inner = tok.strip_prefix('[').and_then(|t| t.strip_suffix(']')).unwrap_or_else(|| panic!("harness: bad list {}", tok));
    if inner.is_empty() { Vec::new() } else { inner.split(',').collect() }
}

fn band_lit<T: Elt>(tok: &str) -> Banded<T> {
    let t = tok.strip_prefix('B').unwrap_or_else(|| panic!("harness: bad banded literal {}", tok));
    let (dims, rest) = t.split_at(t.find('[').expect("harness: bad banded literal"));
    let d: Vec<usize> = dims.split(',').map(|x| x.parse().expect("harness: bad banded dims")).collect();
    if d.len() != 3 { panic!("harness: bad banded dims"); }
    let (n, m1, m2) = (d[0], d[1], d[2]);
    let mm = m1 + m2 + 1;
    let vals: Vec<T> = split_list(rest).into_iter().map(T::parse).collect();
    if vals.len() != n * mm { panic!("harness: banded literal size"); }
    let mut b = Banded::<T>::new(n, 0, m1 + m2, T::zero());
    for i in 0..n { for s in 0..mm { b[(i, i + s)] = vals[i * mm + s]; } }
    b.resize(n, m1, m2);
    b
}

fn emit<T: Elt>(out: &mut Out, b: &Banded<T>) {
    out.usize(b.size()); out.usize(b.size_below()); out.usize(b.size_above());
    out.m(b.compact());
}
fn toks_b<T: Elt>(b: &Banded<T>) -> Vec<String> { let mut o = Out::new(); emit(&mut o, b); o.toks }
fn toks_v<T: Elt>(v: &Vector<T>) -> Vec<String> { let mut o = Out::new(); o.v(v); o.toks }
fn toks_s<T: Elt>(x: &T) -> Vec<String> { let mut o = Out::new(); o.s(x); o.toks }

fn unchanged<T: Elt>(b: &Banded<T>, snap: &Vec<String>, what: &str) {
    if &toks_b(b) != snap { panic!("harness: operand mutated by {}", what); }
}
fn unchanged_v<T: Elt>(v: &Vector<T>, snap: &Vec<String>, what: &str) {
    if &toks_v(v) != snap { panic!("harness: operand mutated by {}", what); }
}
fn forms<T: Elt>(a: &Banded<T>, b: &Banded<T>, what: &str) {
    if toks_b(a) != toks_b(b) { panic!("harness: owned/borrowed forms differ ({})", what); }
}

fn step<T: Elt>(b: &mut Banded<T>, op: &str, a: &mut Args, out: &mut Out) {
    match op {
        "new" => { let (n, m1, m2) = (a.usize(), a.usize(), a.usize()); let x = a.s::<T>(); *b = Banded::new(n, m1, m2, x); }
        "fill" => { let x = a.s::<T>(); b.fill(x); }
        "resize" => { let (n, m1, m2) = (a.usize(), a.usize(), a.usize()); b.resize(n, m1, m2); }
        "fill_band" => { let k = a.isize(); let x = a.s::<T>(); b.fill_band(k, x); }
        "set" => { let (i, j) = (a.usize(), a.usize()); let x = a.s::<T>(); b[(i, j)] = x; }
        "add_assign" => { let c = band_lit::<T>(a.word()); let s = toks_b(&c); *b += &c; unchanged(&c, &s, "+="); }
        "sub_assign" => { let c = band_lit::<T>(a.word()); let s = toks_b(&c); *b -= &c; unchanged(&c, &s, "-="); }
        "add_assign_own" => { let c = band_lit::<T>(a.word()); *b += c; }
        "sub_assign_own" => { let c = band_lit::<T>(a.word()); *b -= c; }
        "mul_assign_s" => { let x = a.s::<T>(); *b *= x; }
        "div_assign_s" => { let x = a.s::<T>(); *b /= x; }
        "add_assign_s" => { let x = a.s::<T>(); *b += x; }
        "sub_assign_s" => { let x = a.s::<T>(); *b -= x; }
        // ---- value-returning: the operand must stay bit-for-bit unchanged, owned form must agree
        "get" => { let (i, j) = (a.usize(), a.usize()); out.s(&b[(i, j)]); }
        "getall" => {
            // every (i,j) of the n x n matrix through the index operator: a value, or P<class> where it panics
            let n = b.size();
            for i in 0..n { for j in 0..n {
                let r = catch_unwind(AssertUnwindSafe(|| b[(i, j)]));
                match r {
                    Ok(x) => out.s(&x),
                    Err(_) => { let msg = crate::LAST_PANIC.with(|p| p.borrow().clone()); out.toks.push(format!("P{}", crate::classify(&msg))); }
                }
            } }
        }
        "neg" => { let s = toks_b(b); let r = -&*b; unchanged(b, &s, "neg"); let r2 = -(b.clone()); forms(&r, &r2, "neg"); emit(out, &r); }
        "add" => { let c = band_lit::<T>(a.word()); let (s1, s2) = (toks_b(b), toks_b(&c)); let r = &*b + &c;
            unchanged(b, &s1, "+"); unchanged(&c, &s2, "+"); let r2 = b.clone() + c.clone(); forms(&r, &r2, "+"); emit(out, &r); }
        "sub" => { let c = band_lit::<T>(a.word()); let (s1, s2) = (toks_b(b), toks_b(&c)); let r = &*b - &c;
            unchanged(b, &s1, "-"); unchanged(&c, &s2, "-"); let r2 = b.clone() - c.clone(); forms(&r, &r2, "-"); emit(out, &r); }
        // both operands the same object
        "add_self" => { let s = toks_b(b); let r = &*b + &*b; unchanged(b, &s, "+ (same object)");
            let r2 = b.clone() + b.clone(); forms(&r, &r2, "+ (same object)"); emit(out, &r); }
        "sub_self" => { let s = toks_b(b); let r = &*b - &*b; unchanged(b, &s, "- (same object)");
            let r2 = b.clone() - b.clone(); forms(&r, &r2, "- (same object)"); emit(out, &r); }
        "scale" => { let x = a.s::<T>(); let s = toks_b(b); let r = &*b * x; unchanged(b, &s, "*s"); let r2 = b.clone() * x; forms(&r, &r2, "*s"); emit(out, &r); }
        "div" => { let x = a.s::<T>(); let s = toks_b(b); let r = &*b / x; unchanged(b, &s, "/s"); let r2 = b.clone() / x; forms(&r, &r2, "/s"); emit(out, &r); }
        "mulv" => { let v = a.v::<T>(); let (s1, s2) = (toks_b(b), toks_v(&v)); let r = &*b * &v;
            unchanged(b, &s1, "*v"); unchanged_v(&v, &s2, "*v");
            let r2 = b.clone() * v.clone(); if toks_v(&r) != toks_v(&r2) { panic!("harness: owned/borrowed forms differ (band*vec)"); }
            out.v(&r); }
        "solve" => { let v = a.v::<T>(); let (s1, s2) = (toks_b(b), toks_v(&v)); let x = b.solve(&v);
            unchanged(b, &s1, "solve"); unchanged_v(&v, &s2, "solve"); out.v(&x); }
        "det" => { let s = toks_b(b); let d = b.det(); unchanged(b, &s, "det");
            let d2 = b.clone().det(); if toks_s(&d) != toks_s(&d2) { panic!("harness: clone differs (det)"); }
            out.s(&d); }
        "dump" => { emit(out, b); }
        "size" => { out.usize(b.size()); out.usize(b.size_below()); out.usize(b.size_above()); }
        _ => panic!("harness: unknown banded op {}", op),
    }
}

pub fn run<T: Elt>(kind: &str, a: &mut Args, out: &mut Out) {
    match kind {
        "band.hist" => {
            let mut b = band_lit::<T>(a.word());
            emit(out, &b);
            while a.more() {
                let op = a.word();
                let mark = out.toks.len();
                let r = catch_unwind(AssertUnwindSafe(|| step(&mut b, op, a, out)));
                if r.is_err() {
                    let msg = crate::LAST_PANIC.with(|p| p.borrow().clone());
                    let cls = crate::classify(&msg);
                    if cls == "harness" || cls == "ratovf" { panic!("{}", msg); }
                    out.toks.truncate(mark);
                    out.toks.push(format!("P{}", cls));
                } else if out.toks.len() == mark {
                    out.usize(0);     // an operation without a result answers i0: a P item always belongs to the op at whose place it stands
                }
                while a.more() { if a.word() == ";" { break; } }
            }
        }
        _ => panic!("harness: unknown kind {}", kind),
    }
}
