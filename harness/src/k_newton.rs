// newton kinds (C17, C18): the six Newton solve methods and the two finite-difference Jacobians.
//
//   newton.scalar <tol|-> <delta|-> <iters|-> <guess> <fn>              elt f64 | cplx
//   newton.sys    <tol|-> <delta|-> <iters|-> <guess-vec> <{fn,..}>     elt f64 | cplx
//   newton.sysjac <tol|-> <delta|-> <iters|-> <guess-vec> <{fn,..}> <r> <c> <{jac entry,.. row-major}>
//   newton.jac    <point-vec> <delta> <{fn,..}>                         elt f64 | cplx
//   newton.hscalar <guess0> <nops> {<op> <value>}* <fn>                 setter histories (specB): the object is built by
//   newton.hsys    <guess0-vec> <nops> {<op> <value>}* <{fn,..}>        Newton::new(guess0) and then configured by the ops IN THE
//   newton.hsysjac <guess0-vec> <nops> {<op> <value>}* <{fn,..}> <r> <c> <{jac,..}>   GIVEN ORDER: t <tol>, d <delta>, i <iters>,
//                  g <guess> (Newton::guess), s - (a solve whose result is discarded).  The answer has exactly the format of
//                  newton.scalar / newton.sys / newton.sysjac, so the model term is the run on the EFFECTIVE configuration.
//
// `-` keeps the default of Newton::new.  <fn> is a shared AST (fnast.rs; the model gets the same
// expression as a Gallina term) or, for search-only cases on f64, a builtin `@name:param:..`.
// The closures count their calls and record the points at which they were called.
//
// Answer of the solver kinds (must match coq/Model/NewtonRun.v run_newton):
//   [parameters()  (scalar kinds only)]  ok(1)/err(0) value  #calls  call points pass by pass, each pass sorted
//   [parameters() again]  ok/err value #calls of a second call on the same object
// Answer of newton.jac:  rows cols entries  #calls  call points in call order.
// Nothing is emitted when the library panics (the answer is then just P<class>).
#![allow(unused_imports, dead_code)]
use std::cell::RefCell;
use ohsl::{Cmplx, Matrix, Newton, Vector};
use crate::io::{Args, Out, Elt, parse_f64};
use crate::fnast::{self, Expr};
use crate::rat::Rat;

// ---------------------------------------------------------------- type dispatch
pub trait NElt: Elt {
    fn solve_scalar(_n: &Newton<Self>, _f: &dyn Fn(Self) -> Self) -> Result<Self, Self> { panic!("harness: newton kinds need f64 or cplx") }
    fn params(_n: &Newton<Self>) -> (f64, f64, usize, Self) { panic!("harness: newton kinds need f64 or cplx") }
    fn solve_sys(_n: &Newton<Vector<Self>>, _f: &dyn Fn(Vector<Self>) -> Vector<Self>) -> Result<Vector<Self>, Vector<Self>> { panic!("harness: newton kinds need f64 or cplx") }
    fn solve_sysjac(_n: &Newton<Vector<Self>>, _f: &dyn Fn(Vector<Self>) -> Vector<Self>, _j: &dyn Fn(Vector<Self>) -> Matrix<Self>) -> Result<Vector<Self>, Vector<Self>> { panic!("harness: newton kinds need f64 or cplx") }
    fn jac(_p: Vector<Self>, _f: &dyn Fn(Vector<Self>) -> Vector<Self>, _delta: f64) -> Matrix<Self> { panic!("harness: newton kinds need f64 or cplx") }
    fn builtin1(_name: &str, _p: &[f64]) -> Box<dyn Fn(Self) -> Self> { panic!("harness: builtin functions are f64 only") }
    fn builtinv(_name: &str, _p: &[f64]) -> Box<dyn Fn(&[Self]) -> Vec<Self>> { panic!("harness: builtin functions are f64 only") }
}
impl NElt for Rat {}
impl NElt for f64 {
    fn solve_scalar(n: &Newton<f64>, f: &dyn Fn(f64) -> f64) -> Result<f64, f64> { n.solve(f) }
    fn params(n: &Newton<f64>) -> (f64, f64, usize, f64) { n.parameters() }
    fn solve_sys(n: &Newton<Vector<f64>>, f: &dyn Fn(Vector<f64>) -> Vector<f64>) -> Result<Vector<f64>, Vector<f64>> { n.solve(f) }
    fn solve_sysjac(n: &Newton<Vector<f64>>, f: &dyn Fn(Vector<f64>) -> Vector<f64>, j: &dyn Fn(Vector<f64>) -> Matrix<f64>) -> Result<Vector<f64>, Vector<f64>> { n.solve_jacobian(f, j) }
    fn jac(p: Vector<f64>, f: &dyn Fn(Vector<f64>) -> Vector<f64>, delta: f64) -> Matrix<f64> { Matrix::<f64>::jacobian(p, f, delta) }
    fn builtin1(name: &str, p: &[f64]) -> Box<dyn Fn(f64) -> f64> {
        let c = if p.is_empty() { 0.0 } else { p[0] };
        match name {
            "cos" => Box::new(|x: f64| x.cos() - x),                 // root 0.7390851332151607
            "exp" => Box::new(move |x: f64| x.exp() - c),            // root ln c
            "sin" => Box::new(move |x: f64| x.sin() - c),            // root asin c
            "xexp" => Box::new(move |x: f64| x * x.exp() - c),       // root LambertW(c)
            "abs" => Box::new(|x: f64| x.abs()),                     // kink at the root
            "absm" => Box::new(move |x: f64| x.abs() - c),           // kink away from the roots +-c
            "sqrtabs" => Box::new(|x: f64| x.abs().sqrt()),          // Newton 2-cycle x -> -x
            "cbrt" => Box::new(|x: f64| x.cbrt()),                   // Newton diverges x -> -2x
            "atan" => Box::new(|x: f64| x.atan()),                   // diverges for |x0| > 1.3917
            "expp" => Box::new(|x: f64| x.exp()),                    // no root
            "step" => Box::new(|x: f64| if x < 0.0 { -1.0 } else { 1.0 }),   // derivative 0: division by zero
            _ => panic!("harness: unknown builtin {}", name),
        }
    }
    fn builtinv(name: &str, p: &[f64]) -> Box<dyn Fn(&[f64]) -> Vec<f64>> {
        let c: Vec<f64> = p.to_vec();
        match name {
            // diagonally dominant: f_i = 4 x_i + sin(x_{i+1}) - c_i
            "dsin" => Box::new(move |x: &[f64]| { let n = x.len(); (0..n).map(|i| 4.0 * x[i] + x[(i + 1) % n].sin() - c[i]).collect() }),
            // f_i = 3 x_i + cos(x_{i+1}) * 0.5 + exp(-x_i*x_i) * 0.25 - c_i
            "dcos" => Box::new(move |x: &[f64]| { let n = x.len(); (0..n).map(|i| 3.0 * x[i] + 0.5 * x[(i + 1) % n].cos() + 0.25 * (-x[i] * x[i]).exp() - c[i]).collect() }),
            // no root: f_i = exp(x_i) + 1
            "noroot" => Box::new(|x: &[f64]| x.iter().map(|t| t.exp() + 1.0).collect()),
            // kinks: f_i = |x_i| + x_{i+1}/4 - c_i
            "kink" => Box::new(move |x: &[f64]| { let n = x.len(); (0..n).map(|i| x[i].abs() + 0.25 * x[(i + 1) % n] - c[i]).collect() }),
            _ => panic!("harness: unknown builtin {}", name),
        }
    }
}
impl NElt for Cmplx {
    fn solve_scalar(n: &Newton<Cmplx>, f: &dyn Fn(Cmplx) -> Cmplx) -> Result<Cmplx, Cmplx> { n.solve(f) }
    fn params(n: &Newton<Cmplx>) -> (f64, f64, usize, Cmplx) { n.parameters() }
    fn solve_sys(n: &Newton<Vector<Cmplx>>, f: &dyn Fn(Vector<Cmplx>) -> Vector<Cmplx>) -> Result<Vector<Cmplx>, Vector<Cmplx>> { n.solve(f) }
    fn solve_sysjac(n: &Newton<Vector<Cmplx>>, f: &dyn Fn(Vector<Cmplx>) -> Vector<Cmplx>, j: &dyn Fn(Vector<Cmplx>) -> Matrix<Cmplx>) -> Result<Vector<Cmplx>, Vector<Cmplx>> { n.solve_jacobian(f, j) }
    fn jac(p: Vector<Cmplx>, f: &dyn Fn(Vector<Cmplx>) -> Vector<Cmplx>, delta: f64) -> Matrix<Cmplx> { Matrix::<Cmplx>::jacobian_cmplx(p, f, delta) }
}

// ---------------------------------------------------------------- user functions
enum Fun1<T: NElt> { Ast(Expr<T>), Builtin(Box<dyn Fn(T) -> T>) }
enum FunV<T: NElt> { Ast(Vec<Expr<T>>), Builtin(Box<dyn Fn(&[T]) -> Vec<T>>) }

fn builtin_parts(tok: &str) -> (&str, Vec<f64>) {
    let mut it = tok[1..].split(':');
    let name = it.next().unwrap();
    (name, it.map(parse_f64).collect())
}
fn exprs<T: NElt>(tok: &str) -> Vec<Expr<T>> {
    let inner = tok.strip_prefix('{').and_then(|t| t.strip_suffix('}')).unwrap_or_else(|| panic!("harness: bad function list {}", tok));
    if inner.is_empty() { Vec::new() } else { inner.split(',').map(fnast::parse::<T>).collect() }
}
fn fun1<T: NElt>(tok: &str) -> Fun1<T> {
    if tok.starts_with('@') { let (n, p) = builtin_parts(tok); Fun1::Builtin(T::builtin1(n, &p)) }
    else { Fun1::Ast(fnast::parse::<T>(tok)) }
}
fn funv<T: NElt>(tok: &str) -> FunV<T> {
    if tok.starts_with('@') { let (n, p) = builtin_parts(tok); FunV::Builtin(T::builtinv(n, &p)) }
    else { FunV::Ast(exprs::<T>(tok)) }
}
fn call1<T: NElt>(f: &Fun1<T>, x: T) -> T {
    match f { Fun1::Ast(e) => fnast::eval(e, &[x]), Fun1::Builtin(b) => b(x) }
}
fn callv<T: NElt>(f: &FunV<T>, x: &Vector<T>) -> Vector<T> {
    match f {
        // one expression per component, evaluated in order (Base/FnAst.v evalv)
        FunV::Ast(es) => Vector::create(es.iter().map(|e| fnast::eval(e, &x.vec)).collect()),
        FunV::Builtin(b) => Vector::create(b(&x.vec)),
    }
}

// ---------------------------------------------------------------- output helpers
fn key(toks: &[String]) -> Vec<u64> {
    // the flattened form of coq/Base/Flat.v: int -> [0; n], float -> [1; bits]
    let mut k = Vec::new();
    for t in toks {
        let (tag, v) = match t.as_bytes()[0] {
            b'i' => (0u64, t[1..].parse::<u64>().expect("harness: negative int in a call point")),
            b'f' => (1u64, t[1..].parse::<u64>().unwrap()),
            _ => panic!("harness: unexpected token in a call point"),
        };
        k.push(tag); k.push(v);
    }
    k
}
// the call points pass by pass (k calls per pass), each pass as a sorted multiset (Model/NewtonRun.v passes)
fn emit_passes(points: Vec<Vec<String>>, k: usize, out: &mut Out) {
    for ch in points.chunks(k) {
        let mut ps: Vec<(Vec<u64>, &Vec<String>)> = ch.iter().map(|p| (key(p), p)).collect();
        ps.sort_by(|a, b| a.0.cmp(&b.0));
        for (_, p) in ps { out.toks.extend(p.iter().cloned()); }
    }
}
fn toks_s<T: Elt>(x: &T) -> Vec<String> { let mut o = Out::new(); o.s(x); o.toks }
fn toks_v<T: Elt>(x: &Vector<T>) -> Vec<String> { let mut o = Out::new(); o.v(x); o.toks }
fn tagged(tag: usize, mut t: Vec<String>) -> Vec<String> { let mut o = Out::new(); o.usize(tag); o.toks.append(&mut t); o.toks }

fn opt_f64(a: &mut Args) -> Option<f64> { let w = a.word(); if w == "-" { None } else { Some(parse_f64(w)) } }
fn opt_usize(a: &mut Args) -> Option<usize> { let w = a.word(); if w == "-" { None } else { Some(w.parse().expect("harness: bad usize")) } }

fn configure<X>(n: &mut Newton<X>, t: Option<f64>, d: Option<f64>, it: Option<usize>) {
    if let Some(t) = t { n.tolerance(t); }
    if let Some(d) = d { n.delta(d); }
    if let Some(it) = it { n.iterations(it); }
}
// a setter history: ops applied in the given order; `solve` runs a discarded solve for the op `s`
enum HOp<G> { Tol(f64), Delta(f64), Iters(usize), Guess(G), Solve }
fn parse_ops<G>(a: &mut Args, mut guess: impl FnMut(&mut Args) -> G) -> Vec<HOp<G>> {
    let n = a.usize();
    let mut ops = Vec::new();
    for _ in 0..n {
        let op = a.word();
        ops.push(match op {
            "t" => HOp::Tol(a.f64()),
            "d" => HOp::Delta(a.f64()),
            "i" => HOp::Iters(a.usize()),
            "g" => HOp::Guess(guess(a)),
            "s" => { a.word(); HOp::Solve }
            _ => panic!("harness: unknown history op {}", op),
        });
    }
    ops
}
fn apply_ops<X>(n: &mut Newton<X>, ops: Vec<HOp<X>>, mut solve: impl FnMut(&Newton<X>)) {
    for op in ops {
        match op {
            HOp::Tol(t) => n.tolerance(t),
            HOp::Delta(d) => n.delta(d),
            HOp::Iters(i) => n.iterations(i),
            HOp::Guess(g) => n.guess(g),
            HOp::Solve => solve(n),
        }
    }
}
fn emit_params<T: NElt>(p: (f64, f64, usize, T), out: &mut Out) { out.f(p.0); out.f(p.1); out.usize(p.2); out.s(&p.3); }
fn emit_res_s<T: Elt>(r: &Result<T, T>, out: &mut Out) {
    match r { Ok(x) => { out.usize(1); out.s(x); } Err(x) => { out.usize(0); out.s(x); } }
}
fn emit_res_v<T: Elt>(r: &Result<Vector<T>, Vector<T>>, out: &mut Out) {
    match r { Ok(x) => { out.usize(1); out.v(x); } Err(x) => { out.usize(0); out.v(x); } }
}

pub fn run<T: NElt>(kind: &str, a: &mut Args, out: &mut Out) {
    let mut o = Out::new();          // appended to `out` only if nothing panicked
    match kind {
        "newton.scalar" | "newton.hscalar" => {
            let hist = kind == "newton.hscalar";
            let (t, d, it) = if hist { (None, None, None) } else { (opt_f64(a), opt_f64(a), opt_usize(a)) };
            let guess = a.s::<T>();
            let ops = if hist { parse_ops(a, |a: &mut Args| a.s::<T>()) } else { Vec::new() };
            let f = fun1::<T>(a.word());
            let log: RefCell<Vec<T>> = RefCell::new(Vec::new());
            let func = |x: T| -> T { log.borrow_mut().push(x); call1(&f, x) };
            let mut n = Newton::<T>::new(guess);
            configure(&mut n, t, d, it);
            apply_ops(&mut n, ops, |n: &Newton<T>| { let _ = T::solve_scalar(n, &func); });
            log.borrow_mut().clear();
            emit_params(T::params(&n), &mut o);
            let r1 = T::solve_scalar(&n, &func);
            let pts: Vec<T> = log.borrow_mut().drain(..).collect();
            emit_res_s(&r1, &mut o); o.usize(pts.len());
            emit_passes(pts.iter().map(toks_s).collect(), 3, &mut o);
            emit_params(T::params(&n), &mut o);
            let r2 = T::solve_scalar(&n, &func);
            emit_res_s(&r2, &mut o); o.usize(log.borrow().len());
        }
        "newton.sys" | "newton.sysjac" | "newton.hsys" | "newton.hsysjac" => {
            let hist = kind == "newton.hsys" || kind == "newton.hsysjac";
            let (t, d, it) = if hist { (None, None, None) } else { (opt_f64(a), opt_f64(a), opt_usize(a)) };
            let guess = a.v::<T>();
            let guess_dim = guess.size();
            let ops = if hist { parse_ops(a, |a: &mut Args| a.v::<T>()) } else { Vec::new() };
            let f = funv::<T>(a.word());
            let with_jac = kind == "newton.sysjac" || kind == "newton.hsysjac";
            let (jr, jc, jes) = if with_jac { let r = a.usize(); let c = a.usize(); (r, c, exprs::<T>(a.word())) } else { (0, 0, Vec::new()) };
            if with_jac && jes.len() != jr * jc { panic!("harness: jacobian literal size"); }
            let log: RefCell<Vec<Vec<String>>> = RefCell::new(Vec::new());
            let func = |x: Vector<T>| -> Vector<T> {
                log.borrow_mut().push(if with_jac { tagged(0, toks_v(&x)) } else { toks_v(&x) });
                callv(&f, &x) };
            let jac = |x: Vector<T>| -> Matrix<T> {
                log.borrow_mut().push(tagged(1, toks_v(&x)));
                // entries evaluated in row-major order, then stored (Model/NewtonRun.v fnm)
                let vals: Vec<T> = jes.iter().map(|e| fnast::eval(e, &x.vec)).collect();
                let mut m = Matrix::<T>::new(jr, jc, T::zero());
                for i in 0..jr { for j in 0..jc { m[(i, j)] = vals[i * jc + j]; } }
                m };
            let mut n = Newton::<Vector<T>>::new(guess);
            configure(&mut n, t, d, it);
            let solve = |n: &Newton<Vector<T>>| if with_jac { T::solve_sysjac(n, &func, &jac) } else { T::solve_sys(n, &func) };
            // the dimension of the LAST guess set decides the calls per pass
            let mut dim = None;
            for op in ops.iter() { if let HOp::Guess(g) = op { dim = Some(g.size()); } }
            apply_ops(&mut n, ops, |n: &Newton<Vector<T>>| { let _ = solve(n); });
            log.borrow_mut().clear();
            let per_pass = if with_jac { 2 } else { dim.unwrap_or(guess_dim) + 2 };
            let r1 = solve(&n);
            let pts: Vec<Vec<String>> = log.borrow_mut().drain(..).collect();
            emit_res_v(&r1, &mut o); o.usize(pts.len());
            emit_passes(pts, per_pass, &mut o);
            let r2 = solve(&n);
            emit_res_v(&r2, &mut o); o.usize(log.borrow().len());
        }
        "newton.jac" => {
            let p = a.v::<T>();
            let delta = a.f64();
            let f = funv::<T>(a.word());
            let log: RefCell<Vec<Vec<String>>> = RefCell::new(Vec::new());
            let func = |x: Vector<T>| -> Vector<T> { log.borrow_mut().push(toks_v(&x)); callv(&f, &x) };
            let snap = toks_v(&p);
            let m = T::jac(p.clone(), &func, delta);
            if toks_v(&p) != snap { panic!("harness: operand mutated by jacobian"); }
            o.m(&m);
            let pts = log.borrow();
            o.usize(pts.len());
            for q in pts.iter() { o.toks.extend(q.iter().cloned()); }
        }
        _ => panic!("harness: unknown kind {}", kind),
    }
    out.toks.append(&mut o.toks);
}
