// Sparse matrix kinds (C06, C07): public API of ohsl::Sparse only.
//   sp.hist  <build> (<op> <args> ;)*   after the build and after every step: six public fields + four views
//   sp.probe <build> i j v              get / insert with arbitrary (also out-of-range) arguments
//   sp.prod  <build> x y a              products, transpose product, inner products, dense twin, scaled product
//   sp.hprod <build> (<op> <args> ;)* | x y a   the six product observables on the matrix a history leaves behind, then
//                                       scale(a) and the six observables again (scaling scales EVERY product)
//   <build> ::= T r c [i@j@v,...]  (from_triplets)  |  V r c [vals] [row_index] [col_start]  (from_vecs)
// The dump is canonical in the order of entries *within* one column (see coq/Model/SparseOps.v).
use std::panic::{catch_unwind, AssertUnwindSafe};
use ohsl::{Sparse, Vector};
use crate::io::{Args, Out, Elt};

// run f into a scratch buffer; a panic replaces whatever it wrote by one P<class> token
fn guarded<F: FnOnce(&mut Out)>(out: &mut Out, f: F) -> bool {
    let mut tmp = Out::new();
    let r = catch_unwind(AssertUnwindSafe(|| f(&mut tmp)));
    match r {
        Ok(()) => { out.toks.extend(tmp.toks); true }
        Err(_) => {
            let msg = crate::LAST_PANIC.with(|p| p.borrow().clone());
            let cls = crate::classify(&msg);
            if cls == "harness" || cls == "ratovf" { panic!("{}", msg); }
            out.toks.push(format!("P{}", cls));
            false
        }
    }
}

fn triplets<T: Elt>(a: &mut Args) -> Vec<(usize, usize, T)> {
    a.strs().into_iter().map(|t| {
        let p: Vec<&str> = t.splitn(3, '@').collect();
        if p.len() != 3 { panic!("harness: bad triplet {}", t); }
        (p[0].parse().expect("harness: bad usize"), p[1].parse().expect("harness: bad usize"), T::parse(p[2]))
    }).collect()
}

fn build<T: Elt>(a: &mut Args) -> Sparse<T> {
    match a.word() {
        "T" => { let r = a.usize(); let c = a.usize(); let mut ts = triplets::<T>(a);
                 Sparse::<T>::from_triplets(r, c, &mut ts) }
        "V" => { let r = a.usize(); let c = a.usize(); let v = a.vec_std::<T>(); let ri = a.usizes(); let cs = a.usizes();
                 Sparse::<T>::from_vecs(r, c, v, ri, cs) }
        w => panic!("harness: bad sparse build {}", w),
    }
}

fn canon_ok<T>(s: &Sparse<T>) -> bool {
    let cs = &s.col_start;
    if cs.len() != s.cols + 1 { return false; }
    if cs[0] != 0 { return false; }
    if !cs.windows(2).all(|w| w[0] <= w[1]) { return false; }
    let last = cs[cs.len() - 1];
    last <= s.row_index.len() && last <= s.val.len()
}

fn usizes(out: &mut Out, v: &[usize]) { out.usize(v.len()); for x in v { out.usize(*x); } }

fn fields<T: Elt>(s: &Sparse<T>, out: &mut Out) {
    out.usize(s.rows); out.usize(s.cols); out.usize(s.nonzero);
    usizes(out, &s.col_start);
    if canon_ok(s) {
        let cs = &s.col_start;
        let last = cs[cs.len() - 1];
        let mut ri: Vec<usize> = Vec::new();
        let mut val: Vec<T> = Vec::new();
        for j in 0..s.cols {
            let mut seg: Vec<(usize, T)> = (cs[j]..cs[j + 1]).map(|k| (s.row_index[k], s.val[k])).collect();
            seg.sort_by_key(|p| p.0);          // stable
            for p in seg { ri.push(p.0); val.push(p.1); }
        }
        ri.extend_from_slice(&s.row_index[last..]);
        val.extend_from_slice(&s.val[last..]);
        usizes(out, &ri);
        out.usize(val.len()); for x in &val { out.s(x); }
    } else {
        usizes(out, &s.row_index);
        out.usize(s.val.len()); for x in &s.val { out.s(x); }
    }
}

fn views<T: Elt>(s: &Sparse<T>, out: &mut Out) {
    guarded(out, |o| { let ci = s.col_index(); o.usize(ci.size()); for k in 0..ci.size() { o.usize(ci[k]); } });
    guarded(out, |o| { let mut ts = s.to_triplets(); ts.sort_by_key(|t| (t.1, t.0));   // stable
                       o.usize(ts.len()); for t in &ts { o.usize(t.0); o.usize(t.1); o.s(&t.2); } });
    guarded(out, |o| { let d = s.to_dense(); o.m(&d); });
    for i in 0..s.rows { for j in 0..s.cols {
        guarded(out, |o| { match s.get(i, j) { None => o.usize(0), Some(v) => { o.usize(1); o.s(&v); } } });
    } }
}

fn state<T: Elt>(s: &Sparse<T>, out: &mut Out) { fields(s, out); views(s, out); }

// A x, A^T y, transpose(A) y, <y, A x>, <A^T y, x>, to_dense(A); the operands must come back untouched
fn products<T: Elt>(s: &Sparse<T>, x: &Vector<T>, y: &Vector<T>, out: &mut Out) {
    let same_v = |p: &Vector<T>, q: &Vector<T>| { let mut o1 = Out::new(); let mut o2 = Out::new(); o1.v(p); o2.v(q); o1.toks == o2.toks };
    let (xs, ys) = (x.clone(), y.clone());
    guarded(out, |o| { let r = s.multiply(x); o.v(&r); });
    guarded(out, |o| { let r = s.transpose_multiply(y); o.v(&r); });
    guarded(out, |o| { let t = s.transpose(); let r = t.multiply(y); o.v(&r); });
    guarded(out, |o| { let u = s.multiply(x); let d = y.dot(&u); o.s(&d); });
    guarded(out, |o| { let w = s.transpose_multiply(y); let d = w.dot(x); o.s(&d); });
    if !same_v(x, &xs) || !same_v(y, &ys) { panic!("harness: operand mutated by a sparse product"); }
    guarded(out, |o| { let d = s.to_dense(); o.m(&d); });
}

pub fn run<T: Elt>(kind: &str, a: &mut Args, out: &mut Out) {
    match kind {
        "sp.hist" => {
            let mut s = build::<T>(a);
            state(&s, out);
            while a.more() {
                let op = a.word();
                let ok = guarded(out, |_o| {
                    match op {
                        "insert" => { let (i, j) = (a.usize(), a.usize()); let v = a.s::<T>(); s.insert(i, j, v); }
                        "scale" => { let v = a.s::<T>(); s.scale(&v); }
                        "transpose" => { let t = s.transpose(); s = t; }
                        _ => panic!("harness: unknown sparse op {}", op),
                    }
                });
                if !ok { return; }            // a panicking step ends the history
                while a.more() { if a.word() == ";" { break; } }
                state(&s, out);
            }
        }
        "sp.probe" => {
            let mut s = build::<T>(a);
            let (i, j) = (a.usize(), a.usize()); let v = a.s::<T>();
            guarded(out, |o| { match s.get(i, j) { None => o.usize(0), Some(v) => { o.usize(1); o.s(&v); } } });
            guarded(out, |o| { s.insert(i, j, v); fields(&s, o); });
        }
        "sp.prod" => {
            let mut s = build::<T>(a);
            let x = a.v::<T>(); let y = a.v::<T>(); let sc = a.s::<T>();
            let same_v = |p: &Vector<T>, q: &Vector<T>| { let mut o1 = Out::new(); let mut o2 = Out::new(); o1.v(p); o2.v(q); o1.toks == o2.toks };
            let (xs, ys) = (x.clone(), y.clone());
            guarded(out, |o| { let r = s.multiply(&x); o.v(&r); });
            guarded(out, |o| { let r = s.transpose_multiply(&y); o.v(&r); });
            guarded(out, |o| { let t = s.transpose(); let r = t.multiply(&y); o.v(&r); });
            guarded(out, |o| { let u = s.multiply(&x); let d = y.dot(&u); o.s(&d); });
            guarded(out, |o| { let w = s.transpose_multiply(&y); let d = w.dot(&x); o.s(&d); });
            if !same_v(&x, &xs) || !same_v(&y, &ys) { panic!("harness: operand mutated by a sparse product"); }
            guarded(out, |o| { let d = s.to_dense(); o.m(&d); });
            guarded(out, |o| { s.scale(&sc); let r = s.multiply(&x); o.v(&r); });
        }
        "sp.hprod" => {
            let mut s = build::<T>(a);
            loop {
                let op = a.word();
                if op == "|" { break; }
                let ok = guarded(out, |_o| {
                    match op {
                        "insert" => { let (i, j) = (a.usize(), a.usize()); let v = a.s::<T>(); s.insert(i, j, v); }
                        "scale" => { let v = a.s::<T>(); s.scale(&v); }
                        "transpose" => { let t = s.transpose(); s = t; }
                        _ => panic!("harness: unknown sparse op {}", op),
                    }
                });
                if !ok { return; }            // a panicking step ends the case
                while a.more() { if a.word() == ";" { break; } }
            }
            let x = a.v::<T>(); let y = a.v::<T>(); let sc = a.s::<T>();
            products(&s, &x, &y, out);
            let ok = guarded(out, |_o| { s.scale(&sc); });
            if ok { products(&s, &x, &y, out); }
        }
        _ => panic!("harness: unknown kind {}", kind),
    }
}
