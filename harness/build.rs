// harness/build.rs (package roots/C10): detect whether the ohsl tree behind ../.cache/repo carries the
// cfg(ohsl_verif) recording hook (src/verif_hooks.rs, DESIGN section 9).  k_roots.rs uses the hook only
// under cfg(ohsl_has_hook), so the executor still builds against an unhooked tree (roots.solve then
// reports `tnohook` and the C10 tie is reported as broken for every case that needs the call log).
fn main() {
    println!("cargo::rustc-check-cfg=cfg(ohsl_has_hook)");
    println!("cargo::rustc-check-cfg=cfg(ohsl_verif)");
    println!("cargo::rerun-if-changed=build.rs");
    println!("cargo::rerun-if-changed=../.cache/repo/src/lib.rs");
    println!("cargo::rerun-if-changed=../.cache/repo/src");
    let flags = std::env::var("CARGO_ENCODED_RUSTFLAGS").unwrap_or_default();
    let lib = std::fs::read_to_string("../.cache/repo/src/lib.rs").unwrap_or_default();
    if flags.contains("ohsl_verif") && lib.contains("pub mod verif_hooks;")
        && std::path::Path::new("../.cache/repo/src/verif_hooks.rs").exists() {
        println!("cargo::rustc-cfg=ohsl_has_hook");
    }
}
