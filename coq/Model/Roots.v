(* Model/Roots.v -- src/polynomial/mod.rs:190-347 (Polynomial::roots, quadratic_solve, cubic_solve,
   poly_solve, laguer), statement by statement, over a two-sorted arithmetic [RootArith]:
   [RR] plays f64, [KK] plays Complex<f64>.  Definitions only.

   ONE definition, two instances:
   * [FloatRA tbl] (this file): RR = primitive binary64, KK = Complex float with the operators of
     Model/Complex.v.  Everything is IEEE and evaluated bit-exactly by vm_compute, except the three
     libm-backed primitives Complex::<f64>::sqrt / pow / polar, which are looked up in the ORACLE
     TABLE [tbl] recorded from the implementation's own run by the cfg(ohsl_verif) hook
     (DESIGN section 9).  A lookup that fails -- the model asks for a call the implementation never
     made -- is the distinguished value [Panic Unwrap] (the failed `.unwrap()` of the table lookup);
     no other path of this model produces [Unwrap], and the implementation never does, so an oracle
     miss always shows up as a broken tie.
   * [FieldRA ...] (Proofs/Roots.v): RR = KK = an abstract field, sqrt / cube root / sign choices as
     Section functions: the theorems of Props/C10.v.

   The model is of the REPAIRED code (fix 1e066e6: q = 0 in quadratic_solve; fix eb1fb9c: Cardano sign
   choice); the pre-repair variants are [quadratic_solve_gen false] and [cubic_solve_gen false]
   (Legacy/C10Refuted.v). *)
From Coq Require Import List Arith Bool ZArith Floats Lia.
From OV Require Import Base.Panic Base.Arith Model.Complex gen.Params.
Import ListNotations.

Record RootArith := {
  RR : SArith;                        (* f64: + - * neg, /, sqrt, `n as f64`, == < <= *)
  KK : Arith;                         (* Complex<f64>: + - * neg, /, ==, < (partial_cmp) *)
  mkk : RR -> RR -> KK;               (* Cmplx::new( re, im ) *)
  kre : KK -> RR;                     (* .real *)
  kim : KK -> RR;                     (* .imag *)
  kabs : KK -> RR;                    (* inherent Complex::<f64>::abs  (complex/mod.rs:270) *)
  kconj : KK -> KK;                   (* conj() *)
  kmulr : KK -> RR -> KK;             (* Complex * f64; f64 * Complex delegates to it (mod.rs:117-133) *)
  kdivr : KK -> RR -> res KK;         (* Complex / f64 *)
  rfabs : RR -> RR;                   (* f64::abs *)
  rmax : RR -> RR -> RR;              (* f64::max *)
  rhalf : RR;                         (* the literal 0.5 *)
  reps : RR;                          (* f64::EPSILON *)
  rfrac : list RR;                    (* laguer's frac[] (gen/Params.v) *)
  kfinite : KK -> bool;               (* both components finite (trace only; never read by the algorithm) *)
  rfinite : RR -> bool;               (* finite (trace only) *)
  osqrt : KK -> res KK;               (* Complex::<f64>::sqrt   -- libm: oracle *)
  opow : KK -> KK -> res KK;          (* Complex::<f64>::pow    -- libm: oracle *)
  opolar : RR -> RR -> res KK;        (* Complex::<f64>::polar  -- libm: oracle *)
}.

Inductive lexit := Converged | Stalled | Exhausted.

(* result of one laguer call: final iterate, exit reason, value of `*iterations`, the iterate on entry, finiteness of the
   iterate on entry and on exit, sanity of the convergence test (the last three are trace only) *)
Record lres (X : Type) := mkL { lx : X; lwhy : lexit; liters : nat; lx_in : X; lfin_in : bool; lfinite : bool; ltest_ok : bool }.
Arguments mkL {X}. Arguments lx {X}. Arguments lwhy {X}. Arguments liters {X}. Arguments lx_in {X}. Arguments lfin_in {X}. Arguments lfinite {X}.
Arguments ltest_ok {X}.    (* false iff the exit is Converged and the bound `err` of the test |p(x)| <= err was not finite *)

Section Model.
Context (RA : RootArith).
Notation R := (T (SA (RR RA))).
Notation K := (T (KK RA)).

Definition rlit (n : nat) : R := of_nat n.          (* float literals 2. 3. 4. 9. 18. 27. and `m as f64` *)
Definition MAXIT : nat := LAGUER_MT * LAGUER_MR.

(* ---- quadratic_solve (mod.rs:214-224).  fixed = true: the repaired q = 0 branch. ---- *)
Definition quadratic_solve_gen (fixed : bool) (a b c : K) : res (list K) :=
  (* let discriminant = b * b - 4.0 * a * c; *)
  let disc : K := sub (mul b b) (mul (kmulr RA a (rlit 4)) c) in
  (* let mut sgn = ( b.conj() * discriminant.sqrt() ).real; *)
  let* s1 := osqrt RA disc in
  let sgn0 : R := kre RA (mul (kconj RA b) s1) in
  (* if sgn >= 0.0 { sgn = 1.0; } else { sgn = -1.0; } *)
  let sgn : R := if leb zero sgn0 then one else neg one in
  (* let q = - 0.5 * ( b + discriminant.sqrt() * sgn ); *)
  let* s2 := osqrt RA disc in
  let q : K := kmulr RA (add b (kmulr RA s2 sgn)) (neg (rhalf RA)) in
  (* roots[0] = q / a; *)
  let* r0 := div q a in
  (* roots[1] = if q == Cmplx::zero() { roots[0] } else { c / q };     (legacy: c / q) *)
  let* r1 := if fixed && eqb q zero then Ok r0 else div c q in
  Ok [r0; r1].
Definition quadratic_solve := quadratic_solve_gen true.

(* ---- cubic_solve (mod.rs:227-248) ---- *)
(* d0, d1 and the radicand  - 27. * a * a * dis  (= d1^2 - 4 d0^3) *)
Definition cubic_disc (a b c d : K) : K * K * K :=
  let a2 : K := mul a a in let b2 : K := mul b b in let c2 : K := mul c c in let d2 : K := mul d d in
  (* dis = 18.*a*b*c*d - 4.*b*b2*d + b2*c2 - 4.*a*c2*c - 27.*a2*d2 *)
  let t1 : K := mul (mul (mul (kmulr RA a (rlit 18)) b) c) d in
  let t2 : K := mul (mul (kmulr RA b (rlit 4)) b2) d in
  let t3 : K := mul b2 c2 in
  let t4 : K := mul (mul (kmulr RA a (rlit 4)) c2) c in
  let t5 : K := mul (kmulr RA a2 (rlit 27)) d2 in
  let dis : K := sub (sub (add (sub t1 t2) t3) t4) t5 in
  (* d0 = b2 - 3.*a*c ;  d1 = 2.*b2*b - 9.*a*b*c + 27.*a2*d *)
  let d0 : K := sub b2 (mul (kmulr RA a (rlit 3)) c) in
  let d1 : K := add (sub (mul (kmulr RA b2 (rlit 2)) b) (mul (mul (kmulr RA a (rlit 9)) b) c))
                    (mul (kmulr RA a2 (rlit 27)) d) in
  (d0, d1, mul (mul (kmulr RA a (neg (rlit 27))) a) dis).

(* the sign test of `base`.  conj_sign = true: the repaired code (fix eb1fb9c),
   `( d1.conj() * sqrt ).real < 0.0`; conj_sign = false: the pre-repair `d1 < Cmplx::zero()`
   (lexicographic PartialOrd), kept for Legacy/C10Refuted.v. *)
Definition cubic_minus (conj_sign : bool) (d1 sq : K) : bool :=
  if conj_sign then ltb (kre RA (mul (kconj RA d1) sq)) zero else ltb d1 zero.

Definition cubic_solve_gen (conj_sign : bool) (a b c d : K) : res (list K) :=
  let '(d0, d1, rad) := cubic_disc a b c d in
  let three_a : K := kmulr RA a (rlit 3) in
  if eqb d0 zero && eqb d1 zero then
    (* roots[0] = -b / ( 3. * a ); roots[1] = roots[0]; roots[2] = roots[0]; *)
    let* r := div (neg b) three_a in Ok [r; r; r]
  else
    (* let sqrt = (- 27. * a * a * dis).sqrt(); *)
    let* sq := osqrt RA rad in
    (* let base = if ( d1.conj() * sqrt ).real < 0.0 { d1 - sqrt } else { d1 + sqrt } / 2.; *)
    let* base := kdivr RA (if cubic_minus conj_sign d1 sq then sub d1 sq else add d1 sq) (rlit 2) in
    (* let k = base.pow( &Cmplx::new( 1. / 3.0, 0.0 ) ); *)
    let* third := div (one : R) (rlit 3) in
    let* k := opow RA base (mkk RA third zero) in
    (* roots[0] = -(b + k + d0 / k) / ( 3. * a ); *)
    let* q0 := div d0 k in
    let* r0 := div (neg (add (add b k) q0)) three_a in
    (* let u = Cmplx::new( -0.5, (3.0_f64).sqrt() / 2.0 ); *)
    let* ui := div (sqrt (rlit 3)) (rlit 2) in
    let u : K := mkk RA (neg (rhalf RA)) ui in
    (* roots[1] = -(b + u * k + d0 / ( u * k ) ) / ( 3. * a ); *)
    let uk : K := mul u k in
    let* q1 := div d0 uk in
    let* r1 := div (neg (add (add b uk) q1)) three_a in
    (* let u2 = u * u; roots[2] = -(b + u2 * k + d0 / ( u2 * k ) ) / ( 3. * a ); *)
    let u2 : K := mul u u in
    let u2k : K := mul u2 k in
    let* q2 := div d0 u2k in
    let* r2 := div (neg (add (add b u2k) q2)) three_a in
    Ok [r0; r1; r2].
Definition cubic_solve := cubic_solve_gen true.

(* trace only (known-finding key KF-C10-F): the two cancellations of the unpolished Cardano path.
   fst: the discriminant `dis` -- evaluated by the expanded formula 18abcd - 4b^3 d + b^2 c^2 - 4ac^3 - 27a^2 d^2 --
        is the result of catastrophic cancellation, |dis| * 2^16 < the largest of its five terms (near a multiple root);
   snd: one of the sums  b + u^j k + d0/(u^j k)  cancels, |sum| * 2^16 < its largest term (roots of very different size).
   Never read by the algorithm. *)
Definition cubic_diag (a b c d : K) : res (bool * bool) :=
  let a2 : K := mul a a in let b2 : K := mul b b in let c2 : K := mul c c in let d2 : K := mul d d in
  let t1 : K := mul (mul (mul (kmulr RA a (rlit 18)) b) c) d in
  let t2 : K := mul (mul (kmulr RA b (rlit 4)) b2) d in
  let t3 : K := mul b2 c2 in
  let t4 : K := mul (mul (kmulr RA a (rlit 4)) c2) c in
  let t5 : K := mul (kmulr RA a2 (rlit 27)) d2 in
  let dis : K := sub (sub (add (sub t1 t2) t3) t4) t5 in
  let big : R := rmax RA (rmax RA (rmax RA (kabs RA t1) (kabs RA t2)) (rmax RA (kabs RA t3) (kabs RA t4))) (kabs RA t5) in
  let two20 : R := rlit 65536 in
  let dis_c := ltb (mul (kabs RA dis) two20) big in
  let '(d0, d1, rad) := cubic_disc a b c d in
  if eqb d0 zero && eqb d1 zero then Ok (dis_c, false) else
  let* sq := osqrt RA rad in
  let* base := kdivr RA (if cubic_minus true d1 sq then sub d1 sq else add d1 sq) (rlit 2) in
  let* third := div (one : R) (rlit 3) in
  let* k := opow RA base (mkk RA third zero) in
  let* ui := div (sqrt (rlit 3)) (rlit 2) in
  let u : K := mkk RA (neg (rhalf RA)) ui in
  let cancels (w : K) : res bool :=
    let* q := div d0 w in
    let sum : K := add (add b w) q in
    Ok (ltb (mul (kabs RA sum) two20) (rmax RA (rmax RA (kabs RA b) (kabs RA w)) (kabs RA q))) in
  let* c0 := cancels k in let* c1 := cancels (mul u k) in let* c2' := cancels (mul (mul u u) k) in
  Ok (dis_c, c0 || c1 || c2').

(* ---- laguer (mod.rs:306-346) ---- *)
(* the inner loop `for j in (0..m).rev()`: state (b, err, d, f) *)
Definition horner_body (a : list K) (x : K) (abx : R) (j : nat) (s : K * R * K * K) : res (K * R * K * K) :=
  let '(b, err, d, f) := s in
  let* aj := rd a j in
  let f' : K := add (mul x f) d in           (* f = *x * f + d; *)
  let d' : K := add (mul x d) b in           (* d = *x * d + b; *)
  let b' : K := add (mul x b) aj in          (* b = *x * b + a[j]; *)
  let err' : R := add (kabs RA b') (mul abx err) in   (* err = b.abs() + abx * err; *)
  Ok (b', err', d', f').

Definition horner3 (a : list K) (m : nat) (x : K) : res (K * R * K * K) :=
  let* am := rd a m in
  for_rev 0 m (horner_body a x (kabs RA x)) (am, kabs RA am, zero, zero).

(* one pass of the body of `for iter in 1..MAXIT`: inl = `return` (with the reason), inr = next x *)
Definition laguer_step (a : list K) (m : nat) (iter : nat) (x : K) : res (lexit * bool + K) :=
  let* st := horner3 a m x in
  let '(b, err, d, f) := st in
  let abx : R := kabs RA x in
  let err : R := mul err (reps RA) in                         (* err *= EPS; *)
  if leb (kabs RA b) err then Ok (inl (Converged, rfinite RA err)) else          (* if b.abs() <= err { return; } *)
  let* g := div d b in                                         (* let g = d / b; *)
  let g2 : K := mul g g in
  let* fb := div f b in
  let h : K := sub g2 (kmulr RA fb (rlit 2)) in                (* h = g2 - 2. * ( f / b ) *)
  let* m1 := usub m 1 in
  (* sq = ( ( h * (m as f64) - g2 ) * ( m - 1 ) as f64 ).sqrt() *)
  let* sq := osqrt RA (kmulr RA (sub (kmulr RA h (rlit m)) g2) (rlit m1)) in
  let gp : K := add g sq in
  let gm : K := sub g sq in
  let abp : R := kabs RA gp in
  let abm : R := kabs RA gm in
  let gp : K := if ltb abp abm then gm else gp in              (* if abp < abm { gp = gm; } *)
  let* dx := if ltb zero (rmax RA abp abm)                      (* if f64::max( abp, abm ) > 0.0 *)
             then div (mkk RA (rlit m) zero) gp
             else opolar RA (add one abx) (rlit iter) in
  let x1 : K := sub x dx in
  if eqb x x1 then Ok (inl (Stalled, true)) else                        (* if *x == x1 { return; } *)
  if negb (iter mod LAGUER_MT =? 0) then Ok (inr x1)            (* if iter % MT != 0 { *x = x1; } *)
  else let* fr := rd (rfrac RA) (iter / LAGUER_MT) in           (* else { *x -= dx * frac[ iter / MT ]; } *)
       Ok (inr (sub x (kmulr RA dx fr))).

(* `for iter in 1..MAXIT`: fuel = number of iterations left; falling out of the loop is [Exhausted] *)
Fixpoint laguer_loop (a : list K) (m : nat) (x0 : K) (fin0 : bool) (fuel iter : nat) (x : K) : res (lres K) :=
  match fuel with
  | 0 => Ok (mkL x Exhausted (iter - 1) x0 fin0 (kfinite RA x) true)
  | S fuel' =>
      let* o := laguer_step a m iter x in
      match o with
      | inl (why, tok) => Ok (mkL x why iter x0 fin0 (kfinite RA x) tok)
      | inr x' => laguer_loop a m x0 fin0 fuel' (S iter) x'
      end
  end.

Definition laguer (a : list K) (x : K) : res (lres K) :=
  let* m := usub (length a) 1 in            (* let m = a.size() - 1; *)
  laguer_loop a m x (kfinite RA x) (MAXIT - 1) 1 x.

(* ---- forward deflation (mod.rs:290-295): returns the new `ad` and the final `b` ---- *)
Definition deflate_body (x : K) (jj : nat) (s : list K * K) : res (list K * K) :=
  let '(ad, b) := s in
  let* c := rd ad jj in                     (* let c = ad[jj]; *)
  let* ad' := upd ad jj b in                (* ad[jj] = b; *)
  Ok (ad', add (mul x b) c).                (* b = x * b + c; *)

Definition deflate (ad : list K) (j : nat) (x : K) : res (list K * K) :=
  let* b := rd ad (j + 1) in                (* b = ad[ j + 1 ]; *)
  for_rev 0 (j + 1) (deflate_body x) (ad, b).

(* real-axis snapping (mod.rs:286-288) *)
Definition snap (x : K) : K :=
  if leb (rfabs RA (kim RA x)) (mul (mul (rlit 2) (reps RA)) (rfabs RA (kre RA x)))
  then mkk RA (kre RA x) zero else x.

(* `ad_v = zeros(j+2); for jj in 0..j+2 { ad_v[jj] = ad[jj]; }`: the first j+2 entries, Index panic
   exactly when ad is shorter *)
Definition take_checked (ad : list K) (n : nat) : res (list K) :=
  if n <=? length ad then Ok (firstn n ad) else Panic Index.

(* one pass of `for j in (0..degree).rev()`; state (ad, poly_roots, trace) *)
Definition solve_body (j : nat) (s : list K * list K * list (lres K)) : res (list K * list K * list (lres K)) :=
  let '(ad, roots, tr) := s in
  let* ad_v := take_checked ad (j + 2) in
  let* l := laguer ad_v zero in             (* let mut x = Cmplx::zero(); Self::laguer( &mut ad_v, &mut x, &mut its ); *)
  let x : K := snap (lx l) in
  let* roots' := upd roots j x in           (* poly_roots[j] = x; *)
  let* db := deflate ad j x in
  Ok (fst db, roots', tr ++ [l]).

(* one pass of the polishing loop `for j in 0..degree` *)
Definition polish_body (a : list K) (j : nat) (s : list K * list (lres K)) : res (list K * list (lres K)) :=
  let '(roots, tr) := s in
  let* x := rd roots j in
  let* l := laguer a x in                   (* Self::laguer( &mut a, &mut poly_roots[j], &mut its ); *)
  let* roots' := upd roots j (lx l) in
  Ok (roots', tr ++ [l]).

(* ---- poly_solve (mod.rs:253-304): the roots and the trace of every laguer call, in call order ---- *)
Definition poly_solve (coeffs : list K) (refine : bool) : res (list K * list (lres K)) :=
  let* degree := usub (length coeffs) 1 in                   (* coeffs.size() - 1 *)
  let roots : list K := repeat zero degree in                 (* Vector::zeros( degree ) *)
  if degree =? 0 then Panic Guard else                        (* panic!( "... degree must be at least one." ) *)
  let* roots :=
    if degree =? 1 then
      let* c0 := rd coeffs 0 in let* c1 := rd coeffs 1 in
      let* r := div (neg c0) c1 in upd roots 0 r              (* poly_roots[0] = - coeffs[0] / coeffs[1]; *)
    else Ok roots in
  let* roots :=
    if degree =? 2 then
      let* a := rd coeffs 2 in let* b := rd coeffs 1 in let* c := rd coeffs 0 in
      quadratic_solve a b c
    else Ok roots in
  let* roots :=
    if degree =? 3 then
      let* a := rd coeffs 3 in let* b := rd coeffs 2 in let* c := rd coeffs 1 in let* d := rd coeffs 0 in
      cubic_solve a b c d
    else Ok roots in
  let* rt :=
    if 3 <? degree then
      let* s := for_rev 0 degree solve_body (coeffs, roots, []) in
      Ok (snd (fst s), snd s)
    else Ok (roots, []) in
  if refine then for_ 0 degree (polish_body coeffs) rt else Ok rt.

End Model.


(* ================= the float instance: IEEE + oracle table ================= *)
From OV Require Import Base.Flat Inst.FloatInst.

(* The oracle table is a flat list of floats, seven per recorded call:
     which (0 sqrt, 1 pow, 2 polar); the four arguments; the two results
   (hexadecimal float literals are read exactly and cheaply; Z numerals of 19 digits are not).
   Arguments are matched BITWISE ([fsame]: -0 differs from +0 -- sqrt(-0+0i) and sqrt(+0+0i) differ --
   and NaN matches NaN, there being one NaN in Coq's binary64). *)
Definition fsame (x y : float) : bool :=
  if PrimFloat.eqb x y
  then (if PrimFloat.eqb x 0%float then PrimFloat.eqb (PrimFloat.div 1%float x) (PrimFloat.div 1%float y) else true)
  else negb (PrimFloat.eqb x x) && negb (PrimFloat.eqb y y).

Fixpoint olookup (tbl : list float) (w k1 k2 k3 k4 : float) : res (cplx AF) :=
  match tbl with
  | w' :: a :: b :: c :: d :: r :: i :: t =>
      if PrimFloat.eqb w w' && fsame k1 a && fsame k2 b && fsame k3 c && fsame k4 d
      then Ok (@mkC AF r i) else olookup t w k1 k2 k3 k4
  | _ => Panic Unwrap                               (* oracle miss *)
  end.

(* f64::max: the other operand if one is NaN *)
Definition fmax (x y : float) : float :=
  if negb (PrimFloat.eqb x x) then y
  else if negb (PrimFloat.eqb y y) then x
  else if PrimFloat.ltb x y then y else x.

Definition f_finite (x : float) : bool := PrimFloat.eqb (PrimFloat.sub x x) 0%float.
Definition F_EPS : float := Z.ldexp 1%float (-52)%Z.        (* f64::EPSILON = 2^-52 *)
Definition F_HALF : float := Z.ldexp 1%float (-1)%Z.

Definition FloatRA (tbl : list float) : RootArith := {|
  RR := SAF; KK := ACF;
  mkk := @mkC AF; kre := @re AF; kim := @im AF;
  kabs := fun z : cplx AF => PrimFloat.sqrt (@abs_sqr AF z);
  kconj := @conj AF;
  kmulr := @cmul_r AF; kdivr := @cdiv_r AF;
  rfabs := PrimFloat.abs; rmax := fmax;
  rhalf := F_HALF; reps := F_EPS; rfrac := LAGUER_FRAC;
  kfinite := fun z : cplx AF => f_finite (re z) && f_finite (im z);
  rfinite := f_finite;
  osqrt := fun z : cplx AF => olookup tbl 0 (re z) (im z) 0 0;
  opow := fun z w : cplx AF => olookup tbl 1 (re z) (im z) (re w) (im w);
  opolar := fun r th : float => olookup tbl 2 r th 0 0;
|}.

(* Polynomial<f64>::roots converts every coefficient with Cmplx::new( c, 0.0 ) (mod.rs:194-200) *)
Definition roots_f64 (tbl : list float) (coeffs : list float) (refine : bool) :=
  poly_solve (FloatRA tbl) (map (fun c => @mkC AF c 0%float) coeffs) refine.
Definition roots_cplx (tbl : list float) (coeffs : list (cplx AF)) (refine : bool) :=
  poly_solve (FloatRA tbl) coeffs refine.

Definition cubic_diag_cplx (tbl : list float) (coeffs : list (cplx AF)) : res (bool * bool) :=
  match coeffs with
  | [d; c; b; a] => cubic_diag (FloatRA tbl) a b c d
  | _ => Ok (false, false)
  end.
Definition cubic_diag_f64 (tbl : list float) (coeffs : list float) : res (bool * bool) :=
  cubic_diag_cplx tbl (map (fun c => @mkC AF c 0%float) coeffs).
Definition fl_diag (r : res (bool * bool)) : list Z := fl_res (fun p => fl_bool (fst p) ++ fl_bool (snd p)) r.

(* output streams *)
Definition exit_code (e : lexit) : nat := match e with Converged => 0 | Stalled => 1 | Exhausted => 2 end.
Definition fl_lres (l : lres (cplx AF)) : list Z :=
  fl_nat (exit_code (lwhy l)) ++ fl_nat (liters l) ++ fl_bool (lfin_in l) ++ fl_bool (lfinite l) ++ fl_bool (ltest_ok l) ++ flat_cf (lx_in l).
(* tie: the roots only;  trace: the roots, then (exit reason, iterations, finite on entry, finite on exit, test sane) of every laguer call *)
Definition fl_roots (r : res (list (cplx AF) * list (lres (cplx AF)))) : list Z :=
  fl_res (fun p => fl_list flat_cf (fst p)) r.
Definition fl_roots_trace (r : res (list (cplx AF) * list (lres (cplx AF)))) : list Z :=
  fl_res (fun p => fl_list flat_cf (fst p) ++ fl_list fl_lres (snd p)) r.
