(* Model/Roots.v -- stub, to be filled in *)
