(* Model/NewtonRun.v -- running the Newton / Jacobian models in the correspondence check:
   user functions from shared ASTs (Base/FnAst.v), the float instances, default configuration
   (gen/Params.v) and the output flatteners matching harness/src/k_newton.rs.
   Not used by the theorems. *)
From Coq Require Import List ZArith Floats Arith.
From OV Require Import Base.Panic Base.Arith Base.Flat Base.FnAst Model.Complex Model.Vector
  Model.Matrix Model.Newton Inst.FloatInst gen.Params.
Import ListNotations.

Definition NF : NOps := NReal AF.          (* Newton<f64>, Newton<Vec64>, Mat64::jacobian *)
Definition NC : NOps := NCplx SAF.         (* Newton<Cmplx>, Newton<Vector<Cmplx>>, jacobian_cmplx *)

(* closures built from ASTs, exactly as harness/src/k_newton.rs builds them *)
Definition fn1 {A : Arith} (e : expr A) : A -> res A := fun x => eeval e [x].
Definition fnv {A : Arith} (es : list (expr A)) : list A -> res (list A) := evalv es.
Definition fnm {A : Arith} (r c : nat) (es : list (expr A)) : list A -> res (matrix A) :=
  fun v => let* b := evalv es v in Ok (mkM b r c).

(* Newton::new(guess) followed by the setters the case uses: None = keep the default *)
Definition cfg_f {X} (t d : option float) (n : option nat) (g : X) : ncfg float X :=
  mkCfg (match t with Some x => x | None => NEWTON_TOL end)
        (match d with Some x => x | None => NEWTON_DELTA end)
        (match n with Some x => x | None => NEWTON_MAX_ITER end) g.

(* ---- canonical order of the call points of ONE pass of the loop: insertion sort, lexicographic
        on the flattened form.  The property bounds the NUMBER of evaluations and says nothing
        about their order inside one pass, so the passes are compared in order, each as a multiset
        (a rewrite that evaluates func(current) before the two difference points stays quiet). ---- *)
Fixpoint lexleb (a b : list Z) : bool :=
  match a, b with
  | [], _ => true
  | _ :: _, [] => false
  | x :: a', y :: b' => if (x <? y)%Z then true else if (y <? x)%Z then false else lexleb a' b'
  end.
Fixpoint ins (x : list Z) (l : list (list Z)) : list (list Z) :=
  match l with
  | [] => [x]
  | h :: t => if lexleb x h then x :: l else h :: ins x t
  end.
Definition sortz (l : list (list Z)) : list (list Z) := fold_right ins [] l.

Fixpoint chunks_aux {X} (fuel k : nat) (l : list X) : list (list X) :=
  match fuel with
  | 0 => []
  | S fu => match l with [] => [] | _ => firstn k l :: chunks_aux fu k (skipn k l) end
  end.
Definition chunks {X} (k : nat) (l : list X) : list (list X) := chunks_aux (length l) k l.
Definition passes {E} (k : nat) (fe : E -> list Z) (evs : list E) : list Z :=
  concat (map (fun ch => concat (sortz (map fe ch))) (chunks k evs)).

Definition fl_nres {X} (fx : X -> list Z) (r : nres X) : list Z :=
  match r with NOk x => fl_nat 1 ++ fx x | NErr x => fl_nat 0 ++ fx x end.
Definition fl_call {X} (fx : X -> list Z) (c : call X) : list Z :=
  match c with CF x => fl_nat 0 ++ fx x | CJ x => fl_nat 1 ++ fx x end.
Definition nfl_mat {A : Arith} (fe : A -> list Z) (m : matrix A) : list Z :=
  fl_nat (rows m) ++ fl_nat (cols m) ++ concat (map fe (buf m)).

(* one observation of a solver: parameters() (scalar kinds only: Newton<Vector<_>> has no
   parameters(), Vector is not Copy), result, number of calls, the call points pass by pass
   ([k] calls per pass, each pass sorted), parameters() again, result and count of a second
   call on the same object *)
Definition run_newton {X E} (withp : bool) (k : nat) (fx : X -> list Z) (fe : E -> list Z) (c : ncfg float X)
    (r : res (nres X * list E)) : list Z :=
  fl_res (fun r : nres X * list E =>
    let p := if withp then flat_f (tol c) ++ flat_f (delta c) ++ fl_nat (max_iter c) ++ fx (guess c)
             else [] in
    let body := fl_nres fx (fst r) ++ fl_nat (length (snd r)) in
    p ++ body ++ passes k fe (snd r) ++ p ++ body) r.

Definition run_scalar_f c (e : expr AF) := run_newton true 3 flat_f flat_f c (newton_scalar NF c (fn1 e)).
Definition run_scalar_c c (e : expr ACF) := run_newton true 3 flat_cf flat_cf c (newton_scalar NC c (fn1 e)).
Definition run_sys_f c (es : list (expr AF)) :=
  run_newton false (length (guess c) + 2) (fl_list flat_f) (fl_list flat_f) c (newton_sys NF c (fnv es)).
Definition run_sys_c c (es : list (expr ACF)) :=
  run_newton false (length (guess c) + 2) (fl_list flat_cf) (fl_list flat_cf) c (newton_sys NC c (fnv es)).
Definition run_sysjac_f c (es : list (expr AF)) r k (js : list (expr AF)) :=
  run_newton false 2 (fl_list flat_f) (fl_call (fl_list flat_f)) c (newton_sysjac NF c (fnv es) (fnm r k js)).
Definition run_sysjac_c c (es : list (expr ACF)) r k (js : list (expr ACF)) :=
  run_newton false 2 (fl_list flat_cf) (fl_call (fl_list flat_cf)) c (newton_sysjac NC c (fnv es) (fnm r k js)).

(* Jacobian kinds: the matrix, the number of calls and the call points IN ORDER (C18 speaks
   about the sequence) *)
Definition run_jac {A : Arith} (fe : A -> list Z) (r : res (matrix A * list (list A))) : list Z :=
  fl_res (fun r : matrix A * list (list A) =>
    nfl_mat fe (fst r) ++ fl_nat (length (snd r)) ++ concat (map (fl_list fe) (snd r))) r.
Definition run_jac_f (p : list float) (d : float) (es : list (expr AF)) :=
  @run_jac AF flat_f (jacobian NF (fnv es) p d).
Definition run_jac_c (p : list (cplx AF)) (d : float) (es : list (expr ACF)) :=
  @run_jac ACF flat_cf (jacobian NC (fnv es) p (emb NC d)).
