(* Model/Guards.v -- stub, to be filled in *)
