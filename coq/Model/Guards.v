(* Model/Guards.v -- hand-written range / conformability specifications of the checked entry points (C20).
   Written from the documentation and the property text, NOT from the guards: the theorems of Props/C20.v
   show that the guards regenerated from the source (gen/GuardTable.v) fire exactly outside these ranges. *)
From Coq Require Import ZArith.
Local Open Scope Z_scope.

Definition ok_vec_add_ref (n1 n2 : Z) : Prop := n1 = n2.
Definition ok_vec_sub_ref (n1 n2 : Z) : Prop := n1 = n2.
Definition ok_vec_add_assign (n1 n2 : Z) : Prop := n1 = n2.
Definition ok_vec_sub_assign (n1 n2 : Z) : Prop := n1 = n2.
Definition ok_vec_dot (n1 n2 : Z) : Prop := n1 = n2.
Definition ok_vec_dot_f64 (n1 n2 : Z) : Prop := n1 = n2.
Definition ok_vec_sum_slice (n s e : Z) : Prop := s <= e /\ e < n.
Definition ok_vec_product_slice (n s e : Z) : Prop := s <= e /\ e < n.
Definition ok_mat_get_row (r c row : Z) : Prop := row < r.
Definition ok_mat_get_col (r c col : Z) : Prop := col < c.
Definition ok_mat_set_row (r c row vl : Z) : Prop := vl = c /\ row < r.
Definition ok_mat_set_col (r c col vl : Z) : Prop := vl = r /\ col < c.
Definition ok_mat_delete_row (r c row : Z) : Prop := row < r.
Definition ok_mat_multiply (r c vl : Z) : Prop := vl = c.
Definition ok_mat_swap_rows (r c r1 r2 : Z) : Prop := r1 < r /\ r2 < r.
Definition ok_mat_fill_row (r c row : Z) : Prop := row < r.
Definition ok_mat_fill_col (r c col : Z) : Prop := col < c.
Definition ok_mat_solve_basic (r c bl : Z) : Prop := r = bl /\ r = c.
Definition ok_mat_lu (r c : Z) : Prop := r = c.
Definition ok_mat_solve_lu (r c bl : Z) : Prop := r = bl /\ r = c.
Definition ok_mat_inverse (r c : Z) : Prop := r = c.
Definition ok_mat_determinant (r c : Z) : Prop := r = c.
Definition ok_mat_add_ref (r c r2 c2 : Z) : Prop := r = r2 /\ c = c2.
Definition ok_mat_sub_ref (r c r2 c2 : Z) : Prop := r = r2 /\ c = c2.
Definition ok_mat_add_assign_ref (r c r2 c2 : Z) : Prop := r = r2 /\ c = c2.
Definition ok_mat_sub_assign_ref (r c r2 c2 : Z) : Prop := r = r2 /\ c = c2.
Definition ok_mat_mul_ref (r c r2 c2 : Z) : Prop := c = r2.
Definition ok_band_fill_band (n m1 m2 band : Z) : Prop := - m1 <= band /\ band <= m2.
Definition ok_band_solve (n m1 m2 bl : Z) : Prop := n = bl.
Definition ok_band_index (n m1 m2 i j : Z) : Prop := j <= i + m2 /\ i <= j + m1.
Definition ok_band_index_mut (n m1 m2 i j : Z) : Prop := j <= i + m2 /\ i <= j + m1.
Definition ok_band_add_ref (n m1 m2 n2 p1 p2 : Z) : Prop := n = n2 /\ m1 = p1 /\ m2 = p2.
Definition ok_band_sub_ref (n m1 m2 n2 p1 p2 : Z) : Prop := n = n2 /\ m1 = p1 /\ m2 = p2.
Definition ok_band_add_assign_ref (n m1 m2 n2 p1 p2 : Z) : Prop := n = n2 /\ m1 = p1 /\ m2 = p2.
Definition ok_band_sub_assign_ref (n m1 m2 n2 p1 p2 : Z) : Prop := n = n2 /\ m1 = p1 /\ m2 = p2.
Definition ok_band_mul_vec (n m1 m2 vl : Z) : Prop := n = vl.
Definition ok_tri_with_vectors (ns nm nu : Z) : Prop := ns = nm - 1 /\ nu = nm - 1.
Definition ok_tri_with_vecs (ns nm nu : Z) : Prop := ns = nm - 1 /\ nu = nm - 1.
Definition ok_tri_convert (n : Z) : Prop := 1 <= n.
Definition ok_tri_solve (n rl : Z) : Prop := n = rl.
Definition ok_tri_index (n i j : Z) : Prop := i < n /\ j < n /\ (i = j \/ i = j + 1 \/ i + 1 = j).
Definition ok_tri_index_mut (n i j : Z) : Prop := i < n /\ j < n /\ (i = j \/ i = j + 1 \/ i + 1 = j).
Definition ok_tri_add (n1 n2 : Z) : Prop := n1 = n2.
Definition ok_tri_sub (n1 n2 : Z) : Prop := n1 = n2.
Definition ok_tri_mul_vec (n vl : Z) : Prop := n = vl.
Definition ok_sp_from_triplets (r c row col : Z) : Prop := row < r /\ col < c.
Definition ok_sp_get (r c row col : Z) : Prop := row < r /\ col < c.
Definition ok_sp_insert (r c row col : Z) : Prop := row < r /\ col < c.
Definition ok_sp_multiply (r c xl : Z) : Prop := c = xl.
Definition ok_sp_transpose_multiply (r c xl : Z) : Prop := r = xl.
Definition ok_sp_solve_bicgstab (r c bl xl : Z) : Prop := r = bl /\ r = c /\ bl = xl.
Definition ok_sp_solve_cg (r c bl xl : Z) : Prop := r = bl /\ r = c /\ bl = xl.
Definition ok_sp_solve_qmr (r c bl xl : Z) : Prop := r = bl /\ r = c /\ bl = xl.
Definition ok_sp_solve_bicg (r c bl xl itol : Z) : Prop := r = bl /\ r = c /\ bl = xl /\ (itol = 1 \/ itol = 2).
Definition ok_mesh1_set_nodes_vars (nn nv node vl : Z) : Prop := node < nn /\ vl = nv.
Definition ok_mesh1_get_nodes_vars (nn nv node : Z) : Prop := node < nn.
Definition ok_mesh2_set_nodes_vars (nx ny nv i j vl : Z) : Prop := i < nx /\ j < ny /\ vl = nv.
Definition ok_mesh2_get_nodes_vars (nx ny i j : Z) : Prop := i < nx /\ j < ny.
Definition ok_mesh2_var_as_matrix (nx ny nv var : Z) : Prop := var < nv.
Definition ok_poly_index (len i : Z) : Prop := i < len.
Definition ok_poly_index_mut (len i : Z) : Prop := i < len.
Definition ok_poly_roots_degree (len : Z) : Prop := 2 <= len.
