(* Model/CFun.v -- Complex<f64> elementary / trigonometric / hyperbolic functions over R x R
   (src/complex/elementary.rs, trigonometric.rs, hyperbolic.rs, constant.rs; abs/arg/abs_sqr/conj of
   src/complex/mod.rs), formula by formula as the source composes them.  Definitions only.

   Conventions of this model (DESIGN 4.2 / 7-C14):
   * a complex number is a pair (re, im) of real numbers; the operators are the formulas of
     src/complex/mod.rs (mul: (ac - bd, ad + bc); div: ((ac + bd)/den, (bc - ad)/den), den = cc + dd);
   * libm calls are the real functions of the standard library: f64::sqrt -> sqrt, exp -> exp, ln -> ln,
     sin/cos -> sin/cos, sinh/cosh -> sinh/cosh, powf -> Rpower, atan2 -> the piecewise-atan function
     [atan2] below (the value of IEEE atan2 for a zero of positive sign: atan2 (+0) x = PI for x < 0);
   * the f64 literals 0.5, 1.0 and PI_2 (constant.rs) are the real numbers 1/2, 1, PI/2 (the literal of
     PI_2 is compared with PI/2 by an Interval certificate on every check);
   * division is the total real division: the theorems carry the hypotheses that keep denominators
     non-zero, the certificates are only evaluated on the non-overflowing domain of the property. *)
From Coq Require Import Reals.
Local Open Scope R_scope.

Definition C : Type := (R * R)%type.
Definition re (z : C) : R := fst z.
Definition im (z : C) : R := snd z.

(* ---- src/complex/mod.rs: the operators used by the function files ---- *)
Definition czero : C := (0, 0).
Definition cone : C := (1, 0).
Definition ci : C := (0, 1).                                           (* constant.rs: I = Cmplx::new(0.0, 1.0) *)
Definition cconj (z : C) : C := (re z, - im z).
Definition cneg (z : C) : C := (- re z, - im z).
Definition cadd (z w : C) : C := (re z + re w, im z + im w).
Definition csub (z w : C) : C := (re z - re w, im z - im w).
Definition cmul (z w : C) : C := (re z * re w - im z * im w, re z * im w + im z * re w).
Definition cdiv (z w : C) : C :=
  let den := re w * re w + im w * im w in
  ((re z * re w + im z * im w) / den, (im z * re w - re z * im w) / den).
Definition cadd_r (z : C) (r : R) : C := (re z + r, im z).             (* Complex + f64 *)
Definition csub_r (z : C) (r : R) : C := (re z - r, im z).             (* Complex - f64 *)
Definition cmul_r (z : C) (r : R) : C := (re z * r, im z * r).         (* Complex * f64 *)

Definition abs_sqr (z : C) : R := re z * re z + im z * im z.
Definition cabs (z : C) : R := sqrt (abs_sqr z).

(* f64::atan2 (y, x), principal value in (-PI, PI], zero of positive sign *)
Definition atan2 (y x : R) : R :=
  if Rlt_dec 0 x then atan (y / x)
  else if Rlt_dec x 0 then (if Rle_dec 0 y then atan (y / x) + PI else atan (y / x) - PI)
  else if Rlt_dec 0 y then PI / 2
  else if Rlt_dec y 0 then - (PI / 2)
  else 0.
Definition arg (z : C) : R := atan2 (im z) (re z).

(* ---- src/complex/elementary.rs ---- *)
Definition csqrt (z : C) : C :=
  let sqrt_abs := sqrt (cabs z) in
  let theta := arg z in
  (sqrt_abs * cos (1 / 2 * theta), sqrt_abs * sin (1 / 2 * theta)).

Definition cpow (z w : C) : C :=
  let r2 := abs_sqr z in
  let theta := arg z in
  let x := Rpower r2 (1 / 2 * re w) * exp (- im w * theta) in
  let y := re w * theta + 1 / 2 * im w * ln r2 in
  (x * cos y, x * sin y).

Definition cpowf (z : C) (x : R) : C :=
  let r2 := abs_sqr z in
  let theta := arg z in
  let a := Rpower r2 (1 / 2 * x) in
  let b := x * theta in
  (a * cos b, a * sin b).

Definition cexp (z : C) : C :=
  let a := exp (re z) in (a * cos (im z), a * sin (im z)).

Definition cln (z : C) : C := (ln (cabs z), arg z).

Definition clog (z b : C) : C := cdiv (cln z) (cln b).

Definition cpolar (r theta : R) : C := (r * cos theta, r * sin theta).

(* ---- src/complex/trigonometric.rs ---- *)
Definition csin (z : C) : C := (sin (re z) * cosh (im z), cos (re z) * sinh (im z)).
Definition ccos (z : C) : C := (cos (re z) * cosh (im z), - sin (re z) * sinh (im z)).
Definition ctan (z : C) : C := cdiv (csin z) (ccos z).
Definition csec (z : C) : C := cdiv cone (ccos z).
Definition ccsc (z : C) : C := cdiv cone (csin z).
Definition ccot (z : C) : C := cdiv cone (ctan z).

(* - I * ((1 - z*z).sqrt() + I*z).ln() *)
Definition casin (z : C) : C :=
  let squared := cmul z z in
  cmul (cneg ci) (cln (cadd (csqrt (csub cone squared)) (cmul ci z))).
(* I * ((1 - z*z).sqrt() + I*z).ln() + PI_2 *)
Definition cacos (z : C) : C :=
  let squared := cmul z z in
  cadd_r (cmul ci (cln (cadd (csqrt (csub cone squared)) (cmul ci z)))) (PI / 2).
(* ((1 - iz).ln() - (1 + iz).ln()) * I * 0.5 *)
Definition catan (z : C) : C :=
  let iz := cmul ci z in
  cmul_r (cmul (csub (cln (csub cone iz)) (cln (cadd cone iz))) ci) (1 / 2).
Definition casec (z : C) : C := cacos (cdiv cone z).
Definition cacsc (z : C) : C := casin (cdiv cone z).
Definition cacot (z : C) : C := catan (cdiv cone z).

(* ---- src/complex/hyperbolic.rs ---- *)
Definition csinh (z : C) : C := (sinh (re z) * cos (im z), cosh (re z) * sin (im z)).
Definition ccosh (z : C) : C := (cosh (re z) * cos (im z), sinh (re z) * sin (im z)).
Definition ctanh (z : C) : C := cdiv (csinh z) (ccosh z).
Definition csech (z : C) : C := cdiv cone (ccosh z).
Definition ccsch (z : C) : C := cdiv cone (csinh z).
Definition ccoth (z : C) : C := cdiv cone (ctanh z).

(* ((z*z + 1).sqrt() + z).ln() *)
Definition casinh (z : C) : C := cln (cadd (csqrt (cadd_r (cmul z z) 1)) z).
(* ((z - 1).sqrt() * (z + 1).sqrt() + z).ln() *)
Definition cacosh (z : C) : C := cln (cadd (cmul (csqrt (csub_r z 1)) (csqrt (cadd_r z 1))) z).
(* ((z + 1).ln() - (1 - z).ln()) * 0.5 *)
Definition catanh (z : C) : C := cmul_r (csub (cln (cadd_r z 1)) (cln (csub cone z))) (1 / 2).
Definition casech (z : C) : C := cacosh (cdiv cone z).
Definition cacsch (z : C) : C := casinh (cdiv cone z).
Definition cacoth (z : C) : C := catanh (cdiv cone z).
