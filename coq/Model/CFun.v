(* Model/CFun.v -- stub, to be filled in *)
