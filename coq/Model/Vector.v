(* Model/Vector.v -- src/vector/{mod,operations,functions,arithmetic}.rs over any Arith.
   A Vector<T> is its public field `vec`: a list.  Definitions only. *)
From Coq Require Import List Arith Lia.
From OV Require Import Base.Panic Base.Arith.
Import ListNotations.
Local Open Scope arith_scope.

Section Vec.
Context {A : Arith}.
Notation T := (T A).

Definition zipw (f : T -> T -> T) (u v : list T) : list T :=
  map (fun p => f (fst p) (snd p)) (combine u v).

(* &u + &v, &u - &v : size guard, then element-wise (arithmetic.rs:20-87) *)
Definition vadd (u v : list T) : res (list T) :=
  if length u =? length v then Ok (zipw add u v) else Panic Guard.
Definition vsub (u v : list T) : res (list T) :=
  if length u =? length v then Ok (zipw sub u v) else Panic Guard.
Definition vneg (u : list T) : list T := map neg u.
Definition vscale (u : list T) (s : T) : list T := map (fun x => x * s) u.       (* vector * scalar *)
Definition vscale_l (s : T) (u : list T) : list T := map (fun x => s * x) u.     (* f64 * vector   *)

Fixpoint mapM {X Y} (f : X -> res Y) (l : list X) : res (list Y) :=
  match l with
  | [] => Ok []
  | x :: t => let* y := f x in let* t' := mapM f t in Ok (y :: t')
  end.
Definition vdiv (u : list T) (s : T) : res (list T) := mapM (fun x => div x s) u. (* vector / scalar *)

(* compound assignments *)
Definition vadd_assign := vadd.
Definition vsub_assign := vsub.
Definition vadd_scalar (u : list T) (s : T) := map (fun x => x + s) u.
Definition vsub_scalar (u : list T) (s : T) := map (fun x => x - s) u.
Definition vmul_scalar := vscale.
Definition vdiv_scalar := vdiv.

(* dot: result = 0; for i: result += u[i]*w[i]  (functions.rs:38-46) *)
Definition dot_raw (u w : list T) : T :=
  fold_left (fun acc p => acc + fst p * snd p) (combine u w) zero.
Definition dot (u w : list T) : res T :=
  if length u =? length w then Ok (dot_raw u w) else Panic Guard.

(* sum_slice(start, end): three guards, then inclusive range (functions.rs:55-65) *)
Definition slice {X} (l : list X) (s e : nat) : list X := firstn (e + 1 - s) (skipn s l).
Definition sum_slice (v : list T) (s e : nat) : res T :=
  if e <? s then Panic Guard else
  if length v <=? s then Panic Guard else
  if length v <=? e then Panic Guard else
  Ok (fold_left add (slice v s e) zero).
Definition vsum (v : list T) : res T :=
  let* e := usub (length v) 1 in sum_slice v 0 e.
Definition product_slice (v : list T) (s e : nat) : res T :=
  if e <? s then Panic Guard else
  if length v <=? s then Panic Guard else
  if length v <=? e then Panic Guard else
  let* x0 := rd v s in
  Ok (fold_left mul (slice v (s + 1) e) x0).
Definition vproduct (v : list T) : res T :=
  let* e := usub (length v) 1 in product_slice v 0 e.

Definition vabs (v : list T) : list T := map abs v.
Definition norm_1 (v : list T) : T := fold_left (fun acc x => acc + abs x) v zero.

(* find: first index equal to value, else size-1 (underflow panic when empty, debug profile) *)
Fixpoint find_first (v : list T) (x : T) (i : nat) : option nat :=
  match v with
  | [] => None
  | h :: t => if eqb h x then Some i else find_first t x (S i)
  end.
Definition vfind (v : list T) (x : T) : res nat :=
  match find_first v x 0 with Some i => Ok i | None => usub (length v) 1 end.

Definition vassign (v : list T) (x : T) : list T := map (fun _ => x) v.
Definition vresize (v : list T) (n : nat) : list T :=       (* Default::default() = zero *)
  firstn n v ++ repeat zero (n - length v).

(* editing operations (operations.rs): Vec::{clear, swap, push, insert, pop} *)
Definition vswap (v : list T) (i j : nat) : res (list T) :=
  let* a := rd v i in let* b := rd v j in
  let* v1 := upd v i b in upd v1 j a.
Definition vpush (v : list T) (x : T) : list T := v ++ [x].
Definition vinsert (v : list T) (pos : nat) (x : T) : res (list T) :=
  if pos <=? length v then Ok (firstn pos v ++ x :: skipn pos v) else Panic Index.
Definition vpush_front (v : list T) (x : T) : list T := x :: v.
Definition vpop (v : list T) : res (list T * T) :=
  match rev v with
  | [] => Panic Unwrap
  | x :: r => Ok (rev r, x)
  end.

End Vec.
