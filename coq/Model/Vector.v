(* Model/Vector.v -- src/vector/{mod,operations,functions,arithmetic}.rs over any Arith.
   A Vector<T> is its public field `vec`: a list.  Definitions only. *)
From Coq Require Import List Arith Lia.
From OV Require Import Base.Panic Base.Arith.
Import ListNotations.
Local Open Scope arith_scope.

Section Vec.
Context {A : Arith}.
Notation T := (T A).

Definition zipw (f : T -> T -> T) (u v : list T) : list T :=
  map (fun p => f (fst p) (snd p)) (combine u v).

(* &u + &v, &u - &v : size guard, then element-wise (arithmetic.rs:20-87) *)
Definition vadd (u v : list T) : res (list T) :=
  if length u =? length v then Ok (zipw add u v) else Panic Guard.
Definition vsub (u v : list T) : res (list T) :=
  if length u =? length v then Ok (zipw sub u v) else Panic Guard.
Definition vneg (u : list T) : list T := map neg u.
Definition vscale (u : list T) (s : T) : list T := map (fun x => x * s) u.       (* vector * scalar *)
Definition vscale_l (s : T) (u : list T) : list T := map (fun x => s * x) u.     (* f64 * vector   *)

Fixpoint mapM {X Y} (f : X -> res Y) (l : list X) : res (list Y) :=
  match l with
  | [] => Ok []
  | x :: t => let* y := f x in let* t' := mapM f t in Ok (y :: t')
  end.
Definition vdiv (u : list T) (s : T) : res (list T) := mapM (fun x => div x s) u. (* vector / scalar *)

(* compound assignments *)
Definition vadd_assign := vadd.
Definition vsub_assign := vsub.
Definition vadd_scalar (u : list T) (s : T) := map (fun x => x + s) u.
Definition vsub_scalar (u : list T) (s : T) := map (fun x => x - s) u.
Definition vmul_scalar := vscale.
Definition vdiv_scalar := vdiv.

(* dot: result = 0; for i: result += u[i]*w[i]  (functions.rs:38-46) *)
Definition dot_raw (u w : list T) : T :=
  fold_left (fun acc p => acc + fst p * snd p) (combine u w) zero.
Definition dot (u w : list T) : res T :=
  if length u =? length w then Ok (dot_raw u w) else Panic Guard.

(* sum_slice(start, end): three guards, then inclusive range (functions.rs:55-65) *)
Definition slice {X} (l : list X) (s e : nat) : list X := firstn (e + 1 - s) (skipn s l).
Definition sum_slice (v : list T) (s e : nat) : res T :=
  if e <? s then Panic Guard else
  if length v <=? s then Panic Guard else
  if length v <=? e then Panic Guard else
  Ok (fold_left add (slice v s e) zero).
Definition vsum (v : list T) : res T :=
  let* e := usub (length v) 1 in sum_slice v 0 e.
Definition product_slice (v : list T) (s e : nat) : res T :=
  if e <? s then Panic Guard else
  if length v <=? s then Panic Guard else
  if length v <=? e then Panic Guard else
  let* x0 := rd v s in
  Ok (fold_left mul (slice v (s + 1) e) x0).
Definition vproduct (v : list T) : res T :=
  let* e := usub (length v) 1 in product_slice v 0 e.

Definition vabs (v : list T) : list T := map abs v.
Definition norm_1 (v : list T) : T := fold_left (fun acc x => acc + abs x) v zero.

(* find: first index equal to value, else size-1 (underflow panic when empty, debug profile) *)
Fixpoint find_first (v : list T) (x : T) (i : nat) : option nat :=
  match v with
  | [] => None
  | h :: t => if eqb h x then Some i else find_first t x (S i)
  end.
Definition vfind (v : list T) (x : T) : res nat :=
  match find_first v x 0 with Some i => Ok i | None => usub (length v) 1 end.

Definition vassign (v : list T) (x : T) : list T := map (fun _ => x) v.
Definition vresize (v : list T) (n : nat) : list T :=       (* Default::default() = zero *)
  firstn n v ++ repeat zero (n - length v).

(* editing operations (operations.rs): Vec::{clear, swap, push, insert, pop} *)
Definition vswap (v : list T) (i j : nat) : res (list T) :=
  let* a := rd v i in let* b := rd v j in
  let* v1 := upd v i b in upd v1 j a.
Definition vpush (v : list T) (x : T) : list T := v ++ [x].
Definition vinsert (v : list T) (pos : nat) (x : T) : res (list T) :=
  if pos <=? length v then Ok (firstn pos v ++ x :: skipn pos v) else Panic Index.
Definition vpush_front (v : list T) (x : T) : list T := x :: v.
Definition vpop (v : list T) : res (list T * T) :=
  match rev v with
  | [] => Panic Unwrap
  | x :: r => Ok (rev r, x)
  end.

End Vec.

(* ======================================================================================
   Completion for C15 (package vec).  Everything above is unchanged (Matrix.v, Solve.v, ...
   build on it).  Review of the definitions above against src/vector/*.rs (line by line):
     vadd/vsub        arithmetic.rs:20-87   guard on sizes, then element-wise in index order        ok
     vneg             arithmetic.rs:6-17                                                          ok
     vscale/vscale_l  arithmetic.rs:89-113  x*s  resp.  s*x  (operand order as written)           ok
     vdiv             arithmetic.rs:115-125 x/s in index order: the first element decides a panic  ok
     compound forms   arithmetic.rs:127-181 same element-wise expressions, guard first            ok
     dot              functions.rs:38-46    result = 0; result += u[i]*w[i]                        ok
     sum_slice        functions.rs:55-65    three guards in the code's order, inclusive range      ok
     vsum/vproduct    functions.rs:49-52,68-71  size()-1 underflows on the empty vector (debug)    ok
     product_slice    functions.rs:74-84    starts from vec[start], multiplies start+1..=end       ok
     vabs/norm_1      functions.rs:87-107                                                         ok
     vfind            functions.rs:8-15     first match, else size()-1 (underflow when empty)      ok
     vassign/vresize  functions.rs:18-33    resize_with(Default::default): Default = zero for f64/Rat ok
     vswap/vpush/vinsert/vpush_front/vpop  operations.rs:24-58  Vec::{swap,push,insert,pop}        ok
   Missing and added below: clear, new/zeros/ones, index read/write, sort, linspace, powspace,
   norm_2, norm_p, norm_inf (f64 and Complex<f64>), conj, real.
   ====================================================================================== *)

Section VecMore.
Context {A : Arith}.
Notation T := (T A).

Definition vclear (v : list T) : list T := [].                 (* operations.rs:26 *)
Definition vnew (n : nat) (x : T) : list T := repeat x n.       (* mod.rs:40-46 *)
Definition vzeros (n : nat) : list T := repeat zero n.
Definition vones (n : nat) : list T := repeat one n.
Definition vget (v : list T) (i : nat) : res T := rd v i.       (* Index    operations.rs:4-11 *)
Definition vset (v : list T) (i : nat) (x : T) : res (list T) := upd v i x.   (* IndexMut *)

(* sort / sort_by delegate to Vec::sort_unstable(_by): an EXTERNAL call.  In the theorems the sorter is a
   Section variable with its contract (returns a sorted permutation); to RUN the model the parameter is
   instantiated by insertion sort on the element order -- any two sorted permutations of the same list agree
   up to elements that compare equal (identical for canonical rationals; +0/-0 for floats). *)
Fixpoint insert_by (le : T -> T -> bool) (x : T) (l : list T) : list T :=
  match l with
  | [] => [x]
  | h :: t => if le x h then x :: l else h :: insert_by le x t
  end.
Definition isort (le : T -> T -> bool) (l : list T) : list T := fold_right (insert_by le) [] l.

End VecMore.

(* ---- Vector<f64> only (vec_f64.rs): over an SArith, with the two non-IEEE-primitive calls as parameters ----
     fabs : the INHERENT f64::abs (clears the sign bit: |-0.0| = +0.0), which is what `self.vec[i].abs()` resolves
            to in vec_f64.rs -- not Signed::abs of traits.rs (`if x < 0 {-x} else {x}`, which keeps -0.0);
     powf : libm pow.  To run the model the driver supplies the table of the calls (python's math.pow is the same
            libm); the theorems are over R where powf x 2 is not needed: norm_2's `powf(|x|, 2.0)` is modelled as
            |x|*|x| (what a correctly rounded pow returns; LLVM folds pow(x,2.0) to x*x as well) -- tied by tolerance. *)
From OV Require Import Model.Complex.
Section Vec64.
Context {F : SArith}.
Variable fabs : F -> F.
Variable powf : F -> F -> F.
Local Open Scope arith_scope.

(* linspace (vec_f64.rs:8-15): h = (b-a)/((size as f64) - 1.0); vec[i] = a + h*(i as f64) *)
Definition linspace (a b : F) (n : nat) : res (list F) :=
  let* h := div (b - a) (of_nat n - one) in
  Ok (map (fun i => a + h * of_nat i) (seq 0 n)).

(* powspace (vec_f64.rs:20-26): vec[i] = a + (b-a)*powf((i as f64)/((size as f64)-1.0), p) *)
Definition powspace (a b : F) (n : nat) (p : F) : res (list F) :=
  mapM (fun i => let* x := div (of_nat i) (of_nat n - one) in Ok (a + (b - a) * powf x p)) (seq 0 n).

(* norm_2 (vec_f64.rs:30-36) *)
Definition norm_2 (v : list F) : F :=
  sqrt (fold_left (fun acc x => acc + fabs x * fabs x) v zero).

(* norm_p (vec_f64.rs:41-47): powf(sum powf(|x|,p), 1.0/p) *)
Definition norm_p (v : list F) (p : F) : res F :=
  let* ip := div one p in
  Ok (powf (fold_left (fun acc x => acc + powf (fabs x) p) v zero) ip).

(* norm_inf (vec_f64.rs:51-59): result = |v[0]| (index panic when empty); for i in 1..size: if result < |v[i]| ... *)
Definition norm_inf (v : list F) : res F :=
  let* x0 := rd v 0 in
  Ok (fold_left (fun r x => if ltb r (fabs x) then fabs x else r) (skipn 1 v) (fabs x0)).

(* ---- Vector<Complex<T>> (vec_cmplx.rs) ---- *)
Definition vconj (v : list (cplx F)) : list (cplx F) := map conj v.
Definition vreal (v : list (cplx F)) : list F := map (@re F) v.
(* Complex<f64>::abs = sqrt(abs_sqr) (complex/mod.rs:270) *)
Definition cabs (z : cplx F) : F := sqrt (abs_sqr z).
Definition cnorm_inf (v : list (cplx F)) : res F :=
  let* z0 := rd v 0 in
  Ok (fold_left (fun r z => if ltb r (cabs z) then cabs z else r) (skipn 1 v) (cabs z0)).

End Vec64.
