(* Model/Complex.v -- src/complex/mod.rs over any Arith: every operator impl as its own function,
   compound assignments as the statement sequences of the source.  Definitions only. *)
From Coq Require Import List Arith Bool.
From OV Require Import Base.Panic Base.Arith.
Import ListNotations.
Local Open Scope arith_scope.
Local Open Scope bool_scope.

Section Cplx.
Context {A : Arith}.
Notation T := (T A).

Record cplx := mkC { re : T; im : T }.

Definition conj (z : cplx) : cplx := mkC (re z) (- im z).
Definition cneg (z : cplx) : cplx := mkC (- re z) (- im z).
Definition cadd (z w : cplx) : cplx := mkC (re z + re w) (im z + im w).
Definition csub (z w : cplx) : cplx := mkC (re z - re w) (im z - im w).
(* mul: real = a*c - b*d ; imag = a*d + b*c   (mod.rs:68-76) *)
Definition cmul (z w : cplx) : cplx :=
  mkC (re z * re w - im z * im w) (re z * im w + im z * re w).
(* div: den = c*c + d*d ; real = (a*c + b*d)/den ; imag = (b*c - a*d)/den   (mod.rs:86-97) *)
Definition cdiv (z w : cplx) : res cplx :=
  let den := re w * re w + im w * im w in
  let r := re z * re w + im z * im w in
  let i := im z * re w - re z * im w in
  let* x := div r den in let* y := div i den in Ok (mkC x y).

(* mixed complex/real forms *)
Definition cadd_r (z : cplx) (r : T) : cplx := mkC (re z + r) (im z).
Definition csub_r (z : cplx) (r : T) : cplx := mkC (re z - r) (im z).
Definition cmul_r (z : cplx) (r : T) : cplx := mkC (re z * r) (im z * r).
Definition rmul_c (r : T) (z : cplx) : cplx := cmul_r z r.           (* f64 * Complex delegates *)
Definition cdiv_r (z : cplx) (r : T) : res cplx :=
  let* x := div (re z) r in let* y := div (im z) r in Ok (mkC x y).

(* compound assignments: statement by statement *)
Definition cadd_assign (z w : cplx) : cplx :=
  let r := re z + re w in let i := im z + im w in mkC r i.
Definition csub_assign (z w : cplx) : cplx :=
  let r := re z - re w in let i := im z - im w in mkC r i.
Definition cmul_assign (z w : cplx) : cplx :=
  let a := re z in
  let r := re z * re w in
  let r := r - im z * im w in
  let i := im z * re w in
  let i := i + a * im w in
  mkC r i.
Definition cdiv_assign (z w : cplx) : res cplx :=
  let a := re z in
  let den := re w * re w + im w * im w in
  let r := re z * re w in
  let r := r + im z * im w in
  let* r := div r den in
  let i := im z * re w in
  let i := i - a * im w in
  let* i := div i den in
  Ok (mkC r i).
Definition cadd_assign_r (z : cplx) (r : T) : cplx := mkC (re z + r) (im z).
Definition csub_assign_r (z : cplx) (r : T) : cplx := mkC (re z - r) (im z).
Definition cmul_assign_r (z : cplx) (r : T) : cplx := mkC (re z * r) (im z * r).
Definition cdiv_assign_r (z : cplx) (r : T) : res cplx :=
  let* x := div (re z) r in let* y := div (im z) r in Ok (mkC x y).

Definition czero : cplx := mkC zero zero.
Definition cone : cplx := mkC one zero.
Definition ceqb (z w : cplx) : bool := eqb (re z) (re w) && eqb (im z) (im w).
(* partial_cmp: compare real parts unless they are equal, then imaginary parts *)
Definition cltb (z w : cplx) : bool :=
  if negb (eqb (re z) (re w)) then ltb (re z) (re w) else ltb (im z) (im w).
Definition cleb (z w : cplx) : bool :=
  if negb (eqb (re z) (re w)) then leb (re z) (re w) else leb (im z) (im w).
Definition abs_sqr (z : cplx) : T := re z * re z + im z * im z.

End Cplx.
Arguments cplx A : clear implicits.

(* Complex<f64> as an element type of the generic containers (Signed::abs = (|z|, 0)) *)
Definition CArith (S : SArith) : Arith := {|
  T := cplx S; zero := czero; one := cone;
  add := cadd; sub := csub; mul := cmul; neg := cneg;
  abs := fun z => mkC (sqrt (abs_sqr z)) zero;
  div := cdiv; eqb := ceqb; ltb := cltb; leb := cleb |}.
