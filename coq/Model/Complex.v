(* Model/Complex.v -- src/complex/mod.rs over any Arith: every operator impl as its own function,
   compound assignments as the statement sequences of the source.  Definitions only. *)
From Coq Require Import List Arith Bool.
From OV Require Import Base.Panic Base.Arith.
Import ListNotations.
Local Open Scope arith_scope.
Local Open Scope bool_scope.

Section Cplx.
Context {A : Arith}.
Notation T := (T A).

Record cplx := mkC { re : T; im : T }.

Definition conj (z : cplx) : cplx := mkC (re z) (- im z).
Definition cneg (z : cplx) : cplx := mkC (- re z) (- im z).
Definition cadd (z w : cplx) : cplx := mkC (re z + re w) (im z + im w).
Definition csub (z w : cplx) : cplx := mkC (re z - re w) (im z - im w).
(* mul: real = a*c - b*d ; imag = a*d + b*c   (mod.rs:74-84) *)
Definition cmul (z w : cplx) : cplx :=
  mkC (re z * re w - im z * im w) (re z * im w + im z * re w).
(* div: den = c*c + d*d ; real = (a*c + b*d)/den ; imag = (b*c - a*d)/den   (mod.rs:86-97) *)
Definition cdiv (z w : cplx) : res cplx :=
  let den := re w * re w + im w * im w in
  let r := re z * re w + im z * im w in
  let i := im z * re w - re z * im w in
  let* x := div r den in let* y := div i den in Ok (mkC x y).

(* mixed complex/real forms *)
Definition cadd_r (z : cplx) (r : T) : cplx := mkC (re z + r) (im z).
Definition csub_r (z : cplx) (r : T) : cplx := mkC (re z - r) (im z).
Definition cmul_r (z : cplx) (r : T) : cplx := mkC (re z * r) (im z * r).
Definition rmul_c (r : T) (z : cplx) : cplx := cmul_r z r.           (* f64 * Complex delegates *)
Definition cdiv_r (z : cplx) (r : T) : res cplx :=
  let* x := div (re z) r in let* y := div (im z) r in Ok (mkC x y).

(* compound assignments: statement by statement *)
Definition cadd_assign (z w : cplx) : cplx :=
  let r := re z + re w in let i := im z + im w in mkC r i.
Definition csub_assign (z w : cplx) : cplx :=
  let r := re z - re w in let i := im z - im w in mkC r i.
Definition cmul_assign (z w : cplx) : cplx :=
  let a := re z in
  let r := re z * re w in
  let r := r - im z * im w in
  let i := im z * re w in
  let i := i + a * im w in
  mkC r i.
Definition cdiv_assign (z w : cplx) : res cplx :=
  let a := re z in
  let den := re w * re w + im w * im w in
  let r := re z * re w in
  let r := r + im z * im w in
  let* r := div r den in
  let i := im z * re w in
  let i := i - a * im w in
  let* i := div i den in
  Ok (mkC r i).
Definition cadd_assign_r (z : cplx) (r : T) : cplx := mkC (re z + r) (im z).
Definition csub_assign_r (z : cplx) (r : T) : cplx := mkC (re z - r) (im z).
Definition cmul_assign_r (z : cplx) (r : T) : cplx := mkC (re z * r) (im z * r).
Definition cdiv_assign_r (z : cplx) (r : T) : res cplx :=
  let* x := div (re z) r in let* y := div (im z) r in Ok (mkC x y).

Definition czero : cplx := mkC zero zero.
Definition cone : cplx := mkC one zero.
Definition ceqb (z w : cplx) : bool := eqb (re z) (re w) && eqb (im z) (im w).
(* partial_cmp: compare real parts unless they are equal, then imaginary parts *)
Definition cltb (z w : cplx) : bool :=
  if negb (eqb (re z) (re w)) then ltb (re z) (re w) else ltb (im z) (im w).
Definition cleb (z w : cplx) : bool :=
  if negb (eqb (re z) (re w)) then leb (re z) (re w) else leb (im z) (im w).
Definition abs_sqr (z : cplx) : T := re z * re z + im z * im z.

(* ---- additions (package cplx, C13): nothing above changes meaning ---- *)

(* Clone::clone  (mod.rs:36-42): rebuilds the pair from its two components *)
Definition cclone (z : cplx) : cplx := mkC (re z) (im z).

(* PartialEq::ne is the default `!eq` *)
Definition cneb (z w : cplx) : bool := negb (ceqb z w).

(* PartialOrd::partial_cmp of the component type, as both component types of the tie implement it:
   f64: (a <= b, a >= b) -> (T,T) Equal | (T,F) Less | (F,T) Greater | (F,F) None  (core::cmp);
   Rat: comparison of the cross products (total).  Written with eqb/ltb only. *)
Definition acmp (x y : T) : option comparison :=
  if eqb x y then Some Eq else if ltb x y then Some Lt else if ltb y x then Some Gt else None.

(* partial_cmp (mod.rs:248-257): the real parts decide unless they are equal (`!=` false) *)
Definition ccmp (z w : cplx) : option comparison :=
  if negb (eqb (re z) (re w)) then acmp (re z) (re w) else acmp (im z) (im w).

(* the provided methods lt / le / gt / ge of PartialOrd are defined from partial_cmp in core::cmp *)
Definition clt_pc (z w : cplx) : bool := match ccmp z w with Some Lt => true | _ => false end.
Definition cle_pc (z w : cplx) : bool := match ccmp z w with Some Lt | Some Eq => true | _ => false end.
Definition cgt_pc (z w : cplx) : bool := match ccmp z w with Some Gt => true | _ => false end.
Definition cge_pc (z w : cplx) : bool := match ccmp z w with Some Gt | Some Eq => true | _ => false end.

(* the real number r as the complex number (r, 0): right-hand sides of the mixed-form theorems *)
Definition cof_r (r : T) : cplx := mkC r zero.

(* the assignment forms must see the *old* real part: the variant that reads the overwritten one
   (the mutation DESIGN Appendix D names) is kept here only to be refuted in Legacy/cplxRefuted.v *)
Definition cmul_assign_stale (z w : cplx) : cplx :=
  let r := re z * re w in
  let r := r - im z * im w in
  let i := im z * re w in
  let i := i + r * im w in
  mkC r i.

End Cplx.
Arguments cplx A : clear implicits.

(* Complex::<f64>::abs (mod.rs:267-273): f64::sqrt (correctly rounded) of abs_sqr *)
Definition cabs {S : SArith} (z : cplx S) : S := sqrt (abs_sqr z).

(* Complex<f64> as an element type of the generic containers (Signed::abs = (|z|, 0)) *)
Definition CArith (S : SArith) : Arith := {|
  T := cplx S; zero := czero; one := cone;
  add := cadd; sub := csub; mul := cmul; neg := cneg;
  abs := fun z => mkC (sqrt (abs_sqr z)) zero;
  div := cdiv; eqb := ceqb; ltb := cltb; leb := cleb |}.
