(* Model/MatOps.v -- operation histories on one dense matrix: the [step] function used both by
   the history theorems (C03, C20) and by the correspondence check (kind mat.hist). *)
From Coq Require Import List Arith ZArith.
From OV Require Import Base.Panic Base.Arith Base.Flat Model.Vector Model.Matrix.
Import ListNotations.

Section Ops.
Context {A : Arith}.
Notation T := (T A).
Notation matrix := (matrix A).

Inductive mop :=
| OSetRow (r : nat) (v : list T) | OSetCol (c : nat) (v : list T) | ODeleteRow (r : nat)
| OResize (r c : nat) | OTransposeInPlace | OSwapRows (r1 r2 : nat) | OSwapElem (r1 c1 r2 c2 : nat)
| OFill (x : T) | OFillDiag (x : T) | OFillBand (o : Z) (x : T) | OFillTridiag (l d u : T)
| OFillRow (r : nat) (x : T) | OFillCol (c : nat) (x : T) | OClear | OSet (i j : nat) (x : T)
| OAddAssign (b : matrix) | OSubAssign (b : matrix)
| OMulAssignS (x : T) | ODivAssignS (x : T) | OAddAssignS (x : T) | OSubAssignS (x : T)
(* value-returning *)
| OGet (i j : nat) | OGetRow (r : nat) | OGetCol (c : nat) | OMultiply (v : list T) | OTranspose | ONeg
| OAdd (b : matrix) | OSub (b : matrix) | OScale (x : T) | ODiv (x : T) | OMul (b : matrix) | OMulL (b : matrix)
| OEye (n : nat) | ONumel | OCloneMut (x : T).

(* a result value of an operation *)
Inductive mval := VNone | VS (x : T) | VV (v : list T) | VM (m : matrix) | VN (n : nat).

Definition mstep (m : matrix) (o : mop) : res (matrix * mval) :=
  match o with
  | OSetRow r v => let* m' := set_row m r v in Ok (m', VNone)
  | OSetCol c v => let* m' := set_col m c v in Ok (m', VNone)
  | ODeleteRow r => let* m' := delete_row m r in Ok (m', VNone)
  | OResize r c => let* m' := resize m r c in Ok (m', VNone)
  | OTransposeInPlace => let* m' := transpose_in_place m in Ok (m', VNone)
  | OSwapRows a b => let* m' := swap_rows m a b in Ok (m', VNone)
  | OSwapElem a b c d => let* m' := swap_elem m a b c d in Ok (m', VNone)
  | OFill x => let* m' := fill m x in Ok (m', VNone)
  | OFillDiag x => let* m' := fill_diag m x in Ok (m', VNone)
  | OFillBand o x => let* m' := fill_band m o x in Ok (m', VNone)
  | OFillTridiag l d u => let* m' := fill_tridiag m l d u in Ok (m', VNone)
  | OFillRow r x => let* m' := fill_row m r x in Ok (m', VNone)
  | OFillCol c x => let* m' := fill_col m c x in Ok (m', VNone)
  | OClear => Ok (mat_empty, VNone)
  | OSet i j x => let* m' := mset m i j x in Ok (m', VNone)
  | OAddAssign b => let* m' := madd_assign m b in Ok (m', VNone)
  | OSubAssign b => let* m' := msub_assign m b in Ok (m', VNone)
  | OMulAssignS x => let* m' := mmul_assign_scalar m x in Ok (m', VNone)
  | ODivAssignS x => let* m' := mdiv_assign_scalar m x in Ok (m', VNone)
  | OAddAssignS x => let* m' := madd_assign_scalar m x in Ok (m', VNone)
  | OSubAssignS x => let* m' := msub_assign_scalar m x in Ok (m', VNone)
  | OGet i j => let* x := mget m i j in Ok (m, VS x)
  | OGetRow r => let* v := get_row m r in Ok (m, VV v)
  | OGetCol c => let* v := get_col m c in Ok (m, VV v)
  | OMultiply v => let* r := multiply m v in Ok (m, VV r)
  | OTranspose => let* t := transpose m in Ok (m, VM t)
  | ONeg => let* r := mneg m in Ok (m, VM r)
  | OAdd b => let* r := madd m b in Ok (m, VM r)
  | OSub b => let* r := msub m b in Ok (m, VM r)
  | OScale x => let* r := mscale m x in Ok (m, VM r)
  | ODiv x => let* r := mdiv m x in Ok (m, VM r)
  | OMul b => let* r := mat_mul m b in Ok (m, VM r)
  | OMulL b => let* r := mat_mul b m in Ok (m, VM r)
  | OEye n => let* r := eye n in Ok (m, VM r)
  | ONumel => Ok (m, VN (cols m * rows m))
  | OCloneMut x => let* m' := fill_diag m x in Ok (m', VNone)
  end.

(* a history: a panicking operation leaves the matrix as it was (what C20 demands) *)
Definition mrun_state (m : matrix) (ops : list mop) : matrix :=
  fold_left (fun m o => match mstep m o with Ok (m', _) => m' | Panic _ => m end) ops m.

Variable flat : T -> list Z.
Definition fl_mat (m : matrix) : list Z :=
  fl_nat (rows m) ++ fl_nat (cols m) ++ concat (map flat (buf m)).
Definition fl_val (v : mval) : list Z :=
  match v with
  | VNone => [] | VS x => flat x | VV v => fl_list flat v | VM m => fl_mat m | VN n => fl_nat n
  end.

Fixpoint mrun_out (m : matrix) (ops : list mop) : list Z :=
  match ops with
  | [] => []
  | o :: t =>
      match mstep m o with
      | Ok (m', v) => fl_val v ++ fl_mat m' ++ mrun_out m' t
      | Panic k => fl_panic k ++ fl_mat m ++ mrun_out m t
      end
  end.
Definition mat_hist (m : matrix) (ops : list mop) : list Z := fl_mat m ++ mrun_out m ops.

(* the same history with, after every state dump, the result of the derived PartialEq against a freshly
   built matrix of the same shape and entries (kind mat.histeq): Vec equality of the raw buffers, i.e.
   true exactly when the buffer holds rows*cols elements (no stale tail, nothing missing) *)
Definition fl_mat_eq (m : matrix) : list Z :=
  fl_mat m ++ fl_bool (length (buf m) =? rows m * cols m).
Fixpoint mrun_out_eq (m : matrix) (ops : list mop) : list Z :=
  match ops with
  | [] => []
  | o :: t =>
      match mstep m o with
      | Ok (m', v) => fl_val v ++ fl_mat_eq m' ++ mrun_out_eq m' t
      | Panic k => fl_panic k ++ fl_mat_eq m ++ mrun_out_eq m t
      end
  end.
Definition mat_histeq (m : matrix) (ops : list mop) : list Z := fl_mat_eq m ++ mrun_out_eq m ops.

End Ops.
Arguments mop A : clear implicits.
