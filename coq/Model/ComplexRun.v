(* Model/ComplexRun.v -- output-stream renderings of the Model/Complex.v functions, one per executor
   kind "cx.<name>" of harness/src/k_complex.rs.  Definitions only; used by the case files of C13. *)
From Coq Require Import List ZArith Bool.
From OV Require Import Base.Panic Base.Arith Base.Flat Model.Complex.
Import ListNotations.

Section Run.
Context {A : Arith}.
Variable fs : A -> list Z.                 (* flat_q / flat_f *)
Notation C := (cplx A).

Definition flz (z : C) : list Z := fs (re z) ++ fs (im z).

Definition ord_code (o : option comparison) : list Z :=
  fl_nat (match o with Some Lt => 0 | Some Eq => 1 | Some Gt => 2 | None => 3 end).

(* cx.bin.<op> / cx.asg.<op> / cx.bin.r.<op> / cx.asg.r.<op> *)
Definition run1 (z : C) : list Z := flz z.
Definition run1r (z : res C) : list Z := fl_res flz z.

(* cx.pair.<op>: binary form, then assignment form *)
Definition run2 (b a : C) : list Z := flz b ++ flz a.
Definition run2r (b a : res C) : list Z :=
  fl_res (fun p : C * C => flz (fst p) ++ flz (snd p)) (let* x := b in let* y := a in Ok (x, y)).

(* cx.ident z : z+0, 0+z, z-0, z*1, 1*z, z/1, z+0r, z-0r, z*1r, z/1r *)
Definition run_ident (z : C) : list Z :=
  fl_res (fun l : list C => concat (map flz l))
    (let* d := cdiv z cone in
     let* dr := cdiv_r z one in
     Ok [cadd z czero; cadd czero z; csub z czero; cmul z cone; cmul cone z; d;
         cadd_r z zero; csub_r z zero; cmul_r z one; dr]).

(* cx.cmp z w : eq ne partial_cmp lt le gt ge (from partial_cmp), then cltb cleb (the direct renderings
   that CArith uses) *)
Definition run_cmp (z w : C) : list Z :=
  fl_bool (ceqb z w) ++ fl_bool (cneb z w) ++ ord_code (ccmp z w) ++
  fl_bool (clt_pc z w) ++ fl_bool (cle_pc z w) ++ fl_bool (cgt_pc z w) ++ fl_bool (cge_pc z w) ++
  fl_bool (cltb z w) ++ fl_bool (cleb z w).

(* cx.cmp3 z0 z1 z2 : for i, j in 0..3: lt(zi, zj), eq(zi, zj) *)
Definition run_cmp3 (z0 z1 z2 : C) : list Z :=
  let zs := [z0; z1; z2] in
  concat (map (fun zi => concat (map (fun zj => fl_bool (clt_pc zi zj) ++ fl_bool (ceqb zi zj)) zs)) zs).

End Run.
