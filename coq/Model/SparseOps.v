(* Model/SparseOps.v -- the run functions of the correspondence check for src/sparse.rs
   (executor kinds sp.hist and sp.prod): build a matrix, apply modifying steps, and after every
   step dump the six public fields and the four views (col_index, to_triplets, to_dense, get at
   every in-range position).

   The dump is canonical with respect to the order of the entries *within* one column (DESIGN,
   Appendix D: a rewrite that orders a column differently is harmless -- no view and no
   well-formedness clause depends on it): when the column structure is intact, the (row, value)
   pairs of each column are listed sorted by row (stable), and the triplet list is listed sorted by
   (column, row) (stable).  Otherwise (malformed raw arrays) the arrays are dumped as they are.
   The executor (harness/src/k_sparse.rs) applies the same canonicalisation. *)
From Coq Require Import List Arith Bool ZArith.
From OV Require Import Base.Panic Base.Arith Base.Flat Model.Vector Model.Matrix Model.Sparse.
Import ListNotations.
Local Open Scope bool_scope.

Section Ops.
Context {A : Arith}.
Notation T := (T A).
Variable flat : T -> list Z.

Inductive sbuild :=
| BTrip (r c : nat) (ts : list (triplet A))
| BVecs (r c : nat) (v : list T) (ri cs : list nat).

Definition sp_build (b : sbuild) : res (sparse A) :=
  match b with
  | BTrip r c ts => sp_from_triplets r c ts
  | BVecs r c v ri cs => sp_from_vecs r c v ri cs
  end.

(* ---- canonical order ---- *)
Fixpoint ins_key {X} (key : X -> nat) (x : X) (l : list X) : list X :=
  match l with
  | [] => [x]
  | y :: r => if key x <=? key y then x :: y :: r else y :: ins_key key x r
  end.
Definition sort_key {X} (key : X -> nat) (l : list X) : list X := fold_right (ins_key key) [] l.

Fixpoint nondecreasing (l : list nat) : bool :=
  match l with
  | a :: ((b :: _) as t) => (a <=? b) && nondecreasing t
  | _ => true
  end.

Definition canon_ok (s : sparse A) : bool :=
  let cs := sp_col_start s in
  (length cs =? sp_cols s + 1) && (nth 0 cs 0 =? 0) && nondecreasing cs &&
  (last cs 0 <=? length (sp_row_index s)) && (last cs 0 <=? length (sp_val s)).

Definition canon_pairs (s : sparse A) : list (nat * T) :=
  let cs := sp_col_start s in
  let n := last cs 0 in
  let pairs := combine (firstn n (sp_row_index s)) (firstn n (sp_val s)) in
  flat_map (fun j => sort_key fst (firstn (nth (j + 1) cs 0 - nth j cs 0) (skipn (nth j cs 0) pairs)))
           (seq 0 (sp_cols s)).

Definition fl_fields (s : sparse A) : list Z :=
  fl_nat (sp_rows s) ++ fl_nat (sp_cols s) ++ fl_nat (sp_nonzero s) ++
  fl_list fl_nat (sp_col_start s) ++
  (if canon_ok s then
     let n := last (sp_col_start s) 0 in
     let p := canon_pairs s in
     fl_list fl_nat (map fst p ++ skipn n (sp_row_index s)) ++ fl_list flat (map snd p ++ skipn n (sp_val s))
   else fl_list fl_nat (sp_row_index s) ++ fl_list flat (sp_val s)).

Definition fl_triplet (t : triplet A) : list Z := fl_nat (trow t) ++ fl_nat (tcol t) ++ flat (tval t).
Definition canon_triplets (ts : list (triplet A)) : list (triplet A) :=
  sort_key (@tcol A) (sort_key (@trow A) ts).      (* stable: by row, then by column = lexicographic (col,row) *)

Definition fl_mat (m : matrix A) : list Z :=
  fl_nat (rows m) ++ fl_nat (cols m) ++ concat (map flat (buf m)).
Definition fl_opt (o : option T) : list Z :=
  match o with None => fl_nat 0 | Some v => fl_nat 1 ++ flat v end.

Definition fl_views (s : sparse A) : list Z :=
  fl_res (fl_list fl_nat) (sp_col_index s) ++
  fl_res (fun ts => fl_list fl_triplet (canon_triplets ts)) (sp_to_triplets s) ++
  fl_res fl_mat (sp_to_dense s) ++
  flat_map (fun i => flat_map (fun j => fl_res fl_opt (sp_get s i j)) (seq 0 (sp_cols s))) (seq 0 (sp_rows s)).

Definition fl_state (s : sparse A) : list Z := fl_fields s ++ fl_views s.

(* sp.hist: a panicking step ends the history (scale may have modified part of the storage) *)
Fixpoint sp_run_out (s : sparse A) (ops : list (sop A)) : list Z :=
  match ops with
  | [] => []
  | o :: t =>
      match sp_step s o with
      | Ok s' => fl_state s' ++ sp_run_out s' t
      | Panic k => fl_panic k
      end
  end.
Definition sp_hist (b : sbuild) (ops : list (sop A)) : list Z :=
  match sp_build b with
  | Ok s => fl_state s ++ sp_run_out s ops
  | Panic k => fl_panic k
  end.

(* get with arbitrary (also out-of-range) arguments, insert with out-of-range arguments: guards *)
Definition sp_probe (b : sbuild) (i j : nat) (v : T) : list Z :=
  match sp_build b with
  | Ok s => fl_res fl_opt (sp_get s i j) ++
            fl_res fl_fields (sp_insert s i j v)
  | Panic k => fl_panic k
  end.

(* sp.prod: A x, A^T y, transpose(A) y, <y, A x>, <A^T y, x>, dense twin, (a A) x *)
Definition sp_prod (b : sbuild) (x y : list T) (a : T) : list Z :=
  match sp_build b with
  | Ok s =>
      let ax := sp_mul s x in
      let aty := sp_tmul s y in
      fl_res (fl_list flat) ax ++
      fl_res (fl_list flat) aty ++
      fl_res (fl_list flat) (let* t := sp_transpose s in sp_mul t y) ++
      fl_res flat (let* u := ax in dot y u) ++
      fl_res flat (let* w := aty in dot w x) ++
      fl_res fl_mat (sp_to_dense s) ++
      fl_res (fl_list flat) (let* s2 := sp_scale s a in sp_mul s2 x)
  | Panic k => fl_panic k
  end.

End Ops.
Arguments sbuild A : clear implicits.
