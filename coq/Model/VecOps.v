(* Model/VecOps.v -- operation histories on one Vector<T> (the [vstep] function used by the history theorem of
   C15 and by the correspondence check, kind vec.hist) and the answer streams of the other vec.* executor
   kinds.  Definitions only. *)
From Coq Require Import List Arith ZArith Floats.
From OV Require Import Base.Panic Base.Arith Base.Flat Model.Complex Model.Vector.
Import ListNotations.

Section Ops.
Context {A : Arith}.
Notation T := (T A).

Inductive vop :=
(* the editing operations of the property text *)
| VPush (x : T) | VPushFront (x : T) | VInsert (pos : nat) (x : T) | VPop | VSwap (i j : nat)
| VResize (n : nat) | VAssign (x : T) | VClear | VSort | VFind (x : T)
(* IndexMut and the compound assignments *)
| VSet (i : nat) (x : T)
| VAddAssign (w : list T) | VSubAssign (w : list T)
| VAddAssignS (x : T) | VSubAssignS (x : T) | VMulAssignS (x : T) | VDivAssignS (x : T)
(* value-returning *)
| VGet (i : nat) | VSize | VSum | VProduct | VSumSlice (s e : nat) | VProductSlice (s e : nat)
| VDot (w : list T) | VAdd (w : list T) | VSub (w : list T) | VNeg | VScale (x : T) | VDiv (x : T)
| VAbs | VNorm1 | VCloneMut (x : T).

Inductive vval := RNone | RS (x : T) | RV (v : list T) | RN (n : nat).

(* Vec::sort_unstable(_by): external; see Model/Vector.v *)
Variable sorter : list T -> list T.

Definition vstep (v : list T) (o : vop) : res (list T * vval) :=
  match o with
  | VPush x => Ok (vpush v x, RNone)
  | VPushFront x => Ok (vpush_front v x, RNone)
  | VInsert pos x => let* v' := vinsert v pos x in Ok (v', RNone)
  | VPop => let* p := vpop v in Ok (fst p, RS (snd p))
  | VSwap i j => let* v' := vswap v i j in Ok (v', RNone)
  | VResize n => Ok (vresize v n, RNone)
  | VAssign x => Ok (vassign v x, RNone)
  | VClear => Ok (vclear v, RNone)
  | VSort => Ok (sorter v, RNone)
  | VFind x => let* i := vfind v x in Ok (v, RN i)
  | VSet i x => let* v' := vset v i x in Ok (v', RNone)
  | VAddAssign w => let* v' := vadd_assign v w in Ok (v', RNone)
  | VSubAssign w => let* v' := vsub_assign v w in Ok (v', RNone)
  | VAddAssignS x => Ok (vadd_scalar v x, RNone)
  | VSubAssignS x => Ok (vsub_scalar v x, RNone)
  | VMulAssignS x => Ok (vmul_scalar v x, RNone)
  | VDivAssignS x => let* v' := vdiv_scalar v x in Ok (v', RNone)
  | VGet i => let* x := vget v i in Ok (v, RS x)
  | VSize => Ok (v, RN (length v))
  | VSum => let* x := vsum v in Ok (v, RS x)
  | VProduct => let* x := vproduct v in Ok (v, RS x)
  | VSumSlice s e => let* x := sum_slice v s e in Ok (v, RS x)
  | VProductSlice s e => let* x := product_slice v s e in Ok (v, RS x)
  | VDot w => let* x := dot v w in Ok (v, RS x)
  | VAdd w => let* r := vadd v w in Ok (v, RV r)
  | VSub w => let* r := vsub v w in Ok (v, RV r)
  | VNeg => Ok (v, RV (vneg v))
  | VScale x => Ok (v, RV (vscale v x))
  | VDiv x => let* r := vdiv v x in Ok (v, RV r)
  | VAbs => Ok (v, RV (vabs v))
  | VNorm1 => Ok (v, RS (norm_1 v))
  | VCloneMut x => Ok (vpush v x, RNone)       (* the executor's clone-independence probe ends with v.push(x) *)
  end.

(* a history: a panicking operation leaves the vector as it was *)
Definition vrun_state (v : list T) (ops : list vop) : list T :=
  fold_left (fun v o => match vstep v o with Ok (v', _) => v' | Panic _ => v end) ops v.

Variable flat : T -> list Z.
Definition fl_vval (r : vval) : list Z :=
  match r with RNone => [] | RS x => flat x | RV v => fl_list flat v | RN n => fl_nat n end.

(* the &mut self operations: the answer shows the state after them (and after every panic); the &self
   operations show their result only (printing a Z costs coqc more than computing it) *)
Definition mutating (o : vop) : bool :=
  match o with
  | VPush _ | VPushFront _ | VInsert _ _ | VPop | VSwap _ _ | VResize _ | VAssign _ | VClear | VSort
  | VSet _ _ | VAddAssign _ | VSubAssign _ | VAddAssignS _ | VSubAssignS _ | VMulAssignS _ | VDivAssignS _
  | VCloneMut _ => true
  | _ => false
  end.

Fixpoint vrun_out (v : list T) (ops : list vop) : list Z :=
  match ops with
  | [] => []
  | o :: t =>
      match vstep v o with
      | Ok (v', r) => fl_vval r ++ (if mutating o then fl_list flat v' else []) ++ vrun_out v' t
      | Panic k => fl_panic k ++ fl_list flat v ++ vrun_out v t
      end
  end.
Definition vec_hist (v : list T) (ops : list vop) : list Z := fl_list flat v ++ vrun_out v ops.

(* derived PartialEq of Vector<T>: lengths and all elements equal *)
Fixpoint veqb (u w : list T) : bool :=
  match u, w with
  | [], [] => true
  | x :: u', y :: w' => andb (eqb x y) (veqb u' w')
  | _, _ => false
  end.

(* kind vec.ctor <n> <x> <w> *)
Definition vec_ctor_out (n : nat) (x : T) (w : list T) : list Z :=
  fl_list flat (vnew n x) ++ fl_list flat (vzeros n) ++ fl_list flat (vones n) ++ fl_list flat [] ++
  fl_list flat w ++ fl_nat (length w) ++ fl_list flat w ++ fl_bool (veqb w w).

End Ops.
Arguments vop A : clear implicits.
Arguments vval A : clear implicits.

(* ---- answer streams of the f64-only / Complex-only kinds, generic in the SArith ---- *)
Section Out64.
Context {F : SArith}.
Variable fabs : F -> F.
Variable powf : F -> F -> F.
Variable flat : F -> list Z.

(* kind vec.norms <v> <p>: norm_1 norm_2 norm_p norm_inf (norm_inf last: it panics on the empty vector) *)
Definition four_norms (v : list F) (p : F) : list Z :=
  flat (norm_1 v) ++ flat (norm_2 fabs v) ++ fl_res flat (norm_p fabs powf v p).
Definition vec_norms_out (v : list F) (p : F) : list Z :=
  four_norms v p ++ fl_res flat (norm_inf fabs v).

(* kind vec.normlaws <u> <v> <c> <p>: the norms of u, v, u+v, u*c *)
Fixpoint normlaws_rows (ws : list (list F)) (p : F) : list Z :=
  match ws with
  | [] => []
  | w :: rest =>
      match norm_inf fabs w with
      | Ok x => four_norms w p ++ flat x ++ normlaws_rows rest p
      | Panic k => four_norms w p ++ fl_panic k          (* the executor's answer ends at the first panic *)
      end
  end.
Definition vec_normlaws_out (u v : list F) (c p : F) : list Z :=
  match vadd u v with
  | Panic k => fl_panic k
  | Ok s => normlaws_rows [u; v; s; vscale u c] p
  end.

Definition vec_linspace_out (a b : F) (n : nat) : list Z := fl_res (fl_list flat) (linspace a b n).
Definition vec_powspace_out (a b : F) (n : nat) (p : F) : list Z := fl_res (fl_list flat) (powspace powf a b n p).
Definition vec_scale_l_out (s : F) (v : list F) : list Z :=
  fl_list flat (vscale_l s v) ++ fl_list flat (vscale v s).

(* kind vec.cx <v>: conj, real, Signed::abs (of the Complex arithmetic), norm_inf *)
Definition flat_c (z : cplx F) : list Z := flat (re z) ++ flat (im z).
Definition vec_cx_out (v : list (cplx F)) : list Z :=
  fl_list flat_c (vconj v) ++ fl_list flat (vreal v) ++ fl_list flat_c (vabs (A := CArith F) v) ++
  fl_res flat (cnorm_inf v).

End Out64.

(* ---- running the float instance: libm's pow as the table of the calls actually made ---- *)
From OV Require Import Inst.FloatInst.
Definition tbl_powf (tbl : list (Z * Z * float)) (x y : float) : float :=
  let bx := bits x in let by_ := bits y in
  match find (fun e => andb (Z.eqb (fst (fst e)) bx) (Z.eqb (snd (fst e)) by_)) tbl with
  | Some e => snd e
  | None => PrimFloat.nan           (* a call the driver did not predict: shows up as a broken tie *)
  end.
