(* Model/Solve.v -- stub, to be filled in *)
