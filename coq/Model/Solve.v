(* Model/Solve.v -- src/matrix/solve.rs over any Arith: Gaussian elimination with partial pivoting,
   in-place LU with recorded permutation, determinant, inverse.  Statement by statement. *)
From Coq Require Import List Arith Lia Bool.
From OV Require Import Base.Panic Base.Arith Model.Vector Model.Matrix.
Import ListNotations.
Local Open Scope arith_scope.
Local Open Scope bool_scope.

Section Solve.
Context {A : Arith}.
Notation T := (T A).
Notation matrix := (matrix A).

(* max_abs_in_column(col, start_row): max_index starts at 0 (not start_row), strict `max < |a|` *)
Definition max_abs_in_column (m : matrix) (col start : nat) : res nat :=
  let* r := for_ start (rows m) (fun i (s : nat * T) =>
              let '(mi, mx) := s in
              let* a := mget m i col in
              if ltb mx (abs a) then Ok (i, abs a) else Ok (mi, mx)) (0, zero) in
  Ok (fst r).

(* backsolve(&self, x) *)
Definition backsolve (m : matrix) (x : list T) : res (list T) :=
  let* last := usub (rows m) 1 in
  let* xl := rd x last in
  let* d := mget m last last in
  let* q := div xl d in
  let* x := upd x last q in
  for_ 2 (rows m + 1) (fun n x =>
    let* k := usub (rows m) n in
    let* x := for_ (rows m - n + 1) (rows m) (fun j x =>
                let* xj := rd x j in
                let* xk := rd x k in
                let* a := mget m k j in
                upd x k (xk - a * xj)) x in
    let* xk := rd x k in
    let* d := mget m k k in
    let* q := div xk d in
    upd x k q) x.

Definition partial_pivot (m : matrix) (x : list T) (k : nat) : res (matrix * list T) :=
  let* p := max_abs_in_column m k k in
  let* m' := swap_rows m p k in
  let* x' := vswap x p k in
  Ok (m', x').

Definition gauss_with_pivot (m : matrix) (x : list T) : res (matrix * list T) :=
  let* hi := usub (rows m) 1 in
  for_ 0 hi (fun k (s : matrix * list T) =>
    let '(m, x) := s in
    let* s := partial_pivot m x k in
    for_ (k + 1) (rows (fst s)) (fun i (s : matrix * list T) =>
      let '(m, x) := s in
      let* aik := mget m i k in
      let* akk := mget m k k in
      let* elem := div aik akk in
      let* m := for_ k (rows m) (fun j m =>
                  let* kj := mget m k j in
                  let* ij := mget m i j in
                  mset m i j (ij - elem * kj)) m in
      let* xk := rd x k in
      let* xi := rd x i in
      let* x := upd x i (xi - elem * xk) in
      Ok (m, x)) s) (m, x).

Definition solve_basic (m : matrix) (b : list T) : res (list T) :=
  if negb (rows m =? length b) then Panic Guard else
  if negb (rows m =? cols m) then Panic Guard else
  let* s := gauss_with_pivot m b in
  backsolve (fst s) (snd s).

(* lu_decomp_in_place: returns (LU, pivots, permutation).  [skip_zero] = the repaired code
   (a zero pivot column is skipped); [false] = the pinned code, which divides 0/0 there. *)
Definition lu_gen (skip_zero : bool) (m : matrix) : res (matrix * nat * matrix) :=
  if negb (rows m =? cols m) then Panic Guard else
  let* p0 := eye (rows m) in
  for_ 0 (rows m) (fun i (s : matrix * nat * matrix) =>
    let '(m, piv, perm) := s in
    let* r := for_ i (rows m) (fun k (s : T * nat) =>
                let '(mx, imax) := s in
                let* a := mget m k i in
                if gtb (abs a) mx then Ok (abs a, k) else Ok (mx, imax)) (zero, i) in
    let '(max_a, imax) := r in
    let* s := (if negb (imax =? i) then
                 let* perm := swap_rows perm i imax in
                 let* m := swap_rows m i imax in
                 Ok (m, S piv, perm)
               else Ok (m, piv, perm)) in
    let '(m, piv, perm) := s in
    if skip_zero && eqb max_a zero then Ok (m, piv, perm) else
    let* m := for_ (i + 1) (rows m) (fun j m =>
                let* ii := mget m i i in
                let* ji := mget m j i in
                let* q := div ji ii in
                let* m := mset m j i q in
                for_ (i + 1) (rows m) (fun k m =>
                  let* ji := mget m j i in
                  let* ik := mget m i k in
                  let* jk := mget m j k in
                  mset m j k (jk - ji * ik)) m) m in
    Ok (m, piv, perm)) (m, 0, p0).

Definition lu_decomp := lu_gen true.
Definition lu_decomp_legacy := lu_gen false.

Definition solve_lu (m : matrix) (b : list T) : res (list T) :=
  if negb (rows m =? length b) then Panic Guard else
  if negb (rows m =? cols m) then Panic Guard else
  let* r := lu_decomp m in
  let '(lu, _, perm) := r in
  let* x := multiply perm b in
  let* x := for_ 0 (rows lu) (fun i x =>
              for_ 0 i (fun k x =>
                let* xk := rd x k in
                let* xi := rd x i in
                let* a := mget lu i k in
                upd x i (xi - a * xk)) x) x in
  backsolve lu x.

Definition determinant_gen (skip_zero : bool) (m : matrix) : res T :=
  let* r := lu_gen skip_zero m in
  let '(lu, piv, _) := r in
  let* det := for_ 0 (rows m) (fun i (d : T) => let* a := mget lu i i in Ok (d * a)) one in
  Ok (if Nat.even piv then det else - det).
Definition determinant := determinant_gen true.
Definition determinant_legacy := determinant_gen false.

Definition inverse (m : matrix) : res matrix :=
  if negb (rows m =? cols m) then Panic Guard else
  let* r := lu_decomp m in
  let '(lu, _, inv) := r in
  for_ 0 (rows m) (fun j inv =>
    let* inv := for_ 0 (rows m) (fun i inv =>
                  for_ 0 i (fun k inv =>
                    let* kj := mget inv k j in
                    let* ij := mget inv i j in
                    let* a := mget lu i k in
                    mset inv i j (ij - a * kj)) inv) inv in
    for_rev 0 (rows m) (fun i inv =>
      let* inv := for_ (i + 1) (rows m) (fun k inv =>
                    let* kj := mget inv k j in
                    let* ij := mget inv i j in
                    let* a := mget lu i k in
                    mset inv i j (ij - a * kj)) inv in
      let* ij := mget inv i j in
      let* d := mget lu i i in
      let* q := div ij d in
      mset inv i j q) inv) inv.

End Solve.
