(* Model/Tridiag.v -- src/tridiagonal.rs over any Arith, statement by statement.
   Storage as the code stores it: three lists (sub: n-1, main: n, sup: n-1) and the field n.
   Every Vec access is checked ([rd]/[upd]), every `n - 1` on usize is [usub], every explicit
   `if .. { panic!(..) }` is a [Panic Guard] in the same place.  Definitions only. *)
From Coq Require Import List Arith Lia ZArith Bool.
From OV Require Import Base.Panic Base.Arith Base.Flat Model.Vector Model.Matrix.
Import ListNotations.
Local Open Scope arith_scope.
Local Open Scope bool_scope.

Section Tri.
Context {A : Arith}.
Notation T := (T A).

Record tridiag := mkT { tsub : list T; tmain : list T; tsup : list T; tn : nat }.

(* ---------- constructors (tridiagonal.rs:18-107) ---------- *)

Definition tempty : tridiag := mkT [] [] [] 0.

(* with_vectors / with_vecs: n = main.len(); `sub.len() != n - 1 || sup.len() != n - 1` --
   the subtraction is evaluated first: n = 0 underflows (debug profile) before any comparison *)
Definition with_vecs (sub main sup : list T) : res tridiag :=
  let n := length main in
  let* n1 := usub n 1 in
  if negb (length sub =? n1) then Panic Guard else
  let* n1' := usub n 1 in
  if negb (length sup =? n1') then Panic Guard else
  Ok (mkT sub main sup n).
Definition with_vectors := with_vecs.

(* new(n): Vector::new(n - 1, 0), Vector::new(n, 0), Vector::new(n - 1, 0) *)
Definition with_elements (sb mn sp : T) (n : nat) : res tridiag :=
  let* n1 := usub n 1 in
  let sub := repeat sb n1 in
  let main := repeat mn n in
  let* n1' := usub n 1 in
  let sup := repeat sp n1' in
  Ok (mkT sub main sup n).
Definition tnew (n : nat) : res tridiag := with_elements zero zero zero n.
Definition tresize (t : tridiag) (n : nat) : res tridiag := tnew n.

Definition tsize (t : tridiag) : nat := tn t.

(* transpose_in_place: temp = sub.clone(); sub = sup.clone(); sup = temp *)
Definition ttranspose_in_place (t : tridiag) : tridiag :=
  let temp := tsub t in
  mkT (tsup t) (tmain t) temp (tn t).
Definition ttranspose (t : tridiag) : tridiag := ttranspose_in_place t.

(* ---------- Index / IndexMut (tridiagonal.rs:244-269) ---------- *)
Definition tindex (t : tridiag) (i j : nat) : res T :=
  if (tn t <=? i) || (tn t <=? j) then Panic Guard else
  if i =? j then rd (tmain t) i else
  if i =? j + 1 then rd (tsub t) j else
  if i + 1 =? j then rd (tsup t) i else
  Panic Guard.

Definition tset (t : tridiag) (i j : nat) (x : T) : res tridiag :=
  if (tn t <=? i) || (tn t <=? j) then Panic Guard else
  if i =? j then let* m := upd (tmain t) i x in Ok (mkT (tsub t) m (tsup t) (tn t)) else
  if i =? j + 1 then let* s := upd (tsub t) j x in Ok (mkT s (tmain t) (tsup t) (tn t)) else
  if i + 1 =? j then let* s := upd (tsup t) i x in Ok (mkT (tsub t) (tmain t) s (tn t)) else
  Panic Guard.

(* ---------- det (tridiagonal.rs:127-136) ---------- *)
Definition tdet (t : tridiag) : res T :=
  let f := repeat zero (tn t + 1) in
  let* f := upd f 0 one in
  let* m0 := rd (tmain t) 0 in
  let* f0 := rd f 0 in
  let* f := upd f 1 (m0 * f0) in
  let* f := for_ 2 (tn t + 1) (fun j f =>
              let* mj := rd (tmain t) (j - 1) in
              let* f1 := rd f (j - 1) in
              let* sb := rd (tsub t) (j - 2) in
              let* sp := rd (tsup t) (j - 2) in
              let* f2 := rd f (j - 2) in
              upd f j (mj * f1 - sb * sp * f2)) f in
  rd f (tn t).

(* ---------- convert (tridiagonal.rs:140-165) ---------- *)
Definition tconvert (t : tridiag) : res (matrix A) :=
  let n := tn t in
  let dense := mat_new n n zero in
  if n =? 0 then Panic Guard else
  if n =? 1 then
    let* m0 := rd (tmain t) 0 in mset dense 0 0 m0
  else
    let* m0 := rd (tmain t) 0 in
    let* d := mset dense 0 0 m0 in
    let* s0 := rd (tsup t) 0 in
    let* d := mset d 0 1 s0 in
    let* d := for_ 1 (n - 1) (fun i d =>
                let* x := rd (tsub t) (i - 1) in
                let* d := mset d i (i - 1) x in
                let* x := rd (tmain t) i in
                let* d := mset d i i x in
                let* x := rd (tsup t) i in
                mset d i (i + 1) x) d in
    let* x := rd (tsub t) (n - 2) in
    let* d := mset d (n - 1) (n - 2) x in
    let* x := rd (tmain t) (n - 1) in
    mset d (n - 1) (n - 1) x.

(* ---------- Thomas solve (tridiagonal.rs:169-191) ---------- *)
(* state of the forward sweep: (u, beta, gamma) *)
Definition thomas_fwd_body (t : tridiag) (r a_temp c_temp : list T) (j : nat)
           (s : list T * T * list T) : res (list T * T * list T) :=
  let '(u, beta, gamma) := s in
  let* c := rd c_temp (j - 1) in
  let* g := div c beta in
  let* gamma := upd gamma j g in
  let* mj := rd (tmain t) j in
  let* aj := rd a_temp j in
  let* gj := rd gamma j in
  let beta := mj - aj * gj in
  if eqb beta zero then Panic Guard else            (* "zero pivot." *)
  let* rj := rd r j in
  let* aj := rd a_temp j in
  let* u1 := rd u (j - 1) in
  let* q := div (rj - aj * u1) beta in
  let* u := upd u j q in
  Ok (u, beta, gamma).

Definition thomas_back_body (gamma : list T) (j : nat) (u : list T) : res (list T) :=
  let* g := rd gamma (j + 1) in
  let* u1 := rd u (j + 1) in
  let temp := g * u1 in
  let* uj := rd u j in
  upd u j (uj - temp).

Definition tsolve (t : tridiag) (r : list T) : res (list T) :=
  let n := tn t in
  if negb (n =? length r) then Panic Guard else
  let u := repeat zero n in
  let a_temp := vpush_front (tsub t) zero in
  let c_temp := vpush (tsup t) zero in
  let* beta := rd (tmain t) 0 in
  let gamma := repeat zero n in
  let* m0 := rd (tmain t) 0 in
  if eqb m0 zero then Panic Guard else              (* "zero on leading diagonal." *)
  let* r0 := rd r 0 in
  let* q := div r0 beta in
  let* u := upd u 0 q in
  let* s := for_ 1 n (thomas_fwd_body t r a_temp c_temp) (u, beta, gamma) in
  let '(u, _, gamma) := s in
  let* hi := usub n 1 in
  for_rev 0 hi (thomas_back_body gamma) u.

(* the pivots of the elimination (beta_0 = main[0]; beta_k = main[k] - sub[k-1] * (sup[k-1] / beta_{k-1})),
   computed with the arithmetic's own division: over an exact field [thomas_pivot t k = Ok zero]
   says that the pivots before k are non-zero (else DivZero) and pivot k vanishes *)
Fixpoint thomas_pivot (t : tridiag) (k : nat) : res T :=
  match k with
  | 0 => rd (tmain t) 0
  | S k' =>
      let* bp := thomas_pivot t k' in
      let* c := rd (tsup t) k' in
      let* g := div c bp in
      let* m := rd (tmain t) k in
      let* a := rd (tsub t) k' in
      Ok (m - a * g)
  end.

(* which message a refusal carries: 1 = "zero on leading diagonal", 2 = "zero pivot", 0 = none.
   first k < n with pivot k = Ok zero *)
Fixpoint first_zero_pivot (t : tridiag) (fuel k : nat) : option nat :=
  match fuel with
  | 0 => None
  | S f => match thomas_pivot t k with
           | Ok p => if eqb p zero then Some k else first_zero_pivot t f (S k)
           | Panic _ => None
           end
  end.
Definition refusal_code (t : tridiag) : nat :=
  match first_zero_pivot t (tn t) 0 with
  | Some 0 => 1 | Some (S _) => 2 | None => 0
  end.

(* ---------- &T * &v (tridiagonal.rs:410-433, after fix 1f8b278) ---------- *)
Definition tmul_gen (n1_branch : bool) (t : tridiag) (v : list T) : res (list T) :=
  if negb (tsize t =? length v) then Panic Guard else
  let result := repeat zero (tsize t) in
  if n1_branch && (tn t =? 1) then
    let* m0 := rd (tmain t) 0 in
    let* v0 := rd v 0 in
    upd result 0 (m0 * v0)
  else
  let* m0 := rd (tmain t) 0 in
  let* v0 := rd v 0 in
  let* s0 := rd (tsup t) 0 in
  let* v1 := rd v 1 in
  let* result := upd result 0 (m0 * v0 + s0 * v1) in
  let* hi := usub (tsize t) 1 in
  let* result := for_ 1 hi (fun i result =>
                   let* sb := rd (tsub t) (i - 1) in
                   let* vm := rd v (i - 1) in
                   let* mi := rd (tmain t) i in
                   let* vi := rd v i in
                   let* sp := rd (tsup t) i in
                   let* vp := rd v (i + 1) in
                   upd result i (sb * vm + mi * vi + sp * vp)) result in
  let* n2 := usub (tn t) 2 in
  let* sb := rd (tsub t) n2 in
  let* n2' := usub (tn t) 2 in
  let* vm := rd v n2' in
  let* n1 := usub (tn t) 1 in
  let* ml := rd (tmain t) n1 in
  let* n1' := usub (tn t) 1 in
  let* vl := rd v n1' in
  let* n1'' := usub (tn t) 1 in
  upd result n1'' (sb * vm + ml * vl).

Definition tmul := tmul_gen true.
Definition tmul_legacy := tmul_gen false.     (* the pinned code: no n = 1 branch *)

(* ---------- arithmetic (tridiagonal.rs:283-397): the Vector operators on the three diagonals,
   in the order sub, main, sup ---------- *)
Definition tneg (t : tridiag) : tridiag :=
  mkT (vneg (tsub t)) (vneg (tmain t)) (vneg (tsup t)) (tn t).
Definition tadd (a b : tridiag) : res tridiag :=
  if negb (tsize a =? tsize b) then Panic Guard else
  let* sub := vadd (tsub a) (tsub b) in
  let* main := vadd (tmain a) (tmain b) in
  let* sup := vadd (tsup a) (tsup b) in
  Ok (mkT sub main sup (tn a)).
Definition tminus (a b : tridiag) : res tridiag :=
  if negb (tsize a =? tsize b) then Panic Guard else
  let* sub := vsub (tsub a) (tsub b) in
  let* main := vsub (tmain a) (tmain b) in
  let* sup := vsub (tsup a) (tsup b) in
  Ok (mkT sub main sup (tn a)).
Definition tscale (t : tridiag) (s : T) : tridiag :=
  mkT (vscale (tsub t) s) (vscale (tmain t) s) (vscale (tsup t) s) (tn t).
Definition tscale_l (s : T) (t : tridiag) : tridiag :=        (* f64 * Tridiagonal<f64> *)
  mkT (vscale_l s (tsub t)) (vscale_l s (tmain t)) (vscale_l s (tsup t)) (tn t).
Definition tdiv (t : tridiag) (s : T) : res tridiag :=
  let* sub := vdiv (tsub t) s in
  let* main := vdiv (tmain t) s in
  let* sup := vdiv (tsup t) s in
  Ok (mkT sub main sup (tn t)).
Definition tadd_assign_s (t : tridiag) (s : T) : tridiag :=
  mkT (vadd_scalar (tsub t) s) (vadd_scalar (tmain t) s) (vadd_scalar (tsup t) s) (tn t).
Definition tsub_assign_s (t : tridiag) (s : T) : tridiag :=
  mkT (vsub_scalar (tsub t) s) (vsub_scalar (tmain t) s) (vsub_scalar (tsup t) s) (tn t).
Definition tmul_assign_s (t : tridiag) (s : T) : tridiag :=
  mkT (vmul_scalar (tsub t) s) (vmul_scalar (tmain t) s) (vmul_scalar (tsup t) s) (tn t).
Definition tdiv_assign_s (t : tridiag) (s : T) : res tridiag :=
  let* sub := vdiv_scalar (tsub t) s in
  let* main := vdiv_scalar (tmain t) s in
  let* sup := vdiv_scalar (tsup t) s in
  Ok (mkT sub main sup (tn t)).

(* ---------- the dense twin: the textbook matrix with the same three diagonals ---------- *)
Definition dense (t : tridiag) (i j : nat) : T :=
  if i =? j then nth i (tmain t) zero else
  if i =? j + 1 then nth j (tsub t) zero else
  if i + 1 =? j then nth i (tsup t) zero else zero.

(* ================= runners of the correspondence check (kinds tri.x) ================= *)
Variable flat : T -> list Z.

Definition fl_tri (t : tridiag) : list Z :=
  fl_nat (tsize t) ++ fl_list flat (tsub t) ++ fl_list flat (tmain t) ++ fl_list flat (tsup t).
Definition fl_dense (m : matrix A) : list Z :=
  fl_nat (rows m) ++ fl_nat (cols m) ++ concat (map flat (buf m)).

(* tri.ctor *)
Definition run_with_vecs (sub main sup : list T) : list Z := fl_res fl_tri (with_vecs sub main sup).
Definition run_new (n : nat) : list Z := fl_res fl_tri (tnew n).
Definition run_with_elements (a b c : T) (n : nat) : list Z := fl_res fl_tri (with_elements a b c n).
Definition run_resize (sub main sup : list T) (n : nat) : list Z :=
  fl_res fl_tri (let* t := with_vecs sub main sup in tresize t n).
Definition run_empty : list Z :=
  fl_tri tempty ++ fl_res fl_dense (tconvert tempty) ++ fl_res flat (tdet tempty)
  ++ fl_res (fl_list flat) (tsolve tempty []) ++ fl_res (fl_list flat) (tmul tempty []).

(* tri.views: every (i,j) in [0,n] x [0,n] (one past the end included), convert, transpose, det *)
Definition run_views (sub main sup : list T) : list Z :=
  match with_vecs sub main sup with
  | Panic k => fl_panic k
  | Ok t =>
      fl_tri t
      ++ concat (map (fun i => concat (map (fun j => fl_res flat (tindex t i j)) (seq 0 (tn t + 1))))
                     (seq 0 (tn t + 1)))
      ++ fl_res fl_dense (tconvert t)
      ++ fl_tri (ttranspose t)
      ++ fl_res fl_dense (tconvert (ttranspose t))
      ++ fl_res flat (tdet t)
  end.

(* tri.set: a list of writes through IndexMut, state dumped after each *)
Fixpoint run_sets_from (t : tridiag) (ws : list (nat * nat * T)) : list Z :=
  match ws with
  | [] => []
  | (i, j, x) :: rest =>
      match tset t i j x with
      | Ok t' => fl_tri t' ++ run_sets_from t' rest
      | Panic k => fl_panic k ++ fl_tri t ++ run_sets_from t rest
      end
  end.
Definition run_sets (sub main sup : list T) (ws : list (nat * nat * T)) : list Z :=
  match with_vecs sub main sup with
  | Panic k => fl_panic k
  | Ok t => fl_tri t ++ run_sets_from t ws
  end.

(* tri.arith: neg, +, -, *s, /s, += s, -= s, *= s, /= s on (t, t2, s); [left] adds f64 * T *)
Definition run_arith (left : bool) (sub main sup sub2 main2 sup2 : list T) (s : T) : list Z :=
  match with_vecs sub main sup, with_vecs sub2 main2 sup2 with
  | Ok t, Ok t2 =>
      fl_tri (tneg t)
      ++ fl_res fl_tri (tadd t t2)
      ++ fl_res fl_tri (tminus t t2)
      ++ fl_tri (tscale t s)
      ++ (if left then fl_tri (tscale_l s t) else [])
      ++ fl_res fl_tri (tdiv t s)
      ++ fl_tri (tadd_assign_s t s)
      ++ fl_tri (tsub_assign_s t s)
      ++ fl_tri (tmul_assign_s t s)
      ++ fl_res fl_tri (tdiv_assign_s t s)
  | Panic k, _ => fl_panic k
  | _, Panic k => fl_panic k
  end.

(* tri.mul *)
Definition run_mul (sub main sup v : list T) : list Z :=
  match with_vecs sub main sup with
  | Panic k => fl_panic k
  | Ok t => fl_res (fl_list flat) (tmul t v)
  end.
Definition run_mul_legacy (sub main sup v : list T) : list Z :=
  match with_vecs sub main sup with
  | Panic k => fl_panic k
  | Ok t => fl_res (fl_list flat) (tmul_legacy t v)
  end.

(* tri.solve: the solution, or the message code of the refusal followed by the panic *)
Definition run_solve (sub main sup r : list T) : list Z :=
  match with_vecs sub main sup with
  | Panic k => fl_panic k
  | Ok t =>
      match tsolve t r with
      | Ok u => fl_list flat u
      | Panic Guard => fl_nat (if tn t =? length r then refusal_code t else 3) ++ fl_panic Guard
      | Panic k => fl_nat 0 ++ fl_panic k
      end
  end.

End Tri.

Arguments tridiag A : clear implicits.
