(* Model/ParSched.v -- Vector<f64>::dot_f64 (src/vector/vec_f64.rs:73-109) as a SMALL-STEP INTERLEAVING
   SEMANTICS of the scoped-thread program, over any Arith.  Definitions only (lemmas: Proofs/ParSched*.v).

   Model/ParDot.v gives the result as a function (pardot) and a coarse scheduler (run_sched: whole workers complete
   in an order sigma).  Here every thread is a sequential program counter and a scheduler picks, at every step, ANY
   thread that is able to move; a schedule is a list of thread identifiers.

     threads     Main, Wk 0 .. Wk (t-1)
     main        MSpawn i     about to run iteration i of `for i in 0..num_threads` (slice, spawn, push the handle);
                              at i = t: `let mut result = 0.0` and on to the join loop
                 MJoin j acc  about to run `result += threads[j].join().unwrap()`: BLOCKED until worker j has
                              published its result (handles are joined in spawn order); at j = t: return acc
                 MRet r       the closure has returned r (or panicked: r = Panic _)
     worker k    WIdle                not spawned yet
                 WRun a b n acc       spawned with the two slices a, b it captured; about to run iteration n of
                                      `for i in 0..self_slice.len()`; acc = its private `result`
                                      at n = len: publishes acc in its join handle (WDone)
                 WDone r              finished, r waits in the handle
                 WPanicked            an index panic inside the worker (the handle then holds Err)
                 WJoined              the handle has been consumed by main
     transitions (fire th s):  one loop iteration / one statement of thread th; None = th cannot move
                               (blocked join, thread not spawned, thread terminated).

   MODELLING ASSUMPTION (the borrow checker's guarantee for safe code, trusted, DESIGN section 6): a worker reads
   only the two immutable slices it captured and writes only its own `result` and its own handle; nothing a worker
   can read is written by anybody while the scope is alive.  Hence worker steps act on the worker's component of
   the state alone, and a slice is a VALUE captured at spawn time.  Granularity: one `result += a[i]*b[i]` is one
   step; the third part of this file splits it into load / load / multiply / add (fire_fine) and
   Proofs/ParSchedFine.v proves that the finer grain adds no behaviour (every fine step is a step of this semantics
   or a stutter).

   Faithfulness details: the slicing `&self.vec[start..end]` happens on the main thread in the spawn iteration and
   can panic (job of Model/ParDot.v; a panic of the closure makes scope wait for the workers already running and
   propagate: main = MRet (Panic k) while workers may still step); `w_slice[i]` is a checked access inside the
   worker; a panicked worker makes `join().unwrap()` panic on the main thread (Panic Unwrap).  The theorems show
   that none of these panics is reachable for t >= 1 and equal lengths.

   Second half of the file: the REFUTED variant (second-round seeded mutation C16-4): no handles; every worker adds
   its partial sum into a shared Mutex<f64> as soon as it finishes; the scope's implicit join waits for everybody;
   the total is returned. *)
From Coq Require Import List Arith Lia.
From OV Require Import Base.Panic Base.Arith Model.Vector Model.ParDot.
Import ListNotations.

Inductive tid := Main | Wk (k : nat).

Local Open Scope arith_scope.

Section ParSched.
Context {A : Arith}.
Notation T := (T A).

Inductive wstate :=
| WIdle
| WRun (a b : list T) (n : nat) (acc : T)
| WDone (r : T)
| WPanicked
| WJoined.

Inductive mstate :=
| MSpawn (i : nat)
| MJoin (j : nat) (acc : T)
| MRet (r : res T).

Record state := mkState { main : mstate; ws : list wstate }.

(* one step of a worker: `result += self_slice[n] * w_slice[n]`, or leaving the loop and returning result *)
Definition wstep (x : wstate) : option wstate :=
  match x with
  | WRun a b n acc =>
      if n <? length a then
        match rd a n, rd b n with
        | Ok p, Ok q => Some (WRun a b (S n) (acc + p * q))
        | _, _ => Some WPanicked
        end
      else Some (WDone acc)
  | _ => None
  end.

(* the program text is fixed by (v, w, t): t = num_cpus::get() *)
Variables (v w : list T) (t : nat).

Definition fire (th : tid) (s : state) : option state :=
  match th with
  | Wk k =>
      match nth_error (ws s) k with
      | Some x => match wstep x with
                  | Some x' => Some (mkState (main s) (upd_list (ws s) k x'))
                  | None => None
                  end
      | None => None
      end
  | Main =>
      match main s with
      | MSpawn i =>
          if i <? t then
            match job v w t i with
            | Ok (a, b) => Some (mkState (MSpawn (S i)) (upd_list (ws s) i (WRun a b 0 zero)))
            | Panic k => Some (mkState (MRet (Panic k)) (ws s))
            end
          else Some (mkState (MJoin 0 zero) (ws s))
      | MJoin j acc =>
          if j <? t then
            match nth_error (ws s) j with
            | Some (WDone r) => Some (mkState (MJoin (S j) (acc + r)) (upd_list (ws s) j WJoined))
            | Some WPanicked => Some (mkState (MRet (Panic Unwrap)) (ws s))
            | _ => None                                  (* join blocks: worker j has not finished *)
            end
          else Some (mkState (MRet (Ok acc)) (ws s))
      | MRet _ => None
      end
  end.

(* a schedule: which thread moves next.  None = the schedule asks a thread to move that cannot *)
Fixpoint exec (sch : list tid) (s : state) : option state :=
  match sch with
  | [] => Some s
  | th :: rest => match fire th s with Some s' => exec rest s' | None => None end
  end.

(* the same as a relation: ANY thread that can move may move *)
Definition step (s s' : state) : Prop := exists th, fire th s = Some s'.
Inductive steps : nat -> state -> state -> Prop :=
| steps_O s : steps 0 s s
| steps_S n s s1 s2 : step s s1 -> steps n s1 s2 -> steps (S n) s s2.

Definition terminal (s : state) : Prop := forall th, fire th s = None.

Definition sched_init : state := mkState (MSpawn 0) (repeat WIdle t).

(* the part of dot_f64 before the scope: the size guard, then `self.size() / num_threads` *)
Definition par_program : res state :=
  if length v =? length w then
    if t =? 0 then Panic DivZero else Ok sched_init
  else Panic Guard.

(* the order in which the workers FINISH along a schedule (the sigma of Model/ParDot.v run_sched) *)
Definition finishes (x : wstate) : bool :=
  match x with WRun a _ n _ => negb (n <? length a) | _ => false end.

Fixpoint completions (sch : list tid) (s : state) : list nat :=
  match sch with
  | [] => []
  | th :: rest =>
      match fire th s with
      | Some s' =>
          match th with
          | Wk k => match nth_error (ws s) k with
                    | Some x => if finishes x then k :: completions rest s' else completions rest s'
                    | None => completions rest s'
                    end
          | Main => completions rest s'
          end
      | None => []
      end
  end.

(* ------------------------------------------------------------------------------------------------------------
   REFUTED VARIANT (seeded mutation C16-4): a shared total behind a mutex, added to in COMPLETION order.
     main:   MSpawn i as above (no handle kept); at i = t the scope ends: BLOCKED until every worker has
             finished; then returns total.into_inner()
     worker: as above, but leaving the loop performs `*total.lock().unwrap() += result` (atomic: the mutex) *)
Record sstate := mkS { s_main : mstate; s_ws : list wstate; s_total : T }.

Definition all_done (l : list wstate) : bool :=
  forallb (fun x => match x with WDone _ => true | _ => false end) l.

Definition fire_shared (th : tid) (s : sstate) : option sstate :=
  match th with
  | Wk k =>
      match nth_error (s_ws s) k with
      | Some x => match wstep x with
                  | Some (WDone r) => Some (mkS (s_main s) (upd_list (s_ws s) k (WDone r)) (s_total s + r))
                  | Some x' => Some (mkS (s_main s) (upd_list (s_ws s) k x') (s_total s))
                  | None => None
                  end
      | None => None
      end
  | Main =>
      match s_main s with
      | MSpawn i =>
          if i <? t then
            match job v w t i with
            | Ok (a, b) => Some (mkS (MSpawn (S i)) (upd_list (s_ws s) i (WRun a b 0 zero)) (s_total s))
            | Panic k => Some (mkS (MRet (Panic k)) (s_ws s) (s_total s))
            end
          else if all_done (s_ws s) then Some (mkS (MRet (Ok (s_total s))) (s_ws s) (s_total s))
          else None
      | _ => None
      end
  end.

Fixpoint exec_shared (sch : list tid) (s : sstate) : option sstate :=
  match sch with
  | [] => Some s
  | th :: rest => match fire_shared th s with Some s' => exec_shared rest s' | None => None end
  end.

Definition terminal_shared (s : sstate) : Prop := forall th, fire_shared th s = None.

Definition shared_init : sstate := mkS (MSpawn 0) (repeat WIdle t) zero.

End ParSched.

Arguments WIdle {A}. Arguments WPanicked {A}. Arguments WJoined {A}.
Arguments MSpawn {A} i.

(* ------------------------------------------------------------------------------------------------------------
   FINER GRAIN: the same program with one worker iteration `result += self_slice[i] * w_slice[i]` split into its
   four machine-level actions, each a separate transition that any other thread's transitions may be interleaved
   with:   P0 --load self_slice[i]--> P1 p --load w_slice[i] (checked)--> P2 p q --multiply--> P3 (p*q)
              --add to result, i += 1--> P0.
   [fw_st] is the worker's state as of its last completed iteration, [fw_ph] the progress inside the current one
   (registers p, q, the product).  Main is unchanged (a join looks only at the published result).
   Proofs/ParSchedFine.v: every fine step is a coarse step of the semantics above or leaves the coarse state
   unchanged, hence the coarse granularity loses no behaviour. *)
Section ParSchedFine.
Context {A : Arith}.
Notation T := (T A).

Inductive phase := P0 | P1 (p : T) | P2 (p q : T) | P3 (m : T).
Record fwstate := FW { fw_st : @wstate A; fw_ph : phase }.

Definition fwstep (x : fwstate) : option fwstate :=
  match fw_st x, fw_ph x with
  | WRun a b n acc, P0 =>
      if n <? length a then
        match rd a n with
        | Ok p => Some (FW (WRun a b n acc) (P1 p))
        | Panic _ => Some (FW WPanicked P0)
        end
      else Some (FW (WDone acc) P0)
  | WRun a b n acc, P1 p =>
      match rd b n with
      | Ok q => Some (FW (WRun a b n acc) (P2 p q))
      | Panic _ => Some (FW WPanicked P0)
      end
  | WRun a b n acc, P2 p q => Some (FW (WRun a b n acc) (P3 (p * q)))
  | WRun a b n acc, P3 m => Some (FW (WRun a b (S n) (acc + m)) P0)
  | _, _ => None
  end.

Record fstate := mkF { f_main : @mstate A; f_ws : list fwstate }.

Variables (v w : list T) (t : nat).

Definition fire_fine (th : tid) (s : fstate) : option fstate :=
  match th with
  | Wk k =>
      match nth_error (f_ws s) k with
      | Some x => match fwstep x with
                  | Some x' => Some (mkF (f_main s) (upd_list (f_ws s) k x'))
                  | None => None
                  end
      | None => None
      end
  | Main =>
      match f_main s with
      | MSpawn i =>
          if i <? t then
            match job v w t i with
            | Ok (a, b) => Some (mkF (MSpawn (S i)) (upd_list (f_ws s) i (FW (WRun a b 0 zero) P0)))
            | Panic k => Some (mkF (MRet (Panic k)) (f_ws s))
            end
          else Some (mkF (MJoin 0 zero) (f_ws s))
      | MJoin j acc =>
          if j <? t then
            match nth_error (f_ws s) j with
            | Some (FW (WDone r) _) => Some (mkF (MJoin (S j) (acc + r)) (upd_list (f_ws s) j (FW WJoined P0)))
            | Some (FW WPanicked _) => Some (mkF (MRet (Panic Unwrap)) (f_ws s))
            | _ => None
            end
          else Some (mkF (MRet (Ok acc)) (f_ws s))
      | MRet _ => None
      end
  end.

Fixpoint exec_fine (sch : list tid) (s : fstate) : option fstate :=
  match sch with
  | [] => Some s
  | th :: rest => match fire_fine th s with Some s' => exec_fine rest s' | None => None end
  end.

Definition terminal_fine (s : fstate) : Prop := forall th, fire_fine th s = None.
Definition fine_init : fstate := mkF (MSpawn 0) (repeat (FW WIdle P0) t).

(* the coarse state a fine state stands for *)
Definition abs_state (s : fstate) : @state A := mkState (f_main s) (map fw_st (f_ws s)).

End ParSchedFine.
