(* Model/ParDot.v -- stub, to be filled in *)
