(* Model/ParDot.v -- Vector<f64>::dot_f64 (src/vector/vec_f64.rs:73-109), the threaded dot product,
   over any Arith (the code is f64-only; the model is generic so that the same definition is run
   at AF bit-exactly and proved over an abstract ring).  Definitions only.

     num_threads = num_cpus::get()                       -- the parameter [t] (observed by the executor)
     chunk_size  = self.size() / num_threads             -- usize division: panics when t = 0
     for i in 0..num_threads                             -- spawn order
        start = i*chunk_size ; end = if i == num_threads-1 { size } else { (i+1)*chunk_size }
        self_slice = &self.vec[start..end] ; w_slice = &w.vec[start..end]   -- checked range slicing (main thread)
        spawn { result = 0.0 ; for k in 0..self_slice.len() { result += self_slice[k]*w_slice[k] } ; result }
     result = 0.0 ; for thread in threads { result += thread.join().unwrap() }   -- joined in spawn order

   What the value model cannot exhibit -- a data race, a torn read -- is excluded by the borrowing rules
   of std::thread::scope (trusted, DESIGN section 6).  What it does exhibit: the partition, the
   per-worker sum from 0, an arbitrary completion order [sigma] of the workers, each storing its result in
   the slot of its spawn index, and the main thread folding the slots in spawn order from 0. *)
From Coq Require Import List Arith Lia ZArith.
From OV Require Import Base.Panic Base.Arith Base.Flat Model.Vector.
Import ListNotations.

(* (start, end) of worker i of t over a vector of length len *)
Definition chunk_bounds (len t i : nat) : nat * nat :=
  let c := len / t in
  (i * c, if i =? t - 1 then len else (i + 1) * c).

(* &v[s..e] : panics unless s <= e <= len *)
Definition subslice {X} (v : list X) (s e : nat) : res (list X) :=
  if s <=? e then
    if e <=? length v then Ok (firstn (e - s) (skipn s v)) else Panic Index
  else Panic Index.

(* the slices of the partition, in spawn order (pure list version used by chunks_cover) *)
Definition slices {X} (v : list X) (t : nat) : list (list X) :=
  map (fun i => let '(s, e) := chunk_bounds (length v) t i in firstn (e - s) (skipn s v)) (seq 0 t).

Local Open Scope arith_scope.

Section ParDot.
Context {A : Arith}.
Notation T := (T A).

(* what the main thread hands to worker i: the two slices *)
Definition job (v w : list T) (t i : nat) : res (list T * list T) :=
  let '(s, e) := chunk_bounds (length v) t i in
  let* a := subslice v s e in
  let* b := subslice w s e in
  Ok (a, b).

(* the worker: result = 0; for k in 0..len: result += a[k]*b[k]   (both slices have the same length) *)
Definition work (j : list T * list T) : T := dot_raw (fst j) (snd j).

Definition jobs (v w : list T) (t : nat) : res (list (list T * list T)) :=
  mapM (job v w t) (seq 0 t).

(* the result as a function of the worker count: the partial sums added in spawn order, from 0 *)
Definition pardot (t : nat) (v w : list T) : res T :=
  if length v =? length w then
    if t =? 0 then Panic DivZero else
    let* js := jobs v w t in
    Ok (fold_left (fun acc j => acc + work j) js zero)
  else Panic Guard.

(* ---- the scheduler: workers complete in the order sigma; worker k writes slot k ---- *)
Fixpoint complete (js : list (list T * list T)) (sigma : list nat) (slots : list (option T))
  : res (list (option T)) :=
  match sigma with
  | [] => Ok slots
  | k :: rest =>
      let* j := rd js k in
      let* slots' := upd slots k (Some (work j)) in
      complete js rest slots'
  end.

(* for thread in threads { result += thread.join().unwrap() }: a slot never filled is a worker that
   never finished; the model reports it as Panic Unwrap (the real join would block for ever) *)
Fixpoint join_all (slots : list (option T)) (acc : T) : res T :=
  match slots with
  | [] => Ok acc
  | Some x :: rest => join_all rest (acc + x)
  | None :: _ => Panic Unwrap
  end.

Definition run_sched (sigma : list nat) (t : nat) (v w : list T) : res T :=
  if length v =? length w then
    if t =? 0 then Panic DivZero else
    let* js := jobs v w t in
    let* slots := complete js sigma (repeat None t) in
    join_all slots zero
  else Panic Guard.

(* the answer of the executor kind vec.pardot: the observed worker count, the threaded product repeated
   [reps] times, then the sequential product (a panic of dot_f64 ends the answer) *)
Variable flat : T -> list Z.
Definition pardot_out (t reps : nat) (v w : list T) : list Z :=
  match pardot t v w with
  | Panic k => fl_nat t ++ fl_panic k
  | Ok x => fl_nat t ++ concat (repeat (flat x) reps) ++ fl_res flat (dot v w)
  end.

End ParDot.

(* ---- test data for the correspondence check, generated INSIDE Coq ----
   Parsing a few hundred float literals per case costs coqc far more than running the model, so for the sweep
   over (length, worker count) the two data vectors are produced by a small linear congruential generator on
   Uint63 that driver/c16.py mirrors step by step (gen_data): the executor receives the same values as explicit
   bit patterns.  If the two generators ever disagreed the tie would fail on every case -- it cannot hide anything.
   mode 0: "arbitrary" f64 values  +-m * 2^e, m < 2^33, e in [-40, 23]  (products and sums round);
   mode 1: integers in [-1000, 1000] (every partial sum is exact). *)
From Coq Require Import Floats Uint63.
From OV Require Import Inst.FloatInst.

Definition lcg (s : int) : int := (s * 6364136223846793005 + 1442695040888963407)%uint63.

Definition gen_val (mode : nat) (s : int) : float :=
  match mode with
  | O =>
      let m := (s >> 30)%uint63 in                                   (* 33 bits *)
      let e := (Uint63.to_Z ((s >> 24) land 63)%uint63 - 40)%Z in
      let x := Z.ldexp (PrimFloat.of_uint63 m) e in
      if (Uint63.eqb ((s >> 23) land 1) 1)%uint63 then PrimFloat.opp x else x
  | _ =>
      let m := ((s >> 30) mod 2001)%uint63 in                        (* 0..2000 *)
      PrimFloat.sub (PrimFloat.of_uint63 m) 1000%float
  end.

Fixpoint gen_vec (mode n : nat) (s : int) : list float * int :=
  match n with
  | O => ([], s)
  | S n' => let s1 := lcg s in
            let '(t, s2) := gen_vec mode n' s1 in (gen_val mode s1 :: t, s2)
  end.

Definition pardot_gen_out (t reps len mode : nat) (seed : int) : list Z :=
  let '(v, s1) := gen_vec mode len seed in
  let '(w, _) := gen_vec mode len s1 in
  pardot_out (A := AF) flat_f t reps v w.
