(* Model/MatNorms.v -- the norms of src/matrix/functions.rs (impl Matrix<f64>) over any SArith.
   Loops in the code's order (norm_1: columns outside, rows inside; norm_inf / norm_max / norm_p:
   rows outside), every read through the checked index operator.  Definitions only.

   f64::max(result, x): the left argument is the running maximum, which starts at 0.0 and is only
   ever replaced by a value that compared greater, so it is never NaN; for a non-NaN left argument
   `max` returns the right argument exactly when  result < x  (a NaN on the right is ignored:
   `ltb result NaN = false`).  That is [fmax].

   norm_p goes through libm (`f64::powf`), which the primitive floats do not have.  The model has
   the p = 2 instance (norm_frob) with `x * x` for powf(x, 2.0) and `sqrt` for powf(s, 0.5); it is
   tied to the implementation with a tolerance, never bit for bit.  General p is covered by the
   python oracle only. *)
From Coq Require Import List Arith Lia.
From Coq Require Import ZArith.
From OV Require Import Base.Panic Base.Arith Base.Flat Model.Vector Model.Matrix.
Import ListNotations.
Local Open Scope arith_scope.

Section Norms.
Context {S : SArith}.
Notation T := (T (SA S)).

Definition fmax (a b : T) : T := if ltb a b then b else a.

(* max absolute column sum (functions.rs:6-18) *)
Definition mnorm_1 (m : matrix (SA S)) : res T :=
  for_ 0 (cols m) (fun j result =>
    let* sum := for_ 0 (rows m) (fun i sum => let* x := mget m i j in Ok (sum + abs x)) zero in
    Ok (fmax result sum)) zero.

(* max absolute row sum (functions.rs:20-32) *)
Definition mnorm_inf (m : matrix (SA S)) : res T :=
  for_ 0 (rows m) (fun i result =>
    let* sum := for_ 0 (cols m) (fun j sum => let* x := mget m i j in Ok (sum + abs x)) zero in
    Ok (fmax result sum)) zero.

(* entrywise maximum (functions.rs:52-62) *)
Definition mnorm_max (m : matrix (SA S)) : res T :=
  for_ 0 (rows m) (fun i result =>
    for_ 0 (cols m) (fun j result => let* x := mget m i j in Ok (fmax result (abs x))) result) zero.

(* the accumulation of norm_p with the power as a parameter (functions.rs:34-44) *)
Definition mnorm_p_sum (pw : T -> T) (m : matrix (SA S)) : res T :=
  for_ 0 (rows m) (fun i sum =>
    for_ 0 (cols m) (fun j sum => let* x := mget m i j in Ok (sum + pw (abs x))) sum) zero.

(* norm_frob = norm_p(2.0) *)
Definition mnorm_frob (m : matrix (SA S)) : res T :=
  let* s := mnorm_p_sum (fun x => x * x) m in Ok (sqrt s).

(* norm_p with the two libm calls as parameters (external calls are parameters of the model):
   pw x = powf(x, p), root s = powf(s, 1/p) *)
Definition mnorm_p (pw root : T -> T) (m : matrix (SA S)) : res T :=
  let* s := mnorm_p_sum pw m in Ok (root s).

(* output of the correspondence check (kind mat.norms): norm_1, norm_inf, norm_max, norm_frob *)
Definition mat_norms (flat : T -> list Z) (m : matrix (SA S)) : list Z :=
  fl_res flat (mnorm_1 m) ++ fl_res flat (mnorm_inf m) ++ fl_res flat (mnorm_max m) ++ fl_res flat (mnorm_frob m).

End Norms.
