(* Model/Banded.v -- src/banded.rs over any Arith.  Definitions only.
   Storage as the code stores it: the compact n x (m1+m2+1) dense [matrix] (flat, row-major,
   every access checked); entry (i,j) of the band lives at compact[(i, m1 + j - i)]; the slots
   of the compact matrix whose column j = i + s - m1 falls outside 0..n are padding.
   [decompose] is modelled statement by statement (left shift of the first m1 rows, growing
   window l, pivot search, index[k] = i+1, the `dum == 0` line, swap over all mm slots,
   elimination with shift, stored multipliers al).  The boolean [legacy] selects the pre-repair
   pivot rule of commit 2fe46f5^ (signed comparison, unconditional division). *)
From Coq Require Import List Arith Lia ZArith Bool.
From OV Require Import Base.Panic Base.Arith Base.Flat Model.Vector Model.Matrix.
Import ListNotations.
Local Open Scope arith_scope.
Local Open Scope bool_scope.

Section Band.
Context {A : Arith}.
Notation T := (T A).
Notation matrix := (matrix A).

Record banded := mkB { bn : nat; bm1 : nat; bm2 : nat; compact : matrix }.

Definition with_compact (B : banded) (c : matrix) : banded := mkB (bn B) (bm1 B) (bm2 B) c.

(* new / fill / resize / fill_band  (banded.rs:57-89) *)
Definition band_new (n m1 m2 : nat) (x : T) : banded := mkB n m1 m2 (mat_new n (m1 + m2 + 1) x).
Definition band_fill (B : banded) (x : T) : res banded :=
  let* c := fill (compact B) x in Ok (with_compact B c).
Definition band_resize (B : banded) (n m1 m2 : nat) : res banded :=
  let* c := resize (compact B) n (m1 + m2 + 1) in Ok (mkB n m1 m2 c).
Definition band_fill_band (B : banded) (band : Z) (x : T) : res banded :=
  if (band <? - Z.of_nat (bm1 B))%Z || (Z.of_nat (bm2 B) <? band)%Z then Panic Guard else
  let* c := fill_col (compact B) (Z.to_nat (Z.of_nat (bm1 B) + band)) x in Ok (with_compact B c).

(* Index / IndexMut (banded.rs:203-224): `j > i + m2 || i > j + m1` panics; slot m1 + j - i.
   Neither i nor j is compared with n: an in-band pair with j >= n addresses a padding slot of
   row i, a pair with i >= n falls off the buffer (Vec index panic). *)
Definition out_of_band (m1 m2 i j : nat) : bool := (i + m2 <? j) || (j + m1 <? i).
Definition in_band (m1 m2 i j : nat) : bool := negb (out_of_band m1 m2 i j).
Definition band_slot (m1 i j : nat) : nat := m1 + j - i.
Definition band_get (B : banded) (i j : nat) : res T :=
  if out_of_band (bm1 B) (bm2 B) i j then Panic Guard else
  mget (compact B) i (band_slot (bm1 B) i j).
Definition band_set (B : banded) (i j : nat) (x : T) : res banded :=
  if out_of_band (bm1 B) (bm2 B) i j then Panic Guard else
  let* c := mset (compact B) i (band_slot (bm1 B) i j) x in Ok (with_compact B c).

(* operators (banded.rs:253-460): the three size guards where the code has them, then the
   dense operator on the compact matrices *)
Definition band_guard3 {X} (B C : banded) (k : res X) : res X :=
  if negb (bn B =? bn C) then Panic Guard else
  if negb (bm1 B =? bm1 C) then Panic Guard else
  if negb (bm2 B =? bm2 C) then Panic Guard else k.
Definition band_neg (B : banded) : res banded :=
  let* c := mneg (compact B) in Ok (with_compact B c).
Definition band_add (B C : banded) : res banded :=
  band_guard3 B C (let* c := madd (compact B) (compact C) in Ok (with_compact B c)).
Definition band_sub (B C : banded) : res banded :=
  band_guard3 B C (let* c := msub (compact B) (compact C) in Ok (with_compact B c)).
Definition band_scale (B : banded) (s : T) : res banded :=
  let* c := mscale (compact B) s in Ok (with_compact B c).
Definition band_div (B : banded) (s : T) : res banded :=
  let* c := mdiv (compact B) s in Ok (with_compact B c).
Definition band_add_assign (B C : banded) : res banded :=
  band_guard3 B C (let* c := madd_assign (compact B) (compact C) in Ok (with_compact B c)).
Definition band_sub_assign (B C : banded) : res banded :=
  band_guard3 B C (let* c := msub_assign (compact B) (compact C) in Ok (with_compact B c)).
Definition band_mul_assign_s (B : banded) (s : T) : res banded :=
  let* c := mmul_assign_scalar (compact B) s in Ok (with_compact B c).
Definition band_div_assign_s (B : banded) (s : T) : res banded :=
  let* c := mdiv_assign_scalar (compact B) s in Ok (with_compact B c).
Definition band_add_assign_s (B : banded) (s : T) : res banded :=
  let* c := madd_assign_scalar (compact B) s in Ok (with_compact B c).
Definition band_sub_assign_s (B : banded) (s : T) : res banded :=
  let* c := msub_assign_scalar (compact B) s in Ok (with_compact B c).

(* &B * &v (banded.rs:463-485): signed loop bounds as the code computes them (isize) *)
Definition band_mul (B : banded) (v : list T) : res (list T) :=
  if negb (bn B =? length v) then Panic Guard else
  let n := Z.of_nat (bn B) in
  let m1 := Z.of_nat (bm1 B) in
  let m2 := Z.of_nat (bm2 B) in
  for_ 0 (bn B) (fun i result =>
    let k := (Z.of_nat i - m1)%Z in
    let tmploop := Z.min (m1 + m2 + 1) (n - k) in
    for_ (Z.to_nat (Z.max 0 (- k))) (Z.to_nat tmploop) (fun j result =>
      let* ri := rd result i in
      let* a := mget (compact B) i j in
      let* x := rd v (Z.to_nat (Z.of_nat j + k)) in
      upd result i (ri + a * x)) result) (repeat zero (bn B)).

(* ---- decompose (banded.rs:91-143) ---- *)

(* first loop: rows 0..m1 are shifted left so that their first in-matrix entry sits in slot 0 *)
Definition shift_rows (m1 mm : nat) (au : matrix) : res matrix :=
  let* s := for_ 0 m1 (fun i (s : matrix * nat) =>
      let '(au, l) := s in
      let* au := for_ (m1 - i) mm (fun j au => let* x := mget au i j in mset au i (j - l) x) au in
      let l := (l - 1)%nat in
      let* au := for_ (mm - l - 1) mm (fun j au => mset au i j zero) au in
      Ok (au, l)) (au, m1) in
  Ok (fst s).

(* the comparison of the pivot search: repaired `a.abs() > dum.abs()`, legacy `a > dum` *)
Definition pivot_better (legacy : bool) (a dum : T) : bool :=
  if legacy then gtb a dum else gtb (abs a) (abs dum).

Definition find_pivot (legacy : bool) (au : matrix) (k l : nat) : res (T * nat) :=
  let* dum := mget au k 0 in
  for_ (k + 1) l (fun j (p : T * nat) =>
    let '(dum, i) := p in
    let* a := mget au j 0 in
    if pivot_better legacy a dum then Ok (a, j) else Ok (dum, i)) (dum, k).

Definition swap_band_rows (mm : nat) (au : matrix) (k i : nat) : res matrix :=
  for_ 0 mm (fun j au => swap_elem au k j i j) au.

(* the multiplier: repaired `if au[(k,0)] == 0 { 0 } else { au[(i,0)] / au[(k,0)] }` *)
Definition multiplier (legacy : bool) (au : matrix) (k i : nat) : res T :=
  if legacy then
    let* aik := mget au i 0 in let* akk := mget au k 0 in div aik akk
  else
    let* akk := mget au k 0 in
    if eqb akk zero then Ok zero else
    let* aik := mget au i 0 in let* akk := mget au k 0 in div aik akk.

Definition elim_row (legacy : bool) (mm k : nat) (i : nat) (s : matrix * matrix) : res (matrix * matrix) :=
  let '(au, al) := s in
  let* dum := multiplier legacy au k i in
  let* al := mset al k (i - k - 1) dum in
  let* au := for_ 1 mm (fun j au =>
               let* aij := mget au i j in
               let* akj := mget au k j in
               mset au i (j - 1) (aij - dum * akj)) au in
  let* au := mset au i (mm - 1) zero in
  Ok (au, al).

Definition dec_state : Type := (matrix * matrix * list nat * T * nat)%type.   (* au, al, index, d, l *)

Definition dec_step (legacy : bool) (n mm : nat) (k : nat) (s : dec_state) : res dec_state :=
  let '(au, al, index, d, l) := s in
  let l := (if l <? n then l + 1 else l)%nat in
  let* p := find_pivot legacy au k l in
  let '(dum, i) := p in
  let* index := upd index k (i + 1)%nat in
  let* au := (if eqb dum zero then mset au k 0 zero else Ok au) in
  let* s := (if negb (i =? k) then
               let* au := swap_band_rows mm au k i in Ok (au, - d)
             else Ok (au, d)) in
  let '(au, d) := s in
  let* s := for_ (k + 1) l (elim_row legacy mm k) (au, al) in
  let '(au, al) := s in
  Ok (au, al, index, d, l).

Definition decompose_gen (legacy : bool) (B : banded) (au al : matrix) (index : list nat)
  : res (matrix * matrix * list nat * T) :=
  let mm := (bm1 B + bm2 B + 1)%nat in
  let* au := shift_rows (bm1 B) mm au in
  let* s := for_ 0 (bn B) (dec_step legacy (bn B) mm) (au, al, index, one, bm1 B) in
  let '(au, al, index, d, _) := s in
  Ok (au, al, index, d).

(* det (banded.rs:147-159) *)
Definition band_det_gen (legacy : bool) (B : banded) : res T :=
  let* r := decompose_gen legacy B (compact B) (mat_new (bn B) (bm1 B) zero) (repeat 0 (bn B)) in
  let '(au, _, _, d) := r in
  for_ 0 (bn B) (fun i dd => let* a := mget au i 0 in Ok (dd * a)) d.

(* solve (banded.rs:164-200) *)
Definition fwd_step (n : nat) (al : matrix) (index : list nat) (k : nat) (s : list T * nat)
  : res (list T * nat) :=
  let '(x, l) := s in
  let* ik := rd index k in
  let* j := usub ik 1 in
  let* x := (if negb (j =? k) then vswap x k j else Ok x) in
  let l := (if l <? n then l + 1 else l)%nat in
  let* x := for_ (k + 1) l (fun j x =>
              let* xk := rd x k in
              let* a := mget al k (j - k - 1) in
              let* xj := rd x j in
              upd x j (xj - a * xk)) x in
  Ok (x, l).

Definition back_step (mm : nat) (au : matrix) (i : nat) (s : list T * nat) : res (list T * nat) :=
  let '(x, l) := s in
  let* dum := rd x i in
  let* dum := for_ 1 l (fun k dum =>
                let* a := mget au i k in
                let* xk := rd x (k + i) in
                Ok (dum - a * xk)) dum in
  let* d0 := mget au i 0 in
  let* q := div dum d0 in
  let* x := upd x i q in
  Ok (x, (if l <? mm then l + 1 else l)%nat).

Definition band_solve_gen (legacy : bool) (B : banded) (b : list T) : res (list T) :=
  if negb (bn B =? length b) then Panic Guard else
  let* r := decompose_gen legacy B (compact B) (mat_new (bn B) (bm1 B) zero) (repeat 0 (bn B)) in
  let '(au, al, index, _) := r in
  let mm := (bm1 B + bm2 B + 1)%nat in
  let* s := for_ 0 (bn B) (fwd_step (bn B) al index) (b, bm1 B) in
  let* s := for_rev 0 (bn B) (back_step mm au) (fst s, 1) in
  Ok (fst s).

Definition band_det := band_det_gen false.
Definition band_solve := band_solve_gen false.
Definition band_det_legacy := band_det_gen true.
Definition band_solve_legacy := band_solve_gen true.

(* ---- operation histories on one banded matrix (kind band.hist of the correspondence check) ---- *)

Inductive bop :=
| BNew (n m1 m2 : nat) (x : T) | BFill (x : T) | BResize (n m1 m2 : nat) | BFillBand (b : Z) (x : T)
| BSet (i j : nat) (x : T)
| BAddAssign (C : banded) | BSubAssign (C : banded)
| BMulAssignS (x : T) | BDivAssignS (x : T) | BAddAssignS (x : T) | BSubAssignS (x : T)
(* value-returning *)
| BGet (i j : nat) | BGetAll | BNeg | BAdd (C : banded) | BSub (C : banded) | BScale (x : T) | BDiv (x : T)
| BMulV (v : list T) | BSolve (b : list T) | BDet | BSize | BDump.

Inductive bval := WNone | WS (x : T) | WV (v : list T) | WB (B : banded) | WN (a b c : nat)
                | WAll (l : list (res T)).

Definition all_pairs (n : nat) : list (nat * nat) :=
  flat_map (fun i => map (fun j => (i, j)) (seq 0 n)) (seq 0 n).

Definition bstep (B : banded) (o : bop) : res (banded * bval) :=
  match o with
  | BNew n m1 m2 x => Ok (band_new n m1 m2 x, WNone)
  | BFill x => let* B' := band_fill B x in Ok (B', WNone)
  | BResize n m1 m2 => let* B' := band_resize B n m1 m2 in Ok (B', WNone)
  | BFillBand b x => let* B' := band_fill_band B b x in Ok (B', WNone)
  | BSet i j x => let* B' := band_set B i j x in Ok (B', WNone)
  | BAddAssign C => let* B' := band_add_assign B C in Ok (B', WNone)
  | BSubAssign C => let* B' := band_sub_assign B C in Ok (B', WNone)
  | BMulAssignS x => let* B' := band_mul_assign_s B x in Ok (B', WNone)
  | BDivAssignS x => let* B' := band_div_assign_s B x in Ok (B', WNone)
  | BAddAssignS x => let* B' := band_add_assign_s B x in Ok (B', WNone)
  | BSubAssignS x => let* B' := band_sub_assign_s B x in Ok (B', WNone)
  | BGet i j => let* x := band_get B i j in Ok (B, WS x)
  | BGetAll => Ok (B, WAll (map (fun p => band_get B (fst p) (snd p)) (all_pairs (bn B))))
  | BNeg => let* R := band_neg B in Ok (B, WB R)
  | BAdd C => let* R := band_add B C in Ok (B, WB R)
  | BSub C => let* R := band_sub B C in Ok (B, WB R)
  | BScale x => let* R := band_scale B x in Ok (B, WB R)
  | BDiv x => let* R := band_div B x in Ok (B, WB R)
  | BMulV v => let* r := band_mul B v in Ok (B, WV r)
  | BSolve b => let* x := band_solve B b in Ok (B, WV x)
  | BDet => let* d := band_det B in Ok (B, WS d)
  | BSize => Ok (B, WN (bn B) (bm1 B) (bm2 B))
  | BDump => Ok (B, WB B)
  end.

Variable flat : T -> list Z.
Definition fl_cmat (m : matrix) : list Z :=
  fl_nat (rows m) ++ fl_nat (cols m) ++ concat (map flat (buf m)).
Definition fl_band (B : banded) : list Z :=
  fl_nat (bn B) ++ fl_nat (bm1 B) ++ fl_nat (bm2 B) ++ fl_cmat (compact B).
Definition fl_bval (v : bval) : list Z :=
  match v with
  | WNone => fl_nat 0 | WS x => flat x | WV v => fl_list flat v | WB B => fl_band B
  | WN a b c => fl_nat a ++ fl_nat b ++ fl_nat c
  | WAll l => concat (map (fl_res flat) l)
  end.

(* the state is dumped by the explicit operation BDump only; an operation without a result
   answers [0] so that a panic item always belongs to the operation at whose place it stands *)
Fixpoint brun_out (B : banded) (ops : list bop) : list Z :=
  match ops with
  | [] => []
  | o :: t =>
      match bstep B o with
      | Ok (B', v) => fl_bval v ++ brun_out B' t
      | Panic k => fl_panic k ++ brun_out B t
      end
  end.
Definition band_hist (B : banded) (ops : list bop) : list Z := fl_band B ++ brun_out B ops.

End Band.

Arguments banded A : clear implicits.
Arguments bop A : clear implicits.
