(* Model/Banded.v -- stub, to be filled in *)
