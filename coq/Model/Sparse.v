(* Model/Sparse.v -- src/sparse.rs lines 1-300 (everything except the solve_* methods) over any Arith.
   Storage as the code stores it: the six public fields of compressed-sparse-column form.
   Every guard is a [Panic Guard] in the place and order of the code, every Vec/Vector/Matrix index
   goes through [rd]/[upd]/[mset] (Panic Index), every usize subtraction through [usub]
   (Panic Underflow, debug profile).  Definitions only: no proofs, no heavy imports.

   Modelled semantics of std (trusted, see driver/c06.py TRUSTED):
   * [Vec::sort_by_key] is a *stable* sort; the result of a stable sort is unique, and the stable
     insertion sort [sort_by_col] below computes it.
   * [Vec::drain(..)] in a [for] loop visits the elements in order.
   Notes on evaluation order: where the code evaluates several index expressions in one statement
   (e.g. [result[row_index[k]] += val[k] * xj]) every one of them can only raise an index panic, so
   the order in which the model performs the reads cannot change the panic class; the values are
   combined exactly as written ([old + val[k] * xj]). *)
From Coq Require Import List Arith Bool.
From OV Require Import Base.Panic Base.Arith Model.Vector Model.Matrix.
Import ListNotations.
Local Open Scope arith_scope.
Local Open Scope bool_scope.

(* ---- small control-flow helpers (Base/ is frozen; these are definitions only) ---- *)

(* for x in list { s = f s x } *)
Fixpoint foldM {S X} (f : S -> X -> res S) (l : list X) (s : S) : res S :=
  match l with
  | [] => Ok s
  | x :: t => let* s' := f s x in foldM f t s'
  end.

(* for k in lo..lo+n { if let Some r = body k { return Some r } }  None   (early return) *)
Fixpoint find_from {X} (n lo : nat) (body : nat -> res (option X)) : res (option X) :=
  match n with
  | 0 => Ok None
  | S n' => let* o := body lo in
            match o with
            | Some x => Ok (Some x)
            | None => find_from n' (S lo) body
            end
  end.
Definition for_find {X} (lo hi : nat) (body : nat -> res (option X)) : res (option X) :=
  find_from (hi - lo) lo body.

(* for j in 0..ncols { let p = pre j; for k in cs[j]..cs[j+1] { s = body j p k s } }
   -- the column walk shared by multiply, transpose_multiply, transpose, to_triplets, to_dense *)
Definition for_cols {S P} (cs : list nat) (ncols : nat) (pre : nat -> res P)
           (body : nat -> P -> nat -> S -> res S) (s : S) : res S :=
  for_ 0 ncols (fun j acc =>
    let* p := pre j in
    let* a := rd cs j in
    let* b := rd cs (j + 1) in
    for_ a b (body j p) acc) s.

Section Sp.
Context {A : Arith}.
Notation T := (T A).

(* pub struct Sparse<T> { rows, cols, nonzero, val, row_index, col_start }   (sparse.rs:7-14) *)
Record sparse := mkS {
  sp_rows : nat; sp_cols : nat; sp_nonzero : nat;
  sp_val : list T; sp_row_index : list nat; sp_col_start : list nat }.

(* (row, col, value) *)
Definition triplet : Type := (nat * nat * T)%type.
Definition trow (t : triplet) : nat := fst (fst t).
Definition tcol (t : triplet) : nat := snd (fst t).
Definition tval (t : triplet) : T := snd t.

(* from_vecs (sparse.rs:30-42): nonzero = col_start[col_start.len() - 1] *)
Definition sp_from_vecs (r c : nat) (v : list T) (ri cs : list nat) : res sparse :=
  let* l1 := usub (length cs) 1 in
  let* nz := rd cs l1 in
  Ok (mkS r c nz v ri cs).

(* triplets.sort_by_key(|t| t.1): the stable sort by column *)
Fixpoint ins_by_col (t : triplet) (l : list triplet) : list triplet :=
  match l with
  | [] => [t]
  | u :: r => if tcol t <=? tcol u then t :: u :: r else u :: ins_by_col t r
  end.
Definition sort_by_col (l : list triplet) : list triplet := fold_right ins_by_col [] l.

(* col_start_from_index (sparse.rs:112-127): counting pass, then exclusive prefix sums *)
Definition sp_col_start_from_index (s : sparse) (ci : list nat) : res (list nat) :=
  let* cnt := for_ 0 (sp_nonzero s) (fun n cs =>
                let* c := rd ci n in
                let* x := rd cs c in
                upd cs c (x + 1)%nat) (repeat 0 (sp_cols s + 1)) in
  let* st := for_ 0 (sp_cols s) (fun k (st : list nat * nat) =>
                let* ck := rd (fst st) k in
                let* cs' := upd (fst st) k (snd st) in
                Ok (cs', (snd st + ck)%nat)) (cnt, 0) in
  upd (fst st) (sp_cols s) (snd st).

(* the drain loop of from_triplets: both range guards per triplet, in sorted order (sparse.rs:53-62) *)
Record drained := mkD { d_ri : list nat; d_ci : list nat; d_val : list T; d_nz : nat }.
Definition drain_step (r c : nat) (d : drained) (t : triplet) : res drained :=
  if r <=? trow t then Panic Guard else
  if c <=? tcol t then Panic Guard else
  Ok (mkD (d_ri d ++ [trow t]) (d_ci d ++ [tcol t]) (d_val d ++ [tval t]) (d_nz d + 1)).

(* from_triplets (sparse.rs:45-73) *)
Definition sp_from_triplets (r c : nat) (ts : list triplet) : res sparse :=
  let* d := foldM (drain_step r c) (sort_by_col ts) (mkD [] [] [] 0) in
  let s := mkS r c (d_nz d) (d_val d) (d_ri d) (repeat 0 (c + 1)) in
  let* cs := sp_col_start_from_index s (d_ci d) in
  Ok (mkS r c (d_nz d) (d_val d) (d_ri d) cs).

(* col_index (sparse.rs:76-90): expansion of the column starts; the local [gaps] vector is written
   and read at the same in-range index only, so it is not modelled as storage *)
Definition sp_col_index (s : sparse) : res (list nat) :=
  if sp_nonzero s =? 0 then Ok [] else
  if length (sp_col_start s) <? sp_cols s + 1 then Panic Guard else
  let* ng := usub (length (sp_col_start s)) 1 in
  for_ 0 ng (fun k temp =>
    let* hi := rd (sp_col_start s) (k + 1) in
    let* lo := rd (sp_col_start s) k in
    let* g := usub hi lo in
    Ok (temp ++ repeat k g)) [].

(* the scan shared by get and insert: first k < nonzero with row_index[k] == row && col_index[k] == col
   (&& short-circuits: col_index[k] is read only when the row matches) *)
Definition sp_scan (s : sparse) (ci : list nat) (row col : nat) : res (option nat) :=
  for_find 0 (sp_nonzero s) (fun k =>
    let* r := rd (sp_row_index s) k in
    if r =? row then
      let* c := rd ci k in
      if c =? col then Ok (Some k) else Ok None
    else Ok None).

(* get (sparse.rs:93-108) *)
Definition sp_get (s : sparse) (row col : nat) : res (option T) :=
  if sp_rows s <=? row then Panic Guard else
  if sp_cols s <=? col then Panic Guard else
  if length (sp_col_start s) <=? col then Panic Guard else
  let* ci := sp_col_index s in
  let* hit := sp_scan s ci row col in
  match hit with
  | Some k => let* v := rd (sp_val s) k in Ok (Some v)
  | None => Ok None
  end.

(* scale (sparse.rs:174-178) *)
Definition sp_scale (s : sparse) (value : T) : res sparse :=
  let* v := for_ 0 (sp_nonzero s) (fun k v => let* x := rd v k in upd v k (x * value)) (sp_val s) in
  Ok (mkS (sp_rows s) (sp_cols s) (sp_nonzero s) v (sp_row_index s) (sp_col_start s)).

(* multiply (sparse.rs:181-193): column-oriented scatter *)
Definition sp_mul (s : sparse) (x : list T) : res (list T) :=
  if negb (sp_cols s =? length x) then Panic Guard else
  for_cols (sp_col_start s) (sp_cols s) (fun j => rd x j)
    (fun j xj k res =>
       let* r := rd (sp_row_index s) k in
       let* v := rd (sp_val s) k in
       let* old := rd res r in
       upd res r (old + v * xj))
    (repeat zero (sp_rows s)).

(* transpose_multiply (sparse.rs:196-208): column-oriented gather *)
Definition sp_tmul (s : sparse) (x : list T) : res (list T) :=
  if negb (sp_rows s =? length x) then Panic Guard else
  for_cols (sp_col_start s) (sp_cols s) (fun _ => Ok tt)
    (fun i _ k res =>
       let* v := rd (sp_val s) k in
       let* r := rd (sp_row_index s) k in
       let* xr := rd x r in
       let* old := rd res i in
       upd res i (old + v * xr))
    (repeat zero (sp_cols s)).

(* transpose (sparse.rs:211-233): count the rows, prefix sums, scatter with a running count *)
Record tstate := mkTS { t_ri : list nat; t_val : list T; t_count : list nat }.
Definition sp_transpose (s : sparse) : res sparse :=
  let cs := sp_col_start s in
  let* count := for_cols cs (sp_cols s) (fun _ => Ok tt)
      (fun _ _ j count =>
         let* r := rd (sp_row_index s) j in
         let* c := rd count r in
         upd count r (c + 1)%nat)
      (repeat 0 (sp_rows s)) in
  let* at_cs := for_ 0 (sp_rows s) (fun j acs =>
         let* a := rd acs j in
         let* c := rd count j in
         upd acs (j + 1) (a + c)%nat) (repeat 0 (sp_rows s + 1)) in
  let* st := for_cols cs (sp_cols s) (fun _ => Ok tt)
      (fun i _ j st =>
         let* k := rd (sp_row_index s) j in
         let* a := rd at_cs k in
         let* c := rd (t_count st) k in
         let index := (a + c)%nat in
         let* ri' := upd (t_ri st) index i in
         let* v := rd (sp_val s) j in
         let* val' := upd (t_val st) index v in
         let* count' := upd (t_count st) k (c + 1)%nat in
         Ok (mkTS ri' val' count'))
      (mkTS (repeat 0 (sp_nonzero s)) (repeat zero (sp_nonzero s)) (repeat 0 (sp_rows s))) in
  Ok (mkS (sp_cols s) (sp_rows s) (sp_nonzero s) (t_val st) (t_ri st) at_cs).

(* to_triplets (sparse.rs:260-268) *)
Definition sp_to_triplets (s : sparse) : res (list triplet) :=
  for_cols (sp_col_start s) (sp_cols s) (fun _ => Ok tt)
    (fun j _ k acc =>
       let* r := rd (sp_row_index s) k in
       let* v := rd (sp_val s) k in
       Ok (acc ++ [(r, j, v)]))
    [].

(* insert (sparse.rs:272-289): overwrite the first matching entry, else rebuild from the triplets *)
Definition sp_insert (s : sparse) (row col : nat) (value : T) : res sparse :=
  if sp_rows s <=? row then Panic Guard else
  if sp_cols s <=? col then Panic Guard else
  if length (sp_col_start s) <=? col then Panic Guard else
  let* ci := sp_col_index s in
  let* hit := sp_scan s ci row col in
  match hit with
  | Some k =>
      let* v := upd (sp_val s) k value in
      Ok (mkS (sp_rows s) (sp_cols s) (sp_nonzero s) v (sp_row_index s) (sp_col_start s))
  | None =>
      let* ts := sp_to_triplets s in
      sp_from_triplets (sp_rows s) (sp_cols s) (ts ++ [(row, col, value)])
  end.

(* to_dense (sparse.rs:292-300): Matrix::new(rows, cols, 0), then dense[(row_index[k], j)] = val[k]
   through the flat row-major IndexMut of Matrix (a later duplicate overwrites an earlier one) *)
Definition sp_to_dense (s : sparse) : res (matrix A) :=
  for_cols (sp_col_start s) (sp_cols s) (fun _ => Ok tt)
    (fun j _ k d =>
       let* v := rd (sp_val s) k in
       let* r := rd (sp_row_index s) k in
       mset d r j v)
    (mat_new (sp_rows s) (sp_cols s) zero).

(* ---- histories of modifying operations (C06: "all finite sequences of insert/overwrite/scale/transpose") ---- *)
Inductive sop := SInsert (i j : nat) (v : T) | SScale (v : T) | STranspose.
Definition sp_step (s : sparse) (o : sop) : res sparse :=
  match o with
  | SInsert i j v => sp_insert s i j v
  | SScale v => sp_scale s v
  | STranspose => sp_transpose s
  end.
Definition sp_run (ops : list sop) (s : sparse) : res sparse := foldM sp_step ops s.

End Sp.

Arguments sparse A : clear implicits.
Arguments triplet A : clear implicits.
Arguments sop A : clear implicits.
