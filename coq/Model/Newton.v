(* Model/Newton.v -- stub, to be filled in *)
