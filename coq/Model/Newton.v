(* Model/Newton.v -- src/newton.rs (the six solve / solve_jacobian methods) and the two
   finite-difference Jacobians of src/matrix/functions.rs, statement by statement.
   Definitions only.

   The user function is a parameter [f : X -> res X] (a Rust closure may panic).  Every
   method is instrumented: besides the Rust result it returns the list of points at which
   the closures were called, in call order.

   The six methods differ only in the types involved.  [NOps] collects what differs:
     NA    element type of the unknown   (f64                | Cmplx)
     NR    type of tol / delta           (f64                | f64)
     emb   delta as an element           (d                  | Cmplx::new(d, 0.0))
     mag   the inherent  .abs()          (f64::abs           | Complex::<f64>::abs = sqrt(abs_sqr))
     divr  element / real                (f64 / f64          | Complex<f64> / f64 = (re/r, im/r))
   so that ONE definition per Rust method body is run at f64 (NReal AF), at Cmplx
   (NCplx SAF), at Qc (NReal AQ) and is proved for an arbitrary [NOps].

   f64::abs (inherent, clears the sign bit) and the model's [abs] (traits.rs shape:
   if x < 0 { -x } else { x }) differ only on -0.0 and on the sign of NaN; every use below
   feeds the value to [<=] / [<] only, where the difference is invisible. *)
From Coq Require Import List Arith Lia Bool.
From OV Require Import Base.Panic Base.Arith Model.Complex Model.Vector Model.Matrix Model.Solve.
Import ListNotations.
Local Open Scope arith_scope.

Record NOps := {
  NA : Arith;
  NR : Arith;
  emb : NR -> NA;
  mag : NA -> NR;
  divr : NA -> NR -> res NA;
}.

Definition NReal (A : Arith) : NOps :=
  {| NA := A; NR := A; emb := fun d => d; mag := abs; divr := div |}.

Definition NCplx (S : SArith) : NOps :=
  {| NA := CArith S; NR := S; emb := fun d => mkC d zero;
     mag := fun z => sqrt (abs_sqr z); divr := cdiv_r |}.

(* Result<T, T> of the solve methods *)
Inductive nres (X : Type) : Type := NOk (x : X) | NErr (x : X).
Arguments NOk {X} x. Arguments NErr {X} x.

(* Newton<T> { tol, delta, max_iter, guess } *)
Record ncfg (R X : Type) := mkCfg { tol : R; delta : R; max_iter : nat; guess : X }.
Arguments mkCfg {R X}. Arguments tol {R X}. Arguments delta {R X}.
Arguments max_iter {R X}. Arguments guess {R X}.

(* which closure was called (the supplied-Jacobian variants take two) *)
Inductive call (X : Type) : Type := CF (x : X) | CJ (x : X).
Arguments CF {X} x. Arguments CJ {X} x.

(* ------------------------------------------------------------------------------------
   The loop shared by all six methods:

     let mut current = self.guess;
     for _ in 0..self.max_iter {
         <body: computes the new current and the stopping test; calls the closures>
         if <test> { return Ok( current ) }
     }
     Err( current )

   [step cur] = Ok (new current, test, calls made by this pass) or the panic of the body. *)
Section Loop.
Context {X E : Type}.
Context (step : X -> res (X * bool * list E)).

Fixpoint nloop (n : nat) (cur : X) (evs : list E) : res (nres X * list E) :=
  match n with
  | 0 => Ok (NErr cur, evs)
  | S n' =>
      let* r := step cur in
      let '(cur', stop, e) := r in
      if stop then Ok (NOk cur', evs ++ e) else nloop n' cur' (evs ++ e)
  end.

(* the k-th iterate, stopping tests ignored (right-hand side of the theorems) *)
Fixpoint niter (k : nat) (cur : X) : res X :=
  match k with
  | 0 => Ok cur
  | S k' => let* r := step cur in niter k' (fst (fst r))
  end.
End Loop.

Section Newton.
Context (O : NOps).
Notation A := (NA O).
Notation R := (NR O).

Definition two : R := add one one.                                     (* the literal 2.0 *)

(* ---- Newton<f64>::solve / Newton<Cmplx>::solve  (newton.rs:58-92) ----
     let deriv = ( func( current + delta ) - func( current - delta ) ) / ( 2.0 * delta );
     let dx = func(current) / deriv;
     current -= dx;
     if dx.abs() <= self.tol { return Ok( current ); }                                  *)
Definition scalar_step (tl dl : R) (f : A -> res A) (cur : A) : res (A * bool * list A) :=
  let pp := add cur (emb O dl) in
  let* fp := f pp in
  let pm := sub cur (emb O dl) in
  let* fm := f pm in
  let* deriv := divr O (sub fp fm) (mul two dl) in
  let* fc := f cur in
  let* dx := div fc deriv in
  Ok (sub cur dx, leb (mag O dx) tl, [pp; pm; cur]).

Definition newton_scalar (c : ncfg R A) (f : A -> res A) : res (nres A * list A) :=
  nloop (scalar_step (tol c) (delta c) f) (max_iter c) (guess c) [].

(* ---- Vector::<f64>::norm_inf / Vector::<Cmplx>::norm_inf  (vec_f64.rs:51, vec_cmplx.rs:34) ----
     let mut result = self.vec[0].abs();
     for i in 1..self.size() { if result < self.vec[i].abs() { result = self.vec[i].abs(); } }   *)
Definition norm_inf (v : list A) : res R :=
  let* x0 := rd v 0 in
  for_ 1 (length v) (fun i r => let* x := rd v i in
                                if ltb r (mag O x) then Ok (mag O x) else Ok r) (mag O x0).

(* ---- Mat64::jacobian / Matrix::<Cmplx>::jacobian_cmplx  (matrix/functions.rs:64-102) ----
     let n = point.size();  let f = func( point.clone() );  let m = f.size();
     let mut state = point.clone();  let mut jac = Matrix::new( m, n, 0 );
     for i in 0..n {
         state[i] += delta;
         let f_new = func( state.clone() );
         state[i] -= delta;
         jac.set_col( i, ( f_new - f.clone() ) / delta );
     }
   [d] is delta as an element (f64: delta; Cmplx: Cmplx::new(delta, 0.0)); returns the matrix and
   the points at which func was called. *)
Definition jac_body (f : list A -> res (list A)) (f0 : list A) (d : A) (i : nat)
    (s : list A * matrix A * list (list A)) : res (list A * matrix A * list (list A)) :=
  let '(state, jac, evs) := s in
  let* xi := rd state i in
  let* state1 := upd state i (add xi d) in
  let* fnew := f state1 in
  let* xi1 := rd state1 i in
  let* state2 := upd state1 i (sub xi1 d) in
  let* diff := vsub fnew f0 in
  let* col := vdiv diff d in
  let* jac' := set_col jac i col in
  Ok (state2, jac', evs ++ [state1]).

Definition jacobian_tr (f : list A -> res (list A)) (point : list A) (d : A)
    : res (list A * matrix A * list (list A)) :=
  let n := length point in
  let* f0 := f point in
  let m := length f0 in
  for_ 0 n (jac_body f f0 d) (point, mat_new m n zero, [point]).

(* what the Rust function returns (the matrix) + the call points *)
Definition jacobian (f : list A -> res (list A)) (point : list A) (d : A)
    : res (matrix A * list (list A)) :=
  let* r := jacobian_tr f point d in Ok (snd (fst r), snd r).

(* ---- Newton<Vec64>::solve / Newton<Vector<Cmplx>>::solve  (newton.rs:95-112, 135-150) ----
     let f = func( current.clone() );
     let max_residual = f.norm_inf();
     let mut j = Matrix::jacobian( current.clone(), func, self.delta );
     let dx = j.solve_basic( &f );
     current -= dx;
     if max_residual <= self.tol { return Ok( current ) }                                     *)
Definition sys_step (tl dl : R) (f : list A -> res (list A)) (cur : list A)
    : res (list A * bool * list (list A)) :=
  let* fv := f cur in
  let* maxres := norm_inf fv in
  let* jr := jacobian f cur (emb O dl) in
  let* dx := solve_basic (fst jr) fv in
  let* cur' := vsub_assign cur dx in
  Ok (cur', leb maxres tl, cur :: snd jr).

Definition newton_sys (c : ncfg R (list A)) (f : list A -> res (list A))
    : res (nres (list A) * list (list A)) :=
  nloop (sys_step (tol c) (delta c) f) (max_iter c) (guess c) [].

(* ---- solve_jacobian (newton.rs:115-131, 153-169): as above with  let mut j = jac( current.clone() ); *)
Definition sysjac_step (tl : R) (f : list A -> res (list A)) (jac : list A -> res (matrix A))
    (cur : list A) : res (list A * bool * list (call (list A))) :=
  let* fv := f cur in
  let* maxres := norm_inf fv in
  let* j := jac cur in
  let* dx := solve_basic j fv in
  let* cur' := vsub_assign cur dx in
  Ok (cur', leb maxres tl, [CF cur; CJ cur]).

Definition newton_sysjac (c : ncfg R (list A)) (f : list A -> res (list A))
    (jac : list A -> res (matrix A)) : res (nres (list A) * list (call (list A))) :=
  nloop (sysjac_step (tol c) f jac) (max_iter c) (guess c) [].

End Newton.

Arguments nloop {X E} step n cur evs.
Arguments niter {X E} step k cur.
