(* Model/Matrix.v -- src/matrix/{mod,operations,arithmetic}.rs over any Arith.
   Storage as the code stores it: flat row-major buffer, element (i,j) at i*cols+j,
   every access checked (Vec indexing panics).  Definitions only. *)
From Coq Require Import List Arith Lia ZArith Bool.
Local Open Scope bool_scope.
From OV Require Import Base.Panic Base.Arith Model.Vector.
Import ListNotations.
Local Open Scope arith_scope.

Section Mat.
Context {A : Arith}.
Notation T := (T A).

Record matrix := mkM { buf : list T; rows : nat; cols : nat }.

Definition mat_new (r c : nat) (x : T) : matrix := mkM (repeat x (r * c)) r c.
Definition mat_empty : matrix := mkM [] 0 0.

(* Index / IndexMut  (operations.rs:7-23) *)
Definition mget (m : matrix) (i j : nat) : res T := rd (buf m) (i * cols m + j).
Definition mset (m : matrix) (i j : nat) (x : T) : res matrix :=
  let* b := upd (buf m) (i * cols m + j) x in Ok (mkM b (rows m) (cols m)).

(* get_row / get_col : guard, result vector of zeros, then filled (operations.rs:36-55) *)
Definition get_row (m : matrix) (row : nat) : res (list T) :=
  if rows m <=? row then Panic Guard else
  for_ 0 (cols m) (fun j v => let* x := rd (buf m) (row * cols m + j) in upd v j x)
       (repeat zero (cols m)).
Definition get_col (m : matrix) (col : nat) : res (list T) :=
  if cols m <=? col then Panic Guard else
  for_ 0 (rows m) (fun i v => let* x := rd (buf m) (i * cols m + col) in upd v i x)
       (repeat zero (rows m)).

Definition set_row (m : matrix) (row : nat) (v : list T) : res matrix :=
  if negb (length v =? cols m) then Panic Guard else
  if rows m <=? row then Panic Guard else
  for_ 0 (cols m) (fun j m => let* x := rd v j in
                              let* b := upd (buf m) (row * cols m + j) x in
                              Ok (mkM b (rows m) (cols m))) m.

(* set_col, with the range guard as the code has it (after the fix: cols <= col) *)
Definition set_col (m : matrix) (col : nat) (v : list T) : res matrix :=
  if negb (length v =? rows m) then Panic Guard else
  if cols m <=? col then Panic Guard else
  for_ 0 (rows m) (fun i m => let* x := rd v i in mset m i col x) m.

(* delete_row: drain(row*cols .. (row+1)*cols); rows -= 1 *)
Definition delete_row (m : matrix) (row : nat) : res matrix :=
  if rows m <=? row then Panic Guard else
  if (row + 1) * cols m <=? length (buf m) then
    Ok (mkM (firstn (row * cols m) (buf m) ++ skipn ((row + 1) * cols m) (buf m))
            (rows m - 1) (cols m))
  else Panic Index.

(* multiply(&vec): guard; for row: push(get_row(row).dot(vec)) *)
Definition multiply (m : matrix) (v : list T) : res (list T) :=
  if negb (length v =? cols m) then Panic Guard else
  for_ 0 (rows m) (fun row acc => let* r := get_row m row in
                                  let* d := dot r v in Ok (acc ++ [d])) [].

Definition eye (n : nat) : res matrix :=
  for_ 0 n (fun i m => mset m i i one) (mat_new n n zero).

Definition resize (m : matrix) (nr nc : nat) : res matrix :=
  for_ 0 nr (fun i s =>
    for_ 0 nc (fun j s =>
      if (i <? rows m) && (j <? cols m) then let* x := mget m i j in mset s i j x else Ok s) s)
    (mat_new nr nc zero).

Definition swap_elem (m : matrix) (r1 c1 r2 c2 : nat) : res matrix :=
  let* temp := mget m r1 c1 in
  let* old2 := mget m r2 c2 in
  let* m1 := mset m r2 c2 temp in
  mset m1 r1 c1 old2.

Definition transpose_in_place (m : matrix) : res matrix :=
  if rows m =? cols m then
    for_ 0 (rows m) (fun i m =>
      for_ (i + 1) (cols m) (fun j m =>
        let* temp := mget m i j in
        let* old := mget m j i in
        let* m1 := mset m j i temp in
        mset m1 i j old) m) m
  else
    let* temp :=
      for_ 0 (cols m) (fun j acc =>
        for_ 0 (rows m) (fun i acc => let* x := mget m i j in Ok (acc ++ [x])) acc) [] in
    Ok (mkM temp (cols m) (rows m)).

Definition transpose (m : matrix) : res matrix := transpose_in_place m.

Definition swap_rows (m : matrix) (r1 r2 : nat) : res matrix :=
  if (rows m <=? r1) || (rows m <=? r2) then Panic Guard else
  for_ 0 (cols m) (fun j m => swap_elem m r1 j r2 j) m.

Definition fill (m : matrix) (x : T) : res matrix :=
  for_ 0 (rows m) (fun i m => for_ 0 (cols m) (fun j m => mset m i j x) m) m.

Definition fill_diag (m : matrix) (x : T) : res matrix :=
  let n := if cols m <? rows m then cols m else rows m in
  for_ 0 n (fun i m => mset m i i x) m.

(* fill_band(offset: isize): i = row + offset; if (i as usize) < cols && i >= 0 *)
Definition fill_band (m : matrix) (offset : Z) (x : T) : res matrix :=
  for_ 0 (rows m) (fun row m =>
    let i := (Z.of_nat row + offset)%Z in
    if (0 <=? i)%Z && (Z.to_nat i <? cols m) then mset m row (Z.to_nat i) x else Ok m) m.

Definition fill_tridiag (m : matrix) (l d u : T) : res matrix :=
  let* m1 := fill_band m (-1)%Z l in
  let* m2 := fill_diag m1 d in
  fill_band m2 1%Z u.

Definition fill_row (m : matrix) (row : nat) (x : T) : res matrix :=
  if rows m <=? row then Panic Guard else
  for_ 0 (cols m) (fun j m => mset m row j x) m.
Definition fill_col (m : matrix) (col : nat) (x : T) : res matrix :=
  if cols m <=? col then Panic Guard else
  for_ 0 (rows m) (fun i m => mset m i col x) m.

(* ---- arithmetic.rs ---- *)

(* result = new(rows, cols, 0); for i, for j: result[(i,j)] = f i j *)
Definition mtab (r c : nat) (f : nat -> nat -> res T) : res matrix :=
  for_ 0 r (fun i s => for_ 0 c (fun j s => let* x := f i j in mset s i j x) s)
       (mat_new r c zero).

Definition mneg (m : matrix) : res matrix :=
  mtab (rows m) (cols m) (fun i j => let* x := mget m i j in Ok (- x)).
Definition madd (a b : matrix) : res matrix :=
  if negb (rows a =? rows b) then Panic Guard else
  if negb (cols a =? cols b) then Panic Guard else
  mtab (rows a) (cols a) (fun i j => let* x := mget a i j in let* y := mget b i j in Ok (x + y)).
Definition msub (a b : matrix) : res matrix :=
  if negb (rows a =? rows b) then Panic Guard else
  if negb (cols a =? cols b) then Panic Guard else
  mtab (rows a) (cols a) (fun i j => let* x := mget a i j in let* y := mget b i j in Ok (x - y)).
Definition mscale (m : matrix) (s : T) : res matrix :=
  mtab (rows m) (cols m) (fun i j => let* x := mget m i j in Ok (x * s)).
Definition mscale_l (s : T) (m : matrix) : res matrix :=
  mtab (rows m) (cols m) (fun i j => let* x := mget m i j in Ok (x * s)).   (* f64 * matrix computes matrix[(i,j)] * self *)
Definition mdiv (m : matrix) (s : T) : res matrix :=
  mtab (rows m) (cols m) (fun i j => let* x := mget m i j in div x s).

(* in-place forms: for i, for j: self[(i,j)] op= ... *)
Definition mupd_all (m : matrix) (f : nat -> nat -> T -> res T) : res matrix :=
  for_ 0 (rows m) (fun i s => for_ 0 (cols m) (fun j s =>
     let* x := mget s i j in let* y := f i j x in mset s i j y) s) m.
Definition madd_assign (a b : matrix) : res matrix :=
  if negb (rows a =? rows b) then Panic Guard else
  if negb (cols a =? cols b) then Panic Guard else
  mupd_all a (fun i j x => let* y := mget b i j in Ok (x + y)).
Definition msub_assign (a b : matrix) : res matrix :=
  if negb (rows a =? rows b) then Panic Guard else
  if negb (cols a =? cols b) then Panic Guard else
  mupd_all a (fun i j x => let* y := mget b i j in Ok (x - y)).
Definition mmul_assign_scalar (m : matrix) (s : T) := mupd_all m (fun _ _ x => Ok (x * s)).
Definition mdiv_assign_scalar (m : matrix) (s : T) := mupd_all m (fun _ _ x => div x s).
Definition madd_assign_scalar (m : matrix) (s : T) := mupd_all m (fun _ _ x => Ok (x + s)).
Definition msub_assign_scalar (m : matrix) (s : T) := mupd_all m (fun _ _ x => Ok (x - s)).

(* &a * &b : built column by column through set_col (arithmetic.rs:253-265) *)
Definition mat_mul (a b : matrix) : res matrix :=
  if negb (cols a =? rows b) then Panic Guard else
  for_ 0 (cols b) (fun col s =>
     let* bc := get_col b col in
     let* v := multiply a bc in
     set_col s col v) (mat_new (rows a) (cols b) zero).

(* the pre-fix column setter (guard compares with rows) and the product built on it *)
Definition set_col_legacy (m : matrix) (col : nat) (v : list T) : res matrix :=
  if negb (length v =? rows m) then Panic Guard else
  if rows m <=? col then Panic Guard else
  for_ 0 (rows m) (fun i m => let* x := rd v i in mset m i col x) m.

End Mat.

Arguments matrix A : clear implicits.
