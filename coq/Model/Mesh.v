(* Model/Mesh.v -- src/mesh1d.rs, src/mesh2d.rs.  Definitions only.
   Storage as the code stores it: a Mesh1D is (nvars, nodes, vars : one variable vector per node);
   a Mesh2D is (nvars, nx, ny, x_nodes, y_nodes, vars) with node (i,j) at vars[i*ny + j].
   Every Vec access is checked (rd/upd), every explicit guard is in the code's place and order,
   `self.nx - 1` is a checked usize subtraction (debug profile).
   [A] is the arithmetic of the variables (T), [X] the type of the nodal coordinates (only stored
   and cloned by the generic code).  The f64-only methods (interpolation, quadrature, read) are
   written over one arithmetic [A] for both, with the literals 0.5, 0.25, 1.0e-7 as arguments
   (half, quarter, snap), so that the same definitions run on primitive floats (snap = MESH_SNAP
   of gen/Params.v) and carry the theorems over R. *)
From Coq Require Import List Arith Lia Bool.
From OV Require Import Base.Panic.
From OV Require Import Base.Arith.
From OV Require Import Model.Vector.
From OV Require Import Model.Matrix.
Import ListNotations.
Local Open Scope bool_scope.
Local Open Scope arith_scope.

(* Vec::resize(n, v): truncate, or extend with clones of v *)
Definition resize_list {Y} (l : list Y) (n : nat) (v : Y) : list Y :=
  firstn n l ++ repeat v (n - length l).

Section Storage.
Context {A : Arith}.
Context {X : Type}.
Notation T := (T A).

(* ------------------------------------------------------------------ Mesh1D<T, X> *)
Record mesh1 := mkM1 { m1_nvars : nat; m1_nodes : list X; m1_vars : list (list T) }.

(* new: one clone of Vector::new(nvars, 0) per node  (mesh1d.rs:16-23) *)
Definition mesh1_new (nodes : list X) (nvars : nat) : mesh1 :=
  mkM1 nvars nodes (repeat (repeat zero nvars) (length nodes)).

Definition nnodes1 (m : mesh1) : nat := length (m1_nodes m).
Definition coord1 (m : mesh1) (node : nat) : res X := rd (m1_nodes m) node.

(* set_nodes_vars: range guard, nvars guard, then vars[node] = vec  (mesh1d.rs:45-49) *)
Definition set_nodes_vars1 (m : mesh1) (node : nat) (vec : list T) : res mesh1 :=
  if length (m1_nodes m) <=? node then Panic Guard else
  if negb (length vec =? m1_nvars m) then Panic Guard else
  let* vs := upd (m1_vars m) node vec in
  Ok (mkM1 (m1_nvars m) (m1_nodes m) vs).

(* get_nodes_vars: range guard, then vars[node].clone()  (mesh1d.rs:53-56) *)
Definition get_nodes_vars1 (m : mesh1) (node : nat) : res (list T) :=
  if length (m1_nodes m) <=? node then Panic Guard else rd (m1_vars m) node.

(* Index / IndexMut: unguarded &self.vars[node]  (mesh1d.rs:127-144) *)
Definition index1 (m : mesh1) (node : nat) : res (list T) := rd (m1_vars m) node.
(* mesh[node] = vec *)
Definition index1_set (m : mesh1) (node : nat) (vec : list T) : res mesh1 :=
  let* vs := upd (m1_vars m) node vec in Ok (mkM1 (m1_nvars m) (m1_nodes m) vs).
(* mesh[node][var] = x *)
Definition index1_set_elem (m : mesh1) (node var : nat) (x : T) : res mesh1 :=
  let* row := rd (m1_vars m) node in
  let* row' := upd row var x in
  let* vs := upd (m1_vars m) node row' in
  Ok (mkM1 (m1_nvars m) (m1_nodes m) vs).

(* ------------------------------------------------------------------ Mesh2D<T> *)
Record mesh2 := mkM2 { m2_nvars : nat; m2_nx : nat; m2_ny : nat;
                       m2_x : list X; m2_y : list X; m2_vars : list (list T) }.

(* new: nx*ny clones pushed in the order i (outer), j (inner)  (mesh2d.rs:21-32) *)
Definition mesh2_new (xs ys : list X) (nvars : nat) : mesh2 :=
  mkM2 nvars (length xs) (length ys) xs ys
       (repeat (repeat zero nvars) (length xs * length ys)).

Definition with_vars2 (m : mesh2) (vs : list (list T)) : mesh2 :=
  mkM2 (m2_nvars m) (m2_nx m) (m2_ny m) (m2_x m) (m2_y m) vs.

(* coord: x_nodes[nodex] then y_nodes[nodey] *)
Definition coord2 (m : mesh2) (i j : nat) : res (X * X) :=
  let* px := rd (m2_x m) i in let* py := rd (m2_y m) j in Ok (px, py).

(* the range test  (nodex > self.nx - 1) || (nodey > self.ny - 1) : checked subtractions,
   short-circuit `||`  (mesh2d.rs:69,79) *)
Definition range_guard2 (m : mesh2) (i j : nat) : res unit :=
  let* a := usub (m2_nx m) 1 in
  if a <? i then Panic Guard else
  let* b := usub (m2_ny m) 1 in
  if b <? j then Panic Guard else Ok tt.

Definition set_nodes_vars2 (m : mesh2) (i j : nat) (vec : list T) : res mesh2 :=
  let* _ := range_guard2 m i j in
  if negb (length vec =? m2_nvars m) then Panic Guard else
  let* vs := upd (m2_vars m) (i * m2_ny m + j) vec in
  Ok (with_vars2 m vs).

Definition get_nodes_vars2 (m : mesh2) (i j : nat) : res (list T) :=
  let* _ := range_guard2 m i j in
  rd (m2_vars m) (i * m2_ny m + j).

(* Index / IndexMut on (usize, usize): unguarded  (mesh2d.rs:182-199) *)
Definition index2 (m : mesh2) (i j : nat) : res (list T) := rd (m2_vars m) (i * m2_ny m + j).
Definition index2_set (m : mesh2) (i j : nat) (vec : list T) : res mesh2 :=
  let* vs := upd (m2_vars m) (i * m2_ny m + j) vec in Ok (with_vars2 m vs).

(* self.vars[k][var] = x   (value first, then the place) *)
Definition set_elem (vs : list (list T)) (k var : nat) (x : T) : res (list (list T)) :=
  let* row := rd vs k in
  let* row' := upd row var x in
  upd vs k row'.
Definition index2_set_elem (m : mesh2) (i j var : nat) (x : T) : res mesh2 :=
  let* vs := set_elem (m2_vars m) (i * m2_ny m + j) var x in Ok (with_vars2 m vs).

(* assign: for i, for j, for v: vars[i*ny+j][v] = element  (mesh2d.rs:87-95) *)
Definition assign2 (m : mesh2) (x : T) : res mesh2 :=
  let* vs :=
    for_ 0 (m2_nx m) (fun i vs =>
      for_ 0 (m2_ny m) (fun j vs =>
        for_ 0 (m2_nvars m) (fun v vs => set_elem vs (i * m2_ny m + j) v x) vs) vs) (m2_vars m) in
  Ok (with_vars2 m vs).

(* cross sections: a fresh Mesh1D on the other direction's nodes, filled through the two
   guarded accessors  (mesh2d.rs:99-115) *)
Definition cross_section_xnode (m : mesh2) (nodex : nat) : res mesh1 :=
  for_ 0 (m2_ny m) (fun nodey s =>
     let* v := get_nodes_vars2 m nodex nodey in set_nodes_vars1 s nodey v)
    (mesh1_new (m2_y m) (m2_nvars m)).
Definition cross_section_ynode (m : mesh2) (nodey : nat) : res mesh1 :=
  for_ 0 (m2_nx m) (fun nodex s =>
     let* v := get_nodes_vars2 m nodex nodey in set_nodes_vars1 s nodex v)
    (mesh1_new (m2_x m) (m2_nvars m)).

(* var_as_matrix: guard, Matrix::new(nx, ny, 0), m[(i,j)] = vars[i*ny+j][var]  (mesh2d.rs:119-129) *)
Definition var_as_matrix (m : mesh2) (var : nat) : res (matrix A) :=
  if m2_nvars m <=? var then Panic Guard else
  for_ 0 (m2_nx m) (fun i s =>
    for_ 0 (m2_ny m) (fun j s =>
      let* row := rd (m2_vars m) (i * m2_ny m + j) in
      let* x := rd row var in
      mset s i j x) s) (mat_new (m2_nx m) (m2_ny m) zero).

(* apply: for i { x = x_nodes[i]; for j { y = y_nodes[j]; vars[i*ny+j][var] = func(x,y) } }
   the user function is an argument (it may itself panic: exact division)  (mesh2d.rs:133-141) *)
Definition apply2 (func : X -> X -> res T) (m : mesh2) (var : nat) : res mesh2 :=
  let* vs :=
    for_ 0 (m2_nx m) (fun i vs =>
      let* x := rd (m2_x m) i in
      for_ 0 (m2_ny m) (fun j vs =>
        let* y := rd (m2_y m) j in
        let* v := func x y in
        set_elem vs (i * m2_ny m + j) var v) vs) (m2_vars m) in
  Ok (with_vars2 m vs).

(* ------------------------------------------------------------------ output as a token layout
   One list of tokens per line written; formatting is abstract (one function per Display type).
   Mesh1D::output: node, then the nvars variables  (mesh1d.rs:150-159)
   Mesh2D::output: for j, for i: x y vars..., and an empty line after every j  (mesh2d.rs:204-217) *)
Section Output.
Variable tok : Type.
Variable fmtx : X -> tok.
Variable fmt : T -> tok.

Definition output1 (m : mesh1) : res (list (list tok)) :=
  for_ 0 (length (m1_nodes m)) (fun i lines =>
    let* x := rd (m1_nodes m) i in
    let* line := for_ 0 (m1_nvars m) (fun var line =>
                   let* row := rd (m1_vars m) i in
                   let* v := rd row var in Ok (line ++ [fmt v])) [fmtx x] in
    Ok (lines ++ [line])) [].

Definition output2 (m : mesh2) : res (list (list tok)) :=
  for_ 0 (m2_ny m) (fun j lines =>
    let* lines :=
      for_ 0 (m2_nx m) (fun i lines =>
        let* x := rd (m2_x m) i in
        let* y := rd (m2_y m) j in
        let* line := for_ 0 (m2_nvars m) (fun var line =>
                       let* row := rd (m2_vars m) (i * m2_ny m + j) in
                       let* v := rd row var in Ok (line ++ [fmt v])) [fmtx x; fmtx y] in
        Ok (lines ++ [line])) lines in
    Ok (lines ++ [[]])) [].

Definition output_var2 (m : mesh2) (var : nat) : res (list (list tok)) :=
  for_ 0 (m2_ny m) (fun j lines =>
    let* lines :=
      for_ 0 (m2_nx m) (fun i lines =>
        let* x := rd (m2_x m) i in
        let* y := rd (m2_y m) j in
        let* row := rd (m2_vars m) (i * m2_ny m + j) in
        let* v := rd row var in
        Ok (lines ++ [[fmtx x; fmtx y; fmt v]])) lines in
    Ok (lines ++ [[]])) [].
End Output.

End Storage.

Arguments mesh1 A X : clear implicits.
Arguments mesh2 A X : clear implicits.

(* ------------------------------------------------------------------ impl Mesh1D<f64, f64>, impl Mesh2D<f64> *)
Section Numeric.
Context {A : Arith}.
Notation T := (T A).
Notation mesh1 := (mesh1 A A).
Notation mesh2 := (mesh2 A A).

(* the cell test of get_interpolated_vars  (mesh1d.rs:72-74).
   `.abs()` on f64 is the inherent method; Signed::abs differs from it only in the sign of a
   zero / NaN result, which the comparison `< 1.0e-7` cannot see. *)
Definition in_cell (snap xl xr x : T) : bool :=
  (ltb xl x && gtb xr x) || ltb (abs (xl - x)) snap || ltb (abs (xr - x)) snap.

(* left + ((right - left) / (xr - xl)) * (x - xl) with the Vector operators of the code:
   Sub (size guard), Div<T>, Mul<T>, Add (size guard)  (mesh1d.rs:76-80) *)
Definition cell_line (m : mesh1) (node : nat) (xl xr x : T) : res (list T) :=
  let delta_x := x - xl in
  let* lft := get_nodes_vars1 m node in
  let* rgt := get_nodes_vars1 m (node + 1) in
  let* d := vsub rgt lft in
  let* deriv := vdiv d (xr - xl) in
  vadd lft (vscale deriv delta_x).

(* get_interpolated_vars: result = zeros; EVERY cell 0..n-1 is tested, a later matching cell
   overwrites the result of an earlier one  (mesh1d.rs:69-84) *)
Definition interp1 (snap : T) (m : mesh1) (x : T) : res (list T) :=
  let* n1 := usub (length (m1_nodes m)) 1 in
  for_ 0 n1 (fun node result =>
    let* xl := rd (m1_nodes m) node in
    let* xr := rd (m1_nodes m) (node + 1) in
    if in_cell snap xl xr x then cell_line m node xl xr x else Ok result)
    (repeat zero (m1_nvars m)).

(* Mesh1D::trapezium: sum += 0.5 * dx * (v[node][var] + v[node+1][var])  (mesh1d.rs:88-96) *)
Definition var_at (vs : list (list T)) (k var : nat) : res T :=
  let* row := rd vs k in rd row var.

Definition trap1_cell (half : T) (m : mesh1) (var node : nat) : res T :=
  let* xr := rd (m1_nodes m) (node + 1) in
  let* xl := rd (m1_nodes m) node in
  let dx := xr - xl in
  let* a := var_at (m1_vars m) node var in
  let* b := var_at (m1_vars m) (node + 1) var in
  Ok (half * dx * (a + b)).

Definition trapezium1 (half : T) (m : mesh1) (var : nat) : res T :=
  let* n1 := usub (length (m1_nodes m)) 1 in
  for_ 0 n1 (fun node sum => let* c := trap1_cell half m var node in Ok (sum + c)) zero.

(* Mesh2D::trapezium / square_trapezium  (mesh2d.rs:148-179):
   sum += 0.25 * dx * dy * (g v[i,j] + g v[i+1,j] + g v[i,j+1] + g v[i+1,j+1]) *)
Definition trap2_cell (quarter : T) (g : T -> T) (m : mesh2) (var i j : nat) (dx : T) : res T :=
  let ny := m2_ny m in
  let* yr := rd (m2_y m) (j + 1) in
  let* yl := rd (m2_y m) j in
  let dy := yr - yl in
  let* v00 := var_at (m2_vars m) (i * ny + j) var in
  let* v10 := var_at (m2_vars m) ((i + 1) * ny + j) var in
  let* v01 := var_at (m2_vars m) (i * ny + j + 1) var in
  let* v11 := var_at (m2_vars m) ((i + 1) * ny + j + 1) var in
  Ok (quarter * dx * dy * (g v00 + g v10 + g v01 + g v11)).

Definition trap2_gen (quarter : T) (g : T -> T) (m : mesh2) (var : nat) : res T :=
  let* nx1 := usub (m2_nx m) 1 in
  for_ 0 nx1 (fun i sum =>
    let* xr := rd (m2_x m) (i + 1) in
    let* xl := rd (m2_x m) i in
    let dx := xr - xl in
    let* ny1 := usub (m2_ny m) 1 in
    for_ 0 ny1 (fun j sum => let* c := trap2_cell quarter g m var i j dx in Ok (sum + c)) sum) zero.

Definition trapezium2 (quarter : T) (m : mesh2) (var : nat) : res T :=
  trap2_gen quarter (fun v => v) m var.
(* f64::powf(|v|, 2.0) is modelled by |v| * |v| (libm: exact whenever the square is representable;
   otherwise within an ulp -- compared by tolerance in the tie) *)
Definition square_trapezium2 (quarter : T) (m : mesh2) (var : nat) : res T :=
  trap2_gen quarter (fun v => abs v * abs v) m var.

(* Mesh1D::read on the whitespace-token list of the file  (mesh1d.rs:100-122).
   parse = f64::from_str(..).unwrap()  (Panic Unwrap on a malformed token). *)
Section Read.
Variable tok : Type.
Variable parse : tok -> res T.

Definition read1 (m : mesh1) (toks : list tok) : res mesh1 :=
  let nv := m1_nvars m in
  let* nodes :=
    for_ 0 (length toks) (fun i nodes =>
      if i mod (nv + 1) =? 0 then
        let* t := rd toks i in let* x := parse t in Ok (nodes ++ [x])
      else Ok nodes) [] in
  let vars0 := resize_list (m1_vars m) (length nodes) (repeat zero nv) in
  let* vars :=
    for_ 0 (length toks) (fun i vars =>
      for_ 0 nv (fun var vars =>
        if i mod (nv + 1) =? var + 1 then
          let* t := rd toks i in let* x := parse t in
          set_elem vars (i / (nv + 1)) var x
        else Ok vars) vars) vars0 in
  Ok (mkM1 nv nodes vars).
End Read.

End Numeric.
