(* Model/Iter.v -- src/sparse.rs:303-616: the four Krylov solvers of `impl Sparse<f64>`
   (solve_bicg after the repair d2fe329, solve_bicgstab, solve_cg, solve_qmr), statement by
   statement, over any arithmetic with a square root (SArith).  Definitions only.

   * The matrix enters only through  A*v  (Sparse::multiply)  and  A^T*v  (transpose_multiply):
     they are the Section variables [mulA], [mulAT]; [rows], [cols] are the public fields the
     three guards at the head of every solver read.
   * `for i in 1..=max_iter` / `while iter < max_iter { iter += 1; ..}` are [iloop] with
     fuel = max_iter; running out of fuel returns the code's own `Err(resid)`.
   * `x` is `&mut Vector<f64>`: the model returns the final contents of x next to the Result.
   * Every operator is the one the code uses: `v * s` = [vscale], `s * v` = [vscale_l],
     `v / s` = [vdiv], `+`/`-`/`+=`/`-=` with their size guards, `dot` with its guard,
     `identity_preconditioner` with its guard and its element loop, `norm_2` as
     sqrt (sum |x|*|x|)  (the code writes powf(|x|, 2.0)), f64 `==`/`<=`/`<` as eqb/leb/ltb.
   * Ghost output (read by nothing in the algorithm): [g_t] = the vector whose norm the last
     convergence test used (the recurrence residual), [g_X] = (the largest 2-norm reached by any
     iterate or update term -- the quantity the drift allowance of the C08 oracle needs and
     that is not observable from outside the solver --, the smallest |resid - tol| any convergence
     test saw, the smallest scale-free pivot |<u,v>|/(||u|| ||v||) the iteration divided by) and [g_exit] = which `return` was taken:
     0 Ok(0) at start-up, 1 Ok(i) after a full step, 3 Ok(i) at the BiCGSTAB half step,
     2 budget exhausted (the final `Err(resid)`), 10 BiCGSTAB `rho_1 == 0`, 11 BiCGSTAB `omega == 0`,
     20..25 QMR `rho == 0`, `xi == 0`, `delta == 0`, `ep == 0`, `beta == 0`, `gamma == 0`. *)
From Coq Require Import List Arith Lia Bool ZArith.
From OV Require Import Base.Panic Base.Arith Base.Flat Model.Vector Model.Matrix Model.Sparse.
Import ListNotations.
Local Open Scope arith_scope.
Local Open Scope bool_scope.

Section Iter.
Context {A : SArith}.
Notation F := (T (SA A)).

(* Vector<f64>::norm_2 (vec_f64.rs:30-36) *)
Definition norm2 (v : list F) : F :=
  sqrt (fold_left (fun acc x => acc + abs x * abs x) v zero).

Inductive iresult := IOk (k : nat) | IErr (e : F).          (* Result<usize, f64> *)
Record trace := mkTr { t_X : F; t_M : F; t_P : F }.
Record ghost := mkG { g_t : list F; g_X : trace; g_exit : nat }.
Definition iout := (iresult * list F * ghost)%type.         (* (Result, final x, ghost) *)

Definition tmax (a b : F) : F := if ltb a b then b else a.
Definition tmin (a b : F) : F := if ltb b a then b else a.
(* ghost bookkeeping after `*x += u`: largest norm of an update term / of an iterate *)
Definition track (X : trace) (u x : list F) : trace :=
  mkTr (tmax (tmax (t_X X) (norm2 u)) (norm2 x)) (t_M X) (t_P X).
(* ghost bookkeeping at a convergence test `resid <= tol`: the smallest distance |resid - tol| seen
   (a run whose decisions are within rounding of tol is excluded from the correspondence check) *)
Definition see (X : trace) (resid tol : F) : trace := mkTr (t_X X) (tmin (t_M X) (abs (resid - tol))) (t_P X).
Definition trace0 (x : list F) (resid tol : F) : trace := mkTr (norm2 x) (abs (resid - tol)) one.
(* ghost bookkeeping at a pivot of the (bi-)Lanczos process, i.e. an inner product the code divides by:
   the smallest scale-free size |<u,v>| / (||u|| ||v||) seen -- 0 at an exact breakdown, tiny at a near-breakdown.
   [gdiv] is total (a ghost must never panic): where the arithmetic's division panics it yields 0. *)
Definition gdiv (a b : F) : F := match div a b with Ok q => q | Panic _ => zero end.
Definition cosq (ip : F) (u v : list F) : F := gdiv (abs ip) (norm2 u * norm2 v).
Definition pivot (X : trace) (c : F) : trace := mkTr (t_X X) (t_M X) (tmin (t_P X) c).

Inductive step_out (S : Type) := Continue (s : S) | Return (o : iout).
Arguments Continue {S} s. Arguments Return {S} o.

(* the iteration loops: i = 1, 2, ..., fuel iterations at most *)
Fixpoint iloop {S} (body : nat -> S -> res (step_out S)) (final : S -> iout)
         (fuel i : nat) (s : S) : res iout :=
  match fuel with
  | 0 => Ok (final s)
  | Datatypes.S f =>
      let* o := body i s in
      match o with
      | Return o => Ok o
      | Continue s' => iloop body final f (Datatypes.S i) s'
      end
  end.

Section Solvers.
Variables (mulA mulAT : list F -> res (list F)) (rows cols : nat).

(* identity_preconditioner(&self, b, x)  (sparse.rs:236-243) *)
Definition ident_pre (b x : list F) : res (list F) :=
  if negb (rows =? length b) then Panic Guard else
  for_ 0 rows (fun i x => let* bi := rd b i in upd x i bi) x.

(* the three guards every solver starts with *)
Definition guards (b x : list F) : res unit :=
  if negb (rows =? length b) then Panic Guard else
  if negb (rows =? cols) then Panic Guard else
  if negb (length b =? length x) then Panic Guard else Ok tt.

Definition zeros : list F := repeat zero rows.                (* Vector::new( self.rows, 0.0 ) *)
Definition nz (nb : F) : F := if eqb nb zero then one else nb. (* if normb == 0.0 { normb = 1.0; } *)

(* ------------------------------------------------------------------ solve_cg (441-487) *)
Record cg_st := mkCG { cg_x : list F; cg_r : list F; cg_p : list F; cg_z : list F;
                       cg_rho1 : F; cg_resid : F; cg_X : trace }.

Definition cg_body (tol normb : F) (i : nat) (s : cg_st) : res (step_out cg_st) :=
  let* z := ident_pre (cg_r s) (cg_z s) in
  let* rho := dot (cg_r s) z in
  let* p := (if i =? 1 then Ok z
             else let* beta := div rho (cg_rho1 s) in vadd z (vscale (cg_p s) beta)) in
  let* q := mulA p in
  let* pq := dot p q in
  let* alpha := div rho pq in
  let u := vscale p alpha in
  let* x := vadd (cg_x s) u in
  let* r := vsub (cg_r s) (vscale q alpha) in
  let* resid := div (norm2 r) normb in
  let X := see (track (pivot (cg_X s) (cosq pq p q)) u x) resid tol in
  if leb resid tol then Ok (Return (IOk i, x, mkG r X 1))
  else Ok (Continue (mkCG x r p z rho resid X)).

Definition cg_final (s : cg_st) : iout := (IErr (cg_resid s), cg_x s, mkG (cg_r s) (cg_X s) 2).

Definition solve_cg (b x : list F) (max_iter : nat) (tol : F) : res iout :=
  let* _ := guards b x in
  let normb := norm2 b in
  let* ax := mulA x in
  let* r := vsub b ax in
  let normb := nz normb in
  let* resid := div (norm2 r) normb in
  let X := trace0 x resid tol in
  if leb resid tol then Ok (IOk 0, x, mkG r X 0) else
  iloop (cg_body tol normb) cg_final max_iter 1 (mkCG x r zeros zeros one resid X).

(* ------------------------------------------------------------------ solve_bicg (309-369) *)
Record bicg_st := mkBI { bi_x : list F; bi_r : list F; bi_rr : list F; bi_z : list F; bi_zz : list F;
                         bi_p : list F; bi_pp : list F; bi_rho2 : F; bi_err : F; bi_X : trace }.

Definition bicg_body (itol : nat) (tol bnrm : F) (i : nat) (s : bicg_st) : res (step_out bicg_st) :=
  let* zz := ident_pre (bi_rr s) (bi_zz s) in
  let* rho_1 := dot (bi_z s) (bi_rr s) in
  let* ppp := (if i =? 1 then Ok (bi_z s, zz)
               else let* beta := div rho_1 (bi_rho2 s) in
                    let* p := vadd (bi_z s) (vscale (bi_p s) beta) in
                    let* pp := vadd zz (vscale (bi_pp s) beta) in Ok (p, pp)) in
  let '(p, pp) := ppp in
  let* z0 := mulA p in
  let* zpp := dot z0 pp in
  let* alpha := div rho_1 zpp in
  let* zz := mulAT pp in
  let u := vscale p alpha in
  let* x := vadd (bi_x s) u in
  let* r := vsub (bi_r s) (vscale z0 alpha) in
  let* rr := vsub (bi_rr s) (vscale zz alpha) in
  let* z := ident_pre r z0 in
  let* err := (if itol =? 1 then div (norm2 r) bnrm else Ok (bi_err s)) in
  let* err := (if itol =? 2 then div (norm2 z) bnrm else Ok err) in
  let X := see (track (pivot (pivot (bi_X s) (cosq rho_1 (bi_z s) (bi_rr s))) (cosq zpp z0 pp)) u x) err tol in
  if leb err tol then Ok (Return (IOk i, x, mkG (if itol =? 2 then z else r) X 1))
  else Ok (Continue (mkBI x r rr z zz p pp rho_1 err X)).

Definition bicg_final (itol : nat) (s : bicg_st) : iout :=
  (IErr (bi_err s), bi_x s, mkG (if itol =? 2 then bi_z s else bi_r s) (bi_X s) 2).

(* start-up shared by the repaired and the legacy variant: guards, r, rr, bnrm, z *)
Definition bicg_start (itol : nat) (b x : list F) : res (list F * F * list F) :=
  let* _ := guards b x in
  let* ax := mulA x in
  let* r := vsub b ax in
  let* bz := (if itol =? 1 then
                let bnrm := norm2 b in
                let* z := ident_pre r zeros in Ok (bnrm, z)
              else if itol =? 2 then
                let* z := ident_pre b zeros in
                let bnrm := norm2 z in
                let* z := ident_pre r z in Ok (bnrm, z)
              else Panic Guard) in
  Ok (r, fst bz, snd bz).

Definition solve_bicg (itol : nat) (b x : list F) (max_iter : nat) (tol : F) : res iout :=
  let* st := bicg_start itol b x in
  let '(r, bnrm, z) := st in
  let bnrm := nz bnrm in
  let* err := div (norm2 z) bnrm in
  let X := trace0 x err tol in
  if leb err tol then Ok (IOk 0, x, mkG z X 0) else              (* the start-up test is on z for both itol *)
  iloop (bicg_body itol tol bnrm) (bicg_final itol) max_iter 1
        (mkBI x r r z zeros zeros zeros one err X).

(* ------------------------------------------------------------------ solve_bicgstab (374-436) *)
Record stab_st := mkST { st_x : list F; st_r : list F; st_p : list F; st_phat : list F; st_shat : list F;
                         st_v : list F; st_rho2 : F; st_alpha : F; st_omega : F; st_resid : F; st_X : trace }.

Definition stab_body (rtilde : list F) (tol normb : F) (i : nat) (s : stab_st) : res (step_out stab_st) :=
  let* rho_1 := dot rtilde (st_r s) in
  if eqb rho_1 zero then
    let* e := div (norm2 (st_r s)) normb in Ok (Return (IErr e, st_x s, mkG (st_r s) (st_X s) 10))
  else
  let* p := (if i =? 1 then Ok (st_r s)
             else let* q1 := div rho_1 (st_rho2 s) in
                  let* q2 := div (st_alpha s) (st_omega s) in
                  let beta := q1 * q2 in
                  let* w := vsub (st_p s) (vscale_l (st_omega s) (st_v s)) in
                  vadd (st_r s) (vscale_l beta w)) in
  let* phat := ident_pre p (st_phat s) in
  let* v := mulA phat in
  let* rv := dot rtilde v in
  let* alpha := div rho_1 rv in
  let* sv := vsub (st_r s) (vscale v alpha) in
  let* resid := div (norm2 sv) normb in
  let X0 := see (pivot (pivot (st_X s) (cosq rho_1 rtilde (st_r s))) (cosq rv rtilde v)) resid tol in
  if leb resid tol then
    let u := vscale phat alpha in
    let* x := vadd (st_x s) u in
    Ok (Return (IOk i, x, mkG sv (track X0 u x) 3))
  else
  let* shat := ident_pre sv (st_shat s) in
  let* t := mulA shat in
  let* ts := dot t sv in
  let* tdt := dot t t in
  let* omega := div ts tdt in
  let u1 := vscale_l alpha phat in
  let* x := vadd (st_x s) u1 in
  let X := track (pivot X0 (cosq ts t sv)) u1 x in
  let u2 := vscale_l omega shat in
  let* x := vadd x u2 in
  let X := track X u2 x in
  let* r := vsub sv (vscale t omega) in
  let* resid := div (norm2 r) normb in
  let X := see X resid tol in
  if ltb resid tol then Ok (Return (IOk i, x, mkG r X 1)) else
  if eqb omega zero then Ok (Return (IErr resid, x, mkG r X 11)) else
  Ok (Continue (mkST x r p phat shat v rho_1 alpha omega resid X)).

Definition stab_final (s : stab_st) : iout := (IErr (st_resid s), st_x s, mkG (st_r s) (st_X s) 2).

Definition solve_bicgstab (b x : list F) (max_iter : nat) (tol : F) : res iout :=
  let* _ := guards b x in
  let normb := norm2 b in
  let* ax := mulA x in
  let* r := vsub b ax in
  let rtilde := r in
  let normb := nz normb in
  let* resid := div (norm2 r) normb in
  let X := trace0 x resid tol in
  if leb resid tol then Ok (IOk 0, x, mkG r X 0) else
  iloop (stab_body rtilde tol normb) stab_final max_iter 1
        (mkST x r zeros zeros zeros zeros one one one resid X).

(* ------------------------------------------------------------------ solve_qmr (492-615) *)
Record qmr_st := mkQ { q_x : list F; q_r : list F; q_vt : list F; q_y : list F; q_wt : list F; q_z : list F;
                       q_p : list F; q_q : list F; q_d : list F; q_s : list F;
                       q_rho : F; q_xi : F; q_gamma : F; q_eta : F; q_theta : F; q_ep : F;
                       q_resid : F; q_X : trace }.

Definition qmr_exit (e : nat) (s : qmr_st) : iout := (IErr (q_resid s), q_x s, mkG (q_r s) (q_X s) e).
Definition qmr_final := qmr_exit 2.

Definition qmr_body (tol normb : F) (i : nat) (s : qmr_st) : res (step_out qmr_st) :=
  let bail e := Ok (Return (qmr_exit e s)) in                   (* return Err( resid ) *)
  if eqb (q_rho s) zero then bail 20 else
  if eqb (q_xi s) zero then bail 21 else
  let* v := vdiv (q_vt s) (q_rho s) in
  let* y := vdiv (q_y s) (q_rho s) in
  let* w := vdiv (q_wt s) (q_xi s) in
  let* z := vdiv (q_z s) (q_xi s) in
  let* delta := dot z y in
  if eqb delta zero then bail 22 else
  let y_tld := y in
  let z_tld := z in
  let* pq := (if 1 <? i then
                let* c1 := div (q_xi s * delta) (q_ep s) in
                let* p := vsub y_tld (vscale_l c1 (q_p s)) in
                let* c2 := div (q_rho s * delta) (q_ep s) in
                let* q := vsub z_tld (vscale_l c2 (q_q s)) in Ok (p, q)
              else Ok (y_tld, z_tld)) in
  let '(p, q) := pq in
  let* p_tld := mulA p in
  let* ep := dot q p_tld in
  if eqb ep zero then bail 23 else
  let* beta := div ep delta in
  if eqb beta zero then bail 24 else
  let* v_tld := vsub p_tld (vscale_l beta v) in
  let y := v_tld in
  let rho_1 := q_rho s in
  let rho := norm2 y in
  let* w_tld := mulAT q in
  let* w_tld := vsub w_tld (vscale_l beta w) in
  let z := w_tld in
  let xi := norm2 z in
  let gamma_1 := q_gamma s in
  let theta_1 := q_theta s in
  let* theta := div rho (gamma_1 * beta) in
  let* gamma := div one (sqrt (one + theta * theta)) in
  if eqb gamma zero then bail 25 else
  let* eta := div (((- (q_eta s)) * rho_1) * gamma * gamma) ((beta * gamma_1) * gamma_1) in
  let c := ((theta_1 * theta_1) * gamma) * gamma in
  let* ds := (if 1 <? i then
                let* d := vadd (vscale_l eta p) (vscale_l c (q_d s)) in
                let* sv := vadd (vscale_l eta p_tld) (vscale_l c (q_s s)) in Ok (d, sv)
              else Ok (vscale_l eta p, vscale_l eta p_tld)) in
  let '(d, sv) := ds in
  let* x := vadd (q_x s) d in
  let* r := vsub (q_r s) sv in
  let* resid := div (norm2 r) normb in
  let X := see (track (pivot (pivot (q_X s) (abs delta)) (cosq ep q p_tld)) d x) resid tol in
  if leb resid tol then Ok (Return (IOk i, x, mkG r X 1)) else
  Ok (Continue (mkQ x r v_tld y w_tld z p q d sv rho xi gamma eta theta ep resid X)).

Definition solve_qmr (b x : list F) (max_iter : nat) (tol : F) : res iout :=
  let* _ := guards b x in
  let normb := norm2 b in
  let* ax := mulA x in
  let* r := vsub b ax in
  let normb := nz normb in
  let* resid := div (norm2 r) normb in
  let X := trace0 x resid tol in
  if leb resid tol then Ok (IOk 0, x, mkG r X 0) else
  let rho := norm2 r in
  let xi := norm2 r in
  iloop (qmr_body tol normb) qmr_final max_iter 1
        (mkQ x r r r r r zeros zeros zeros zeros rho xi one (- one) zero one resid X).

(* ------------------------------------------------------------------ one entry point *)
Inductive solver := CG | BiCG (itol : nat) | BiCGSTAB | QMR.

Definition run (s : solver) (b x : list F) (max_iter : nat) (tol : F) : res iout :=
  match s with
  | CG => solve_cg b x max_iter tol
  | BiCG itol => solve_bicg itol b x max_iter tol
  | BiCGSTAB => solve_bicgstab b x max_iter tol
  | QMR => solve_qmr b x max_iter tol
  end.

End Solvers.

(* ------------------------------------------------------------------ running the model.
   The matrix-vector products are instantiated by the CSC model of Model/Sparse.v
   (sp_mul = Sparse::multiply, sp_tmul = Sparse::transpose_multiply), the matrix is built from
   the triplets exactly as the executor builds it (Sparse::from_triplets). *)
Definition run_sparse (sv : solver) (s : sparse (SA A)) (b x : list F) (n : nat) (tol : F) : res iout :=
  run (sp_mul s) (sp_tmul s) (sp_rows s) (sp_cols s) sv b x n tol.
Definition run_trip (sv : solver) (r c : nat) (ts : list (triplet (SA A))) (b x : list F) (n : nat) (tol : F) : res iout :=
  let* s := sp_from_triplets r c ts in run_sparse sv s b x n tol.

(* canonical output of the correspondence check: tag (0 = Ok, 1 = Err); for Ok the count and x; the budget.
   (After Err neither the error value nor x is compared: a run that did not converge is not a
   well-conditioned function of its input, and the property says nothing about it beyond budget 0.) *)
Definition it_flat (fs : F -> list Z) (n : nat) (o : res iout) : list Z :=
  fl_res (fun o : iout =>
    (match fst (fst o) with IOk k => fl_nat 0 ++ fl_nat k ++ fl_list fs (snd (fst o)) | IErr e => fl_nat 1 end)
    ++ fl_nat n) o.
(* everything, for the oracles: tag, count or error value, x, budget, then the ghost trace X, exit code, margin, smallest pivot *)
Definition it_flat_tr (fs : F -> list Z) (n : nat) (o : res iout) : list Z :=
  fl_res (fun o : iout =>
    (match fst (fst o) with IOk k => fl_nat 0 ++ fl_nat k | IErr e => fl_nat 1 ++ fs e end)
    ++ fl_list fs (snd (fst o)) ++ fl_nat n
    ++ fs (t_X (g_X (snd o))) ++ fl_nat (g_exit (snd o)) ++ fs (t_M (g_X (snd o))) ++ fs (t_P (g_X (snd o)))) o.

End Iter.

Arguments iresult A : clear implicits.
Arguments ghost A : clear implicits.
Arguments trace A : clear implicits.
Arguments iout A : clear implicits.
Arguments Continue {A S} s.
Arguments Return {A S} o.
