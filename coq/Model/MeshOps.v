(* Model/MeshOps.v -- operation histories on one mesh: the step functions run by the
   correspondence check (executor kinds mesh.hist1 / mesh.hist2) and their output flatteners.
   The output of a history is the results of its operations in order; the whole state is
   read back wherever the history contains a Dump.
   In a run the nodal coordinates have the type of the variables (X = T A): Mesh1D<T,T>,
   and Mesh2D<T> with f64 nodes carried exactly (rationals in the exact tier).
   Definitions only. *)
From Coq Require Import List Arith ZArith Bool.
From OV Require Import Base.Panic.
From OV Require Import Base.Arith.
From OV Require Import Base.Flat.
From OV Require Import Base.FnAst.
From OV Require Import Model.Vector.
From OV Require Import Model.Matrix.
From OV Require Import Model.Mesh.
Import ListNotations.

Section Ops.
Context {A : Arith}.
Notation T := (T A).
Notation mesh1 := (mesh1 A T).
Notation mesh2 := (mesh2 A T).

(* the literals 0.5, 0.25, 1.0e-7 of the f64-only methods *)
Record mconst := mkC { c_half : T; c_quarter : T; c_snap : T }.
Variable K : mconst.

(* number formatting followed by parsing, as a table of the values it is applied to
   (external call: `format!("{:.prec$}")` / `f64::from_str`); tokens are carried as the
   numbers they parse to *)
Definition fmt_tbl (tbl : list (T * T)) (x : T) : T :=
  match find (fun p => eqb (fst p) x) tbl with Some p => snd p | None => x end.

Inductive mval :=
| VNone | VS (x : T) | VSS (x y : T) | VV (v : list T) | VN (n : nat) | VNN (n1 n2 : nat)
| VM1 (m : mesh1) | VM2 (m : mesh2) | VMat (m : matrix A) | VLines (l : list (list T)) | VLinesM1 (l : list (list T)) (m : mesh1).

Inductive op1 :=
| O1Set (node : nat) (v : list T) | O1Get (node : nat) | O1Idx (node : nat)
| O1IdxSet (node : nat) (v : list T) | O1IdxElem (node var : nat) (x : T)
| O1Coord (node : nat) | O1NNodes | O1Dump
| O1Interp (x : T) | O1Trap (var : nat)
| O1File (tbl : list (T * T)) (nvars2 : nat) (nodes2 : list T)
| O1Reread (tbl : list (T * T)).

Definition step1 (m : mesh1) (o : op1) : res (mesh1 * mval) :=
  match o with
  | O1Set k v => let* m' := set_nodes_vars1 m k v in Ok (m', VNone)
  | O1Get k => let* v := get_nodes_vars1 m k in Ok (m, VV v)
  | O1Idx k => let* v := index1 m k in Ok (m, VV v)
  | O1IdxSet k v => let* m' := index1_set m k v in Ok (m', VNone)
  | O1IdxElem k var x => let* m' := index1_set_elem m k var x in Ok (m', VNone)
  | O1Coord k => let* x := coord1 m k in Ok (m, VS x)
  | O1NNodes => Ok (m, VN (nnodes1 m))
  | O1Dump => Ok (m, VM1 m)
  | O1Interp x => let* v := interp1 (c_snap K) m x in Ok (m, VV v)
  | O1Trap var => let* s := trapezium1 (c_half K) m var in Ok (m, VS s)
  | O1File tbl nv2 nodes2 =>
      let* lines := output1 T (fmt_tbl tbl) (fmt_tbl tbl) m in
      let* m2 := read1 T (fun t => Ok t) (mesh1_new nodes2 nv2) (concat lines) in
      Ok (m, VLinesM1 lines m2)
  | O1Reread tbl =>
      let* lines := output1 T (fmt_tbl tbl) (fmt_tbl tbl) m in
      let* m' := read1 T (fun t => Ok t) m (concat lines) in
      Ok (m', VLinesM1 lines m')
  end.

(* operations that may have written part of their effect before panicking end the history *)
Definition ends1 (o : op1) : bool :=
  match o with O1IdxElem _ _ _ | O1File _ _ _ | O1Reread _ => true | _ => false end.

Inductive op2 :=
| O2Set (i j : nat) (v : list T) | O2Get (i j : nat) | O2Idx (i j : nat)
| O2IdxSet (i j : nat) (v : list T) | O2IdxElem (i j var : nat) (x : T)
| O2Assign (x : T) | O2XSec (i : nat) | O2YSec (j : nat) | O2VarMat (var : nat)
| O2Apply (e : expr T) (var : nat) | O2Coord (i j : nat) | O2NNodes | O2Dump
| O2Trap (var : nat) | O2SqTrap (var : nat)
| O2File (tbl : list (T * T)) | O2FileVar (tbl : list (T * T)) (var : nat).

Definition step2 (m : mesh2) (o : op2) : res (mesh2 * mval) :=
  match o with
  | O2Set i j v => let* m' := set_nodes_vars2 m i j v in Ok (m', VNone)
  | O2Get i j => let* v := get_nodes_vars2 m i j in Ok (m, VV v)
  | O2Idx i j => let* v := index2 m i j in Ok (m, VV v)
  | O2IdxSet i j v => let* m' := index2_set m i j v in Ok (m', VNone)
  | O2IdxElem i j var x => let* m' := index2_set_elem m i j var x in Ok (m', VNone)
  | O2Assign x => let* m' := assign2 m x in Ok (m', VNone)
  | O2XSec i => let* s := cross_section_xnode m i in Ok (m, VM1 s)
  | O2YSec j => let* s := cross_section_ynode m j in Ok (m, VM1 s)
  | O2VarMat var => let* M := var_as_matrix m var in Ok (m, VMat M)
  | O2Apply e var => let* m' := apply2 (fun x y => eeval e [x; y]) m var in Ok (m', VNone)
  | O2Coord i j => let* p := coord2 m i j in Ok (m, VSS (fst p) (snd p))
  | O2NNodes => Ok (m, VNN (m2_nx m) (m2_ny m))
  | O2Dump => Ok (m, VM2 m)
  | O2Trap var => let* s := trapezium2 (c_quarter K) m var in Ok (m, VS s)
  | O2SqTrap var => let* s := square_trapezium2 (c_quarter K) m var in Ok (m, VS s)
  | O2File tbl => let* lines := output2 T (fmt_tbl tbl) (fmt_tbl tbl) m in Ok (m, VLines lines)
  | O2FileVar tbl var => let* lines := output_var2 T (fmt_tbl tbl) (fmt_tbl tbl) m var in Ok (m, VLines lines)
  end.

Definition ends2 (o : op2) : bool :=
  match o with
  | O2IdxElem _ _ _ _ | O2Assign _ | O2Apply _ _ | O2File _ | O2FileVar _ _ => true
  | _ => false
  end.

(* ---- output stream ---- *)
Variable flat : T -> list Z.

Definition fl_mesh1 (m : mesh1) : list Z :=
  fl_nat (m1_nvars m) ++ fl_list flat (m1_nodes m) ++ concat (map (fl_list flat) (m1_vars m)).
Definition fl_mesh2 (m : mesh2) : list Z :=
  fl_nat (m2_nvars m) ++ fl_nat (m2_nx m) ++ fl_nat (m2_ny m) ++
  fl_list flat (m2_x m) ++ fl_list flat (m2_y m) ++ concat (map (fl_list flat) (m2_vars m)).
Definition fl_matrix (m : matrix A) : list Z :=
  fl_nat (rows m) ++ fl_nat (cols m) ++ concat (map flat (buf m)).
Definition fl_lines (l : list (list T)) : list Z := fl_list (fl_list flat) l.

Definition fl_val (v : mval) : list Z :=
  match v with
  | VNone => [] | VS x => flat x | VSS x y => flat x ++ flat y | VV v => fl_list flat v
  | VN n => fl_nat n | VNN a b => fl_nat a ++ fl_nat b
  | VM1 m => fl_mesh1 m | VM2 m => fl_mesh2 m | VMat m => fl_matrix m | VLines l => fl_lines l
  | VLinesM1 l m => fl_lines l ++ fl_mesh1 m
  end.

Fixpoint run1_out (m : mesh1) (ops : list op1) : list Z :=
  match ops with
  | [] => []
  | o :: t =>
      match step1 m o with
      | Ok (m', v) => fl_val v ++ run1_out m' t
      | Panic k => fl_panic k ++ (if ends1 o then [] else run1_out m t)
      end
  end.
Definition mesh_hist1 (nvars : nat) (nodes : list T) (ops : list op1) : list Z :=
  run1_out (mesh1_new nodes nvars) ops.

Fixpoint run2_out (m : mesh2) (ops : list op2) : list Z :=
  match ops with
  | [] => []
  | o :: t =>
      match step2 m o with
      | Ok (m', v) => fl_val v ++ run2_out m' t
      | Panic k => fl_panic k ++ (if ends2 o then [] else run2_out m t)
      end
  end.
Definition mesh_hist2 (nvars : nat) (xs ys : list T) (ops : list op2) : list Z :=
  run2_out (mesh2_new xs ys nvars) ops.

End Ops.
Arguments op1 A : clear implicits.
Arguments op2 A : clear implicits.
