(* Model/Poly.v -- src/polynomial/mod.rs (lines 1-140) and src/polynomial/arithmetic.rs over any
   Arith.  A polynomial is its coefficient vector (index = power), exactly the private field
   `coeffs: Vec<T>`.  Definitions only.

   Review against the source (line numbers of /repo at e504d5d):
     mod.rs 16-37    empty / new / quadratic / cubic          pempty pnew pquadratic pcubic
     mod.rs 41-50    size / degree (Err on the empty one)     psize pdegree
     mod.rs 60-70    eval: degree().unwrap(), Horner downward peval
     mod.rs 74-82    is_zero: all coefficients == zero        is_zero     (true on the empty one)
     mod.rs 86-95    trim: len-1 (usize underflow when empty) ptrim
     mod.rs 109-120  derivative: degree().unwrap(); p[i] = 0 + a_{i+1} + ... (i+1 times)   pderiv
     mod.rs 124-137  derivative_n / derivative_at             pderiv_n pderiv_at
     arith  20-41    &p + &q   81-102 &p - &q   59-63 -&p     padd psub pneg
     arith  120-138  &p * &q (convolution, i outer, j inner)  pmul
     arith  156-160  &p * scalar  (x * times, in this order)  pscale
     arith  166-187  polydiv (after the repair e504d5d)       polydiv
     arith  194-206  Index / IndexMut with their range guard  pindex pindex_set
   The consuming operator forms delegate to the by-reference forms (arith 10-12, 49-51, 71-73,
   110-112, 146-148) and have no model of their own. *)
From Coq Require Import List Arith Lia Bool ZArith.
From OV Require Import Base.Panic Base.Arith Base.Flat gen.Params.
Import ListNotations.
Local Open Scope arith_scope.
Local Open Scope bool_scope.

Section Poly.
Context {A : Arith}.
Notation T := (T A).
Definition poly := list T.

Definition pempty : poly := [].
Definition pnew (c : list T) : poly := c.
Definition pquadratic (a b c : T) : poly := [c; b; a].
Definition pcubic (a b c d : T) : poly := [d; c; b; a].
Definition psize (p : poly) : nat := length p.

(* degree(): Err on the empty polynomial *)
Definition pdegree (p : poly) : option nat :=
  match p with [] => None | _ => Some (length p - 1)%nat end.

(* eval: degree().unwrap(); p = coeffs[degree]; for i in (0..degree).rev() { p = p*x + coeffs[i] } *)
Definition peval (p : poly) (x : T) : res T :=
  match rev p with
  | [] => Panic Unwrap
  | c :: rest => Ok (fold_left (fun acc a => acc * x + a) rest c)
  end.

Definition is_zero (p : poly) : bool := forallb (fun c => eqb c zero) p.

(* trim: i = len-1 (underflow on empty); while coeffs[i] == 0 && i > 0 { pop; i -= 1 } *)
Fixpoint trim_rev (r : list T) : list T :=
  match r with
  | c :: ((_ :: _) as t) => if eqb c zero then trim_rev t else r
  | _ => r
  end.
Definition ptrim (p : poly) : res poly :=
  match p with [] => Panic Underflow | _ => Ok (rev (trim_rev (rev p))) end.

(* &p + &q : empty-operand shortcuts, then over the longer length:
   sum[i] = 0; if i <= deg p { sum[i] = sum[i] + p[i] }; if i <= deg q { sum[i] = sum[i] + q[i] } *)
Definition opt_acc (f : T -> T -> T) (acc : T) (o : option T) : T :=
  match o with Some a => f acc a | None => acc end.
Definition padd (p q : poly) : poly :=
  match p, q with
  | [], _ => q
  | _, [] => p
  | _, _ => map (fun i => opt_acc add (opt_acc add zero (nth_error p i)) (nth_error q i))
                (seq 0 (Nat.max (length p) (length q)))
  end.
Definition pneg (p : poly) : poly := map neg p.
Definition psub (p q : poly) : poly :=
  match p, q with
  | [], _ => pneg q
  | _, [] => p
  | _, _ => map (fun i => opt_acc sub (opt_acc add zero (nth_error p i)) (nth_error q i))
                (seq 0 (Nat.max (length p) (length q)))
  end.

(* &p * &q : convolution; product[i+j] += p[i]*q[j] with i outer, j inner, so coefficient k
   accumulates its terms in order of increasing i *)
Definition pmul_coeff (p q : poly) (k : nat) : T :=
  fold_left (fun acc i =>
     match nth_error p i, (if i <=? k then nth_error q (k - i) else None) with
     | Some a, Some b => acc + a * b
     | _, _ => acc
     end) (seq 0 (length p)) zero.
Definition pmul (p q : poly) : poly :=
  match p, q with
  | [], _ => []
  | _, [] => []
  | _, _ => map (pmul_coeff p q) (seq 0 (length p + length q - 1)%nat)
  end.
Definition pscale (p : poly) (s : T) : poly := map (fun x => x * s) p.

(* derivative: coefficient i is a_{i+1} added to zero (i+1) times -- no numeric cast *)
Fixpoint add_times (n : nat) (a : T) (acc : T) : T :=
  match n with 0 => acc | S n' => add_times n' a (acc + a) end.
Definition pderiv (p : poly) : res poly :=
  match p with
  | [] => Panic Unwrap
  | _ :: t => Ok (map (fun i => add_times (i + 1) (nth i t zero) zero) (seq 0 (length t)))
  end.
Fixpoint pderiv_n (p : poly) (n : nat) : res poly :=
  match n with 0 => Ok p | S n' => let* d := pderiv p in pderiv_n d n' end.
Definition pderiv_at (p : poly) (x : T) (n : nat) : res T :=
  let* d := pderiv_n p n in peval d x.
(* the names of the source *)
Definition derivative_n := pderiv_n.
Definition derivative_at := pderiv_at.

(* Index / IndexMut: if index >= len { panic!("Index out of bounds") }, then the Vec access *)
Definition pindex (p : poly) (i : nat) : res T :=
  if length p <=? i then Panic Guard else rd p i.
Definition pindex_set (p : poly) (i : nat) (x : T) : res poly :=
  if length p <=? i then Panic Guard else upd p i x.

(* polydiv (arithmetic.rs:166-187, after the repair e504d5d) *)
Inductive pderr := EZeroDiv | EMaxIter.

(* one pass of the loop body:
     t = zeros(deg r - deg v + 1); t[deg r - deg v] = r[deg r] / v[deg v];
     q = q + t;  r = r - t*v;  r[len-1] = 0;  r.trim();  q.trim()                       *)
Definition polydiv_body (q r v : poly) : res (poly * poly) :=
  let dr := (length r - 1)%nat in let dv := (length v - 1)%nat in
  let* rl := rd r dr in
  let* vl := rd v dv in
  let* c := div rl vl in
  let t := repeat zero (dr - dv) ++ [c] in
  let q := padd q t in
  let r := psub r (pmul t v) in
  let* l := usub (length r) 1 in
  let* r := upd r l zero in
  let* r := ptrim r in
  let* q := ptrim q in
  Ok (q, r).

(* while !r.is_zero() && deg r >= deg v { body; count += 1; if count > MAX { return Err } }
   fuel = MAX + 1 passes: the (MAX+1)-th pass is the one that returns the error, so the fuel never
   runs out before the code's own cap is hit; running out is reported as the code's error value. *)
Fixpoint polydiv_loop (fuel count : nat) (q r v : poly) : res (poly * poly + pderr) :=
  if is_zero r || (length r <? length v) then Ok (inl (q, r)) else
  match fuel with
  | 0 => Ok (inr EMaxIter)
  | S fuel' =>
      let* qr := polydiv_body q r v in
      let count := S count in
      if POLYDIV_MAX <? count then Ok (inr EMaxIter)
      else polydiv_loop fuel' count (fst qr) (snd qr) v
  end.

Definition polydiv (u v : poly) : res (poly * poly + pderr) :=
  if (length v =? 0) then Ok (inr EZeroDiv) else
  if is_zero v then Ok (inr EZeroDiv) else
  polydiv_loop (S POLYDIV_MAX) 0 [] u v.

End Poly.

(* ---- what the executor kinds poly.* (harness/src/k_poly.rs) print, as functions of the model:
   the correspondence check evaluates these with vm_compute and compares token by token. ---- *)
Section Run.
Context {A : Arith} (F : A -> list Z).

Definition fl_poly (p : list A) : list Z := fl_list F p.
Definition fl_deg (p : list A) : list Z :=
  match pdegree p with Some d => fl_Z (Z.of_nat d) | None => fl_Z (-1) end.

(* poly.ring p q x s *)
Definition run_ring (p q : list A) (x s : A) : list Z :=
  let rs := [padd p q; psub p q; pmul p q; pneg p; pscale p s; padd q p; psub q p; pmul q p] in
  concat (map (fun r => fl_poly r ++ fl_deg r) rs)
  ++ concat (map (fun r => fl_res F (peval r x)) (p :: q :: rs)).

(* poly.calc p q x s nmax *)
Definition run_calc (p q : list A) (x s : A) (nmax : nat) : list Z :=
  concat (map (fun n => fl_res fl_poly (pderiv_n p n) ++ fl_res F (pderiv_at p x n)) (seq 0 (S nmax)))
  ++ fl_res fl_poly (pderiv (padd p q))
  ++ fl_res fl_poly (let* dp := pderiv p in let* dq := pderiv q in Ok (padd dp dq))
  ++ fl_res fl_poly (pderiv (pmul p q))
  ++ fl_res fl_poly (let* dp := pderiv p in let* dq := pderiv q in Ok (padd (pmul dp q) (pmul p dq)))
  ++ fl_res fl_poly (pderiv (pscale p s))
  ++ fl_res fl_poly (let* dp := pderiv p in Ok (pscale dp s)).

(* poly.access p i x *)
Definition run_access (p : list A) (i : nat) (x : A) : list Z :=
  fl_nat (psize p) ++ fl_deg p ++ fl_bool (is_zero p)
  ++ fl_res F (pindex p i) ++ fl_res fl_poly (pindex_set p i x) ++ fl_res fl_poly (ptrim p).

(* poly.ctor a b c d *)
Definition run_ctor (a b c d : A) : list Z :=
  fl_poly (pquadratic a b c) ++ fl_poly (pcubic a b c d) ++ fl_poly pempty ++ fl_deg (@pempty A).

(* poly.div u v : 0 q r | 1 (zero divisor) | 2 (maximum iterations) | panic *)
Definition fl_divres (r : res (list A * list A + pderr)) : list Z :=
  match r with
  | Panic k => fl_panic k
  | Ok (inr EZeroDiv) => fl_Z 1
  | Ok (inr EMaxIter) => fl_Z 2
  | Ok (inl (q, r)) => fl_Z 0 ++ fl_poly q ++ fl_poly r
  end.
Definition run_div (u v : list A) : list Z := fl_divres (polydiv u v).

End Run.
