(* Model/Poly.v -- src/polynomial/{mod,arithmetic}.rs over any Arith.  A polynomial is its
   coefficient vector (index = power).  Definitions only. *)
From Coq Require Import List Arith Lia Bool.
From OV Require Import Base.Panic Base.Arith gen.Params.
Import ListNotations.
Local Open Scope arith_scope.
Local Open Scope bool_scope.

Section Poly.
Context {A : Arith}.
Notation T := (T A).
Definition poly := list T.

(* degree(): Err on the empty polynomial *)
Definition pdegree (p : poly) : option nat :=
  match p with [] => None | _ => Some (length p - 1)%nat end.

(* eval: degree().unwrap(); Horner from the top coefficient *)
Definition peval (p : poly) (x : T) : res T :=
  match rev p with
  | [] => Panic Unwrap
  | c :: rest => Ok (fold_left (fun acc a => acc * x + a) rest c)
  end.

Definition is_zero (p : poly) : bool := forallb (fun c => eqb c zero) p.

(* trim: i = len-1 (underflow on empty); while coeffs[i] == 0 && i > 0 { pop; i -= 1 } *)
Fixpoint trim_rev (r : list T) : list T :=
  match r with
  | c :: ((_ :: _) as t) => if eqb c zero then trim_rev t else r
  | _ => r
  end.
Definition ptrim (p : poly) : res poly :=
  match p with [] => Panic Underflow | _ => Ok (rev (trim_rev (rev p))) end.

(* &p + &q : empty-operand shortcuts, then over the longer length:
   sum[i] = 0; if i <= deg p { sum[i] = sum[i] + p[i] }; if i <= deg q { sum[i] = sum[i] + q[i] } *)
Definition opt_acc (f : T -> T -> T) (acc : T) (o : option T) : T :=
  match o with Some a => f acc a | None => acc end.
Definition padd (p q : poly) : poly :=
  match p, q with
  | [], _ => q
  | _, [] => p
  | _, _ => map (fun i => opt_acc add (opt_acc add zero (nth_error p i)) (nth_error q i))
                (seq 0 (Nat.max (length p) (length q)))
  end.
Definition pneg (p : poly) : poly := map neg p.
Definition psub (p q : poly) : poly :=
  match p, q with
  | [], _ => pneg q
  | _, [] => p
  | _, _ => map (fun i => opt_acc sub (opt_acc add zero (nth_error p i)) (nth_error q i))
                (seq 0 (Nat.max (length p) (length q)))
  end.

(* &p * &q : convolution; product[i+j] += p[i]*q[j] with i outer, j inner, so coefficient k
   accumulates its terms in order of increasing i *)
Definition pmul_coeff (p q : poly) (k : nat) : T :=
  fold_left (fun acc i =>
     match nth_error p i, (if i <=? k then nth_error q (k - i) else None) with
     | Some a, Some b => acc + a * b
     | _, _ => acc
     end) (seq 0 (length p)) zero.
Definition pmul (p q : poly) : poly :=
  match p, q with
  | [], _ => []
  | _, [] => []
  | _, _ => map (pmul_coeff p q) (seq 0 (length p + length q - 1)%nat)
  end.
Definition pscale (p : poly) (s : T) : poly := map (fun x => x * s) p.

(* derivative: coefficient i is a_{i+1} added to zero (i+1) times -- no numeric cast *)
Fixpoint add_times (n : nat) (a : T) (acc : T) : T :=
  match n with 0 => acc | S n' => add_times n' a (acc + a) end.
Definition pderiv (p : poly) : res poly :=
  match p with
  | [] => Panic Unwrap
  | _ :: t => Ok (map (fun i => add_times (i + 1) (nth i t zero) zero) (seq 0 (length t)))
  end.
Fixpoint pderiv_n (p : poly) (n : nat) : res poly :=
  match n with 0 => Ok p | S n' => let* d := pderiv p in pderiv_n d n' end.
Definition pderiv_at (p : poly) (x : T) (n : nat) : res T :=
  let* d := pderiv_n p n in peval d x.
Definition pindex (p : poly) (i : nat) : res T :=
  if length p <=? i then Panic Guard else rd p i.

(* polydiv *)
Inductive pderr := EZeroDiv | EMaxIter.

(* one pass of the loop body; [fixed] = repaired code (cancelled leading term set to zero) *)
Definition polydiv_body (fixed : bool) (q r v : poly) : res (poly * poly) :=
  let dr := (length r - 1)%nat in let dv := (length v - 1)%nat in
  let* rl := rd r dr in
  let* vl := rd v dv in
  let* c := div rl vl in
  let t := repeat zero (dr - dv) ++ [c] in
  let q := padd q t in
  let r := psub r (pmul t v) in
  let* r := (if fixed then let* l := usub (length r) 1 in upd r l zero else Ok r) in
  let* r := ptrim r in
  let* q := ptrim q in
  Ok (q, r).

Fixpoint polydiv_loop (fixed : bool) (fuel count : nat) (q r v : poly) : res (poly * poly + pderr) :=
  if is_zero r || (length r <? length v) then Ok (inl (q, r)) else
  match fuel with
  | 0 => Ok (inr EMaxIter)
  | S fuel' =>
      let* qr := polydiv_body fixed q r v in
      let count := S count in
      if POLYDIV_MAX <? count then Ok (inr EMaxIter)
      else polydiv_loop fixed fuel' count (fst qr) (snd qr) v
  end.

Definition polydiv_gen (fixed : bool) (u v : poly) : res (poly * poly + pderr) :=
  if (length v =? 0) then Ok (inr EZeroDiv) else
  if is_zero v then Ok (inr EZeroDiv) else
  polydiv_loop fixed (S POLYDIV_MAX) 0 [] u v.
Definition polydiv := polydiv_gen true.
Definition polydiv_legacy := polydiv_gen false.

End Poly.
