(* Model/Poly.v -- stub, to be filled in *)
