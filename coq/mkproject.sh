#!/bin/bash
# (Re)generate _CoqProject from the .v files present and the Makefile from it (only when the file list changed).
cd "$(dirname "$0")"
{
  echo "-Q . OV"
  echo "-arg -w -arg -notation-overridden,-deprecated-hint-without-locality,-deprecated-instance-without-locality,-ambiguous-paths,-redundant-canonical-projection"
  find . -name '*.v' ! -path './scratch/*' | sed 's|^\./||' | LC_ALL=C sort
} > _CoqProject.new
if ! cmp -s _CoqProject.new _CoqProject || [ ! -f Makefile ]; then
  mv _CoqProject.new _CoqProject
  coq_makefile -f _CoqProject -o Makefile > /dev/null
else
  rm -f _CoqProject.new
fi
