(* Proofs/CFunAlg.v -- the complex numbers of Model/CFun.v (pairs of reals with the operators of
   src/complex/mod.rs) form a field; exponential forms of sin/cos/sinh/cosh; algebraic consequences. *)
From Coq Require Import Reals Lra Field.
From OV Require Import Model.CFun Proofs.CFunArg Proofs.CFun.
Local Open Scope R_scope.

Definition cinv (z : C) : C := cdiv cone z.
Definition RtoC (r : R) : C := (r, 0).

Ltac cdestruct := repeat match goal with z : C |- _ => destruct z as [? ?] end.
Ltac csimpl := unfold cinv, RtoC, cdiv, cmul, cadd, csub, cneg, cadd_r, csub_r, cmul_r, cconj, cone, czero, ci; cbn [re im fst snd].

Lemma C_ring : ring_theory czero cone cadd cmul csub cneg (@eq C).
Proof.
  constructor; intros; cdestruct; csimpl; f_equal; ring.
Qed.

Lemma cdiv_def z w : cdiv z w = cmul z (cinv w).
Proof. cdestruct; csimpl; f_equal; unfold Rdiv; ring. Qed.

Lemma cinv_l z : z <> czero -> cmul (cinv z) z = cone.
Proof.
  intros Hz. pose proof (abs_sqr_neq0 z Hz) as H. unfold abs_sqr in H.
  cdestruct; csimpl; cbn [re im fst snd] in H; f_equal; field; exact H.
Qed.

Lemma cone_neq_czero : cone <> czero.
Proof. intros H; inversion H; lra. Qed.

Lemma C_field : field_theory czero cone cadd cmul csub cneg cdiv cinv (@eq C).
Proof.
  constructor.
  - exact C_ring.
  - exact cone_neq_czero.
  - exact cdiv_def.
  - exact cinv_l.
Qed.

Add Field Cfield : C_field.

(* mixed complex/real operators in terms of the field operations *)
Lemma cadd_r_def z r : cadd_r z r = cadd z (RtoC r).
Proof. cdestruct; csimpl; f_equal; ring. Qed.
Lemma csub_r_def z r : csub_r z r = csub z (RtoC r).
Proof. cdestruct; csimpl; f_equal; ring. Qed.
Lemma cmul_r_def z r : cmul_r z r = cmul z (RtoC r).
Proof. cdestruct; csimpl; f_equal; ring. Qed.

Lemma ci_sqr : cmul ci ci = cneg cone.
Proof. csimpl; f_equal; ring. Qed.
Lemma ci_neq0 : ci <> czero.
Proof. intros H; inversion H; lra. Qed.
Lemma RtoC_1 : RtoC 1 = cone.
Proof. reflexivity. Qed.
Lemma RtoC_half_double : cadd (RtoC (1 / 2)) (RtoC (1 / 2)) = cone.
Proof. csimpl; f_equal; field. Qed.
Definition ctwo : C := cadd cone cone.
Lemma ctwo_neq0 : ctwo <> czero.
Proof. intros H; inversion H; lra. Qed.
Lemma ctwo_pair : ctwo = (2, 0).
Proof. unfold ctwo; csimpl; f_equal; ring. Qed.
Lemma RtoC_half : RtoC (1 / 2) = cinv ctwo.
Proof. unfold ctwo; csimpl; f_equal; field. Qed.

Lemma cmul_neq0 a b : a <> czero -> b <> czero -> cmul a b <> czero.
Proof.
  intros Ha Hb H.
  apply Ha. transitivity (cmul (cmul a b) (cinv b)); [field; exact Hb | rewrite H; ring].
Qed.

Lemma cmul_eq_1_neq0 a b : cmul a b = cone -> a <> czero.
Proof.
  intros H Ha. subst a. apply cone_neq_czero. rewrite <- H. ring.
Qed.

Lemma cinv_unique a b : cmul a b = cone -> cinv a = b.
Proof.
  intros H. pose proof (cmul_eq_1_neq0 a b H) as Ha.
  transitivity (cmul (cinv a) (cmul a b)); [rewrite H; ring | field; exact Ha].
Qed.

(* ---------- the complex exponential ---------- *)
Lemma cexp_add a b : cexp (cadd a b) = cmul (cexp a) (cexp b).
Proof.
  cdestruct. unfold cexp, cadd, cmul. cbn [re im fst snd].
  rewrite exp_plus, cos_plus, sin_plus. f_equal; ring.
Qed.

Lemma cexp_0 : cexp czero = cone.
Proof. unfold cexp, czero, cone. cbn [re im fst snd]. rewrite exp_0, cos_0, sin_0. f_equal; ring. Qed.

Lemma cexp_neg_mul a : cmul (cexp a) (cexp (cneg a)) = cone.
Proof. rewrite <- cexp_add. replace (cadd a (cneg a)) with czero by ring. apply cexp_0. Qed.

Lemma cexp_neq0 a : cexp a <> czero.
Proof. apply (cmul_eq_1_neq0 _ _ (cexp_neg_mul a)). Qed.

Lemma cexp_neg a : cexp (cneg a) = cinv (cexp a).
Proof. symmetry. apply cinv_unique, cexp_neg_mul. Qed.

Lemma cexp_sub a b : cexp (csub a b) = cdiv (cexp a) (cexp b).
Proof.
  replace (csub a b) with (cadd a (cneg b)) by ring.
  rewrite cexp_add, cexp_neg. field. apply cexp_neq0.
Qed.

Lemma cexp_i_PI2 : cexp (0, PI / 2) = ci.
Proof. unfold cexp, ci. cbn [re im fst snd]. rewrite exp_0, cos_PI2, sin_PI2. f_equal; ring. Qed.

(* ---------- exponential forms ---------- *)
Lemma ci_mul_pair x y : cmul ci (x, y) = (- y, x).
Proof. csimpl; f_equal; ring. Qed.

Lemma exp_neg_inv y : exp (- y) = / exp y.
Proof. apply exp_Ropp. Qed.

Lemma csin_exp_lemma z :
  csin z = cdiv (csub (cexp (cmul ci z)) (cexp (cneg (cmul ci z)))) (cmul ctwo ci).
Proof.
  destruct z as [x y]. rewrite ci_mul_pair, ctwo_pair.
  unfold csin, cexp, cneg. cbn [re im fst snd].
  rewrite Ropp_involutive, cos_neg, sin_neg. unfold cosh, sinh.
  rewrite exp_neg_inv. pose proof (exp_pos y) as He.
  csimpl; f_equal; field; lra.
Qed.

Lemma ccos_exp_lemma z :
  ccos z = cdiv (cadd (cexp (cmul ci z)) (cexp (cneg (cmul ci z)))) ctwo.
Proof.
  destruct z as [x y]. rewrite ci_mul_pair, ctwo_pair.
  unfold ccos, cexp, cneg. cbn [re im fst snd].
  rewrite Ropp_involutive, cos_neg, sin_neg. unfold cosh, sinh.
  rewrite exp_neg_inv. pose proof (exp_pos y) as He.
  csimpl; f_equal; field; lra.
Qed.

Lemma csinh_exp_lemma z : csinh z = cdiv (csub (cexp z) (cexp (cneg z))) ctwo.
Proof.
  destruct z as [x y]. rewrite ctwo_pair.
  unfold csinh, cexp, cneg. cbn [re im fst snd].
  rewrite cos_neg, sin_neg. unfold cosh, sinh.
  rewrite exp_neg_inv. pose proof (exp_pos x) as He.
  csimpl; f_equal; field; lra.
Qed.

Lemma ccosh_exp_lemma z : ccosh z = cdiv (cadd (cexp z) (cexp (cneg z))) ctwo.
Proof.
  destruct z as [x y]. rewrite ctwo_pair.
  unfold ccosh, cexp, cneg. cbn [re im fst snd].
  rewrite cos_neg, sin_neg. unfold cosh, sinh.
  rewrite exp_neg_inv. pose proof (exp_pos x) as He.
  csimpl; f_equal; field; lra.
Qed.

(* with E = exp (i z) resp. exp z, E <> 0 *)
Lemma csin_E z : csin z = cdiv (csub (cexp (cmul ci z)) (cinv (cexp (cmul ci z)))) (cmul ctwo ci).
Proof. rewrite csin_exp_lemma, cexp_neg. reflexivity. Qed.
Lemma ccos_E z : ccos z = cdiv (cadd (cexp (cmul ci z)) (cinv (cexp (cmul ci z)))) ctwo.
Proof. rewrite ccos_exp_lemma, cexp_neg. reflexivity. Qed.
Lemma csinh_E z : csinh z = cdiv (csub (cexp z) (cinv (cexp z))) ctwo.
Proof. rewrite csinh_exp_lemma, cexp_neg. reflexivity. Qed.
Lemma ccosh_E z : ccosh z = cdiv (cadd (cexp z) (cinv (cexp z))) ctwo.
Proof. rewrite ccosh_exp_lemma, cexp_neg. reflexivity. Qed.

(* ---------- Pythagorean identities ---------- *)
Lemma cosh2_sinh2 y : cosh y * cosh y - sinh y * sinh y = 1.
Proof.
  unfold cosh, sinh. rewrite exp_neg_inv. pose proof (exp_pos y). field. lra.
Qed.

Lemma pythagoras_lemma z : cadd (cmul (csin z) (csin z)) (cmul (ccos z) (ccos z)) = cone.
Proof.
  destruct z as [x y]. unfold csin, ccos. csimpl.
  pose proof (sin2_cos2 x) as H1. unfold Rsqr in H1.
  pose proof (cosh2_sinh2 y) as H2.
  f_equal.
  - replace (sin x * cosh y * (sin x * cosh y) - cos x * sinh y * (cos x * sinh y) +
             (cos x * cosh y * (cos x * cosh y) - - sin x * sinh y * (- sin x * sinh y)))
      with ((sin x * sin x + cos x * cos x) * (cosh y * cosh y - sinh y * sinh y)) by ring.
    rewrite H1, H2. ring.
  - ring.
Qed.

Lemma pythagoras_hyp_lemma z : csub (cmul (ccosh z) (ccosh z)) (cmul (csinh z) (csinh z)) = cone.
Proof.
  destruct z as [x y]. unfold csinh, ccosh. csimpl.
  pose proof (sin2_cos2 y) as H1. unfold Rsqr in H1.
  pose proof (cosh2_sinh2 x) as H2.
  f_equal.
  - replace (cosh x * cos y * (cosh x * cos y) - sinh x * sin y * (sinh x * sin y) -
             (sinh x * cos y * (sinh x * cos y) - cosh x * sin y * (cosh x * sin y)))
      with ((cosh x * cosh x - sinh x * sinh x) * (cos y * cos y) + (cosh x * cosh x - sinh x * sinh x) * (sin y * sin y)) by ring.
    rewrite H2. lra.
  - ring.
Qed.
